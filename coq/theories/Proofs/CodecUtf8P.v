(* ValidUTF8 (a loop over utf8.DecodeRune) characterised on all byte strings:
     valid_utf8_impl s = Ok (well-formed UTF-8 per Unicode table 3-7, no U+0000,
                             no control characters U+0001..1F / U+007F..9F)
   i.e. the specification's "must accept" set, minus the control characters a receiver may
   refuse. *)
From Coq Require Import List NArith ZArith Bool Lia ZifyN ZifyNat ZifyBool.
Import ListNotations.
From GM Require Import Base.Topic Base.Msg Model.CodecBase Model.CodecSpec Proofs.CodecBaseP Proofs.CodecStrP.
Open Scope N_scope.
Ltac Zify.zify_post_hook ::= Z.div_mod_to_equations.

Definition no0 (s : str) : bool := negb (existsb (N.eqb 0) s).
Definition G (s : str) : bool := utf8_wf s && no0 s && negb (has_ctl s).

Lemma land31 x : N.land x 31 = x mod 32. Proof. change 31 with (N.ones 5). now rewrite N.land_ones. Qed.
Lemma land63 x : N.land x 63 = x mod 64. Proof. change 63 with (N.ones 6). now rewrite N.land_ones. Qed.
Lemma land15 x : N.land x 15 = x mod 16. Proof. change 15 with (N.ones 4). now rewrite N.land_ones. Qed.
Lemma land7 x : N.land x 7 = x mod 8. Proof. change 7 with (N.ones 3). now rewrite N.land_ones. Qed.

Lemma has_fffd_cons : forall a t, has_fffd (a :: t) =
  (match t with b :: c :: _ => (a =? 239) && (b =? 191) && (c =? 189) | _ => false end) || has_fffd t.
Proof. intros a [|b [|c t]]; reflexivity. Qed.
Lemma has_ctl_cons : forall a t, has_ctl (a :: t) =
  ((1 <=? a) && (a <=? 31)) || (a =? 127)
  || (match t with b :: _ => (a =? 194) && (128 <=? b) && (b <=? 159) | [] => false end) || has_ctl t.
Proof. reflexivity. Qed.
Lemma no0_cons : forall a t, no0 (a :: t) = negb (a =? 0) && no0 t.
Proof. intros. unfold no0. cbn [existsb]. rewrite N.eqb_sym. destruct (a =? 0); reflexivity. Qed.

(* abstract the facts about the tail as boolean variables, then decide *)
Ltac absb :=
  repeat match goal with
         | |- context [utf8_wf ?t] => let x := fresh "w" in generalize (utf8_wf t); intro x
         | |- context [no0 ?t] => let x := fresh "z" in generalize (no0 t); intro x
         | |- context [has_ctl ?t] => let x := fresh "c" in generalize (has_ctl t); intro x
         | |- context [has_fffd ?t] => let x := fresh "f" in generalize (has_fffd t); intro x
         end.
Ltac bdec := absb; repeat match goal with b : bool |- _ => destruct b end; cbn [andb orb negb]; lia.

(* ---------------------------------------------------------------- the specification side, byte group by byte group *)
Lemma G_nil : G [] = true. Proof. reflexivity. Qed.

Lemma G_1 : forall a t, a < 128 -> G (a :: t) = negb (a <=? 31) && negb (a =? 127) && G t.
Proof.
  intros a t Ha. unfold G. rewrite has_ctl_cons, no0_cons. cbn [utf8_wf].
  replace (a <=? 127) with true by lia.
  destruct t as [|b [|c t']]; bdec.
Qed.

Lemma G_bad_lead : forall a t, (128 <= a < 194 \/ 244 < a) -> G (a :: t) = false.
Proof.
  intros a t Ha. unfold G. assert (Hw : utf8_wf (a :: t) = false).
  { cbn [utf8_wf]. replace (a <=? 127) with false by lia.
    destruct t as [|b [|c [|d t3]]]; try reflexivity.
    - replace ((194 <=? a) && (a <=? 223)) with false by lia. reflexivity.
    - replace ((194 <=? a) && (a <=? 223)) with false by lia. replace (a =? 224) with false by lia.
      replace (((225 <=? a) && (a <=? 236)) || (a =? 238) || (a =? 239)) with false by lia.
      replace (a =? 237) with false by lia. reflexivity.
    - replace ((194 <=? a) && (a <=? 223)) with false by lia. replace (a =? 224) with false by lia.
      replace (((225 <=? a) && (a <=? 236)) || (a =? 238) || (a =? 239)) with false by lia.
      replace (a =? 237) with false by lia. replace (a =? 240) with false by lia.
      replace ((241 <=? a) && (a <=? 243)) with false by lia. replace (a =? 244) with false by lia. reflexivity. }
  rewrite Hw. reflexivity.
Qed.

Lemma G_2 : forall a t, 194 <= a <= 223 ->
  G (a :: t) = match t with
               | [] => false
               | b :: t1 => cont b && negb ((a =? 194) && (b <=? 159)) && G t1
               end.
Proof.
  intros a t Ha. destruct t as [|b t1].
  - unfold G. cbn [utf8_wf]. replace (a <=? 127) with false by lia. reflexivity.
  - unfold G. rewrite !has_ctl_cons, !no0_cons. cbn [utf8_wf]. unfold cont.
    replace (a <=? 127) with false by lia. replace ((194 <=? a) && (a <=? 223)) with true by lia.
    destruct t1 as [|c [|d t2]]; bdec.
Qed.

Definition r3 (a b : N) : bool :=
  if a =? 224 then (160 <=? b) && (b <=? 191) else if a =? 237 then (128 <=? b) && (b <=? 159) else cont b.

Lemma G_3 : forall a t, 224 <= a <= 239 ->
  G (a :: t) = match t with
               | b :: c :: t2 => r3 a b && cont c && G t2
               | _ => false
               end.
Proof.
  intros a t Ha. destruct t as [|b [|c t2]].
  - unfold G. cbn [utf8_wf]. replace (a <=? 127) with false by lia. reflexivity.
  - unfold G. cbn [utf8_wf]. replace (a <=? 127) with false by lia.
    replace ((194 <=? a) && (a <=? 223)) with false by lia. reflexivity.
  - unfold G. rewrite !has_ctl_cons, !no0_cons. cbn [utf8_wf]. unfold r3, cont.
    replace (a <=? 127) with false by lia. replace ((194 <=? a) && (a <=? 223)) with false by lia.
    destruct (N.eqb_spec a 224); [|destruct (N.eqb_spec a 237)].
    + subst a. cbn [N.eqb Pos.eqb orb andb]. destruct t2 as [|d [|e t3]]; bdec.
    + subst a. cbn [N.eqb Pos.eqb orb andb N.leb N.compare Pos.compare Pos.compare_cont]. destruct t2 as [|d [|e t3]]; bdec.
    + replace (((225 <=? a) && (a <=? 236)) || (a =? 238) || (a =? 239)) with true by lia.
      destruct t2 as [|d [|e t3]]; bdec.
Qed.

Definition r4 (a b : N) : bool :=
  if a =? 240 then (144 <=? b) && (b <=? 191) else if a =? 244 then (128 <=? b) && (b <=? 143) else cont b.

Lemma G_4 : forall a t, 240 <= a <= 244 ->
  G (a :: t) = match t with
               | b :: c :: d :: t3 => r4 a b && cont c && cont d && G t3
               | _ => false
               end.
Proof.
  intros a t Ha. destruct t as [|b [|c [|d t3]]].
  - unfold G. cbn [utf8_wf]. replace (a <=? 127) with false by lia. reflexivity.
  - unfold G. cbn [utf8_wf]. replace (a <=? 127) with false by lia.
    replace ((194 <=? a) && (a <=? 223)) with false by lia. reflexivity.
  - unfold G. cbn [utf8_wf]. replace (a <=? 127) with false by lia.
    replace ((194 <=? a) && (a <=? 223)) with false by lia. replace (a =? 224) with false by lia.
    replace (((225 <=? a) && (a <=? 236)) || (a =? 238) || (a =? 239)) with false by lia.
    replace (a =? 237) with false by lia. reflexivity.
  - assert (Hc : a = 240 \/ a = 241 \/ a = 242 \/ a = 243 \/ a = 244) by lia.
    unfold G. rewrite !has_ctl_cons, !no0_cons. cbn [utf8_wf]. unfold r4, cont.
    destruct Hc as [ -> | [ -> | [ -> | [ -> | -> ] ] ] ];
      cbn [N.eqb Pos.eqb orb andb N.leb N.compare Pos.compare Pos.compare_cont negb];
      destruct t3 as [|e [|g t4]]; bdec.
Qed.

(* ---------------------------------------------------------------- the loop *)
(* the tests ValidUTF8 applies to a decoded rune *)
Definition good (ru size : N) : bool :=
  negb (ru <=? 31) && negb ((127 <=? ru) && (ru <=? 159)) && negb ((ru =? RUNE_ERROR) && (size <=? 1)) && valid_rune ru.

Lemma loop_step : forall k p, p <> [] ->
  valid_utf8_loop (S k) p =
  if good (fst (decode_rune p)) (snd (decode_rune p)) then valid_utf8_loop k (dropN (snd (decode_rune p)) p) else Ok false.
Proof.
  intros k p Hp. cbn [valid_utf8_loop]. destruct p as [|p0 t] eqn:Ep; [congruence|]. rewrite <- Ep in *.
  destruct (rune_step p Hp) as [Hs _]. destruct (decode_rune_size p Hp) as [H1 _].
  destruct (decode_rune p) as [ru size]. cbn [fst snd] in *. unfold good.
  destruct (ru <=? 31); [reflexivity|]. destruct ((127 <=? ru) && (ru <=? 159)); [reflexivity|].
  destruct ((ru =? RUNE_ERROR) && (size <=? 1)); [reflexivity|]. destruct (valid_rune ru); cbn [negb andb]; [|reflexivity].
  replace (size =? 0) with false by lia. rewrite Hs. reflexivity.
Qed.

Lemma valid_utf8_loop_G : forall fuel p, (length p < fuel)%nat -> valid_utf8_loop fuel p = Ok (G p).
Proof.
  induction fuel; intros p Hf; [lia|].
  destruct p as [|p0 t]; [reflexivity|].
  rewrite loop_step by discriminate.
  assert (IH : forall n, 1 <= n -> valid_utf8_loop fuel (dropN n (p0 :: t)) = Ok (G (dropN n (p0 :: t)))).
  { intros n Hn. apply IHfuel. pose proof (dropN_shrinks (p0 :: t) n Hn ltac:(discriminate)). lia. }
  destruct (N.ltb_spec p0 128) as [H1|H1].
  { (* one byte *)
    assert (Hd : decode_rune (p0 :: t) = (p0, 1)) by (unfold decode_rune; replace (p0 <? 128) with true by lia; reflexivity).
    rewrite Hd. cbn [fst snd]. rewrite IH by lia. cbn [dropN N.eqb N.pred]. rewrite dropN_0.
    rewrite G_1 by assumption.
    assert (Hg : good p0 1 = negb (p0 <=? 31) && negb (p0 =? 127)) by (unfold good, RUNE_ERROR, valid_rune; lia).
    rewrite Hg. destruct (negb (p0 <=? 31) && negb (p0 =? 127)); cbn [andb]; reflexivity. }
  destruct (N.ltb_spec p0 194) as [H2|H2].
  { rewrite G_bad_lead by lia. unfold decode_rune. replace (p0 <? 128) with false by lia.
    replace ((p0 <? 194) || (244 <? p0)) with true by lia. reflexivity. }
  destruct (N.ltb_spec 244 p0) as [H3|H3].
  { rewrite G_bad_lead by lia. unfold decode_rune. replace (p0 <? 128) with false by lia.
    replace ((p0 <? 194) || (244 <? p0)) with true by lia. reflexivity. }
  destruct (N.ltb_spec p0 224) as [H4|H4].
  { (* two bytes *)
    rewrite G_2 by lia. destruct t as [|b1 t1].
    { unfold decode_rune. replace (p0 <? 128) with false by lia.
      replace ((p0 <? 194) || (244 <? p0)) with false by lia. reflexivity. }
    assert (Hd : decode_rune (p0 :: b1 :: t1) =
                 if cont b1 then (p0 mod 32 * 64 + b1 mod 64, 2) else (RUNE_ERROR, 1)).
    { unfold decode_rune, cont. replace (p0 <? 128) with false by lia.
      replace ((p0 <? 194) || (244 <? p0)) with false by lia. cbv zeta.
      replace (p0 =? 224) with false by lia. replace (p0 =? 240) with false by lia.
      replace (p0 =? 237) with false by lia. replace (p0 =? 244) with false by lia.
      replace (p0 <? 224) with true by lia. rewrite land31, land63.
      destruct (N.ltb_spec b1 128); destruct (N.ltb_spec 191 b1); cbn [orb];
        [replace ((128 <=? b1) && (b1 <=? 191)) with false by lia; reflexivity ..|].
      replace ((128 <=? b1) && (b1 <=? 191)) with true by lia. reflexivity. }
    rewrite Hd. unfold cont in *. destruct ((128 <=? b1) && (b1 <=? 191)) eqn:Ec; cbn [fst snd andb]; [|reflexivity].
    rewrite IH by lia. cbn [dropN N.eqb N.pred Pos.pred_N]. rewrite dropN_0.
    assert (Hg : good (p0 mod 32 * 64 + b1 mod 64) 2 = negb ((p0 =? 194) && (b1 <=? 159)))
      by (unfold good, RUNE_ERROR, valid_rune; lia).
    rewrite Hg. destruct (negb ((p0 =? 194) && (b1 <=? 159))); reflexivity. }
  destruct (N.ltb_spec p0 240) as [H5|H5].
  { (* three bytes *)
    rewrite G_3 by lia.
    assert (Hshort : forall t', (t' = [] \/ exists b, t' = [b]) -> decode_rune (p0 :: t') = (RUNE_ERROR, 1)).
    { intros t' [->|[b ->]]; unfold decode_rune; replace (p0 <? 128) with false by lia;
        replace ((p0 <? 194) || (244 <? p0)) with false by lia; cbv zeta; [reflexivity|].
      destruct (_ || _); [reflexivity|]. replace (p0 <? 224) with false by lia. reflexivity. }
    destruct t as [|b1 [|b2 t2]].
    { rewrite Hshort by auto. reflexivity. }
    { rewrite Hshort by eauto. reflexivity. }
    assert (Hd : decode_rune (p0 :: b1 :: b2 :: t2) =
                 if r3 p0 b1 && cont b2 then ((p0 mod 16 * 64 + b1 mod 64) * 64 + b2 mod 64, 3) else (RUNE_ERROR, 1)).
    { unfold decode_rune, r3, cont. replace (p0 <? 128) with false by lia.
      replace ((p0 <? 194) || (244 <? p0)) with false by lia. cbv zeta.
      replace (p0 =? 240) with false by lia. replace (p0 =? 244) with false by lia.
      replace (p0 <? 224) with false by lia. replace (p0 <? 240) with true by lia. rewrite land15, !land63.
      destruct (N.eqb_spec p0 224) as [E224|E224]; [|destruct (N.eqb_spec p0 237) as [E237|E237]];
        [replace (p0 =? 237) with false by lia| |];
        (destruct ((b1 <? _) || (_ <? b1)) eqn:E1;
         [replace ((_ <=? b1) && (b1 <=? _)) with false by lia; reflexivity|];
         replace ((_ <=? b1) && (b1 <=? _)) with true by lia;
         destruct ((b2 <? 128) || (191 <? b2)) eqn:E2;
         [replace ((128 <=? b2) && (b2 <=? 191)) with false by lia; reflexivity|];
         replace ((128 <=? b2) && (b2 <=? 191)) with true by lia; reflexivity). }
    rewrite Hd. destruct (r3 p0 b1 && cont b2) eqn:Ec; cbn [fst snd]; [|reflexivity].
    rewrite IH by lia. cbn [dropN N.eqb N.pred Pos.pred_N Pos.pred_double]. rewrite dropN_0.
    assert (Hrange : 128 <= b1 <= 191 /\ 128 <= b2 <= 191 /\ (p0 = 224 -> 160 <= b1) /\ (p0 = 237 -> b1 <= 159)).
    { unfold r3, cont in Ec. destruct (N.eqb_spec p0 224); [|destruct (N.eqb_spec p0 237)]; lia. }
    assert (Hg : good ((p0 mod 16 * 64 + b1 mod 64) * 64 + b2 mod 64) 3 = true)
      by (unfold good, RUNE_ERROR, valid_rune; lia).
    rewrite Hg. reflexivity. }
  { (* four bytes *)
    rewrite G_4 by lia.
    assert (Hshort : forall t', (t' = [] \/ (exists b, t' = [b]) \/ (exists b c, t' = [b; c])) ->
                                decode_rune (p0 :: t') = (RUNE_ERROR, 1)).
    { intros t' [->|[[b ->]|[b [c ->]]]]; unfold decode_rune; replace (p0 <? 128) with false by lia;
        replace ((p0 <? 194) || (244 <? p0)) with false by lia; cbv zeta; [reflexivity| |].
      - destruct (_ || _); [reflexivity|]. replace (p0 <? 224) with false by lia. reflexivity.
      - destruct (_ || _); [reflexivity|]. replace (p0 <? 224) with false by lia.
        destruct (_ || _); [reflexivity|]. replace (p0 <? 240) with false by lia. reflexivity. }
    destruct t as [|b1 [|b2 [|b3 t3]]].
    { rewrite Hshort by auto. reflexivity. }
    { rewrite Hshort by eauto. reflexivity. }
    { rewrite Hshort by eauto 6. reflexivity. }
    assert (Hd : decode_rune (p0 :: b1 :: b2 :: b3 :: t3) =
                 if r4 p0 b1 && cont b2 && cont b3
                 then (((p0 mod 8 * 64 + b1 mod 64) * 64 + b2 mod 64) * 64 + b3 mod 64, 4) else (RUNE_ERROR, 1)).
    { unfold decode_rune, r4, cont. replace (p0 <? 128) with false by lia.
      replace ((p0 <? 194) || (244 <? p0)) with false by lia. cbv zeta.
      replace (p0 =? 224) with false by lia. replace (p0 =? 237) with false by lia.
      replace (p0 <? 224) with false by lia. replace (p0 <? 240) with false by lia. rewrite land7, !land63.
      destruct (N.eqb_spec p0 240) as [E240|E240]; [|destruct (N.eqb_spec p0 244) as [E244|E244]];
        [replace (p0 =? 244) with false by lia| |];
        (destruct ((b1 <? _) || (_ <? b1)) eqn:E1;
         [replace ((_ <=? b1) && (b1 <=? _)) with false by lia; reflexivity|];
         replace ((_ <=? b1) && (b1 <=? _)) with true by lia;
         destruct ((b2 <? 128) || (191 <? b2)) eqn:E2;
         [replace ((128 <=? b2) && (b2 <=? 191)) with false by lia; reflexivity|];
         replace ((128 <=? b2) && (b2 <=? 191)) with true by lia;
         destruct ((b3 <? 128) || (191 <? b3)) eqn:E3;
         [replace ((128 <=? b3) && (b3 <=? 191)) with false by lia; reflexivity|];
         replace ((128 <=? b3) && (b3 <=? 191)) with true by lia; reflexivity). }
    rewrite Hd. destruct (r4 p0 b1 && cont b2 && cont b3) eqn:Ec; cbn [fst snd]; [|reflexivity].
    rewrite IH by lia. cbn [dropN N.eqb N.pred Pos.pred_N Pos.pred_double]. rewrite dropN_0.
    assert (Hrange : 128 <= b1 <= 191 /\ 128 <= b2 <= 191 /\ 128 <= b3 <= 191 /\ (p0 = 240 -> 144 <= b1) /\ (p0 = 244 -> b1 <= 143)).
    { unfold r4, cont in Ec. destruct (N.eqb_spec p0 240); [|destruct (N.eqb_spec p0 244)]; lia. }
    assert (Hg : good (((p0 mod 8 * 64 + b1 mod 64) * 64 + b2 mod 64) * 64 + b3 mod 64) 4 = true)
      by (unfold good, RUNE_ERROR, valid_rune; lia).
    rewrite Hg. reflexivity. }
Qed.

(* ValidUTF8, on every byte string *)
Theorem valid_utf8_impl_spec : forall s,
  valid_utf8_impl s = Ok (spec_utf8 s && negb (has_ctl s)).
Proof. intros. unfold valid_utf8_impl. rewrite valid_utf8_loop_G by lia. reflexivity. Qed.

(* utf8.RuneError with a size above 1 is the genuine character U+FFFD (EF BF BD) *)
Lemma decode_rune_error3 : forall p, fst (decode_rune p) = RUNE_ERROR -> 1 < snd (decode_rune p) ->
  exists t, p = 239 :: 191 :: 189 :: t.
Proof.
  intros p Hr Hs. destruct p as [|p0 t]; [cbn in Hs; lia|]. unfold decode_rune, RUNE_ERROR in *.
  destruct (N.ltb_spec p0 128); [cbn in Hs; lia|].
  destruct ((p0 <? 194) || (244 <? p0)) eqn:E0; [cbn in Hs; lia|]. cbv zeta in *.
  destruct t as [|b1 t1]; [cbn in Hs; lia|].
  destruct ((b1 <? _) || (_ <? b1)) eqn:E1; [cbn in Hs; lia|].
  destruct (N.ltb_spec p0 224).
  { exfalso. cbn [fst] in Hr. rewrite land31, land63 in Hr. lia. }
  destruct t1 as [|b2 t2]; [cbn in Hs; lia|].
  destruct ((b2 <? 128) || (191 <? b2)) eqn:E2; [cbn in Hs; lia|].
  destruct (N.ltb_spec p0 240).
  { cbn [fst] in Hr. rewrite land15, !land63 in Hr.
    assert (p0 = 239 /\ b1 = 191 /\ b2 = 189).
    { clear Hs. revert E1. destruct (N.eqb_spec p0 224), (N.eqb_spec p0 237), (N.eqb_spec p0 240), (N.eqb_spec p0 244); intros E1; lia. }
    destruct H2 as (-> & -> & ->). eauto. }
  destruct t2 as [|b3 t3]; [cbn in Hs; lia|].
  destruct ((b3 <? 128) || (191 <? b3)) eqn:E3; [cbn in Hs; lia|].
  exfalso. cbn [fst] in Hr. rewrite land7, !land63 in Hr.
  clear Hs. revert E1. destruct (N.eqb_spec p0 224), (N.eqb_spec p0 237), (N.eqb_spec p0 240), (N.eqb_spec p0 244); intros E1; lia.
Qed.

Lemma has_fffd_dropN : forall n p, has_fffd p = false -> has_fffd (dropN n p) = false.
Proof.
  intros n p. revert n. induction p as [|a t IH]; intros n H; [reflexivity|].
  cbn [dropN]. destruct (n =? 0); [assumption|].
  apply IH. rewrite has_fffd_cons in H. apply orb_false_elim in H. tauto.
Qed.

(* on a string without U+FFFD, a rune that decodes as RuneError is an encoding error (size 1) *)
Lemma rune_error_size1 : forall p, has_fffd p = false -> fst (decode_rune p) = RUNE_ERROR ->
  p <> [] -> snd (decode_rune p) = 1.
Proof.
  intros p Hf Hr Hp. destruct (decode_rune_size p Hp) as [H1 _].
  destruct (N.eq_dec (snd (decode_rune p)) 1) as [E|E]; [assumption|]. exfalso.
  destruct (decode_rune_error3 p Hr ltac:(lia)) as [t ->]. cbn in Hf. discriminate.
Qed.

(* DecodeRune yields U+0000 exactly for the byte 00 *)
Lemma decode_rune_zero : forall p0 t, (fst (decode_rune (p0 :: t)) =? 0) = (p0 =? 0).
Proof.
  intros p0 t. unfold decode_rune, RUNE_ERROR.
  destruct (N.ltb_spec p0 128); [reflexivity|]. replace (p0 =? 0) with false by lia.
  destruct ((p0 <? 194) || (244 <? p0)) eqn:E0; [reflexivity|]. cbv zeta.
  destruct t as [|b1 t1]; [reflexivity|].
  destruct ((b1 <? _) || (_ <? b1)) eqn:E1; [reflexivity|].
  destruct (N.ltb_spec p0 224).
  { cbn [fst]. rewrite land31, land63. lia. }
  destruct t1 as [|b2 t2]; [reflexivity|].
  destruct ((b2 <? 128) || (191 <? b2)) eqn:E2; [reflexivity|].
  destruct (N.ltb_spec p0 240).
  { cbn [fst]. rewrite land15, !land63.
    revert E1. destruct (N.eqb_spec p0 224), (N.eqb_spec p0 237), (N.eqb_spec p0 240), (N.eqb_spec p0 244); intros E1; lia. }
  destruct t2 as [|b3 t3]; [reflexivity|].
  destruct ((b3 <? 128) || (191 <? b3)) eqn:E3; [reflexivity|].
  cbn [fst]. rewrite land7, !land63.
  revert E1. destruct (N.eqb_spec p0 224), (N.eqb_spec p0 237), (N.eqb_spec p0 240), (N.eqb_spec p0 244); intros E1; lia.
Qed.
