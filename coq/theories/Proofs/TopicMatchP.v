(* packets.TopicMatch (Model/TopicMatch.v, the fuelled two-cursor byte loop [tm_impl]) decides
   MQTT 4.7 topic matching ([topic_match], defined by levels) on all well-formed inputs, and
   never runs out of fuel on any input.

   Structure:
   1. [bstep]: one loop iteration re-expressed on the remaining suffixes of filter and topic
      (plus the previously consumed filter byte); [tm_body_bstep] shows [tm_body] at cursor
      positions (length fdone, length tdone) is exactly [bstep] on the suffixes.  No
      well-formedness is needed for this part; [tm_impl_terminates] follows from it.
   2. [inv]: the loop invariant on suffixes; [bstep_spec] shows every iteration either
      returns [lm (split ts) (split fs)] or continues to a state with the same [lm] value.
   3. [tm_loop_lm], [tm_impl_equiv]. *)
From Coq Require Import List NArith Bool Arith Lia.
Import ListNotations.
From GM Require Import Base.Topic Model.TopicMatch Proofs.TopicP.
Local Open Scope nat_scope.

(* ------------------------------------------------------------------ *)
(* 1. the loop body on suffixes                                        *)
(* ------------------------------------------------------------------ *)

(* the bytes of the current topic level / what follows them (starting at the next '/') *)
Fixpoint take_level (ts : str) : str :=
  match ts with
  | [] => []
  | c :: ts' => if N.eqb c SLASH then [] else c :: take_level ts'
  end.

Fixpoint drop_level (ts : str) : str :=
  match ts with
  | [] => []
  | c :: ts' => if N.eqb c SLASH then ts else drop_level ts'
  end.

(* result of one iteration: return, or continue having consumed one filter byte (leaving
   [fs']) and the topic bytes [tmid] (leaving [ts']) *)
Inductive sres := SRet (b : bool) | SCont (fs' tmid ts' : str).

(* the branch taken when the topic is exhausted or the current bytes differ *)
Definition bstepB (prev fc : N) (fs' ts : str) : sres :=
  if N.eqb fc PLUS then
    if is_empty (drop_level ts) && is_empty fs' then SRet true
    else SCont fs' (take_level ts) (drop_level ts)
  else if N.eqb fc HASH then SRet true
  else if N.eqb prev PLUS && N.eqb fc SLASH && str_eqb fs' [HASH] && is_empty ts then SRet true
  else SRet false.

Definition bstep (prev : N) (fs ts : str) : sres :=
  match fs with
  | [] => SRet false
  | fc :: fs' =>
      match ts with
      | [] => bstepB prev fc fs' ts
      | tc :: ts' =>
          if N.eqb fc tc then
            if is_empty ts' && str_eqb fs' [SLASH; HASH] then SRet true
            else if is_empty fs' && is_empty ts' then SRet true
            else if is_empty ts' && str_eqb fs' [PLUS] then
              (if negb (N.eqb fc SLASH) then SRet false else SRet true)
            else SCont fs' [tc] ts'
          else bstepB prev fc fs' ts
      end
  end.

Lemma take_drop (ts : str) : ts = take_level ts ++ drop_level ts.
Proof.
  induction ts as [|c ts IH]; [reflexivity|].
  cbn [take_level drop_level]. destruct (N.eqb c SLASH); [reflexivity|].
  cbn [app]. now rewrite <- IH.
Qed.

Lemma take_drop_length (ts : str) : length ts = length (take_level ts) + length (drop_level ts).
Proof. rewrite (take_drop ts) at 1. apply app_length. Qed.

Lemma skip_level_app (ts tdone : str) (fuel : nat) :
  length ts <= fuel ->
  skip_level (tdone ++ ts) (length tdone) fuel = length tdone + length (take_level ts).
Proof.
  revert tdone fuel. induction ts as [|c ts IH]; intros tdone fuel Hfuel.
  - cbn [take_level length]. rewrite app_nil_r, Nat.add_0_r.
    destruct fuel as [|k]; [reflexivity|]. cbn [skip_level].
    rewrite Nat.ltb_irrefl. reflexivity.
  - cbn [length] in Hfuel. destruct fuel as [|k]; [lia|].
    cbn [skip_level take_level].
    assert (Hlt : (length tdone <? length (tdone ++ c :: ts)) = true).
    { apply Nat.ltb_lt. rewrite app_length. cbn [length]. lia. }
    rewrite Hlt. cbn [andb].
    assert (Hat : at_ (tdone ++ c :: ts) (length tdone) = c).
    { unfold at_. rewrite <- (Nat.add_0_r (length tdone)). now rewrite app_nth2_plus. }
    rewrite Hat. destruct (N.eqb c SLASH) eqn:Ec; cbn [negb].
    + cbn [length]. lia.
    + assert (Happ : tdone ++ c :: ts = (tdone ++ [c]) ++ ts) by now rewrite <- app_assoc.
      assert (Hlen : S (length tdone) = length (tdone ++ [c])).
      { rewrite app_length. cbn [length]. lia. }
      rewrite Happ, Hlen, IH by lia. rewrite app_length. cbn [length]. lia.
Qed.

Lemma at_app (a b : str) (k n : nat) : n = length a + k -> at_ (a ++ b) n = nth k b 0%N.
Proof. intros ->. unfold at_. apply app_nth2_plus. Qed.

Lemma at_last (a b : str) (n : nat) :
  a <> [] -> n = length a - 1 -> at_ (a ++ b) n = last a 0%N.
Proof.
  intros Hne ->. unfold at_. induction a as [|x a IH]; [contradiction|].
  destruct a as [|y a]; [reflexivity|].
  replace (length (x :: y :: a) - 1) with (S (length (y :: a) - 1)) by (cbn [length]; lia).
  cbn [app nth last]. cbn [app] in IH. apply IH. discriminate.
Qed.

Lemma last_nil_or (a : str) : (a = [] /\ last a 0%N = 0%N) \/ (a <> [] /\ 0 < length a).
Proof.
  destruct a as [|x a]; [left; split; reflexivity|right].
  split; [discriminate|cbn [length]; lia].
Qed.

Ltac nat_cmp :=
  repeat match goal with
  | |- context [Nat.eqb ?a ?b] => destruct (Nat.eqb_spec a b); try lia
  | |- context [Nat.ltb ?a ?b] => destruct (Nat.ltb_spec a b); try lia
  | |- context [Nat.leb ?a ?b] => destruct (Nat.leb_spec a b); try lia
  end.

Ltac bool_crush :=
  repeat (cbn [andb orb negb];
          match goal with
          | |- context [N.eqb ?a ?b] => destruct (N.eqb a b) eqn:?
          end);
  cbn [andb orb negb]; try reflexivity; try discriminate; try congruence;
  try (f_equal; cbn [length]; lia).

(* one iteration of the Go loop at cursors (length fdone, length tdone) is [bstep] on the
   remaining suffixes; holds for arbitrary byte strings *)
Lemma tm_body_bstep (fdone fs tdone ts : str) :
  tm_body (fdone ++ fs) (tdone ++ ts) (length fdone) (length tdone) =
  match bstep (last fdone 0%N) fs ts with
  | SRet b => TMRet b
  | SCont _ tmid _ => TMCont (S (length fdone)) (length tdone + length tmid)
  end.
Proof.
  unfold tm_body. cbv zeta.
  rewrite skip_level_app by (rewrite app_length; lia).
  rewrite (at_app fdone fs 0 (length fdone)) by lia.
  rewrite (at_app fdone fs 1 (length fdone + 1)) by lia.
  rewrite (at_app fdone fs 2 (length fdone + 2)) by lia.
  rewrite (at_app fdone fs 1 (S (length fdone))) by lia.
  rewrite (at_app fdone fs 0 (S (length fdone) - 1)) by lia.
  rewrite (at_app tdone ts 0 (length tdone)) by lia.
  rewrite !app_length.
  unfold bstep, bstepB.
  pose proof (take_drop_length ts) as Htd.
  remember (drop_level ts) as dl eqn:Edl.
  remember (take_level ts) as tk eqn:Etk.
  clear Edl Etk.
  destruct (last_nil_or fdone) as [[-> Hlast]|[Hne Hpos]].
  - rewrite Hlast. cbn [length app]. clear Hlast.
    generalize (at_ fs (0 - 1)). intros junk.
    destruct fs as [|a [|b [|c [|d fs]]]]; destruct ts as [|x [|y ts]]; destruct dl as [|z dl];
      cbn [length nth is_empty str_eqb] in *; nat_cmp; bool_crush.
  - rewrite (at_last fdone fs (length fdone - 1) Hne eq_refl).
    generalize (last fdone 0%N). intros prev.
    destruct fs as [|a [|b [|c [|d fs]]]]; destruct ts as [|x [|y ts]]; destruct dl as [|z dl];
      cbn [length nth is_empty str_eqb] in *; nat_cmp; bool_crush.
Qed.

Lemma bstepB_cont (prev fc : N) (fs0 ts fs' tmid ts' : str) :
  bstepB prev fc fs0 ts = SCont fs' tmid ts' -> fs0 = fs' /\ ts = tmid ++ ts'.
Proof.
  unfold bstepB. destruct (N.eqb fc PLUS).
  - destruct (is_empty (drop_level ts) && is_empty fs0); [discriminate|].
    intros H. injection H as <- <- <-. split; [reflexivity|apply take_drop].
  - destruct (N.eqb fc HASH); [discriminate|].
    destruct (N.eqb prev PLUS && N.eqb fc SLASH && str_eqb fs0 [HASH] && is_empty ts); discriminate.
Qed.

Lemma bstep_cont (prev : N) (fs ts fs' tmid ts' : str) :
  bstep prev fs ts = SCont fs' tmid ts' -> exists c, fs = c :: fs' /\ ts = tmid ++ ts'.
Proof.
  unfold bstep. intros H. destruct fs as [|fc fs0]; [discriminate|]. exists fc.
  destruct ts as [|tc ts0].
  - apply bstepB_cont in H as [-> H]. now split.
  - destruct (N.eqb fc tc).
    + destruct (is_empty ts0 && str_eqb fs0 [SLASH; HASH]); [discriminate|].
      destruct (is_empty fs0 && is_empty ts0); [discriminate|].
      destruct (is_empty ts0 && str_eqb fs0 [PLUS]).
      * destruct (negb (N.eqb fc SLASH)); discriminate.
      * injection H as <- <- <-. now split.
    + apply bstepB_cont in H as [-> H]. now split.
Qed.

Lemma tm_loop_S (k : nat) (f t : str) (spos tpos : nat) :
  tm_loop (S k) f t spos tpos =
  match tm_body f t spos tpos with
  | TMRet b => Some b
  | TMCont s' t' => tm_loop k f t s' t'
  end.
Proof. reflexivity. Qed.

Lemma app_cons_assoc (a : str) (c : N) (b : str) : a ++ c :: b = (a ++ [c]) ++ b.
Proof. now rewrite <- app_assoc. Qed.

Lemma length_snoc (a : str) (c : N) : S (length a) = length (a ++ [c]).
Proof. rewrite app_length. cbn [length]. lia. Qed.

(* each iteration returns or consumes a filter byte: fuel > remaining filter length suffices *)
Lemma tm_loop_terminates (fuel : nat) : forall fdone fs tdone ts : str,
  length fs < fuel ->
  exists b, tm_loop fuel (fdone ++ fs) (tdone ++ ts) (length fdone) (length tdone) = Some b.
Proof.
  induction fuel as [|fuel IH]; intros fdone fs tdone ts Hlen; [lia|].
  rewrite tm_loop_S, tm_body_bstep.
  destruct (bstep (last fdone 0%N) fs ts) as [b|fs' tmid ts'] eqn:E; [now exists b|].
  apply bstep_cont in E as (c & -> & ->). cbn [length] in Hlen.
  rewrite app_cons_assoc, (app_assoc tdone tmid ts'), (length_snoc fdone c), <- app_length.
  apply IH. lia.
Qed.

(* (a) TopicMatch never runs out of fuel, for ALL byte strings *)
Theorem tm_impl_terminates (t f : str) : exists b, tm_impl t f = Some b.
Proof.
  destruct f as [|f0 f]; [destruct t; now exists false|].
  destruct t as [|t0 t]; [now exists false|].
  cbn [tm_impl].
  destruct ((N.eqb f0 DOLLAR && negb (N.eqb t0 DOLLAR)) || (N.eqb t0 DOLLAR && negb (N.eqb f0 DOLLAR)));
    [now exists false|].
  apply (tm_loop_terminates (length (f0 :: f) + 2) [] (f0 :: f) [] (t0 :: t)). lia.
Qed.

(* ------------------------------------------------------------------ *)
(* 2. the invariant, and one iteration against [lm]                     *)
(* ------------------------------------------------------------------ *)

(* State invariant on the remaining suffixes.  The loop result from any such state is
   [lm (split ts) (split fs)] - also in the middle of a literal level, since the rest of a
   valid literal level is wildcard-free.  The last two clauses exclude the two states in
   which the loop's answer depends on how it got there (they are caught one iteration
   earlier by the special exits in [tm_body]). *)
Definition inv (prev : N) (fs ts : str) : Prop :=
  valid_filter_levels (split fs) = true /\
  has_wild ts = false /\
  (fs = [SLASH; HASH] -> ts = [] -> prev = PLUS) /\
  (fs = [] -> ts = [] -> False).

Lemma has_wild_cons (c : N) (l : str) :
  has_wild (c :: l) = (N.eqb c PLUS || N.eqb c HASH) || has_wild l.
Proof. reflexivity. Qed.

Lemma has_wild_cons_false (c : N) (l : str) :
  has_wild (c :: l) = false -> N.eqb c PLUS = false /\ N.eqb c HASH = false /\ has_wild l = false.
Proof.
  rewrite has_wild_cons. intros H. apply orb_false_iff in H as [H1 H2].
  apply orb_false_iff in H1 as [Hp Hh]. auto.
Qed.

Lemma nowild_not_plus (l : level) : has_wild l = false -> is_plus l = false.
Proof.
  destruct l as [|x l]; [reflexivity|]. intros H.
  apply has_wild_cons_false in H as (Hp & _ & _).
  unfold is_plus. cbn [str_eqb]. now rewrite Hp.
Qed.

Lemma nowild_not_hash (l : level) : has_wild l = false -> is_hash l = false.
Proof.
  destruct l as [|x l]; [reflexivity|]. intros H.
  apply has_wild_cons_false in H as (_ & Hh & _).
  unfold is_hash. cbn [str_eqb]. now rewrite Hh.
Qed.

Lemma vfl_one (l : level) :
  valid_filter_levels [l] = is_plus l || is_hash l || negb (has_wild l).
Proof. reflexivity. Qed.

Lemma vfl_cons2 (l l2 : level) (ls : list level) :
  valid_filter_levels (l :: l2 :: ls) =
  (is_plus l || negb (has_wild l)) && valid_filter_levels (l2 :: ls).
Proof. reflexivity. Qed.

Lemma vfl_slash (s : str) :
  valid_filter_levels (split (SLASH :: s)) = true -> valid_filter_levels (split s) = true.
Proof.
  rewrite split_cons_slash.
  destruct (split s) as [|l ls] eqn:E; [now apply split_nonempty in E|].
  rewrite vfl_cons2. intros H. now apply andb_true_iff in H as [_ H].
Qed.

Lemma vfl_lit (c : N) (s : str) (lf : level) (rf : list level) :
  N.eqb c SLASH = false -> N.eqb c PLUS = false -> N.eqb c HASH = false ->
  split s = lf :: rf ->
  valid_filter_levels (split (c :: s)) = true ->
  valid_filter_levels (lf :: rf) = true /\ has_wild lf = false.
Proof.
  intros Ec Hp Hh Hs.
  destruct (split_cons_ns c s Ec) as (l & ls & Es & Ecs).
  rewrite Es in Hs. injection Hs as -> ->. rewrite Ecs.
  assert (Eplus : is_plus (c :: lf) = false) by (unfold is_plus; cbn [str_eqb]; now rewrite Hp).
  assert (Ehash : is_hash (c :: lf) = false) by (unfold is_hash; cbn [str_eqb]; now rewrite Hh).
  assert (Ew : has_wild (c :: lf) = has_wild lf) by (rewrite has_wild_cons; now rewrite Hp, Hh).
  destruct rf as [|r rf].
  - rewrite !vfl_one, Eplus, Ehash, Ew. cbn [orb]. intros H.
    apply negb_true_iff in H. rewrite H. split; [|reflexivity].
    cbn [negb]. now rewrite !orb_true_r.
  - rewrite !vfl_cons2, Eplus, Ew. cbn [orb]. intros H.
    apply andb_true_iff in H as [H1 H2]. apply negb_true_iff in H1.
    rewrite H1, H2. cbn [negb]. rewrite orb_true_r. split; reflexivity.
Qed.

Lemma vfl_plus (s : str) :
  valid_filter_levels (split (PLUS :: s)) = true ->
  exists rf, split s = [] :: rf /\ valid_filter_levels ([] :: rf) = true.
Proof.
  destruct (split_cons_ns PLUS s eq_refl) as (l & ls & Es & Ecs).
  rewrite Ecs. intros H.
  destruct l as [|x l].
  - exists ls. split; [exact Es|].
    destruct ls as [|r ls]; [reflexivity|].
    rewrite vfl_cons2 in H |- *. apply andb_true_iff in H as [_ H].
    rewrite H. reflexivity.
  - exfalso. destruct ls as [|r ls]; cbn in H; discriminate.
Qed.

Lemma vfl_hash (s : str) : valid_filter_levels (split (HASH :: s)) = true -> s = [].
Proof.
  destruct (split_cons_ns HASH s eq_refl) as (l & ls & Es & Ecs).
  rewrite Ecs. intros H.
  destruct ls as [|r ls]; [|cbn in H; discriminate].
  destruct l as [|x l]; [|cbn in H; discriminate].
  apply split_inj. rewrite Es. reflexivity.
Qed.

Lemma lm_slash (t' f' : str) :
  lm (split (SLASH :: t')) (split (SLASH :: f')) = lm (split t') (split f').
Proof. rewrite !split_cons_slash. reflexivity. Qed.

Lemma lm_lit (c : N) (t' f' : str) (lf : level) (rf : list level) :
  N.eqb c SLASH = false -> N.eqb c PLUS = false -> N.eqb c HASH = false ->
  split f' = lf :: rf -> has_wild lf = false ->
  lm (split (c :: t')) (split (c :: f')) = lm (split t') (split f').
Proof.
  intros Ec Hp Hh Hs Hw.
  destruct (split_cons_ns c t' Ec) as (lt & rt & Et & Ect).
  destruct (split_cons_ns c f' Ec) as (lf0 & rf0 & Ef & Ecf).
  rewrite Ef in Hs. injection Hs as -> ->.
  rewrite Ect, Ecf, Et, Ef.
  assert (Ehash : is_hash (c :: lf) = false) by (unfold is_hash; cbn [str_eqb]; now rewrite Hh).
  assert (Eplus : is_plus (c :: lf) = false) by (unfold is_plus; cbn [str_eqb]; now rewrite Hp).
  rewrite (lm_cons_nohash _ _ _ _ Ehash), (lm_cons_nohash _ _ _ _ (nowild_not_hash lf Hw)).
  rewrite Eplus, (nowild_not_plus lf Hw). cbn [str_eqb orb]. now rewrite N.eqb_refl.
Qed.

(* consuming the same non-wildcard byte on both sides *)
Lemma lm_same_head (c : N) (t' f' : str) :
  N.eqb c PLUS = false -> N.eqb c HASH = false ->
  valid_filter_levels (split (c :: f')) = true ->
  lm (split (c :: t')) (split (c :: f')) = lm (split t') (split f') /\
  valid_filter_levels (split f') = true.
Proof.
  intros Hp Hh Hv. destruct (N.eqb c SLASH) eqn:Ec.
  - apply N.eqb_eq in Ec. subst c. split; [apply lm_slash|now apply vfl_slash].
  - destruct (split f') as [|lf rf] eqn:Es; [now apply split_nonempty in Es|].
    destruct (vfl_lit c f' lf rf Ec Hp Hh Es Hv) as [Hv' Hw].
    split; [|exact Hv']. rewrite <- Es. now apply (lm_lit c t' f' lf rf).
Qed.

Lemma split_drop_level (ts : str) :
  exists lt rt, split ts = lt :: rt /\ split (drop_level ts) = [] :: rt.
Proof.
  induction ts as [|c ts IH].
  - exists [], []. split; reflexivity.
  - cbn [drop_level]. destruct (N.eqb c SLASH) eqn:Ec.
    + apply N.eqb_eq in Ec. subst c. rewrite split_cons_slash.
      exists [], (split ts). split; reflexivity.
    + destruct IH as (lt & rt & Et & Ed).
      destruct (split_cons_ns c ts Ec) as (l & ls & Es & Ecs).
      rewrite Es in Et. injection Et as -> ->.
      exists (c :: lt), rt. split; [exact Ecs|exact Ed].
Qed.

Lemma has_wild_drop (ts : str) : has_wild ts = false -> has_wild (drop_level ts) = false.
Proof.
  induction ts as [|c ts IH]; intros H; [reflexivity|].
  cbn [drop_level]. destruct (N.eqb c SLASH); [exact H|].
  apply has_wild_cons_false in H as (_ & _ & H). now apply IH.
Qed.

Lemma lm_plus (ts fs' : str) (lt : level) (rt rf : list level) :
  split fs' = [] :: rf -> split ts = lt :: rt ->
  lm (split ts) (split (PLUS :: fs')) = lm rt rf.
Proof.
  intros Ef Et.
  destruct (split_cons_ns PLUS fs' eq_refl) as (l & ls & Es & Ecs).
  rewrite Es in Ef. injection Ef as -> ->. rewrite Ecs, Et. reflexivity.
Qed.

Lemma lm_nil_filter (ts : str) : ts <> [] -> lm (split ts) (split []) = false.
Proof.
  intros Hne. destruct ts as [|c ts]; [contradiction|].
  destruct (N.eqb c SLASH) eqn:Ec.
  - apply N.eqb_eq in Ec. subst c. rewrite split_cons_slash.
    destruct (split ts) as [|l ls] eqn:Es; [now apply split_nonempty in Es|reflexivity].
  - destruct (split_cons_ns c ts Ec) as (l & ls & _ & Ecs). rewrite Ecs. reflexivity.
Qed.

Lemma lm_mismatch_nil (fc : N) (fs' : str) :
  N.eqb fc PLUS = false -> N.eqb fc HASH = false -> fc :: fs' <> [SLASH; HASH] ->
  lm (split []) (split (fc :: fs')) = false.
Proof.
  intros Hp Hh Hne. destruct (N.eqb fc SLASH) eqn:Ec.
  - apply N.eqb_eq in Ec. subst fc. rewrite split_cons_slash.
    change (lm (split []) ([] :: split fs')) with (lm [] (split fs')).
    destruct (lm [] (split fs')) eqn:El; [|reflexivity].
    apply lm_nil in El as [El|El]; [now apply split_nonempty in El|].
    exfalso. apply Hne. f_equal. apply split_inj. rewrite El. reflexivity.
  - destruct (split_cons_ns fc fs' Ec) as (l & ls & _ & Ecs). rewrite Ecs.
    cbn [split lm is_hash is_plus str_eqb]. rewrite Hh, Hp. reflexivity.
Qed.

Lemma lm_mismatch_cons (fc tc : N) (fs' ts' : str) :
  N.eqb fc PLUS = false -> N.eqb fc HASH = false -> N.eqb fc tc = false ->
  lm (split (tc :: ts')) (split (fc :: fs')) = false.
Proof.
  intros Hp Hh Hne.
  destruct (N.eqb fc SLASH) eqn:Ef; destruct (N.eqb tc SLASH) eqn:Et.
  - apply N.eqb_eq in Ef, Et. subst. rewrite N.eqb_refl in Hne. discriminate.
  - apply N.eqb_eq in Ef. subst fc.
    destruct (split_cons_ns tc ts' Et) as (l & ls & _ & Ecs).
    rewrite Ecs, split_cons_slash. reflexivity.
  - apply N.eqb_eq in Et. subst tc.
    destruct (split_cons_ns fc fs' Ef) as (l & ls & _ & Ecs).
    rewrite Ecs, split_cons_slash.
    cbn [lm is_hash is_plus str_eqb]. rewrite Hh, Hp. reflexivity.
  - destruct (split_cons_ns fc fs' Ef) as (l & ls & _ & Ecs).
    destruct (split_cons_ns tc ts' Et) as (l2 & ls2 & _ & Ecs2).
    rewrite Ecs, Ecs2.
    cbn [lm is_hash is_plus str_eqb]. rewrite Hh, Hp, Hne. reflexivity.
Qed.

Lemma bstepB_spec (prev fc : N) (fs' ts : str) :
  inv prev (fc :: fs') ts ->
  (ts = [] \/ exists tc ts', ts = tc :: ts' /\ N.eqb fc tc = false) ->
  match bstepB prev fc fs' ts with
  | SRet b => b = lm (split ts) (split (fc :: fs'))
  | SCont fs2 tmid ts2 =>
      fs2 = fs' /\ ts = tmid ++ ts2 /\ inv fc fs2 ts2 /\
      lm (split ts) (split (fc :: fs')) = lm (split ts2) (split fs2)
  end.
Proof.
  intros (Hv & Hw & Hsh & _) Hts. unfold bstepB.
  destruct (N.eqb fc PLUS) eqn:Ep.
  - apply N.eqb_eq in Ep. subst fc.
    destruct (vfl_plus fs' Hv) as (rf & Ef & Hvf).
    destruct (split_drop_level ts) as (lt & rt & Et & Ed).
    assert (Hlm : lm (split ts) (split (PLUS :: fs')) = lm rt rf)
      by (now apply (lm_plus ts fs' lt rt rf)).
    destruct (is_empty (drop_level ts) && is_empty fs') eqn:Ee.
    + apply andb_true_iff in Ee as [E1 E2].
      destruct (drop_level ts) as [|d dl]; [|discriminate].
      destruct fs' as [|x fs']; [|discriminate].
      cbn [split] in Ed, Ef. injection Ed as <-. injection Ef as <-.
      rewrite Hlm. reflexivity.
    + split; [reflexivity|]. split; [apply take_drop|]. split.
      * split; [rewrite Ef; exact Hvf|]. split; [now apply has_wild_drop|].
        split; [reflexivity|].
        intros -> Hd. rewrite Hd in Ee. discriminate.
      * rewrite Hlm, Ed, Ef. reflexivity.
  - destruct (N.eqb fc HASH) eqn:Eh.
    + apply N.eqb_eq in Eh. subst fc. apply vfl_hash in Hv. subst fs'.
      symmetry. apply lm_hash.
    + destruct (N.eqb prev PLUS && N.eqb fc SLASH && str_eqb fs' [HASH] && is_empty ts) eqn:Ec.
      * apply andb_true_iff in Ec as [Ec E4]. apply andb_true_iff in Ec as [Ec E3].
        apply andb_true_iff in Ec as [E1 E2].
        apply N.eqb_eq in E2. apply str_eqb_eq in E3. subst fc fs'.
        destruct ts as [|x ts]; [|discriminate]. reflexivity.
      * symmetry. destruct Hts as [->|(tc & ts' & -> & Hne)].
        -- apply lm_mismatch_nil; [exact Ep|exact Eh|].
           intros Heq. injection Heq as -> ->.
           rewrite (Hsh eq_refl eq_refl) in Ec. discriminate.
        -- now apply lm_mismatch_cons.
Qed.

(* every iteration from a state satisfying [inv] returns the level-wise answer for the
   remaining suffixes, or moves to a state satisfying [inv] with the same answer *)
Lemma bstep_spec (prev : N) (fs ts : str) :
  inv prev fs ts ->
  match bstep prev fs ts with
  | SRet b => b = lm (split ts) (split fs)
  | SCont fs' tmid ts' =>
      exists c, fs = c :: fs' /\ ts = tmid ++ ts' /\ inv c fs' ts' /\
                lm (split ts) (split fs) = lm (split ts') (split fs')
  end.
Proof.
  intros Hinv. unfold bstep. destruct fs as [|fc fs'].
  - destruct Hinv as (_ & _ & _ & Hne). symmetry. apply lm_nil_filter.
    intros ->. now apply Hne.
  - destruct ts as [|tc ts'].
    + pose proof (bstepB_spec prev fc fs' [] Hinv (or_introl eq_refl)) as HB.
      destruct (bstepB prev fc fs' []) as [b|fs2 tmid ts2]; [exact HB|].
      destruct HB as (-> & H2 & H3 & H4). exists fc. auto.
    + destruct (N.eqb fc tc) eqn:Ec.
      * apply N.eqb_eq in Ec. subst tc.
        destruct Hinv as (Hv & Hw & Hsh & Hne).
        apply has_wild_cons_false in Hw as (Hp & Hh & Hw').
        destruct (lm_same_head fc ts' fs' Hp Hh Hv) as [Hlm Hv'].
        destruct (is_empty ts' && str_eqb fs' [SLASH; HASH]) eqn:E1.
        { apply andb_true_iff in E1 as [Ea Eb]. apply str_eqb_eq in Eb. subst fs'.
          destruct ts' as [|y ts']; [|discriminate]. rewrite Hlm. reflexivity. }
        destruct (is_empty fs' && is_empty ts') eqn:E2.
        { apply andb_true_iff in E2 as [Ea Eb].
          destruct fs' as [|y fs']; [|discriminate].
          destruct ts' as [|z ts']; [|discriminate]. rewrite Hlm. reflexivity. }
        destruct (is_empty ts' && str_eqb fs' [PLUS]) eqn:E3.
        { apply andb_true_iff in E3 as [Ea Eb]. apply str_eqb_eq in Eb. subst fs'.
          destruct ts' as [|y ts']; [|discriminate].
          destruct (N.eqb fc SLASH) eqn:Es; cbn [negb].
          - rewrite Hlm. reflexivity.
          - exfalso.
            destruct (vfl_lit fc [PLUS] [PLUS] [] Es Hp Hh eq_refl Hv) as [_ Hbad].
            discriminate. }
        exists fc. split; [reflexivity|]. split; [reflexivity|]. split; [|exact Hlm].
        split; [exact Hv'|]. split; [exact Hw'|]. split.
        -- intros -> ->. discriminate.
        -- intros -> ->. discriminate.
      * pose proof (bstepB_spec prev fc fs' (tc :: ts') Hinv
                      (or_intror (ex_intro _ tc (ex_intro _ ts' (conj eq_refl Ec))))) as HB.
        destruct (bstepB prev fc fs' (tc :: ts')) as [b|fs2 tmid ts2]; [exact HB|].
        destruct HB as (-> & H2 & H3 & H4). exists fc. auto.
Qed.

(* ------------------------------------------------------------------ *)
(* 3. the loop and the main theorem                                    *)
(* ------------------------------------------------------------------ *)

Lemma tm_loop_lm (fuel : nat) : forall fdone fs tdone ts : str,
  length fs < fuel ->
  inv (last fdone 0%N) fs ts ->
  tm_loop fuel (fdone ++ fs) (tdone ++ ts) (length fdone) (length tdone) =
  Some (lm (split ts) (split fs)).
Proof.
  induction fuel as [|fuel IH]; intros fdone fs tdone ts Hlen Hinv; [lia|].
  rewrite tm_loop_S, tm_body_bstep.
  pose proof (bstep_spec _ fs ts Hinv) as Hs.
  destruct (bstep (last fdone 0%N) fs ts) as [b|fs' tmid ts']; [now rewrite Hs|].
  destruct Hs as (c & -> & -> & Hinv' & Hlm). cbn [length] in Hlen.
  rewrite Hlm.
  rewrite app_cons_assoc, (app_assoc tdone tmid ts'), (length_snoc fdone c), <- app_length.
  apply IH; [lia|]. now rewrite last_last.
Qed.

(* TopicMatch decides MQTT 4.7 matching on well-formed names and filters, within its fuel *)
Lemma tm_impl_equiv (t f : str) :
  valid_name_spec t = true -> valid_filter_spec f = true ->
  tm_impl t f = Some (topic_match t f).
Proof.
  unfold valid_name_spec, valid_filter_spec. intros Ht Hf.
  apply andb_true_iff in Ht as [Hte Htw]. apply andb_true_iff in Hf as [Hfe Hfv].
  apply negb_true_iff in Htw.
  destruct f as [|f0 f]; [discriminate|]. destruct t as [|t0 t]; [discriminate|].
  assert (Hloop : tm_loop (length (f0 :: f) + 2) (f0 :: f) (t0 :: t) 0 0 =
                  Some (lm (split (t0 :: t)) (split (f0 :: f)))).
  { apply (tm_loop_lm (length (f0 :: f) + 2) [] (f0 :: f) [] (t0 :: t)); [lia|].
    split; [exact Hfv|]. split; [exact Htw|]. split; intros; discriminate. }
  cbn [tm_impl].
  destruct (N.eqb f0 DOLLAR) eqn:Ef; destruct (N.eqb t0 DOLLAR) eqn:Et; cbn [negb andb orb].
  - rewrite topic_match_same_kind by (cbn [starts_dollar]; now rewrite Ef, Et). exact Hloop.
  - f_equal. symmetry. apply plain_topic_dollar_filter; cbn [starts_dollar]; assumption.
  - f_equal. symmetry. apply dollar_topic_plain_filter; cbn [starts_dollar]; assumption.
  - rewrite topic_match_same_kind by (cbn [starts_dollar]; now rewrite Ef, Et). exact Hloop.
Qed.

(* soundness / completeness corollaries *)
Corollary tm_impl_sound (t f : str) :
  valid_name_spec t = true -> valid_filter_spec f = true ->
  tm_impl t f = Some true -> topic_match t f = true.
Proof.
  intros Ht Hf H. rewrite (tm_impl_equiv t f Ht Hf) in H. now injection H.
Qed.

Corollary tm_impl_complete (t f : str) :
  valid_name_spec t = true -> valid_filter_spec f = true ->
  topic_match t f = true -> tm_impl t f = Some true.
Proof.
  intros Ht Hf H. now rewrite (tm_impl_equiv t f Ht Hf), H.
Qed.

(* ------------------------------------------------------------------ *)
(* the three special exits of the loop, and why the filter hypothesis is needed *)
(* ------------------------------------------------------------------ *)
Local Open Scope N_scope.

(* "a" against "a/#" (parent match), "a/" against "a/+" (empty last level),
   "a/b" against "a/+/#" *)
Example tm_exit_parent : tm_impl [97] [97; 47; 35] = Some true.
Proof. reflexivity. Qed.
Example tm_exit_empty_level : tm_impl [97; 47] [97; 47; 43] = Some true.
Proof. reflexivity. Qed.
Example tm_exit_plus_hash : tm_impl [97; 47; 98] [97; 47; 43; 47; 35] = Some true.
Proof. reflexivity. Qed.

(* [valid_filter_spec] cannot be dropped: on the ill-formed filter "a+" the byte loop treats
   '+' as a wildcard in the middle of a level and accepts "ab", which level matching rejects *)
Example tm_impl_illformed_filter_differs :
  valid_name_spec [97; 98] = true /\ valid_filter_spec [97; 43] = false /\
  tm_impl [97; 98] [97; 43] = Some true /\ topic_match [97; 98] [97; 43] = false.
Proof. repeat split; reflexivity. Qed.
