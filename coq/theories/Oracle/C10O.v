(* C10 oracle: an abstract session queue written from the property statement (queued
   messages in insertion order + in-flight table), against which the observable outputs
   of the implementation (results and notifier calls) are checked step by step. *)
From Coq Require Import List NArith ZArith Bool Arith.
Import ListNotations.
From GM Require Import Base.Topic Base.Msg Model.Queue.
Open Scope N_scope.

Record aent := { a_tag : N; a_pid : N; a_rel : bool; a_msg : option msg; a_exp : option N }.

Record ast := {
  a_inf : list aent;          (* handed out, not yet acknowledged, oldest first *)
  a_rem : nat;                (* how many entries at the END of a_inf still await replay after Init(clean=false) *)
  a_q : list aent;            (* queued, oldest first *)
  a_added : list N; a_handed : list N; a_dropped : list N;
  a_cq : Z; a_ci : Z;         (* sums of the notifier deltas *)
  a_limit : N; a_v5 : bool; a_drained : bool; a_closed : bool;
  a_max : nat; a_ifexp : N }.

Definition a_new (max : nat) (ifexp : N) : ast :=
  {| a_inf := []; a_rem := 0; a_q := []; a_added := []; a_handed := []; a_dropped := [];
     a_cq := 0; a_ci := 0; a_limit := 0; a_v5 := false; a_drained := false; a_closed := false;
     a_max := max; a_ifexp := ifexp |}.

Definition aexpired (now : N) (a : aent) : bool :=
  match a_exp a with Some x => x <? now | None => false end.
Definition aqos (a : aent) : N := match a_msg a with Some m => m_qos m | None => 1 end.
Definition asize (v5 : bool) (a : aent) : N := match a_msg a with Some m => msg_total_bytes v5 m | None => 4 end.

Definition ent_of_elem (e : elem) : aent :=
  match e_body e with
  | QPub m => {| a_tag := e_tag e; a_pid := m_pid m; a_rel := false; a_msg := Some m; a_exp := e_expiry e |}
  | QRel p => {| a_tag := e_tag e; a_pid := p; a_rel := true; a_msg := None; a_exp := e_expiry e |}
  end.

Fixpoint memN (x : N) (l : list N) : bool := match l with [] => false | y :: r => (x =? y) || memN x r end.

Fixpoint remove_tag (t : N) (l : list aent) : list aent :=
  match l with [] => [] | a :: r => if a_tag a =? t then r else a :: remove_tag t r end.
Fixpoint find_tag (t : N) (l : list aent) : option aent :=
  match l with [] => None | a :: r => if a_tag a =? t then Some a else find_tag t r end.

(* observable form of an element handed out by the implementation:
   publish (tag, pid, qos) or pubrel (pid) *)
Inductive oelem := OPub (tag pid qos : N) | ORel (pid : N).
Inductive oev := OvDropped (tag : N) (r : dropreason) | OvInflight (d : Z) | OvQueue (d : Z).

Definition reason_eqb (a b : dropreason) : bool :=
  match a, b with
  | DFull, DFull | DExpired, DExpired | DExpiredInflight, DExpiredInflight | DExceedsMax, DExceedsMax => true
  | _, _ => false
  end.

Definition upd (s : ast) (inf : list aent) (rem : nat) (q : list aent) (ad ha dr : list N) (cq ci : Z) : ast :=
  {| a_inf := inf; a_rem := rem; a_q := q; a_added := ad; a_handed := ha; a_dropped := dr;
     a_cq := cq; a_ci := ci; a_limit := a_limit s; a_v5 := a_v5 s; a_drained := a_drained s;
     a_closed := a_closed s; a_max := a_max s; a_ifexp := a_ifexp s |}.

Definition set_flags (s : ast) (drained closed : bool) : ast :=
  {| a_inf := a_inf s; a_rem := a_rem s; a_q := a_q s; a_added := a_added s; a_handed := a_handed s;
     a_dropped := a_dropped s; a_cq := a_cq s; a_ci := a_ci s; a_limit := a_limit s; a_v5 := a_v5 s;
     a_drained := drained; a_closed := closed; a_max := a_max s; a_ifexp := a_ifexp s |}.

(* ---- Add ---- *)
(* the drop ladder of the statement: given the abstract state, which victims are allowed *)
Definition add_ok (now : N) (e : elem) (evs : list oev) (s : ast) : option ast :=
  let n := ent_of_elem e in
  let ad := a_added s ++ [a_tag n] in
  if (length (a_inf s) + length (a_q s) <? a_max s)%nat then
    match evs with
    | [OvQueue 1%Z] => Some (upd s (a_inf s) (a_rem s) (a_q s ++ [n]) ad (a_handed s) (a_dropped s) (a_cq s + 1)%Z (a_ci s))
    | _ => None
    end
  else if existsb (aexpired now) (a_inf s) then
    match evs with
    | [OvInflight (-1)%Z; OvDropped t DExpiredInflight] =>
        (* the victim is an expired in-flight entry (a PUBREL entry is reported with tag 0) *)
        let idx := (fix ix (l : list aent) (i : nat) : option nat :=
                      match l with
                      | [] => None
                      | a :: r => if (if t =? 0 then a_rel a && aexpired now a else a_tag a =? t) then Some i else ix r (S i)
                      end) (a_inf s) O in
        match idx with
        | Some i =>
            match nth_error (a_inf s) i with
            | Some v =>
                if aexpired now v then
                  (* an entry still awaiting replay can be the victim: the replay shrinks with it *)
                  let done := (length (a_inf s) - a_rem s)%nat in
                  let rem' := if (i <? done)%nat then a_rem s else (a_rem s - 1)%nat in
                  Some (upd s (remove_nth i (a_inf s)) rem' (a_q s ++ [n]) ad (a_handed s) (a_dropped s ++ [t]) (a_cq s) (a_ci s - 1)%Z)
                else None
            | None => None
            end
        | None => None
        end
    | _ => None
    end
  else if existsb (aexpired now) (a_q s) then
    match evs with
    | [OvDropped t DExpired] =>
        match find_tag t (a_q s) with
        | Some v => if aexpired now v
                    then Some (upd s (a_inf s) (a_rem s) (remove_tag t (a_q s) ++ [n]) ad (a_handed s) (a_dropped s ++ [t]) (a_cq s) (a_ci s))
                    else None
        | None => None
        end
    | _ => None
    end
  else if existsb (fun a => aqos a =? 0) (a_q s) then
    match evs with
    | [OvDropped t DFull] =>
        match find_tag t (a_q s) with
        | Some v => if aqos v =? 0
                    then Some (upd s (a_inf s) (a_rem s) (remove_tag t (a_q s) ++ [n]) ad (a_handed s) (a_dropped s ++ [t]) (a_cq s) (a_ci s))
                    else None
        | None => None
        end
    | _ => None
    end
  else
    match evs with
    | [OvDropped t DFull] =>
        match a_q s with
        | [] => if t =? a_tag n then Some (upd s (a_inf s) (a_rem s) (a_q s) ad (a_handed s) (a_dropped s ++ [t]) (a_cq s) (a_ci s)) else None
        | o :: rest =>
            if aqos n =? 0 then
              if t =? a_tag n then Some (upd s (a_inf s) (a_rem s) (a_q s) ad (a_handed s) (a_dropped s ++ [t]) (a_cq s) (a_ci s)) else None
            else
              if t =? a_tag o then Some (upd s (a_inf s) (a_rem s) (rest ++ [n]) ad (a_handed s) (a_dropped s ++ [t]) (a_cq s) (a_ci s)) else None
        end
    | _ => None
    end.

(* ---- Read ---- *)
(* consume a prefix of the queued entries: every one is either handed out (in order, with
   the next supplied id when QoS>0) or reported dropped for the right reason *)
Fixpoint read_walk (now : N) (s : ast) (q : list aent) (rs : list oelem) (drops : list (N * dropreason)) (pids : list N)
                   (inf : list aent * list N * list N) (nq ni : Z) {struct q}
  : option (list aent * list oelem * list (N * dropreason) * (list aent * list N * list N) * Z * Z) :=
  match rs, drops with
  | [], [] => Some (q, rs, drops, inf, nq, ni)
  | _, _ =>
      match q with
      | [] => None                                      (* something returned/dropped that was not queued *)
      | a :: q' =>
          let '(i0, h0, d0) := inf in
          if aexpired now a then
            match drops with
            | (t, DExpired) :: drops' =>
                if t =? a_tag a then read_walk now s q' rs drops' pids (i0, h0, d0 ++ [t]) (nq - 1)%Z ni else None
            | _ => None
            end
          else if a_limit s <? asize (a_v5 s) a then
            match drops with
            | (t, DExceedsMax) :: drops' =>
                if t =? a_tag a then read_walk now s q' rs drops' pids (i0, h0, d0 ++ [t]) (nq - 1)%Z ni else None
            | _ => None
            end
          else
            match rs with
            | OPub t p qos :: rs' =>
                if (t =? a_tag a) && (qos =? aqos a) then
                  if aqos a =? 0 then
                    if p =? 0 then read_walk now s q' rs' drops pids (i0, h0 ++ [t], d0) (nq - 1)%Z ni else None
                  else
                    match pids with
                    | p0 :: pids' =>
                        if p =? p0 then
                          let a' := {| a_tag := a_tag a; a_pid := p; a_rel := false; a_msg := a_msg a;
                                       a_exp := if a_ifexp s =? 0 then a_exp a else Some (now + a_ifexp s) |} in
                          read_walk now s q' rs' drops pids' (i0 ++ [a'], h0 ++ [t], d0) nq (ni + 1)%Z
                        else None
                    | [] => None
                    end
                else None
            | _ => None
            end
      end
  end.

Definition split_evs (evs : list oev) : option (list (N * dropreason) * Z * Z) :=
  let fix go (l : list oev) (acc : list (N * dropreason)) :=
    match l with
    | [OvQueue dq; OvInflight di] => Some (acc, dq, di)
    | OvDropped t r :: l' => go l' (acc ++ [(t, r)])
    | _ => None
    end in go evs [].

Definition read_ok (now : N) (pids : list N) (rs : list oelem) (evs : list oev) (s : ast) : option ast :=
  if negb (a_drained s) || a_closed s then None else
  match a_q s with
  | [] => None                                          (* Read must block on an empty queue *)
  | _ =>
      match split_evs evs with
      | None => None
      | Some (drops, dq, di) =>
          match read_walk now s (a_q s) rs drops pids (a_inf s, a_handed s, a_dropped s) 0%Z 0%Z with
          | Some (q', _, _, (inf', ha', dr'), nq, ni) =>
              if (dq =? nq)%Z && (di =? ni)%Z
              then Some (upd s inf' (a_rem s) q' (a_added s) ha' dr' (a_cq s + dq)%Z (a_ci s + di)%Z)
              else None
          | None => None
          end
      end
  end.

(* ---- ReadInflight ---- *)
Definition oelem_matches (o : oelem) (a : aent) : bool :=
  match o with
  | OPub t p qos => negb (a_rel a) && (t =? a_tag a) && (p =? a_pid a) && (qos =? aqos a)
  | ORel p => a_rel a && (p =? a_pid a)
  end.

Fixpoint all2 {A B} (f : A -> B -> bool) (a : list A) (b : list B) : bool :=
  match a, b with
  | [], [] => true
  | x :: a', y :: b' => f x y && all2 f a' b'
  | _, _ => false
  end.

Definition readinflight_ok (now : N) (n : nat) (rs : list oelem) (s : ast) : option ast :=
  let done := (length (a_inf s) - a_rem s)%nat in
  let pending := skipn done (a_inf s) in
  let want := firstn n pending in
  if all2 oelem_matches rs want then
    let k := length want in
    let touched := map (fun a => {| a_tag := a_tag a; a_pid := a_pid a; a_rel := a_rel a; a_msg := a_msg a;
                                    a_exp := if a_ifexp s =? 0 then a_exp a else Some (now + a_ifexp s) |}) want in
    let inf' := firstn done (a_inf s) ++ touched ++ skipn k pending in
    let rem' := (a_rem s - k)%nat in
    let qempty := match a_q s with [] => true | _ => false end in
    (* the implementation notices the end of the in-flight entries when it was already past
       them at the start of the call, or when it meets a queued message within its budget *)
    let drained' := a_drained s || ((a_rem s =? 0)%nat && qempty) ||
                    ((k <? Nat.min n (length (a_inf s) + length (a_q s)))%nat && negb qempty) in
    Some (set_flags (upd s inf' rem' (a_q s) (a_added s) (a_handed s) (a_dropped s) (a_cq s) (a_ci s)) drained' (a_closed s))
  else None.

(* ---- Remove / Replace: only entries already (re)delivered in this connection ---- *)
Fixpoint find_pid_idx (p : N) (l : list aent) (n i : nat) : option nat :=
  match n, l with
  | S k, a :: r => if a_pid a =? p then Some i else find_pid_idx p r k (S i)
  | _, _ => None
  end.

Definition remove_ok (pid : N) (evs : list oev) (s : ast) : option ast :=
  let done := (length (a_inf s) - a_rem s)%nat in
  match find_pid_idx pid (a_inf s) done 0 with
  | Some i =>
      match evs with
      | [OvQueue (-1)%Z; OvInflight (-1)%Z] =>
          Some (upd s (remove_nth i (a_inf s)) (a_rem s) (a_q s) (a_added s) (a_handed s) (a_dropped s) (a_cq s - 1)%Z (a_ci s - 1)%Z)
      | _ => None
      end
  | None => match evs with [] => Some s | _ => None end
  end.

Definition replace_ok (e : elem) (b : bool) (s : ast) : option ast :=
  let done := (length (a_inf s) - a_rem s)%nat in
  match find_pid_idx (e_id e) (a_inf s) done 0 with
  | Some i =>
      if b then
        match nth_error (a_inf s) i with
        | Some old =>
            let n := ent_of_elem e in
            let n' := {| a_tag := a_tag old; a_pid := a_pid n; a_rel := a_rel n; a_msg := a_msg n; a_exp := a_exp n |} in
            Some (upd s (replace_nth i n' (a_inf s)) (a_rem s) (a_q s) (a_added s) (a_handed s) (a_dropped s) (a_cq s) (a_ci s))
        | None => None
        end
      else None
  | None => if b then None else Some s
  end.

Definition init_ok (clean v5 : bool) (limit : N) (s : ast) : ast :=
  if clean then
    {| a_inf := []; a_rem := 0; a_q := []; a_added := []; a_handed := []; a_dropped := [];
       a_cq := 0; a_ci := 0; a_limit := limit; a_v5 := v5; a_drained := false; a_closed := false;
       a_max := a_max s; a_ifexp := a_ifexp s |}
  else
    {| a_inf := a_inf s; a_rem := length (a_inf s); a_q := a_q s; a_added := a_added s; a_handed := a_handed s;
       a_dropped := a_dropped s; a_cq := a_cq s; a_ci := a_ci s; a_limit := limit; a_v5 := v5;
       a_drained := false; a_closed := false; a_max := a_max s; a_ifexp := a_ifexp s |}.

(* what the implementation reported for one operation *)
Inductive oout :=
| XAdd (evs : list oev)
| XRead (rs : list oelem) (evs : list oev)
| XReadInflight (rs : list oelem)
| XRemove (evs : list oev)
| XReplace (b : bool)
| XUnit | XPanic | XBlocked | XClosedErr.

(* counters equal true contents, length bounded *)
Definition inv_ok (s : ast) : bool :=
  (a_cq s =? Z.of_nat (length (a_inf s) + length (a_q s)))%Z &&
  (a_ci s =? Z.of_nat (length (a_inf s)))%Z &&
  ((length (a_inf s) + length (a_q s) <=? a_max s)%nat || (a_max s =? 0)%nat).

Definition step_ok (s : ast) (o : qop) (x : oout) : option ast :=
  match o, x with
  | OAdd now e, XAdd evs => add_ok now e evs s
  | ORead now pids, XRead rs evs => read_ok now pids rs evs s
  | ORead _ _, XBlocked => if a_drained s && negb (a_closed s) && (match a_q s with [] => true | _ => false end) then Some s else None
  | ORead _ _, XClosedErr => if a_drained s && a_closed s then Some s else None
  | ORead _ _, XPanic => if negb (a_drained s) then Some s else None    (* documented misuse: Read before the in-flight entries were drained *)
  | OReadInflight now n, XReadInflight rs => readinflight_ok now n rs s
  | ORemove pid, XRemove evs => remove_ok pid evs s
  | OReplace e, XReplace b => replace_ok e b s
  | OInit c v l, XUnit => Some (init_ok c v l s)
  | OClose, XUnit => Some (set_flags s (a_drained s) true)
  | _, _ => None
  end.

Fixpoint trace_ok (s : ast) (ops : list qop) (outs : list oout) : bool :=
  match ops, outs with
  | _, [] => true
  | o :: ops', x :: outs' =>
      match step_ok s o x with
      | Some s' => inv_ok s' && (match x with XPanic => true | _ => trace_ok s' ops' outs' end)
      | None => false
      end
  | [], _ :: _ => false
  end.

Definition c10_ok (max : nat) (ifexp : N) (ops : list qop) (outs : list oout) : bool :=
  trace_ok (a_new max ifexp) ops outs.

(* the model's outputs in the same observable form *)
Definition oelem_of (e : elem) : oelem :=
  match e_body e with QPub m => OPub (e_tag e) (m_pid m) (m_qos m) | QRel p => ORel p end.
Definition oev_of (v : qev) : oev :=
  match v with
  | EvDropped e r => OvDropped (e_tag e) r
  | EvInflight d => OvInflight d
  | EvQueue d => OvQueue d
  end.
Definition oout_of (o : qout) : oout :=
  match o with
  | RAdd evs => XAdd (map oev_of evs)
  | RRead rs evs => XRead (map oelem_of rs) (map oev_of evs)
  | RReadInflight rs => XReadInflight (map oelem_of rs)
  | RRemove evs => XRemove (map oev_of evs)
  | RReplace b => XReplace b
  | RUnit => XUnit | RPanic => XPanic | RBlocked => XBlocked | RClosedErr => XClosedErr
  end.

Definition model_outs (max : nat) (ifexp : N) (ops : list qop) : list qout :=
  snd (q_run (q_new max ifexp) ops).
