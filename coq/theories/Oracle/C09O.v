(* Oracles of the redis persistence slice (C09, and the redis half of C10), evaluated on the
   implementation's own observables, and the known-finding predicates `kf_*` naming exactly
   the input classes on which the code as it is violates the statement.

   - subscription store: after a restart (a fresh store loaded from redis) every lookup must
     be answered from the flat specification of the WHOLE history (Oracle/C02O.v, applied by the
     driver to the reloaded store);
   - unack store: the set of QoS 2 packet ids awaiting PUBREL is durable;
   - queue: the abstract queue of C10 (Oracle/C10O.v), a broker restart being a disconnection;
   - broker level (crash at any storage command): `crash_ok`, PART 2. *)
From Coq Require Import List NArith ZArith Bool Arith.
Import ListNotations.
From GM Require Import Base.Topic Base.Msg Model.SubTrie Model.SubSpec Model.Queue Model.Redis Model.RQueue Model.Crash
  Oracle.C10O.
Open Scope N_scope.

(* ---------- subscription store ---------- *)

(* The store is keyed by the full topic name, the in-memory index by (share name, filter).
   For the names the broker hands to the store (validated filters) the two determine each
   other; the reload oracle is evaluated on such histories only: a subscription whose
   (share name, filter) is the split of its full name, an UNSUBSCRIBE topic that is the
   full name of its split. *)
Definition canonical_op (o : op) : bool :=
  match o with
  | OSub _ s => let '(g, f) := split_topic (full_topic s) in str_eqb g (s_share s) && str_eqb f (s_filter s)
  | OUnsub _ t => let '(g, f) := split_topic t in
                  str_eqb t (if is_empty g then f else SHARE_SLASH ++ g ++ [SLASH] ++ f)
  | OUnsubAll _ => true
  end.
Definition canonical_names (ops : list sop) : bool := forallb canonical_op (sops_flat ops).

(* classes of the defects repaired in /repo (41101f9, 9588927, 892f3ad): false for the code as
   it is; kept as documentation of the regression examples (Props/C09.v), not used by the check *)
Fixpoint has_effective_unsub (sp : spec) (ops : list op) : bool :=
  match ops with
  | [] => false
  | o :: r =>
      (match o with
       | OUnsub c t => let '(g, f) := split_topic t in
                       match sp_get (c, g, f) sp with Some _ => true | None => false end
       | _ => false
       end) || has_effective_unsub (spec_step sp o) r
  end.
Definition kf_redis_hdel_slice (fx : fixes) (ops : list sop) : bool :=
  negb (fix_hdel fx) && has_effective_unsub [] (sops_flat ops).
Definition kf_redis_trimleft (fx : fixes) (ops : list sop) : bool :=
  negb (fix_trim fx) &&
  existsb (fun e => let c := fst (fst (fst e)) in negb (str_eqb (trim_left c) c)) (spec_run (sops_flat ops)).

(* model of the reloaded index: the operations server.init replays *)
Definition reload_ops (fx : fixes) (ops : list sop) (cids : list cid) : option (list op) :=
  load_subs fx (exec_all [] (sops_cmds fx ops)) cids.

(* ---------- unack store ---------- *)
Definition runack_ok (ops : list ruop) (outs : list (option bool)) : bool :=
  (fix go (s : list N) (ops : list ruop) (outs : list (option bool)) : bool :=
     match ops, outs with
     | [], [] => true
     | RUInit c :: r, None :: o => go (if c then [] else s) r o
     | RUSet id :: r, Some b :: o => Bool.eqb b (memN id s) && go (if memN id s then s else id :: s) r o
     | RURemove id :: r, None :: o => go (delN id s) r o
     | RURestart :: r, None :: o => go s r o
     | _, _ => false
     end) [] ops outs.

(* (repaired, 892f3ad; false for the code as it is) Set of an id that is stored but unknown to
   the store object created by the last restart *)
Definition kf_redis_unack_reload (fx : fixes) (ops : list ruop) : bool :=
  negb (fix_unack fx) &&
  (fix go (d k : list N) (ops : list ruop) : bool :=
     match ops with
     | [] => false
     | RUInit c :: r => if c then go [] [] r else go d k r
     | RUSet id :: r => (memN id d && negb (memN id k)) || go (if memN id d then d else id :: d) (if memN id k then k else id :: k) r
     | RURemove id :: r => go (delN id d) (delN id k) r
     | RURestart :: r => go d [] r
     end) [] [] ops.

(* ---------- queue ---------- *)
Definition c10r_ok (max : nat) (ifexp : N) (ops : list rqop) (outs : list oout) : bool :=
  c10_ok max ifexp (abstract_ops false 0 ops) outs.

(* ---------- classification of the redis queue's deviations from the abstract queue ----------
   The faithful model (Model/RQueue.v) is stepped together with the abstract queue; the first
   operation whose output the abstract queue rejects is classified by the situation it was
   issued in (`rq_situation`), one class per open defect of persistence/queue/redis/redis.go.
   There is no open defect at present: every class found so far was repaired in /repo and is
   part of the oracle proper now -
     "length unknown after a restart", "Add before the in-flight entries are replayed" (2a5e8fc, c77f89a);
     "ReadInflight(0): whole list at cursor 0 / drained at any other cursor" (309d247);
     "Read with no packet ids at cursor 0: LRANGE 0 -1", "Remove of an id whose entry Add already
     sacrificed (stale read cache)", "Replace while the cursor is 0 inspects element 0".
   So `rq_class` answers RQNone (the whole trace is accepted) or RQOther (a rejection nobody has
   explained); a new class is a new constructor and a new case of `rq_situation`. *)
Inductive rqclass :=
| RQNone                      (* the whole trace is accepted *)
| RQOther.

Definition rq_situation (s : rstore) (q : rq) (o : rqop) : rqclass := RQOther.

Fixpoint rq_classify (s : rstore) (q : rq) (a : ast) (v5 : bool) (limit : N) (ops : list rqop) : rqclass :=
  match ops with
  | [] => RQNone
  | o :: r =>
      let x := rq_step s q o in
      let '(ao, v5', limit') :=
        match o with
        | ROp (OInit c v l) => (OInit c v l, v, l)
        | ROp o' => (o', v5, limit)
        | ORestart => (OInit false v5 limit, v5, limit)
        end in
      let blame := rq_situation s q o in
      match step_ok a ao (oout_of (r_out x)) with
      | Some a' =>
          if inv_ok a' then
            match r_out x with
            | RPanic => RQNone
            | _ => rq_classify (r_store x) (r_q x) a' v5' limit' r
            end
          else blame
      | None => blame
      end
  end.

Definition rq_class (max : nat) (ifexp : N) (ops : list rqop) : rqclass :=
  rq_classify [] (rq_new max ifexp [99]) (a_new max ifexp) false 0 ops.

(* ====================================================================================
   PART 2: the broker level.  What the harness observed: the client steps with the journal
   positions at which each request was sent (`os_start`), at which the broker was quiet
   again (`os_done`) and at which the broker wrote each packet; and, for a prefix k of the
   journal, what a fresh broker started on that prefix shows.  `crash_prefix_fails` is
   written from the statement of C09 and returns the clauses that do not hold. *)
Inductive rxpkt :=
| XConnack (sp : bool) (code : N)
| XSuback (pid : N) (codes : list N)
| XUnsuback (pid : N)
| XPuback (pid code : N)
| XPubrec (pid code : N)
| XPubrel (pid : N)
| XPubcomp (pid : N)
| XPublish (dup : bool) (qos : N) (topic payload : str) (pid : N)
| XOther.

Inductive cstep :=
| SConnect (c : nat) (clean : bool) (expiry : N)
| SClose (c : nat)
| SSubscribe (c : nat) (pid : N) (subs : list sub)
| SUnsubscribe (c : nat) (pid : N) (topics : list str)
| SPublish (c : nat) (qos pid : N) (topic payload : str)
| SPubrel (c : nat) (pid : N)
| SPuback (c : nat) (pid : N)
| SPubrec (c : nat) (pid : N)
| SPubcomp (c : nat) (pid : N)
| SSkipped.

Record ostep := { os_start : nat; os_done : nat; os_step : cstep; os_rx : list (nat * nat * rxpkt) }.

Record cobs := { co_sp : option bool; co_rx : list rxpkt; co_resend : list (N * nat * bool) }.
Record pobs := { po_k : nat; po_up : bool; po_sessions : list cid; po_subs : list (cid * sub); po_clients : list cobs }.

Inductive cfail :=
| FStartup                                 (* start-up failed on the prefix state *)
| FSession (c : nat)                       (* an acknowledged persistent session is missing / not resumed *)
| FSubExtra (c : nat) (t : str) (unsubscribed : bool)   (* a subscription that must be absent is there *)
| FSubMissing (c : nat) (t : str)          (* an acknowledged subscription is missing or has other options *)
| FSubForeign (id : cid)                   (* subscriptions registered under a client id nobody used *)
| FMsgLost (c : nat) (payload : str)       (* publisher acknowledged, subscriber not: not redelivered *)
| FDupNotRecognised (c : nat) (pid : N).   (* QoS 2 id awaiting PUBREL: PUBLISH accepted again *)

Definition step_client (s : cstep) : option nat :=
  match s with
  | SConnect c _ _ | SClose c | SSubscribe c _ _ | SUnsubscribe c _ _ | SPublish c _ _ _ _
  | SPubrel c _ | SPuback c _ | SPubrec c _ | SPubcomp c _ => Some c
  | SSkipped => None
  end.

(* journal position at which the broker wrote the first packet of client c satisfying f *)
Fixpoint rx_pos (c : nat) (f : rxpkt -> bool) (rx : list (nat * nat * rxpkt)) : option nat :=
  match rx with
  | [] => None
  | (c', pos, p) :: r => if (c' =? c)%nat && f p then Some pos else rx_pos c f r
  end.
Definition acked_by (k : nat) (o : option nat) : bool := match o with Some p => (p <=? k)%nat | None => false end.

Definition is_connack (p : rxpkt) : bool := match p with XConnack _ code => code =? 0 | _ => false end.
Definition connack_sp (c : nat) (rx : list (nat * nat * rxpkt)) : bool :=
  existsb (fun e => let '(c', _, p) := e in (c' =? c)%nat && match p with XConnack sp _ => sp | _ => false end) rx.
Definition is_suback (pid : N) (p : rxpkt) : bool := match p with XSuback q _ => q =? pid | _ => false end.
Definition is_unsuback (pid : N) (p : rxpkt) : bool := match p with XUnsuback q => q =? pid | _ => false end.
Definition is_pubank (pid : N) (p : rxpkt) : bool :=
  match p with XPuback q _ => q =? pid | XPubrec q _ => q =? pid | _ => false end.
Fixpoint suback_codes (c : nat) (pid : N) (rx : list (nat * nat * rxpkt)) : list N :=
  match rx with
  | [] => []
  | (c', _, XSuback q codes) :: r => if (c' =? c)%nat && (q =? pid) then codes else suback_codes c pid r
  | _ :: r => suback_codes c pid r
  end.

(* per client view of the history up to the crash.
   sv_live: a session whose creation (or resumption) was acknowledged exists;
   sv_subs: acknowledged subscriptions; sv_pend: (topic, value) a request in flight may have produced;
   sv_unsub: topics whose UNSUBACK was written (and not subscribed again since);
   sv_ids: packet id -> payload of the PUBLISH packets the client received on its current connection *)
Record sview := {
  sv_live : bool; sv_expiry : N; sv_online : bool;
  sv_subs : list (str * sub); sv_pend : list (str * option sub); sv_unsub : list str;
  sv_ids : list (N * str);
  sv_acked : list str;        (* payloads whose delivery the client has started to acknowledge for good (PUBACK / PUBCOMP sent) *)
  sv_rec : list (N * str);    (* QoS 2 deliveries for which the client sent PUBREC: (pid, payload) *)
  sv_uncertain : bool;        (* a CONNECT / close of this client is in flight: nothing is required *)
  sv_epoch : nat }.           (* number of session creations and terminations so far *)

Definition sv0 : sview :=
  {| sv_live := false; sv_expiry := 0; sv_online := false; sv_subs := []; sv_pend := []; sv_unsub := []; sv_ids := [];
     sv_acked := []; sv_rec := []; sv_uncertain := false; sv_epoch := 0 |}.

Fixpoint zip_granted (subs : list sub) (codes : list N) : list sub :=
  match subs, codes with
  | s :: r, c :: cr => if c <? 128 then s :: zip_granted r cr else zip_granted r cr
  | _, _ => []
  end.

Fixpoint sdel (t : str) (l : list str) : list str :=
  match l with [] => [] | x :: r => if str_eqb x t then sdel t r else x :: sdel t r end.
Fixpoint smem (t : str) (l : list str) : bool :=
  match l with [] => false | x :: r => str_eqb x t || smem t r end.

Definition lookupN (p : N) (l : list (N * str)) : option str :=
  match find (fun e => fst e =? p) l with Some e => Some (snd e) | None => None end.

(* effect of one observed step on the view of client c, for a crash after k commands *)
Definition sview_step (k : nat) (c : nat) (v : sview) (o : ostep) : sview :=
  if negb (os_start o <? k)%nat then v else          (* not started before the crash *)
  let rx := os_rx o in
  (* packets the broker wrote to c during the step (before the crash): PUBLISH ids *)
  let ids := fold_left (fun acc e => let '(c', pos, p) := e in
                          if (c' =? c)%nat && (pos <=? k)%nat
                          then match p with XPublish _ q _ payload pid => if 0 <? q then (pid, payload) :: acc else acc | _ => acc end
                          else acc) rx (sv_ids v) in
  let v := {| sv_live := sv_live v; sv_expiry := sv_expiry v; sv_online := sv_online v; sv_subs := sv_subs v; sv_pend := sv_pend v;
              sv_unsub := sv_unsub v; sv_ids := ids; sv_acked := sv_acked v; sv_rec := sv_rec v; sv_uncertain := sv_uncertain v;
              sv_epoch := sv_epoch v |} in
  let upd live exp online subs pend unsub ids' acked rec unc :=
    {| sv_live := live; sv_expiry := exp; sv_online := online; sv_subs := subs; sv_pend := pend; sv_unsub := unsub;
       sv_ids := ids'; sv_acked := acked; sv_rec := rec; sv_uncertain := unc; sv_epoch := sv_epoch v |} in
  let bump (x : sview) : sview :=
    {| sv_live := sv_live x; sv_expiry := sv_expiry x; sv_online := sv_online x; sv_subs := sv_subs x; sv_pend := sv_pend x;
       sv_unsub := sv_unsub x; sv_ids := sv_ids x; sv_acked := sv_acked x; sv_rec := sv_rec x; sv_uncertain := sv_uncertain x;
       sv_epoch := S (sv_epoch x) |} in
  match os_step o with
  | SConnect c' clean expiry =>
      if negb (c' =? c)%nat then v else
      if acked_by k (rx_pos c is_connack rx) then
        if connack_sp c rx
        then upd true expiry true (sv_subs v) [] (sv_unsub v) (fold_left (fun acc e => let '(c', pos, p) := e in
                          if (c' =? c)%nat && (pos <=? k)%nat
                          then match p with XPublish _ q _ payload pid => if 0 <? q then (pid, payload) :: acc else acc | _ => acc end
                          else acc) rx []) (sv_acked v) (sv_rec v) false
        else bump (upd true expiry true [] [] [] [] [] [] false)
      else bump (upd false 0 false [] [] [] [] [] [] true)
  | SClose c' =>
      if negb (c' =? c)%nat then v else
      if (os_done o <=? k)%nat then
        if sv_expiry v =? 0 then bump (upd false 0 false [] [] [] [] [] [] false)
        else upd (sv_live v) (sv_expiry v) false (sv_subs v) (sv_pend v) (sv_unsub v) [] (sv_acked v) (sv_rec v) false
      else if sv_expiry v =? 0 then bump (upd false 0 false [] [] [] [] [] [] true)
           else upd (sv_live v) (sv_expiry v) false (sv_subs v) (sv_pend v) (sv_unsub v) [] (sv_acked v) (sv_rec v) false
  | SSubscribe c' pid subs =>
      if negb (c' =? c)%nat then v else
      if acked_by k (rx_pos c (is_suback pid) rx) then
        let g := zip_granted subs (suback_codes c pid rx) in
        upd (sv_live v) (sv_expiry v) (sv_online v)
            (fold_left (fun m s => aset (full_topic s) s m) g (sv_subs v)) []
            (fold_left (fun u s => sdel (full_topic s) u) g (sv_unsub v)) (sv_ids v) (sv_acked v) (sv_rec v) (sv_uncertain v)
      else upd (sv_live v) (sv_expiry v) (sv_online v) (sv_subs v)
               (map (fun s => (full_topic s, Some s)) subs ++ sv_pend v) (sv_unsub v) (sv_ids v) (sv_acked v) (sv_rec v) (sv_uncertain v)
  | SUnsubscribe c' pid ts =>
      if negb (c' =? c)%nat then v else
      if acked_by k (rx_pos c (is_unsuback pid) rx) then
        upd (sv_live v) (sv_expiry v) (sv_online v) (fold_left (fun m t => adel t m) ts (sv_subs v)) []
            (ts ++ sv_unsub v) (sv_ids v) (sv_acked v) (sv_rec v) (sv_uncertain v)
      else upd (sv_live v) (sv_expiry v) (sv_online v) (sv_subs v) (map (fun t => (t, None)) ts ++ sv_pend v)
               (sv_unsub v) (sv_ids v) (sv_acked v) (sv_rec v) (sv_uncertain v)
  | SPuback c' pid | SPubcomp c' pid =>
      if negb (c' =? c)%nat then v else
      match lookupN pid (sv_ids v), lookupN pid (sv_rec v) with
      | Some payload, _ | None, Some payload =>
          upd (sv_live v) (sv_expiry v) (sv_online v) (sv_subs v) (sv_pend v) (sv_unsub v) (sv_ids v)
              (payload :: sv_acked v) (sv_rec v) (sv_uncertain v)
      | None, None => v
      end
  | SPubrec c' pid =>
      if negb (c' =? c)%nat then v else
      match lookupN pid (sv_ids v) with
      | Some payload => upd (sv_live v) (sv_expiry v) (sv_online v) (sv_subs v) (sv_pend v) (sv_unsub v) (sv_ids v)
                            (sv_acked v) ((pid, payload) :: sv_rec v) (sv_uncertain v)
      | None => v
      end
  | _ => v
  end.

Definition sview_at (k : nat) (c : nat) (steps : list ostep) : sview := fold_left (sview_step k c) steps sv0.

(* the subscriptions client c had when step number n was handled (all earlier steps complete) *)
Definition sview_before (n : nat) (c : nat) (steps : list ostep) : sview :=
  fold_left (fun v o => sview_step (S (os_done o)) c v o) (firstn n steps) sv0.

Definition granted_qos (topic : str) (publisher_is_c : bool) (qos : N) (subs : list (str * sub)) : N :=
  let ms := filter (fun e => let s := snd e in
                      is_empty (s_share s) && topic_match topic (s_filter s) && negb (s_nl s && publisher_is_c)) subs in
  match ms with
  | [] => 0
  | _ => N.min qos (fold_left N.max (map (fun e => s_qos (snd e)) ms) 0)
  end.

Definition rx_has_payload (payload : str) (rx : list rxpkt) : bool :=
  existsb (fun p => match p with XPublish _ _ _ pl _ => str_eqb pl payload | _ => false end) rx.
Definition rx_has_pubrel (pid : N) (rx : list rxpkt) : bool :=
  existsb (fun p => match p with XPubrel q => q =? pid | _ => false end) rx.

Definition sub_eq (a b : sub) : bool := Redis.sub_eqb a b.

Fixpoint index_steps (i : nat) (l : list ostep) : list (nat * ostep) :=
  match l with [] => [] | o :: r => (i, o) :: index_steps (S i) r end.

Definition crash_prefix_fails (names : list cid) (steps : list ostep) (p : pobs) : list cfail :=
  let k := po_k p in
  if negb (po_up p) then [FStartup] else
  let nclients := length names in
  let per_client (c : nat) : list cfail :=
    let name := nth c names [] in
    let v := sview_at k c steps in
    let ob := nth c (po_clients p) {| co_sp := None; co_rx := []; co_resend := [] |} in
    (* a re-sent QoS 2 PUBLISH must be recognised when it was received (PUBREC written) in the
       session that is still the client's session at the crash *)
    let same_session (pid : N) : bool :=
      existsb (fun io => let '(n, o) := io in
                 match os_step o with
                 | SPublish pc qos pid' _ _ =>
                     (pc =? c)%nat && (qos =? 2) && (pid' =? pid) && acked_by k (rx_pos pc (is_pubank pid) (os_rx o)) &&
                     (sv_epoch (sview_before n c steps) =? sv_epoch v)%nat
                 | _ => false
                 end) (index_steps 0 steps) in
    let dups := flat_map (fun r => let '(pid, pushes, acked) := r in
                                   if negb (same_session pid) || (acked && (pushes =? 0)%nat) then [] else [FDupNotRecognised c pid]) (co_resend ob) in
    if sv_uncertain v || negb (sv_live v) || (sv_expiry v =? 0) then [] else
    let sess := if smem name (po_sessions p) && (match co_sp ob with Some true => true | _ => false end) then [] else [FSession c] in
    let mine := map (fun e => (full_topic (snd e), snd e)) (filter (fun e => str_eqb (fst e) name) (po_subs p)) in
    let allowed (t : str) (x : option sub) : bool :=
      (match aget t (sv_subs v), x with
       | Some a, Some b => sub_eq a b
       | None, None => true
       | _, _ => false
       end) ||
      existsb (fun e => str_eqb (fst e) t && match snd e, x with
                                            | Some a, Some b => sub_eq a b
                                            | None, None => true
                                            | _, _ => false
                                            end) (sv_pend v) in
    let extra := flat_map (fun e => if allowed (fst e) (Some (snd e)) then [] else [FSubExtra c (fst e) (smem (fst e) (sv_unsub v))]) mine in
    let missing := flat_map (fun e => match aget (fst e) mine with
                                      | Some _ => []          (* a wrong value is reported by `extra` *)
                                      | None => if allowed (fst e) None then [] else [FSubMissing c (fst e)]
                                      end) (sv_subs v) in
    let msgs := flat_map (fun io =>
        let '(n, o) := io in
        match os_step o with
        | SPublish pc qos pid topic payload =>
            if (0 <? qos) && acked_by k (rx_pos pc (is_pubank pid) (os_rx o)) then
              let vb := sview_before n c steps in
              if sv_live vb && ((sv_online vb) || negb (sv_expiry vb =? 0)) &&
                 (0 <? granted_qos topic (pc =? c)%nat qos (sv_subs vb)) &&
                 (sv_epoch vb =? sv_epoch v)%nat &&
                 negb (smem payload (sv_acked v))
              then
                if rx_has_payload payload (co_rx ob) ||
                   existsb (fun e => str_eqb (snd e) payload && rx_has_pubrel (fst e) (co_rx ob)) (sv_rec v)
                then [] else [FMsgLost c payload]
              else []
            else []
        | _ => []
        end) (index_steps 0 steps) in
    sess ++ extra ++ missing ++ msgs ++ dups in
  let foreign := flat_map (fun e => if smem (fst e) names then [] else [FSubForeign (fst e)]) (po_subs p) in
  flat_map per_client (seq 0 nclients) ++ foreign.

(* which known defect explains a failed clause *)
Inductive crashkf := KFNone | KFHdel | KFTrim | KFUnack.

Definition explain (fx : fixes) (names : list cid) (f : cfail) : crashkf :=
  let trimmed c := negb (str_eqb (trim_left (nth c names [])) (nth c names [])) in
  match f with
  | FSubExtra c _ true => if negb (fix_hdel fx) then KFHdel else KFNone
  | FSubMissing c _ => if negb (fix_trim fx) && trimmed c then KFTrim else KFNone
  | FSubForeign id => if negb (fix_trim fx) && existsb (fun n => str_eqb (trim_left n) id && negb (str_eqb n id)) names then KFTrim else KFNone
  | FDupNotRecognised _ _ => if negb (fix_unack fx) then KFUnack else KFNone
  | _ => KFNone
  end.

(* ---------- the model's side of the broker level check ---------- *)
Definition new_pids (c : nat) (rx : list (nat * nat * rxpkt)) : list N :=
  flat_map (fun e => let '(c', _, p) := e in
              match p with XPublish false q _ _ pid => if (c' =? c)%nat && (0 <? q) then [pid] else [] | _ => [] end) rx.
Definition got_new (c : nat) (rx : list (nat * nat * rxpkt)) : bool :=
  existsb (fun e => let '(c', _, p) := e in match p with XPublish false _ _ _ _ => (c' =? c)%nat | _ => false end) rx.

Definition polls_of (names : list cid) (skip : option nat) (rx : list (nat * nat * rxpkt)) : list bevent :=
  flat_map (fun c => if (match skip with Some s => (s =? c)%nat | None => false end) then []
                     else if got_new c rx then [EPoll (nth c names []) (new_pids c rx)] else []) (seq 0 (length names)).

Fixpoint set_nth {A} (i : nat) (x : A) (l : list A) : list A :=
  match i, l with
  | _, [] => []
  | O, _ :: r => x :: r
  | S k, y :: r => y :: set_nth k x r
  end.

(* the client steps as broker events: a CONNECT on a label that is still connected closes the
   old connection first; deliveries seen by other clients during a step are polls *)
Fixpoint events_of (names : list cid) (online : list bool) (steps : list ostep) : list bevent :=
  match steps with
  | [] => []
  | o :: r =>
      let nm c := nth c names [] in
      let rx := os_rx o in
      match os_step o with
      | SConnect c clean expiry =>
          (if nth c online false then [EClose (nm c)] else []) ++
          [EConnect (nm c) clean expiry (new_pids c rx)] ++ polls_of names (Some c) rx ++ events_of names (set_nth c true online) r
      | SClose c => [EClose (nm c)] ++ polls_of names None rx ++ events_of names (set_nth c false online) r
      | SSubscribe c pid subs => [ESubscribe (nm c) pid subs] ++ polls_of names None rx ++ events_of names online r
      | SUnsubscribe c pid ts => [EUnsubscribe (nm c) pid ts] ++ polls_of names None rx ++ events_of names online r
      | SPublish c qos pid t pl => [EPublish (nm c) qos pid t pl] ++ polls_of names None rx ++ events_of names online r
      | SPubrel c pid => [EPubrel (nm c) pid] ++ polls_of names None rx ++ events_of names online r
      | SPuback c pid => [EPuback (nm c) pid] ++ polls_of names None rx ++ events_of names online r
      | SPubrec c pid => [EPubrec (nm c) pid] ++ polls_of names None rx ++ events_of names online r
      | SPubcomp c pid => [EPubcomp (nm c) pid] ++ polls_of names None rx ++ events_of names online r
      | SSkipped => polls_of names None rx ++ events_of names online r
      end
  end.

Definition model_journal (fx : fixes) (names : list cid) (steps : list ostep) : list jentry :=
  journal fx (events_of names (map (fun _ => false) names) steps).

Definition rx_of_journal (c : cid) (j : list jentry) : list rxpkt :=
  flat_map (fun e => match e with
                     | JOut (ODeliver c' dup q pl pid) => if str_eqb c c' then [XPublish dup q [] pl pid] else []
                     | JOut (OPubrel c' pid) => if str_eqb c c' then [XPubrel pid] else []
                     | _ => []
                     end) j.

Definition count_rpush (j : list jentry) : nat :=
  length (filter (fun e => match e with JCmd (CRPush _ _) => true | _ => false end) j).

(* what the model predicts a fresh broker shows on a store: sessions, subscriptions, and for
   each client (in order) the reconnection with Clean Start 0: session present, deliveries,
   and for each re-sent QoS 2 PUBLISH (pid, topic, payload) the number of queue appends *)
Fixpoint post_recover (fx : fixes) (b : broker) (names : list cid) (posts : list (list N * list (N * str * str)))
  : list (option bool * list rxpkt * list (N * nat * bool)) :=
  match names, posts with
  | c :: nr, (pids, resends) :: pr =>
      let '(b1, j1) := bstep fx b (EConnect c false 3600 pids) in
      let sp := fold_left (fun acc e => match e with JOut (OConnack _ s) => Some s | _ => acc end) j1 None in
      let '(b2, res) := fold_left (fun acc r =>
                          let '(bb, out) := acc in
                          let '(pid, topic, payload) := r in
                          let '(bb', j) := bstep fx bb (EPublish c 2 pid topic payload) in
                          (bb', out ++ [(pid, count_rpush j,
                                         existsb (fun e => match e with JOut (OPubrec _ p) => p =? pid | _ => false end) j)]))
                        resends (b1, []) in
      let '(b3, _) := bstep fx b2 (EClose c) in
      (sp, rx_of_journal c j1, res) :: post_recover fx b3 nr pr
  | _, _ => []
  end.

Definition model_prefix (fx : fixes) (names : list cid) (cmds : list rcmd) (posts : list (list N * list (N * str * str)))
  : option (list cid * list (cid * sub) * list (option bool * list rxpkt * list (N * nat * bool))) :=
  match recover fx (exec_all [] cmds) with
  | None => None
  | Some b => Some (map fst (b_clients b),
                    bs_entries (b_subs b),
                    post_recover fx b names posts)
  end.
