(* Oracles of the redis persistence slice (C09, and the redis half of C10), evaluated on the
   implementation's own observables, and the known-finding predicates `kf_*` naming exactly
   the input classes on which the code as it is violates the statement.

   - subscription store: after a restart (a fresh store loaded from redis) every lookup must
     be answered from the flat specification of the WHOLE history (Oracle/C02O.v, applied by the
     driver to the reloaded store);
   - unack store: the set of QoS 2 packet ids awaiting PUBREL is durable;
   - queue: the abstract queue of C10 (Oracle/C10O.v), a broker restart being a disconnection;
   - broker level (crash at any storage command): `crash_ok`, PART 2. *)
From Coq Require Import List NArith ZArith Bool Arith.
Import ListNotations.
From GM Require Import Base.Topic Base.Msg Model.SubTrie Model.SubSpec Model.Queue Model.Redis Model.RQueue Model.Crash
  Oracle.C10O.
Open Scope N_scope.

(* ---------- subscription store ---------- *)

(* an Unsubscribe that removes something: under the HDEL defect it never reaches redis *)
Fixpoint has_effective_unsub (sp : spec) (ops : list op) : bool :=
  match ops with
  | [] => false
  | o :: r =>
      (match o with
       | OUnsub c t => let '(g, f) := split_topic t in
                       match sp_get (c, g, f) sp with Some _ => true | None => false end
       | _ => false
       end) || has_effective_unsub (spec_step sp o) r
  end.
Definition kf_redis_hdel_slice (fx : fixes) (ops : list sop) : bool :=
  negb (fix_hdel fx) && has_effective_unsub [] (sops_flat ops).

(* a client id that starts with one of the characters s,u,b,: and owns a subscription at the
   end: its subscriptions are reloaded under the trimmed id *)
Definition kf_redis_trimleft (fx : fixes) (ops : list sop) : bool :=
  negb (fix_trim fx) &&
  existsb (fun e => let c := fst (fst (fst e)) in negb (str_eqb (trim_left c) c)) (spec_run (sops_flat ops)).

(* model of the reloaded index: the operations server.init replays *)
Definition reload_ops (fx : fixes) (ops : list sop) (cids : list cid) : option (list op) :=
  load_subs fx (exec_all [] (sops_cmds fx ops)) cids.

(* ---------- unack store ---------- *)
Definition runack_ok (ops : list ruop) (outs : list (option bool)) : bool :=
  (fix go (s : list N) (ops : list ruop) (outs : list (option bool)) : bool :=
     match ops, outs with
     | [], [] => true
     | RUInit c :: r, None :: o => go (if c then [] else s) r o
     | RUSet id :: r, Some b :: o => Bool.eqb b (memN id s) && go (if memN id s then s else id :: s) r o
     | RURemove id :: r, None :: o => go (delN id s) r o
     | RURestart :: r, None :: o => go s r o
     | _, _ => false
     end) [] ops outs.

(* Set of an id that is stored but unknown to the store object created by the last restart *)
Definition kf_redis_unack_reload (fx : fixes) (ops : list ruop) : bool :=
  negb (fix_unack fx) &&
  (fix go (d k : list N) (ops : list ruop) : bool :=
     match ops with
     | [] => false
     | RUInit c :: r => if c then go [] [] r else go d k r
     | RUSet id :: r => (memN id d && negb (memN id k)) || go (if memN id d then d else id :: d) (if memN id k then k else id :: k) r
     | RURemove id :: r => go (delN id d) (delN id k) r
     | RURestart :: r => go d [] r
     end) [] [] ops.

(* ---------- queue ---------- *)
Definition c10r_ok (max : nat) (ifexp : N) (ops : list rqop) (outs : list oout) : bool :=
  c10_ok max ifexp (abstract_ops false 0 ops) outs.

(* ---------- classification of the redis queue's deviations from the abstract queue ----------
   The faithful model (Model/RQueue.v) is stepped together with the abstract queue; the first
   operation whose output the abstract queue rejects is classified by the situation it was
   issued in.  Each class is one defect of persistence/queue/redis/redis.go. *)
Inductive rqclass :=
| RQNone                      (* the whole trace is accepted *)
| RQLenAfterRestart           (* Add on a fresh object (broker restart) before Init: len is 0, the bound is not enforced *)
| RQLrangeMinus1              (* Read with no ids / ReadInflight(0) at cursor 0: LRANGE 0 -1 reads the whole list *)
| RQAddBeforeReplay           (* Add on a full queue between Init(clean=false) and ReadInflight: in-flight entries are treated as queued (wrong victim, or panic on a PUBREL entry) *)
| RQStaleCache                (* Remove of an id whose entry Add already sacrificed: counters and cursor move although nothing is removed *)
| RQReplaceCursor0            (* Replace while the cursor is 0 inspects element 0 *)
| RQOther.

Fixpoint blob_mem (b : blob) (l : list blob) : bool :=
  match l with [] => false | x :: r => blob_eqb x b || blob_mem b r end.

Definition rq_situation (s : rstore) (q : rq) (o : rqop) : rqclass :=
  match o with
  | ROp (OAdd _ _) =>
      match rq_cache q with
      | None => RQLenAfterRestart
      | Some _ => if negb (rq_drained q) then RQAddBeforeReplay else RQOther
      end
  | ROp (ORead _ pids) => match pids with [] => if (rq_cur q =? 0)%Z then RQLrangeMinus1 else RQOther | _ => RQOther end
  | ROp (OReadInflight _ n) => match n with O => if (rq_cur q =? 0)%Z then RQLrangeMinus1 else RQOther | _ => RQOther end
  | ROp (ORemove pid) =>
      match rq_cache q with
      | Some c => match cache_get pid c with
                  | Some e => match lget (rq_key q) s with
                              | Some l => if blob_mem (BElem e) l then RQOther else RQStaleCache
                              | None => RQOther
                              end
                  | None => RQOther
                  end
      | None => RQOther
      end
  | ROp (OReplace _) => if (rq_cur q =? 0)%Z then RQReplaceCursor0 else RQOther
  | _ => RQOther
  end.

Fixpoint rq_classify (s : rstore) (q : rq) (a : ast) (v5 : bool) (limit : N) (ops : list rqop) : rqclass :=
  match ops with
  | [] => RQNone
  | o :: r =>
      let x := rq_step s q o in
      let '(ao, v5', limit') :=
        match o with
        | ROp (OInit c v l) => (OInit c v l, v, l)
        | ROp o' => (o', v5, limit)
        | ORestart => (OInit false v5 limit, v5, limit)
        end in
      match step_ok a ao (oout_of (r_out x)) with
      | Some a' =>
          if inv_ok a' then
            match r_out x with
            | RPanic => RQNone
            | _ => rq_classify (r_store x) (r_q x) a' v5' limit' r
            end
          else rq_situation s q o
      | None => rq_situation s q o
      end
  end.

Definition rq_class (max : nat) (ifexp : N) (ops : list rqop) : rqclass :=
  rq_classify [] (rq_new max ifexp [99]) (a_new max ifexp) false 0 ops.
