(* Oracles of the redis persistence slice (C09, and the redis half of C10), evaluated on the
   implementation's own observables, and the known-finding predicates `kf_*` naming exactly
   the input classes on which the code as it is violates the statement.

   - subscription store: after a restart (a fresh store loaded from redis) every lookup must
     be answered from the flat specification of the WHOLE history (Oracle/C02O.v, applied by the
     driver to the reloaded store);
   - unack store: the set of QoS 2 packet ids awaiting PUBREL is durable;
   - queue: the abstract queue of C10 (Oracle/C10O.v), a broker restart being a disconnection;
   - broker level (crash at any storage command): `crash_ok`, PART 2. *)
From Coq Require Import List NArith ZArith Bool Arith.
Import ListNotations.
From GM Require Import Base.Topic Base.Msg Model.SubTrie Model.SubSpec Model.Queue Model.Redis Model.RQueue Model.Crash
  Oracle.C10O.
Open Scope N_scope.

(* ---------- subscription store ---------- *)

(* an Unsubscribe that removes something: under the HDEL defect it never reaches redis *)
Fixpoint has_effective_unsub (sp : spec) (ops : list op) : bool :=
  match ops with
  | [] => false
  | o :: r =>
      (match o with
       | OUnsub c t => let '(g, f) := split_topic t in
                       match sp_get (c, g, f) sp with Some _ => true | None => false end
       | _ => false
       end) || has_effective_unsub (spec_step sp o) r
  end.
Definition kf_redis_hdel_slice (fx : fixes) (ops : list sop) : bool :=
  negb (fix_hdel fx) && has_effective_unsub [] (sops_flat ops).

(* a client id that starts with one of the characters s,u,b,: and owns a subscription at the
   end: its subscriptions are reloaded under the trimmed id *)
Definition kf_redis_trimleft (fx : fixes) (ops : list sop) : bool :=
  negb (fix_trim fx) &&
  existsb (fun e => let c := fst (fst (fst e)) in negb (str_eqb (trim_left c) c)) (spec_run (sops_flat ops)).

(* model of the reloaded index: the operations server.init replays *)
Definition reload_ops (fx : fixes) (ops : list sop) (cids : list cid) : option (list op) :=
  load_subs fx (exec_all [] (sops_cmds fx ops)) cids.

(* ---------- unack store ---------- *)
Definition runack_ok (ops : list ruop) (outs : list (option bool)) : bool :=
  (fix go (s : list N) (ops : list ruop) (outs : list (option bool)) : bool :=
     match ops, outs with
     | [], [] => true
     | RUInit c :: r, None :: o => go (if c then [] else s) r o
     | RUSet id :: r, Some b :: o => Bool.eqb b (memN id s) && go (if memN id s then s else id :: s) r o
     | RURemove id :: r, None :: o => go (delN id s) r o
     | RURestart :: r, None :: o => go s r o
     | _, _ => false
     end) [] ops outs.

(* Set of an id that is stored but unknown to the store object created by the last restart *)
Definition kf_redis_unack_reload (fx : fixes) (ops : list ruop) : bool :=
  negb (fix_unack fx) &&
  (fix go (d k : list N) (ops : list ruop) : bool :=
     match ops with
     | [] => false
     | RUInit c :: r => if c then go [] [] r else go d k r
     | RUSet id :: r => (memN id d && negb (memN id k)) || go (if memN id d then d else id :: d) (if memN id k then k else id :: k) r
     | RURemove id :: r => go (delN id d) (delN id k) r
     | RURestart :: r => go d [] r
     end) [] [] ops.

(* ---------- queue ---------- *)
Definition c10r_ok (max : nat) (ifexp : N) (ops : list rqop) (outs : list oout) : bool :=
  c10_ok max ifexp (abstract_ops false 0 ops) outs.
