(* Executable property oracle for C18, evaluated on the implementation's observables. *)
From Coq Require Import List NArith Arith Bool.
Import ListNotations.
From GM Require Import Model.WsConn.

Inductive wserr := ENone | EEof | EType | EOther.

Definition wserr_eqb (a b : wserr) : bool :=
  match a, b with
  | ENone, ENone | EEof, EEof | EType, EType | EOther, EOther => true
  | _, _ => false
  end.

Fixpoint bytes_eqb (a b : list N) : bool :=
  match a, b with
  | [], [] => true
  | x :: a', y :: b' => N.eqb x y && bytes_eqb a' b'
  | _, _ => false
  end.

Fixpoint is_prefix (a b : list N) : bool :=
  match a, b with
  | [], _ => true
  | x :: a', y :: b' => N.eqb x y && is_prefix a' b'
  | _, _ => false
  end.

Fixpoint binary_prefix (msgs : list wsmsg) : list wsmsg :=
  match msgs with
  | (Binary, b) :: rest => (Binary, b) :: binary_prefix rest
  | _ => []
  end.

(* observable of a run of reads: the chunks returned and how the run ended *)
Definition c18_obs := (list (list N) * wserr)%type.

Definition model_obs (msgs : list wsmsg) (ps : list nat) : c18_obs :=
  let '(cs, e, _, _) := ws_reads ws_init ps msgs in
  (cs, match e with
       | None => ENone
       | Some RErrEOF => EEof
       | Some RErrType => EType
       | Some (RData _) => EOther
       end).

(* The property, on observables: handed-out bytes are a prefix of the binary payloads
   before the first text message; at EOF (all binary) or at the text rejection they are
   all of them; a text message is never passed over silently. *)
Definition c18_ok (msgs : list wsmsg) (ps : list nat) (o : c18_obs) : bool :=
  let '(cs, e) := o in
  let want := payloads (binary_prefix msgs) in
  let got := concat cs in
  is_prefix got want &&
  match e with
  | ENone => true
  | EEof => all_binary msgs && bytes_eqb got want
  | EType => negb (all_binary msgs) && bytes_eqb got want
  | EOther => false
  end.

Definition c18_obs_eqb (a b : c18_obs) : bool :=
  wserr_eqb (snd a) (snd b) &&
  (fix go (x y : list (list N)) : bool :=
     match x, y with
     | [], [] => true
     | c :: x', d :: y' => bytes_eqb c d && go x' y'
     | _, _ => false
     end) (fst a) (fst b).
