(* Component oracles: packet id limiter (C03), unack set (C04), alias manager (C13). *)
From Coq Require Import List NArith Bool Arith.
Import ListNotations.
From GM Require Import Base.Topic Model.Limiter.
Open Scope N_scope.

Fixpoint nodupN (l : list N) : bool := match l with [] => true | x :: r => negb (memN x r) && nodupN r end.

(* abstract window: the set of ids in use and the number of slots taken *)
Record awin := { w_set : list N; w_cnt : N; w_limit : N; w_exit : bool }.

Definition lim_obs := (option pollres * N)%type.     (* result of the op, `used` afterwards *)

Definition win_step (w : awin) (o : lop) (r : lim_obs) : option awin :=
  let '(res, used) := r in
  let chk (w' : awin) := if used =? w_cnt w' mod U16 then Some w' else None in
  match o, res with
  | LPoll max, Some PBlocked => if (w_limit w <=? w_cnt w) && negb (w_exit w) then chk w else None
  | LPoll max, Some PExit => if w_exit w || (max =? 0) then chk w else None
  | LPoll max, Some (PIds ids) =>
      if (w_cnt w <? w_limit w) && negb (w_exit w) then
        let want := N.min max (w_limit w - w_cnt w) in
        if (N.of_nat (length ids) =? want) && nodupN ids &&
           forallb (fun i => (1 <=? i) && (i <=? MAXPID) && negb (memN i (w_set w))) ids
        then chk {| w_set := ids ++ w_set w; w_cnt := w_cnt w + want; w_limit := w_limit w; w_exit := w_exit w |}
        else None
      else None
  | LPoll _, _ => None
  | LRelease id, None =>
      chk (if memN id (w_set w)
           then {| w_set := delN id (w_set w); w_cnt := w_cnt w - 1; w_limit := w_limit w; w_exit := w_exit w |} else w)
  | LBatch ids, None =>
      chk (fold_left (fun w id => if memN id (w_set w)
           then {| w_set := delN id (w_set w); w_cnt := w_cnt w - 1; w_limit := w_limit w; w_exit := w_exit w |} else w) ids w)
  | LMark id, None =>
      (* the caller (pollInflights) only marks ids that are not in use; otherwise the count drifts *)
      chk {| w_set := if memN id (w_set w) then w_set w else id :: w_set w; w_cnt := w_cnt w + 1;
             w_limit := w_limit w; w_exit := w_exit w |}
  | LClose, None => chk {| w_set := w_set w; w_cnt := w_cnt w; w_limit := w_limit w; w_exit := true |}
  | LSetFree _, None => chk w
  | _, _ => None
  end.

Fixpoint win_ok (w : awin) (ops : list lop) (outs : list lim_obs) : bool :=
  match ops, outs with
  | [], [] => true
  | o :: ops', r :: outs' => match win_step w o r with Some w' => win_ok w' ops' outs' | None => false end
  | _, _ => false
  end.

Definition c03_lim_ok (limit : N) (ops : list lop) (outs : list lim_obs) : bool :=
  win_ok {| w_set := []; w_cnt := 0; w_limit := limit; w_exit := false |} ops outs.

Definition lim_model (limit : N) (ops : list lop) : list lim_obs := snd (lim_run (lim_new limit) ops).

(* ---- alias manager: a client-side table replaying the stream must resolve every alias ---- *)
Definition atable := list (N * str).
Fixpoint at_get (a : N) (t : atable) : option str :=
  match t with [] => None | (a', s) :: r => if a =? a' then Some s else at_get a r end.
Fixpoint at_set (a : N) (s : str) (t : atable) : atable :=
  match t with [] => [(a, s)] | (a', s') :: r => if a =? a' then (a, s) :: r else (a', s') :: at_set a s r end.

(* one outbound publish with topic t for which Check returned (alias, exist) *)
Definition alias_step (max : N) (tb : atable) (t : str) (r : amres) : option atable :=
  match r with
  | APanic => None
  | AOk a ex =>
      if (1 <=? a) && (a <=? max) then
        if ex then (match at_get a tb with Some s => if str_eqb s t then Some tb else None | None => None end)
        else Some (at_set a t tb)
      else None
  end.

Fixpoint alias_ok (max : N) (tb : atable) (ts : list str) (rs : list amres) : bool :=
  match ts, rs with
  | [], [] => true
  | t :: ts', r :: rs' => match alias_step max tb t r with Some tb' => alias_ok max tb' ts' rs' | None => false end
  | _, _ => false
  end.

Fixpoint am_run (m : amgr) (ts : list str) : list amres :=
  match ts with [] => [] | t :: r => let '(m', x) := am_check t m in x :: am_run m' r end.

(* ---- unack ---- *)
Inductive uop := UInit (clean : bool) | USet (id : N) | URemove (id : N).
Fixpoint unack_run (u : unack) (ops : list uop) : list (option bool) :=
  match ops with
  | [] => []
  | UInit c :: r => None :: unack_run (unack_init c u) r
  | USet id :: r => let '(u', b) := unack_set id u in Some b :: unack_run u' r
  | URemove id :: r => None :: unack_run (unack_remove id u) r
  end.
(* the specification is the same set semantics: Set reports "already present" *)
Definition unack_ok (ops : list uop) (outs : list (option bool)) : bool :=
  (fix go (s : list N) (ops : list uop) (outs : list (option bool)) : bool :=
     match ops, outs with
     | [], [] => true
     | UInit c :: r, None :: o => go (if c then [] else s) r o
     | USet id :: r, Some b :: o => Bool.eqb b (memN id s) && go (if memN id s then s else id :: s) r o
     | URemove id :: r, None :: o => go (delN id s) r o
     | _, _ => false
     end) [] ops outs.
