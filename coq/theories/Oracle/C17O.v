(* Executable oracle for C17 (federation routing), written from the property statement and
   evaluated on what one sendMessage call shows (events appended per peer, drop flag,
   rewritten iteration options) and on what the receiving side does with a message event.

   A case describes the whole federation: every node's local subscriptions.  How a node
   serves a message locally is the contract of the broker (C01/C11 on each node): every
   matching non-shared subscriber gets it, and one member of every matching local share
   group - restricted to the subscription types of the iteration options the origin's
   broker is told to use; a receiving node publishes through Publisher.Publish, i.e. with
   all types. *)
From Coq Require Import List NArith Bool.
Import ListNotations.
From GM Require Import Base.Topic Base.Msg Model.SubTrie Model.RetTrie Model.FedQueue Model.FedRoute Oracle.C07O.
Open Scope N_scope.

Definition lsub := (cid * str * str)%type.      (* client, share name, topic filter *)

Record rcase := {
  rc_node : str;                                (* the origin *)
  rc_nodes : list (str * list lsub);            (* every node of the federation (incl. the origin): local subscriptions *)
  rc_peers : list str }.                        (* the origin's peers *)

Record pub_obs := {
  po_sent : list (str * msg);                   (* one entry per event appended to a peer queue *)
  po_drop : bool;
  po_opts : option iopts }.

Definition subs_of (n : str) (c : rcase) : list lsub :=
  match aget n (rc_nodes c) with Some l => l | None => [] end.

(* a subscription matches a topic exactly as the local broker decides it: MQTT 4.7 incl. the
   '$' rule [MQTT-4.7.2-1], for a non-shared filter and for the filter of a shared one alike
   (since the repair 8c233d3; before it the filter of a shared one was matched level-wise only) *)
Definition lsub_match (t : str) (s : lsub) : bool :=
  let '(_, _, f) := s in topic_match t f.

Definition has_plain (t : str) (l : list lsub) : bool :=
  existsb (fun s : lsub => is_empty (snd (fst s)) && lsub_match t s) l.
Definition has_any (t : str) (l : list lsub) : bool := existsb (lsub_match t) l.
Definition lsub_full (s : lsub) : str := fed_full_topic (snd (fst s)) (snd s).
Definition has_member (t G : str) (l : list lsub) : bool :=
  existsb (fun s : lsub => negb (is_empty (snd (fst s))) && lsub_match t s && str_eqb (lsub_full s) G) l.

Fixpoint dedup_str (l : list str) : list str :=
  match l with [] => [] | x :: r => if mem_str x r then dedup_str r else x :: dedup_str r end.

(* the share groups (full shared topic names) with a matching member somewhere *)
Definition groups (t : str) (c : rcase) : list str :=
  dedup_str (flat_map (fun n => map lsub_full (filter (fun s : lsub => negb (is_empty (snd (fst s))) && lsub_match t s) (subs_of n c)))
                      (rc_node c :: rc_peers c)).

Definition count_sent (n : str) (o : pub_obs) : N :=
  N.of_nat (length (filter (fun e => str_eqb (fst e) n) (po_sent o))).

Definition opts_wf (t : str) (o : iopts) : bool :=
  str_eqb (io_topic o) t && is_empty (io_client o) && match io_mt o with MatchFilter => true | _ => false end.

(* does the origin's own broker serve a matching non-shared subscription with this filter / its share groups *)
Definition origin_serves_plain (t f : str) (o : pub_obs) : bool :=
  negb (po_drop o) &&
  match po_opts o with
  | None => true
  | Some io => opts_wf t io && (if starts_dollar f then io_sys io else io_nonshared io)
  end.
Definition origin_serves_shared (t : str) (o : pub_obs) : bool :=
  negb (po_drop o) && match po_opts o with None => true | Some io => opts_wf t io && io_shared io end.

(* deliveries of one message to one share group in the whole federation *)
Definition group_deliveries (c : rcase) (t G : str) (o : pub_obs) : N :=
  (if has_member t G (subs_of (rc_node c) c) && origin_serves_shared t o then 1 else 0) +
  fold_left (fun acc p => acc + (if has_member t G (subs_of p c) then count_sent p o else 0)) (rc_peers c) 0.

Definition integrity_ok (c : rcase) (m : msg) (o : pub_obs) : bool :=
  forallb (fun e => mem_str (fst e) (rc_peers c) && msg_eqb (snd e) (msg_event_form m)) (po_sent o).

Definition retained_ok (c : rcase) (m : msg) (o : pub_obs) : bool :=
  integrity_ok c m o && forallb (fun p => count_sent p o =? 1) (rc_peers c) && negb (po_drop o) &&
  match po_opts o with None => true | Some _ => false end.

Definition plain_ok (c : rcase) (m : msg) (o : pub_obs) : bool :=
  let t := m_topic m in
  integrity_ok c m o &&
  forallb (fun p => (count_sent p o <=? 1) &&
                    (has_any t (subs_of p c) || (count_sent p o =? 0)) &&          (* none unmatched *)
                    (negb (has_plain t (subs_of p c)) || (count_sent p o =? 1)))   (* plain: exactly once *)
          (rc_peers c) &&
  forallb (fun s : lsub => negb (is_empty (snd (fst s)) && lsub_match t s) || origin_serves_plain t (snd s) o)
          (subs_of (rc_node c) c).

Definition shared_ok (c : rcase) (m : msg) (o : pub_obs) : bool :=
  forallb (fun G => group_deliveries c (m_topic m) G o =? 1) (groups (m_topic m) c).

Definition c17_pub_ok (c : rcase) (m : msg) (o : pub_obs) : bool :=
  if m_retained m then retained_ok c m o else plain_ok c m o && shared_ok c m o.

(* ---------- receiving side ---------- *)
Record recv_obs := {
  ro_pubs : list msg;            (* handed to Publisher.Publish *)
  ro_ret : list msg;             (* the retained store afterwards *)
  ro_fwd : N }.                  (* events appended to any peer queue while handling it *)

Definition recv_spec (sp : rspec) (m : msg) : rspec :=
  if m_retained m then rspec_step sp (retain_op m) else sp.

Fixpoint c17_recv_ok (sp : rspec) (ms : list msg) (obs : list recv_obs) : bool :=
  match ms, obs with
  | m :: r, o :: r' =>
      let m' := msg_event_form m in
      let sp' := recv_spec sp m' in
      list_eqb msg_eqb (ro_pubs o) [m'] && mmeq (map snd sp') (ro_ret o) && (ro_fwd o =? 0) &&
      c17_recv_ok sp' r r'
  | [], [] => true
  | _, _ => false
  end.

(* ---------- known findings ---------- *)

(* F-C17-1 (design level): the receiver publishes with all subscription types and the
   origin's drop / option rewrite is per message, not per group.  A share group is served
   twice when a peer that holds a member gets the message for another reason (a plain
   match, another group) while the group's turn went elsewhere, and not at all when
   another group's remote turn makes the origin skip its own shared subscribers. *)
Definition kf_shared_span (c : rcase) (m : msg) : bool :=
  negb (m_retained m) &&
  let t := m_topic m in
  let gs := groups t c in
  (Nat.leb 2 (length gs) ||
   existsb (fun p => has_plain t (subs_of p c) && existsb (fun G => has_member t G (subs_of p c)) gs) (rc_peers c)).

(* ---------- observables of the model ---------- *)
Definition pub_obs_of (x : list (str * list fevent) * bool * option iopts) : pub_obs :=
  let '(evs, drop, opts) := x in
  {| po_sent := flat_map (fun p => flat_map (fun e => match e with EMsg m => [(fst p, m)] | _ => [] end) (snd p)) evs;
     po_drop := drop; po_opts := opts |}.

(* ---------- a whole federation in a stable state, seen from the origin ---------- *)
(* the origin's broker store holds its local subscriptions; the federation tree holds, for
   every peer, that peer's local topic set (what C16 establishes once the streams are stable) *)
Definition local_ops_of (c : rcase) : list op :=
  map (fun s : lsub => OSub (fst (fst s)) (plain_sub (snd (fst s)) (snd s))) (subs_of (rc_node c) c).
Definition fed_ops_of (c : rcase) : list op :=
  flat_map (fun n => map (fun s : lsub => OSub n (plain_sub (snd (fst s)) (snd s))) (subs_of n c)) (rc_peers c).
Definition case_state (c : rcase) (counters : list (str * N)) : rstate :=
  {| r_node := rc_node c; r_local := db_run (local_ops_of c); r_fed := db_run (fed_ops_of c);
     r_sent := counters; r_peers := map (fun n => (n, [])) (rc_peers c) |}.
Definition case_obs (c : rcase) (counters : list (str * N)) (m : msg) : pub_obs :=
  let '(st', drop, opts) := fr_send_message (case_state c counters) m in
  pub_obs_of (fr_new_events (case_state c counters) st', drop, opts).
