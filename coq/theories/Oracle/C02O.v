(* Executable oracles for C02 / C11 (subscription store), evaluated on the implementation's
   answers: the expected answer of every covered lookup computed from the flat spec. *)
From Coq Require Import List NArith Bool.
Import ListNotations.
From GM Require Import Base.Topic Model.SubTrie Model.SubSpec.
Open Scope N_scope.

Definition sub_eqb (a b : sub) : bool :=
  str_eqb (s_share a) (s_share b) && str_eqb (s_filter a) (s_filter b) && N.eqb (s_id a) (s_id b) &&
  N.eqb (s_qos a) (s_qos b) && Bool.eqb (s_nl a) (s_nl b) && Bool.eqb (s_rap a) (s_rap b) && N.eqb (s_rh a) (s_rh b).

Definition ient_eqb (a b : ient) : bool :=
  str_eqb (fst a) (fst b) &&
  match snd a, snd b with
  | Some x, Some y => sub_eqb x y
  | None, None => true
  | _, _ => false
  end.

Fixpoint remove1 (x : ient) (l : list ient) : option (list ient) :=
  match l with
  | [] => None
  | y :: r => if ient_eqb x y then Some r
              else match remove1 x r with Some r' => Some (y :: r') | None => None end
  end.

(* multiset inclusion a <= b *)
Fixpoint msub (a b : list ient) : bool :=
  match a with
  | [] => true
  | x :: a' => match remove1 x b with Some b' => msub a' b' | None => false end
  end.

Definition meq (a b : list ient) : bool := msub a b && msub b a.

Definition client_ok (want c : cid) : bool := is_empty want || str_eqb want c.

Definition sel (sp : spec) (p : skey -> sub -> bool) : list ient :=
  map (fun e => (fst (fst (fst e)), Some (snd e))) (filter (fun e => p (fst e) (snd e)) sp).

(* expected answer of the non-shared part (user + system tries) of a lookup; None when
   the property does not speak about this query shape *)
Definition expect_nonshared (sp : spec) (o : iopts) : option (list ient) :=
  if negb (io_sys o && io_nonshared o) then None else
  match io_mt o with
  | MatchFilter =>
      if is_empty (io_topic o) || negb (no_wild_levels (split (io_topic o))) then None
      else Some (sel sp (fun k _ => let '(c, g, f) := k in
                   is_empty g && topic_match (io_topic o) f && client_ok (io_client o) c))
  | MatchName =>
      if is_empty (io_topic o) then None
      else Some (sel sp (fun k _ => let '(c, g, f) := k in
                   is_empty g && str_eqb f (io_topic o) && client_ok (io_client o) c))
  | MatchNone =>
      if negb (is_empty (io_topic o)) || is_empty (io_client o) then None
      else Some (sel sp (fun k _ => let '(c, g, f) := k in is_empty g && str_eqb (io_client o) c))
  end.

(* expected answer of the shared part: (must contain, may contain).  Since the repair of
   getMatchedTopicFilter the lookup by topic applies MQTT-4.7.2-1 to shared filters too, so both
   bounds are full topic_match (the upper bound used to be level matching only). *)
Definition expect_shared (sp : spec) (o : iopts) : option (list ient * list ient) :=
  match io_mt o with
  | MatchFilter =>
      if is_empty (io_topic o) || negb (no_wild_levels (split (io_topic o))) then None
      else Some (sel sp (fun k _ => let '(c, g, f) := k in
                   negb (is_empty g) && topic_match (io_topic o) f && client_ok (io_client o) c),
                 sel sp (fun k _ => let '(c, g, f) := k in
                   negb (is_empty g) && topic_match (io_topic o) f && client_ok (io_client o) c))
  | MatchName =>
      if is_empty (io_topic o) then None
      else if has_prefix SHARE_PREFIX (io_topic o) then
        match cut_slash (skipn 7 (io_topic o)) with
        | (_, None) => None
        | (g0, Some f0) =>
            let a := sel sp (fun k _ => let '(c, g, f) := k in
                       negb (is_empty g) && str_eqb g g0 && str_eqb f f0 && client_ok (io_client o) c) in
            Some (a, a)
        end
      else Some ([], [])
  | MatchNone =>
      if negb (is_empty (io_topic o)) || is_empty (io_client o) then None
      else let a := sel sp (fun k _ => let '(c, g, f) := k in negb (is_empty g) && str_eqb (io_client o) c) in
           Some (a, a)
  end.

(* C02: the query is purely non-shared and covered -> exact answer *)
Definition c02_query_ok (sp : spec) (o : iopts) (r : ires) : bool :=
  if io_shared o then true else
  match expect_nonshared sp o with
  | None => true
  | Some want => match r with IOk got => meq want got | IPanic => false end
  end.

(* C11: the query is purely shared and covered -> between the bounds *)
Definition c11_query_ok (sp : spec) (o : iopts) (r : ires) : bool :=
  if io_sys o || io_nonshared o || negb (io_shared o) then true else
  match expect_shared sp o with
  | None => true
  | Some (lo, hi) => match r with IOk got => msub lo got && msub got hi | IPanic => false end
  end.

(* mixed queries (TypeAll): both parts covered -> the union *)
Definition mixed_query_ok (sp : spec) (o : iopts) (r : ires) : bool :=
  if negb (io_shared o && io_sys o && io_nonshared o) then true else
  match expect_nonshared sp o, expect_shared sp o with
  | Some ns, Some (lo, hi) => match r with IOk got => msub (lo ++ ns) got && msub got (hi ++ ns) | IPanic => false end
  | _, _ => true
  end.

Definition u64 (n : nat) : N := N.of_nat n mod U64.

(* counters: (total, current) globally and per client *)
Definition expect_gstats (ops : list op) : N * N :=
  (spec_total [] ops None mod U64, u64 (length (spec_run ops))).

Definition ever_subscribed (c : cid) (ops : list op) : bool :=
  existsb (fun o => match o with OSub c' _ => str_eqb c c' | _ => false end) ops.

Definition expect_cstats (ops : list op) (c : cid) : option (N * N) :=
  if ever_subscribed c ops then Some (spec_total [] ops (Some c) mod U64, u64 (count_client c (spec_run ops)))
  else None.

(* AlreadyExisted of every subscribe of the history, in order *)
Fixpoint expect_already (sp : spec) (ops : list op) : list bool :=
  match ops with
  | [] => []
  | o :: r =>
      match o with
      | OSub c s => [match sp_get (c, s_share s, s_filter s) sp with Some _ => true | None => false end]
      | _ => []
      end ++ expect_already (spec_step sp o) r
  end.

(* model side of the same observables *)
Fixpoint model_already (d : db) (ops : list op) : list bool :=
  match ops with
  | [] => []
  | o :: r =>
      match o with
      | OSub c s => [snd (db_subscribe c s d)]
      | _ => []
      end ++ model_already (db_step d o) r
  end.

Definition ires_eqb (a b : ires) : bool :=
  match a, b with
  | IOk x, IOk y => meq x y
  | IPanic, IPanic => true
  | _, _ => false
  end.

(* TopicMatch: on well-formed (topic name, filter) pairs it must decide MQTT 4.7 matching *)
From GM Require Import Model.TopicMatch.
Definition tm_ok (t f : str) (r : bool) : bool :=
  if valid_name_spec t && valid_filter_spec f then Bool.eqb r (topic_match t f) else true.
Definition tm_model (t f : str) : option bool := tm_impl t f.
