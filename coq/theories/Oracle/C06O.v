(* C06 oracles: evaluated on the IMPLEMENTATION's observables.  Also the observable types
   shared by model and implementation, the model's observables, and the kf_* predicates that
   name the known deviations of pkg/packets from the MQTT specifications. *)
From Coq Require Import List NArith Bool.
Import ListNotations.
From GM Require Import Base.Topic Base.Msg Model.TopicMatch Model.CodecBase Model.CodecProps Model.CodecPackets Model.CodecSpec.
Open Scope N_scope.

(* ---------------------------------------------------------------- equality on packet values *)
Definition opt_eqb {A} (e : A -> A -> bool) (a b : option A) : bool :=
  match a, b with Some x, Some y => e x y | None, None => true | _, _ => false end.
Definition pval_eqb (a b : pval) : bool :=
  match a, b with
  | PVByte x, PVByte y | PVU16 x, PVU16 y | PVU32 x, PVU32 y => x =? y
  | PVStr x, PVStr y => str_eqb x y
  | _, _ => false
  end.
Definition props_eqb (a b : props) : bool :=
  list_eqb (fun x y => (fst x =? fst y) && pval_eqb (snd x) (snd y)) (pr_single a) (pr_single b)
  && list_eqb N.eqb (pr_subid a) (pr_subid b)
  && list_eqb (fun x y => str_eqb (fst x) (fst y) && str_eqb (snd x) (snd y)) (pr_user a) (pr_user b).
Definition oprops_eqb := opt_eqb props_eqb.
Definition subtopic_eqb (a b : subtopic) : bool :=
  str_eqb (st_name a) (st_name b) && (st_qos a =? st_qos b) && (st_rh a =? st_rh b)
  && Bool.eqb (st_nl a) (st_nl b) && Bool.eqb (st_rap a) (st_rap b).
Definition connect_eqb (a b : connect) : bool :=
  (c_version a =? c_version b) && (c_level a =? c_level b) && Bool.eqb (c_uflag a) (c_uflag b)
  && str_eqb (c_pname a) (c_pname b) && Bool.eqb (c_pflag a) (c_pflag b) && Bool.eqb (c_wretain a) (c_wretain b)
  && (c_wqos a =? c_wqos b) && Bool.eqb (c_wflag a) (c_wflag b) && str_eqb (c_wtopic a) (c_wtopic b)
  && str_eqb (c_wmsg a) (c_wmsg b) && Bool.eqb (c_clean a) (c_clean b) && (c_keepalive a =? c_keepalive b)
  && str_eqb (c_cid a) (c_cid b) && str_eqb (c_user a) (c_user b) && str_eqb (c_pass a) (c_pass b)
  && oprops_eqb (c_props a) (c_props b) && oprops_eqb (c_wprops a) (c_wprops b).
Definition body_eqb (a b : body) : bool :=
  match a, b with
  | BConnect x, BConnect y => connect_eqb x y
  | BConnack v c s p, BConnack v' c' s' p' => (v =? v') && (c =? c') && Bool.eqb s s' && oprops_eqb p p'
  | BPublish v d q r t i pl p, BPublish v' d' q' r' t' i' pl' p' =>
      (v =? v') && Bool.eqb d d' && (q =? q') && Bool.eqb r r' && str_eqb t t' && (i =? i') && str_eqb pl pl' && oprops_eqb p p'
  | BAck t v i c p, BAck t' v' i' c' p' => (t =? t') && (v =? v') && (i =? i') && (c =? c') && oprops_eqb p p'
  | BPubrel i c p, BPubrel i' c' p' => (i =? i') && (c =? c') && oprops_eqb p p'
  | BSubscribe v i ts p, BSubscribe v' i' ts' p' => (v =? v') && (i =? i') && list_eqb subtopic_eqb ts ts' && oprops_eqb p p'
  | BSuback v i pl p, BSuback v' i' pl' p' => (v =? v') && (i =? i') && str_eqb pl pl' && oprops_eqb p p'
  | BUnsubscribe v i ts p, BUnsubscribe v' i' ts' p' => (v =? v') && (i =? i') && list_eqb str_eqb ts ts' && oprops_eqb p p'
  | BUnsuback v i pl p, BUnsuback v' i' pl' p' => (v =? v') && (i =? i') && str_eqb pl pl' && oprops_eqb p p'
  | BPingreq, BPingreq | BPingresp, BPingresp => true
  | BDisconnect v c p, BDisconnect v' c' p' => (v =? v') && (c =? c') && oprops_eqb p p'
  | BAuth c p, BAuth c' p' => (c =? c') && oprops_eqb p p'
  | _, _ => false
  end.

(* ---------------------------------------------------------------- observables *)
Inductive dec1 := D1Ok (p : packet) (consumed : N) | D1Err (e : err) | D1Panic | D1Fuel.
Inductive reenc := RtBytes (bs : list N) (tb2 : N) (d : dec1) | RtErr (e : err) | RtPanic | RtFuel.
Inductive step := StOk (p : packet) (consumed tb1 : N) (re : reenc) | StErr (e : err) | StPanic | StFuel.

Definition model_dec1 (v : N) (bs : list N) : dec1 :=
  match read_packet v bs with
  | Ok (p, rest) => D1Ok p (len bs - len rest)
  | Err e => D1Err e | Panic => D1Panic | OutOfFuel => D1Fuel
  end.
Definition model_reenc (v : N) (b : body) : reenc :=
  match pack_full b with
  | Ok (bs, fh) => RtBytes bs (total_bytes {| p_fh := Some fh; p_body := b |}) (model_dec1 v bs)
  | Err e => RtErr e | Panic => RtPanic | OutOfFuel => RtFuel
  end.
(* the harness reads up to `fuel` packets from one Reader and stops at the first error *)
Fixpoint model_stream (fuel : nat) (v : N) (bs : list N) : list step :=
  match fuel with
  | O => []
  | S k =>
      match read_packet v bs with
      | Ok (p, rest) =>
          StOk p (len bs - len rest) (total_bytes p) (model_reenc v (p_body p))
          :: model_stream k (next_version v (p_body p)) rest
      | Err e => [StErr e] | Panic => [StPanic] | OutOfFuel => [StFuel]
      end
  end.
Fixpoint model_stream_alloc (fuel : nat) (v : N) (bs : list N) : N :=
  match fuel with
  | O => 0
  | S k =>
      match read_packet_full v bs with
      | (Ok (p, rest), a) => a + model_stream_alloc k (next_version v (p_body p)) rest
      | (_, a) => a
      end
  end.

(* ---------------------------------------------------------------- decode oracle *)
(* number of bytes the Remaining Length field occupies in bs (after the first byte):
   continuation bytes, then one final byte *)
Fixpoint varint_span (b : list N) : N :=
  match b with
  | [] => 0
  | d :: r => if d <? 128 then 1 else 1 + varint_span r
  end.

Definition strs_of_props (p : option props) : list str :=
  match p with
  | None => []
  | Some p =>
      flat_map (fun e => match snd e with
                         | PVStr s => if (fst e =? 9) || (fst e =? 22) then [] else [s]   (* binary data *)
                         | _ => [] end) (pr_single p)
      ++ flat_map (fun kv => [fst kv; snd kv]) (pr_user p)
  end.
(* the UTF-8 Encoded String fields of a packet *)
Definition utf8_strs (b : body) : list str :=
  match b with
  | BConnect c => [c_cid c; c_wtopic c; c_user c] ++ strs_of_props (c_props c) ++ strs_of_props (c_wprops c)
  | BConnack _ _ _ p => strs_of_props p
  | BPublish _ _ _ _ t _ _ p => t :: strs_of_props p
  | BAck _ _ _ _ p | BPubrel _ _ p | BSuback _ _ _ p | BUnsuback _ _ _ p | BDisconnect _ _ p | BAuth _ p => strs_of_props p
  | BSubscribe _ _ ts p => map st_name ts ++ strs_of_props p
  | BUnsubscribe _ _ ts p => ts ++ strs_of_props p
  | BPingreq | BPingresp => []
  end.
Definition props_of (b : body) : list props :=
  let o (p : option props) := match p with Some x => [x] | None => [] end in
  match b with
  | BConnect c => o (c_props c) ++ o (c_wprops c)
  | BConnack _ _ _ p | BPublish _ _ _ _ _ _ _ p | BAck _ _ _ _ p | BPubrel _ _ p | BSubscribe _ _ _ p
  | BSuback _ _ _ p | BUnsubscribe _ _ _ p | BUnsuback _ _ _ p | BDisconnect _ _ p | BAuth _ p => o p
  | BPingreq | BPingresp => []
  end.

(* a receiver is ALLOWED to refuse this spec-valid packet: control characters in a string
   (1.5.4: "MAY"), or a PUBLISH carrying Subscription Identifiers sent to a server
   (3.3.4: only a server adds them) *)
Definition may_reject (b : body) : bool :=
  existsb has_ctl (utf8_strs b)
  || match b with BPublish _ _ _ _ _ _ _ (Some p) => negb (is_empty (pr_subid p)) | _ => false end.

Definition b_pos (x : N) : bool := 0 <? x.

(* one step of the stream, with the version and the input in front of that packet *)
Definition step_ok (v : N) (bs : list N) (s : step) : bool :=
  match s with
  | StPanic | StFuel => false
  | StErr e =>
      match spec_decode v bs with
      | SOk (sb, _) => may_reject sb                       (* every spec-valid packet is accepted *)
      | SBad _ => true
      end
  | StOk p consumed tb1 re =>
      (* accepted packets are spec-valid, with the field values the specification gives them *)
      match spec_decode v bs with
      | SOk (sb, srest) => body_eqb (p_body p) sb && (consumed =? len bs - len srest)
      | SBad _ => false
      end
      (* never reads past the declared packet length *)
      && match p_fh p with
         | Some h => (consumed <=? len bs) && (consumed <=? 1 + varint_span (tl bs) + fh_rl h)
         | None => false
         end
      (* reported size = bytes of the packet *)
      && (tb1 =? consumed)
      (* re-encoding decodes to an equal packet; its reported size is its length *)
      && match re with
         | RtBytes bs' tb2 (D1Ok p' c') => (tb2 =? len bs') && (c' =? len bs') && body_eqb (p_body p') (p_body p)
         | _ => false
         end
  end.

Fixpoint stream_ok (v : N) (bs : list N) (steps : list step) : bool :=
  match steps with
  | [] => true
  | s :: rest =>
      step_ok v bs s &&
      match s with
      | StOk p consumed _ _ => stream_ok (next_version v (p_body p)) (dropN consumed bs) rest
      | _ => true
      end
  end.

(* allocation in proportion to the bytes supplied *)
Definition alloc_ok (bs : list N) (alloc : N) : bool := alloc <=? 64 * len bs + 8192.

Definition c06_decode_ok (v : N) (bs : list N) (steps : list step) (alloc : N) : bool :=
  stream_ok v bs steps && alloc_ok bs alloc.

(* the model's allocation figure against the measured one: every make([]byte, RemainLength)
   shows up in TotalAlloc (rounded up to a size class / whole pages: at most a quarter more),
   everything else is small and proportional *)
Definition alloc_agree (bs : list N) (model_alloc impl_alloc : N) : bool :=
  (model_alloc <=? impl_alloc) && (impl_alloc <=? model_alloc + model_alloc / 4 + 64 * len bs + 16384).

(* ---------------------------------------------------------------- known deviations (decode cases) *)
(* case = protocol version of the reader and the bytes in front of the packet *)
Definition model_accepts (v : N) (bs : list N) : bool :=
  match read_packet v bs with Ok _ => true | _ => false end.
Definition model_body (v : N) (bs : list N) : option body :=
  match read_packet v bs with Ok (p, _) => Some (p_body p) | _ => None end.
Definition spec_reason (v : N) (bs : list N) : option sreason :=
  match spec_decode v bs with SBad r => Some r | SOk _ => None end.
Definition sreason_eqb (a b : sreason) : bool :=
  match a, b with
  | SIncomplete, SIncomplete | SVarint, SVarint | SVarintNonMinimal, SVarintNonMinimal | SReservedType, SReservedType
  | SFlags, SFlags | STrailing, STrailing | SShort, SShort | SUtf8, SUtf8 | STopicName, STopicName
  | STopicFilter, STopicFilter | SProtoName, SProtoName | SProtoLevel, SProtoLevel | SConnectFlags, SConnectFlags
  | SClientId, SClientId | SPacketId, SPacketId | SQos, SQos | SSubOpts, SSubOpts | SRetainHandling, SRetainHandling
  | SNoLocalShared, SNoLocalShared | SPropUnknown, SPropUnknown | SPropNotAllowed, SPropNotAllowed | SPropDup, SPropDup
  | SPropValue, SPropValue | SPropLen, SPropLen | SAuthData, SAuthData | SNoTopics, SNoTopics | SNoCodes, SNoCodes
  | SEmptyTopicNoAlias, SEmptyTopicNoAlias | SConnackFlags, SConnackFlags => true
  | _, _ => false
  end.
Definition accepted_despite (r : sreason) (v : N) (bs : list N) : bool :=
  model_accepts v bs && match spec_reason v bs with Some r' => sreason_eqb r r' | None => false end.
Definition ptype_of (bs : list N) : N := match bs with f :: _ => f / 16 | [] => 0 end.
Definition pflags_of (bs : list N) : N := match bs with f :: _ => f mod 16 | [] => 0 end.

(* AUTH (type 15) accepted on a 3.1 / 3.1.1 connection (pinned by TestReadWriteAuthPacket) *)
Definition kf_auth_v3 (v : N) (bs : list N) : bool := (ptype_of bs =? AUTH) && accepted_despite SReservedType v bs.
(* a PUBREL longer than two bytes on a 3.1 / 3.1.1 connection is parsed in the MQTT 5 form
   (Pubrel carries no protocol version; pinned by TestReadWritePubrelPacket) *)
Definition kf_pubrel_v3 (v : N) (bs : list N) : bool :=
  (ptype_of bs =? PUBREL) && negb (v =? 5) && accepted_despite STrailing v bs.

(* ---------------------------------------------------------------- encode oracle (suite cenc) *)
(* b: the packet value handed to Pack; r: what the implementation produced *)
Definition c06_encode_ok (v : N) (b : body) (r : reenc) : bool :=
  negb (wf_packet b) ||
  match r with
  | RtBytes bs tb (D1Ok p' c') =>
      (tb =? len bs) && (c' =? len bs) && body_eqb (p_body p') b
      && match spec_decode v bs with SOk (sb, []) => body_eqb sb b | _ => false end
  | RtBytes bs tb _ =>
      (* its own decoder may refuse what a server never receives *)
      may_reject b && (tb =? len bs) && match spec_decode v bs with SOk (sb, []) => body_eqb sb b | _ => false end
  | _ => false
  end.
(* ---------------------------------------------------------------- topic predicates (suite ctopic) *)
Inductive tbool := TB (b : bool) | TBPanic.
Definition tb_of (r : res bool) : tbool := match r with Ok b => TB b | _ => TBPanic end.
Record topic_obs := { to_utf8 : tbool; to_name1 : tbool; to_name0 : tbool; to_filter1 : tbool; to_filter0 : tbool; to_v5 : tbool }.
Definition model_topic_obs (s : str) : topic_obs :=
  {| to_utf8 := tb_of (valid_utf8_impl s); to_name1 := tb_of (valid_topic_name_impl true s);
     to_name0 := tb_of (valid_topic_name_impl false s); to_filter1 := tb_of (valid_topic_filter_impl true s);
     to_filter0 := tb_of (valid_topic_filter_impl false s); to_v5 := tb_of (valid_v5_topic_impl s) |}.
Definition tbool_eqb (a b : tbool) : bool :=
  match a, b with TB x, TB y => Bool.eqb x y | TBPanic, TBPanic => true | _, _ => false end.
Definition topic_obs_eqb (a b : topic_obs) : bool :=
  tbool_eqb (to_utf8 a) (to_utf8 b) && tbool_eqb (to_name1 a) (to_name1 b) && tbool_eqb (to_name0 a) (to_name0 b)
  && tbool_eqb (to_filter1 a) (to_filter1 b) && tbool_eqb (to_filter0 a) (to_filter0 b) && tbool_eqb (to_v5 a) (to_v5 b).
Definition tb_is (a : tbool) (b : bool) : bool := match a with TB x => Bool.eqb x b | TBPanic => false end.

(* ValidUTF8: must accept exactly the well-formed strings without U+0000, except that it may
   refuse control characters *)
Definition utf8_verdict_ok (s : str) (a : tbool) : bool :=
  match a with
  | TB true => spec_utf8 s
  | TB false => negb (spec_utf8 s) || has_ctl s
  | TBPanic => false
  end.
(* [MQTT-4.7.3-2]: no null character, also when the UTF-8 check is not requested *)
Definition no_nul (s : str) : bool := negb (existsb (N.eqb 0) s).
Definition c06_topic_ok (s : str) (o : topic_obs) : bool :=
  utf8_verdict_ok s (to_utf8 o)
  && tb_is (to_name1 o) (spec_topic_name s) && tb_is (to_name0 o) (valid_name_spec s && no_nul s)
  && tb_is (to_filter1 o) (spec_topic_filter s) && tb_is (to_filter0 o) (valid_filter_spec s && no_nul s)
  && tb_is (to_v5 o) (spec_v5_filter s).

(* ---------------------------------------------------------------- Message sizes (suite cmsg) *)
(* tb: Message.TotalBytes(v); r: Pack of MessageToPublish (bytes, TotalBytes after Pack) *)
Definition c06_msg_ok (v : N) (m : msg) (tb : N) (r : reenc) : bool :=
  match r with
  | RtBytes bs tb2 _ => (tb =? len bs) && (tb2 =? len bs)
  | _ => false
  end.
Definition model_msg_obs (v : N) (m : msg) : N * body * reenc :=
  let b := message_to_publish m v in
  (msg_total_bytes (v =? 5) m, b,
   match pack_full b with
   | Ok (bs, fh) => RtBytes bs (total_bytes {| p_fh := Some fh; p_body := b |}) D1Fuel
   | Err e => RtErr e | Panic => RtPanic | OutOfFuel => RtFuel
   end).
