(* Executable oracle for the retained-message store (C07), from the flat spec topic -> msg. *)
From Coq Require Import List NArith Bool.
Import ListNotations.
From GM Require Import Base.Topic Base.Msg Model.SubTrie Model.RetTrie Model.TopicMatch.

Fixpoint mremove1 (x : msg) (l : list msg) : option (list msg) :=
  match l with
  | [] => None
  | y :: r => if msg_eqb x y then Some r
              else match mremove1 x r with Some r' => Some (y :: r') | None => None end
  end.
Fixpoint mmsub (a b : list msg) : bool :=
  match a with
  | [] => true
  | x :: a' => match mremove1 x b with Some b' => mmsub a' b' | None => false end
  end.
Definition mmeq (a b : list msg) : bool := mmsub a b && mmsub b a.

Inductive rquery := QMatched (f : str) | QGet (t : str) | QAll.

Definition rmodel_answer (d : rdb) (q : rquery) : list msg :=
  match q with
  | QMatched f => rdb_matched f d
  | QGet t => opt_list (rdb_get t d)
  | QAll => rdb_all d
  end.

(* None: the property does not speak about this query (malformed filter) *)
Definition rspec_answer (sp : rspec) (q : rquery) : option (list msg) :=
  match q with
  | QMatched f =>
      if valid_filter_spec f then Some (map snd (filter (fun e => topic_match (fst e) f) sp)) else None
  | QGet t => Some (opt_list (aget t sp))
  | QAll => Some (map snd sp)
  end.

Definition c07_store_ok (sp : rspec) (q : rquery) (got : list msg) : bool :=
  match rspec_answer sp q with Some want => mmeq want got | None => true end.
