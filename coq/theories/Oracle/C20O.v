(* Oracle of property C20 - GROUND TRUTH of the statistics, written from the statement (not from
   server/stats.go): from a log of what actually happened compute what the statistics must show.

   The log (c20_gevent) says, per client id:
     C20Recv / C20Sent     a packet of type t (QoS q if it is a PUBLISH) and size sz was read from /
                           written to one of the client's connections
     C20RecvOverQuota      a PUBLISH was read that exceeded the server's Receive Maximum (the broker answers
                           DISCONNECT 0x93); for the truth a PUBLISH packet like any other
     C20Dropped            a message of QoS q queued for the client was dropped for reason k
     C20Queue / C20Inflight the client's session queue grew / shrank by dq entries, of which di in flight
     C20Connected          a connection of the client was accepted and a session created / resumed
     C20Disconnected       the connection ended; the session was kept (offline) or ended with it
     C20Ended              an offline session ended (expired, terminated, replaced by a clean start)
   Truth:
     per client (since the creation of its current session): packets and bytes per type and direction,
       messages received / sent per QoS = the PUBLISH packets in the log, dropped per QoS and reason,
       queued / in-flight = the queue's contents;
     global counters = the sum over the live sessions + the final values of the ended ones;
     global gauges = the sum over the live sessions; Active / Inactive = number of online / offline
       sessions; the connection counters count the events.
   The view compared is `sts_view` of Model/Stats.v (same field names).  `c20_calls` is the reporting
   discipline of the broker (which statsManager methods it calls when one of these things happens):
   Proofs/StatsP.v proves what `sts_run (flat_map c20_calls log)` and `c20_truth log` agree on. *)
From Coq Require Import List NArith ZArith Bool.
Import ListNotations.
From GM Require Import Model.Stats.
Open Scope N_scope.

Inductive c20_gevent :=
  | C20Recv (c : N) (t : sts_ptype) (q : sts_qos) (sz : N)
  | C20Sent (c : N) (t : sts_ptype) (q : sts_qos) (sz : N)
  | C20RecvOverQuota (c : N) (q : sts_qos) (sz : N)
  | C20Dropped (c : N) (q : sts_qos) (k : sts_dropk)
  | C20Queue (c : N) (dq : Z)
  | C20Inflight (c : N) (di : Z)
  | C20Connected (c : N) (created : bool)
  | C20Disconnected (c : N) (kept : bool)
  | C20Ended (c : N) (r : sts_reason).

(* a gauge of the truth is a natural number: contents of a queue *)
Definition c20_gauge_add (v : sts_vec) (k : sts_ctr) (d : Z) : sts_vec :=
  fun k' => if sts_ctr_eq_dec k k' then Z.to_N (Z.of_N (v k') + d) else v k'.

Fixpoint c20_remove (c : N) (l : list N) : list N :=
  match l with [] => [] | x :: r => if c =? x then c20_remove c r else x :: c20_remove c r end.

Record c20_state := {
  c20_live : sts_tab;            (* per client of a live session *)
  c20_ended : sts_vec;           (* final values of the ended sessions, summed *)
  c20_cnt : sts_cvec;            (* connection counters *)
  c20_online : list N;
  c20_offline : list N
}.
Definition c20_init : c20_state :=
  {| c20_live := []; c20_ended := sts_zero; c20_cnt := sts_czero; c20_online := []; c20_offline := [] |}.

Definition c20_pkt (v : sts_vec) (d : sts_dir) (t : sts_ptype) (q : sts_qos) (sz : N) : sts_vec :=
  let v' := sts_packet_add v d t sz in
  match t with
  | StsPublish => sts_add v' (match d with StsRx => StsMsgRecv q | StsTx => StsMsgSent q end) 1
  | _ => v'
  end.

Definition c20_on_client (s : c20_state) (c : N) (f : sts_vec -> sts_vec) : c20_state :=
  {| c20_live := sts_upd c f (c20_live s); c20_ended := c20_ended s; c20_cnt := c20_cnt s;
     c20_online := c20_online s; c20_offline := c20_offline s |}.

(* the session of c ends: its entry becomes a final value *)
Definition c20_end_session (s : c20_state) (c : N) (cnt : sts_cvec) (on off : list N) : c20_state :=
  {| c20_live := sts_del c (c20_live s);
     c20_ended := (fun k => c20_ended s k + sts_val c (c20_live s) k);
     c20_cnt := cnt; c20_online := on; c20_offline := off |}.

Definition c20_step (s : c20_state) (e : c20_gevent) : c20_state :=
  match e with
  | C20Recv c t q sz => c20_on_client s c (fun v => c20_pkt v StsRx t q sz)
  | C20Sent c t q sz => c20_on_client s c (fun v => c20_pkt v StsTx t q sz)
  | C20RecvOverQuota c q sz => c20_on_client s c (fun v => c20_pkt v StsRx StsPublish q sz)
  | C20Dropped c q k => c20_on_client s c (fun v => sts_add v (StsDropped q k) 1)
  | C20Queue c dq => c20_on_client s c (fun v => c20_gauge_add v StsQueued dq)
  | C20Inflight c di => c20_on_client s c (fun v => c20_gauge_add v StsInflight di)
  | C20Connected c created =>
      {| c20_live := c20_live s; c20_ended := c20_ended s;
         c20_cnt := (let v := sts_cadd (c20_cnt s) StsConnectedTotal 1 in if created then sts_cadd v StsCreatedTotal 1 else v);
         c20_online := c :: c20_remove c (c20_online s); c20_offline := c20_remove c (c20_offline s) |}
  | C20Disconnected c kept =>
      let cnt := sts_cadd (c20_cnt s) StsDisconnectedTotal 1 in
      if kept then
        {| c20_live := c20_live s; c20_ended := c20_ended s; c20_cnt := cnt;
           c20_online := c20_remove c (c20_online s); c20_offline := c :: c20_remove c (c20_offline s) |}
      else c20_end_session s c (sts_cadd cnt StsTermNormal 1) (c20_remove c (c20_online s)) (c20_remove c (c20_offline s))
  | C20Ended c r =>
      c20_end_session s c (sts_cadd (c20_cnt s) (sts_term_ctr r) 1) (c20_remove c (c20_online s)) (c20_remove c (c20_offline s))
  end.

Definition c20_is_gauge (k : sts_ctr) : bool := match k with StsInflight | StsQueued => true | _ => false end.

Definition c20_view (s : c20_state) : sts_view :=
  {| stv_glob := (fun k => if c20_is_gauge k then sts_sum (c20_live s) k else sts_sum (c20_live s) k + c20_ended s k);
     stv_conn := (fun k => match k with
                          | StsActive => N.of_nat (length (c20_online s))
                          | StsInactive => N.of_nat (length (c20_offline s))
                          | _ => c20_cnt s k end);
     stv_clients := c20_live s |}.

Definition c20_run (log : list c20_gevent) : c20_state := fold_left c20_step log c20_init.
Definition c20_truth (log : list c20_gevent) : sts_view := c20_view (c20_run log).

(* ---- how the broker reports these happenings to the statsManager ---- *)
Definition c20_calls (e : c20_gevent) : list sts_event :=
  match e with
  | C20Recv c t q sz => (match t with StsPublish => [StsMessageReceived q c] | _ => [] end) ++ [StsPacketReceived t sz c]
  | C20Sent c t q sz => (match t with StsPublish => [StsMessageSent q c] | _ => [] end) ++ [StsPacketSent t sz c]
  (* readLoop: messageReceived, the quota check fails, packetReceived is called before the loop returns (af01428) *)
  | C20RecvOverQuota c q sz => [StsMessageReceived q c; StsPacketReceived StsPublish sz c]
  | C20Dropped c q k => sts_notify_dropped c q k
  | C20Queue c dq => sts_notify_queue c dq
  | C20Inflight c di => sts_notify_inflight c di
  | C20Connected c created => [StsClientConnected c; StsSessionActive created c]
  | C20Disconnected c kept => (if kept then [] else [StsSessionTerminated c StsRNormal]) ++ [StsClientDisconnected c]
  | C20Ended c r => [StsSessionTerminated c r]
  end.
Definition c20_model (log : list c20_gevent) : sts_view := sts_view_of (sts_run (flat_map c20_calls log)).

(* ---- the boolean oracle: the fields an observer can see ---- *)
(* PINGREQ / PINGRESP are not observable (the test runner pings for its barrier and removes them) *)
Definition c20_obs_ctr (k : sts_ctr) : bool :=
  match k with
  | StsBytes _ StsPingreq | StsBytes _ StsPingresp | StsCount _ StsPingreq | StsCount _ StsPingresp => false
  | _ => true
  end.
Definition c20_obs_ctrs : list sts_ctr := filter c20_obs_ctr sts_all_ctrs.

Definition c20_vec_eqb (a b : sts_vec) : bool := forallb (fun k => a k =? b k) c20_obs_ctrs.
Definition c20_cvec_eqb (a b : sts_cvec) : bool := forallb (fun k => a k =? b k) sts_all_cctrs.
Definition c20_client_eqb (c : N) (a b : sts_view) : bool :=
  match sts_get c (stv_clients a), sts_get c (stv_clients b) with
  | None, None => true
  | Some x, Some y => c20_vec_eqb x y
  | _, _ => false
  end.
(* cids: the client ids used by the scenario *)
Definition c20_ok (cids : list N) (impl truth : sts_view) : bool :=
  c20_vec_eqb (stv_glob impl) (stv_glob truth) && c20_cvec_eqb (stv_conn impl) (stv_conn truth) &&
  forallb (fun c => c20_client_eqb c impl truth) cids.

(* ---- classification of the known deviations ---- *)
(* All five deviations once classified here (per-client QoS counters, Auth fields of the copy, global in-flight +1,
   gauge leak at termination, over-quota PUBLISH) were repaired in /repo (8f7d148 0565bc2 340ed8d 0045008 af01428); their
   witnesses are in corpus/C20/fixed.sx.  The machinery stays: a difference at (scope, field) is reported under the
   name c20_class gives it, C20KfNone = plain violation. *)
Inductive c20_kf := C20KfNone | C20KfOpen (id : N).      (* id: number of an open known finding; none is open today *)
(* where a difference was found: None = global block *)
Definition c20_class (scope : option N) (k : sts_ctr) : c20_kf := C20KfNone.
(* the differing fields of one block *)
Definition c20_vec_diff (a b : sts_vec) : list sts_ctr := filter (fun k => negb (a k =? b k)) c20_obs_ctrs.
Definition c20_cvec_diff (a b : sts_cvec) : list sts_cctr := filter (fun k => negb (a k =? b k)) sts_all_cctrs.

(* signed reading of a gauge: a value >= 2^63 has wrapped below zero *)
Definition c20_signed (x : N) : Z := if x <? 9223372036854775808 then Z.of_N x else (Z.of_N x - Z.of_N sts_M64)%Z.
Definition c20_wrapped (x : N) : bool := negb (x <? 9223372036854775808).
Definition c20_gauges_wrapped (v : sts_view) : bool :=
  c20_wrapped (stv_glob v StsInflight) || c20_wrapped (stv_glob v StsQueued) ||
  c20_wrapped (stv_conn v StsActive) || c20_wrapped (stv_conn v StsInactive) ||
  existsb (fun e => c20_wrapped (snd e StsInflight) || c20_wrapped (snd e StsQueued)) (stv_clients v).
