(* C19 oracle, written from the statement (not from the code):

     a CONNECT is accepted iff its user name is a stored account and its password matches
     that account's stored hash under the configured algorithm; an account created,
     changed or deleted through the account API takes effect for the next CONNECT and is
     what a restarted broker loads.

   The accounts of the statement are an abstract map [amap] (an association list read by
   first match; set = cons over the filtered list, delete = filter - nothing of the row
   order of the implementation).  [o_step] accepts exactly the answers the statement allows
   for one operation and advances the abstract map; it is evaluated on the observables of
   the implementation by the check, and the model is proved to satisfy it (Proofs/AuthP.v)
   for every history.  The one open known finding, [kf_authmethod_present], concerns the
   CONNECT path of the broker ([c19_connect_ok]).
   The only environment fault the oracle knows is an operation of the case itself: OBreak
   makes the directory of the password file unavailable - then a restart cannot load and
   there is no file to read (both must be reported as such), and API calls may fail, with
   no effect. *)
From Coq Require Import List NArith Bool Arith.
Import ListNotations.
From GM Require Import Base.Topic Model.Auth.
Open Scope N_scope.

Definition amap := list account.
Definition am_del (u : str) (m : amap) : amap := filter (fun a => negb (str_eqb u (fst a))) m.
Definition am_set (u h : str) (m : amap) : amap := (u, h) :: am_del u m.

Definition acc_eqb (a b : account) : bool := str_eqb (fst a) (fst b) && str_eqb (snd a) (snd b).
Definition acc_in (a : account) (l : list account) : bool := existsb (acc_eqb a) l.
Fixpoint nodup_keys (l : list account) : bool :=
  match l with [] => true | (u, _) :: r => negb (au_mem u (map fst r)) && nodup_keys r end.
Definition no_empty_key (l : list account) : bool := forallb (fun a => negb (is_empty (fst a))) l.

(* an observed listing denotes the same accounts as the abstract map *)
Definition same_accounts (l : list account) (m : amap) : bool :=
  nodup_keys l && forallb (fun a => acc_in a m) l && forallb (fun a => acc_in a l) m.

Definition is_ok (r : authres) : bool := match r with HkOk => true | HkErr _ => false end.

Section Oracle.
  Variable H : halg -> str -> str.
  Variable bverify : str -> str -> bool.

  (* "its user name is a stored account and its password matches that account's hash" *)
  Definition cred_ok (a : halg) (m : amap) (u p : str) : bool :=
    match t_get u m with Some h => au_matches H bverify a h p | None => false end.

  Definition o_step (a : halg) (avail : bool) (m : amap) (o : aop) (x : aout) : option amap :=
    match o, x with
    (* a successful Update stores a value that the given password matches *)
    | OUpdate u p g, XOk =>
        if is_empty u then None
        else match gen_password H a p g with
             | Some h => if au_matches H bverify a h p then Some (am_set u h m) else None
             | None => None
             end
    | OUpdate u _ _, XInvalid => if is_empty u then Some m else None
    | OUpdate _ _ _, XErr => Some m                       (* reported failure: no effect *)
    | ODelete u, XOk => if is_empty u then None else Some (am_del u m)
    | ODelete u, XInvalid => if is_empty u then Some m else None
    | ODelete _, XErr => Some m
    | OGet u, XInvalid => if is_empty u then Some m else None
    | OGet u, XAccount h =>
        match t_get u m with Some h' => if str_eqb h h' then Some m else None | None => None end
    | OGet u, XNotFound => match t_get u m with None => Some m | Some _ => None end
    | OList page size, XList l _ =>
        let sz := if size =? 0 then 20 else size in
        if nodup_keys l && forallb (fun acc => acc_in acc m) l
           && (N.of_nat (length l) <=? sz)
           && (if (page <=? 1) && (N.of_nat (length l) <? sz) then forallb (fun acc => acc_in acc l) m else true)
        then Some m else None
    | OChdir _, XOk => Some m
    | OBreak _, XOk => Some m
    | OValidate u p, XBool b => if Bool.eqb b (cred_ok a m u p) then Some m else None
    (* composed with an earlier hook: accepted iff the earlier hook accepts and the
       credentials are those of an account *)
    | OAuth pre _ c, XAuth r =>
        if Bool.eqb (is_ok r) (is_ok pre && cred_ok a m (ac_username c) (ac_password c)) then Some m else None
    (* what a restarted broker loads, and the document it would load it from *)
    | OReload, XLoaded (Some l) => if avail && same_accounts l m then Some m else None
    | OReload, XLoaded None => if avail then None else Some m
    | OFile, XFile (Some d) => if avail && same_accounts d m then Some m else None
    | OFile, XFile None => if avail then None else Some m
    | _, _ => None
    end.

  Definition o_avail (avail : bool) (o : aop) : bool :=
    match o with OBreak b => negb b | _ => avail end.

  Fixpoint o_run (a : halg) (avail : bool) (m : amap) (ops : list aop) (outs : list aout) : bool :=
    match ops, outs with
    | [], [] => true
    | o :: ops', x :: outs' =>
        match o_step a avail m o x with
        | Some m' => o_run a (o_avail avail o) m' ops' outs'
        | None => false
        end
    | _, _ => false
    end.

  (* a password file the statement can speak about: distinct, non-empty user names *)
  Definition file_wf (d : pwfile) : bool := nodup_keys d && no_empty_key d.

  (* outs = None: the plugin refused to load *)
  Definition c19_ok (c : acfg) (init : option pwfile) (ops : list aop) (outs : option (list aout)) : bool :=
    match init with
    | None => match outs with Some l => o_run (a_alg c) true [] ops l | None => false end
    | Some d =>
        if file_wf d
        then match outs with Some l => o_run (a_alg c) true d ops l | None => false end
        else match outs with None => true | Some _ => false end       (* fail closed *)
    end.

  (* CONNECT over the wire, broker with this plugin only: [code] = None is CONNACK(success).
     For a CONNECT the broker can otherwise serve: version 3, 4 or 5 and a client id. *)
  Definition connect_servable (allow_zero : bool) (c : aconnect) : bool :=
    (au_v3x (ac_version c) || au_v5 (ac_version c)) && (allow_zero || negb (is_empty (ac_cid c))).

  Definition c19_connect_ok (a : halg) (m : amap) (c : aconnect) (code : option N) : bool :=
    Bool.eqb (match code with None => true | Some _ => false end)
             (cred_ok a m (ac_username c) (ac_password c)).

  (* the oracle-resolved choice: every hash bcrypt.GenerateFromPassword produced during the
     run verifies the password it was generated from (checked on the table of the case) *)
  Definition gen_sound (a : halg) (ops : list aop) : bool :=
    match a with
    | Bcrypt => forallb (fun o => match o with OUpdate _ p (Some h) => bverify h p | _ => true end) ops
    | _ => true
    end.

  (* the protocol levels the packet decoder lets through *)
  Definition known_version (v : N) : bool := au_v3x v || au_v5 v.

  (* ---- known findings (open) ---- *)
  (* repaired, hence no longer here: kf_pwfile_cwd (54a09b0), kf_unknown_version (bb4907e);
     their witnesses are corpus/C19/fixed.sx and the Examples C19_fixed_* *)

  (* a v5 CONNECT carrying an Authentication Method is never offered to the basic hook; with
     no enhanced-auth hook installed it is refused whatever its user name and password *)
  Definition kf_authmethod_present (c : aconnect) : bool :=
    au_v5 (ac_version c) && match ac_authmethod c with Some _ => true | None => false end.
End Oracle.
