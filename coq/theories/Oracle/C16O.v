(* Executable oracle for C16 (federation event stream: ordered, at-least-once, applied once),
   written from the property statement and evaluated on the observables of one run of the
   schedule - the implementation's observables in the differential check, the model's in
   Proofs/FedP.v.

   An event is identified by (epoch, id): the epoch counts how often A's queue for B started
   from scratch (new peer, clean start), the id is the one the queue assigned.  *)
From Coq Require Import List NArith Bool.
Import ListNotations.
From GM Require Import Base.Topic Base.Msg Model.SubTrie Model.FedQueue.
Open Scope N_scope.

(* what is observed at one step of the schedule *)
Record sobs := {
  o_emit : list (N * fevent);      (* events appended to A's queue for B at this step, with their ids *)
  o_reset : bool;                 (* the queue for B started from scratch at this step *)
  o_app : list (N * N * bool);    (* events B's stream loop handled: (epoch, id, suppressed as duplicate) *)
  o_pubs : list msg;              (* messages B published locally at this step *)
  o_view : list str;              (* B's view of A's subscriptions after the step (full topic names) *)
  o_local : list str;             (* A's local topic set after the step *)
  o_up : bool;                    (* the stream is established *)
  o_idle : bool }.                (* ... and nothing is unread, in flight or un-acknowledged *)

Definition tag_eqb (ep id : N) (t : tagged) : bool := (fst (fst t) =? ep) && (snd (fst t) =? id).

Fixpoint find_tagged (ep id : N) (l : list tagged) : option fevent :=
  match l with
  | [] => None
  | t :: r => if tag_eqb ep id t then Some (snd t) else find_tagged ep id r
  end.

Definition count_epoch (ep : N) (l : list tagged) : N :=
  N.of_nat (length (filter (fun t : tagged => fst (fst t) =? ep) l)).

Definition last_epoch (l : list tagged) : N :=
  match rev l with t :: _ => fst (fst t) | [] => 0 end.

(* oracle state: current epoch of A's queue, everything emitted / applied so far, whether
   something happened since the last fresh queue that makes B lose A's session *)
Record ost := { os_epoch : N; os_emitted : list tagged; os_applied : list tagged; os_cause : bool }.

Definition ost_init : ost := {| os_epoch := 0; os_emitted := []; os_applied := []; os_cause := false |}.

(* the deliveries of one step: every event that is applied (not suppressed) must be the
   next unapplied event of its epoch, must have been emitted with that identity, and must
   not belong to an older epoch than an event applied before *)
Fixpoint apply_ok (em ap : list tagged) (ds : list (N * N * bool)) : option (list tagged) :=
  match ds with
  | [] => Some ap
  | (ep, id, dup) :: r =>
      if dup then apply_ok em ap r
      else
        match find_tagged ep id em with
        | None => None
        | Some e =>
            if (id =? count_epoch ep ap) && (last_epoch ap <=? ep)
            then apply_ok em (ap ++ [(ep, id, e)]) r
            else None
        end
  end.

Definition msgs_of (l : list tagged) : list msg :=
  flat_map (fun t : tagged => match snd t with EMsg m => [m] | _ => [] end) l.

Definition is_fault_free_cause (ev : fqev) : bool :=
  match ev with QPeerLost | QDropPeer | QJoinPeer => true | _ => false end.

(* one step: (new state, ok) *)
Definition ostep (s : ost) (ev : fqev) (o : sobs) : ost * bool :=
  let cause := os_cause s || is_fault_free_cause ev in
  (* a clean start throws the queue away: allowed only when the session was lost *)
  let reset_ok := negb (o_reset o) || cause in
  let ep := if o_reset o then os_epoch s + 1 else os_epoch s in
  let cause' := if o_reset o then (match ev with QJoinPeer => true | _ => false end) else cause in
  let em := os_emitted s ++ map (fun ie => (ep, fst ie, snd ie)) (o_emit o) in
  match apply_ok em (os_applied s) (o_app o) with
  | None => ({| os_epoch := ep; os_emitted := em; os_applied := os_applied s; os_cause := cause' |}, false)
  | Some ap =>
      let newly := skipn (length (os_applied s)) ap in
      ({| os_epoch := ep; os_emitted := em; os_applied := ap; os_cause := cause' |},
       reset_ok && list_eqb msg_eqb (o_pubs o) (msgs_of newly))
  end.

Fixpoint orun (s : ost) (evs : list fqev) (obs : list sobs) : ost * bool :=
  match evs, obs with
  | ev :: r, o :: r' =>
      let '(s', ok) := ostep s ev o in
      let '(s'', ok') := orun s' r r' in (s'', ok && ok')
  | _, _ => (s, true)
  end.

Definition subset_str (a b : list str) : bool := forallb (fun x => mem_str x b) a.
Definition same_set (a b : list str) : bool := subset_str a b && subset_str b a.

(* the schedule ends with: both nodes know each other, a successful handshake, both loops
   run until idle - the fault-free suffix of the statement *)
Definition EPILOGUE : list fqev := [QPeerJoin; QJoinPeer; QReconnect HsOk; QDrain].

Definition fqev_eqb (a b : fqev) : bool :=
  match a, b with
  | QPeerJoin, QPeerJoin | QJoinPeer, QJoinPeer | QDrain, QDrain => true
  | QReconnect HsOk, QReconnect HsOk => true
  | _, _ => false
  end.

Definition ends_stable (evs : list fqev) : bool :=
  let n := length evs in
  Nat.leb 4 n && list_eqb fqev_eqb (skipn (Nat.sub n 4) evs) EPILOGUE.

(* after the fault-free suffix: every event of the current epoch has been applied and B's
   view equals A's local subscription set *)
Definition final_ok (s : ost) (o : sobs) : bool :=
  o_up o && o_idle o &&
  (count_epoch (os_epoch s) (os_applied s) =? count_epoch (os_epoch s) (os_emitted s)) &&
  same_set (o_view o) (o_local o).

Definition c16_ok (evs : list fqev) (obs : list sobs) : bool :=
  Nat.eqb (length evs) (length obs) &&
  let '(s, ok) := orun ost_init evs obs in
  ok && (if ends_stable evs then match rev obs with o :: _ => final_ok s o | [] => false end else true).

(* the two parts separately (for classification of failures) *)
Definition c16_safety_ok (evs : list fqev) (obs : list sobs) : bool := snd (orun ost_init evs obs).

(* ---------- observables of the model ---------- *)
Definition newly_emitted (s s' : fstate) : list (N * fevent) :=
  map (fun t : tagged => (snd (fst t), snd t)) (skipn (length (emitted s)) (emitted s')).

Definition fq_model_obs (s s' : fstate) : sobs :=
  {| o_emit := newly_emitted s s';
     o_reset := negb (a_epoch s =? a_epoch s');
     o_app := skipn (length (handled s)) (handled s');
     o_pubs := skipn (length (published s)) (published s');
     o_view := match view_of (fb_fed s') with Some v => v | None => [] end;
     o_local := local_of s';
     o_up := st_up s'; o_idle := fq_idle s' |}.

(* ---------- known findings ---------- *)

(* F-C16-1: a Hello whose reply is lost while B creates a fresh session for A.  B has
   wiped its view and expects a full resynchronisation; A never learns it: the retried
   Hello carries the same session id, B answers "resume at 0", A keeps its old queue. *)
Record kst := { k_apeer : bool; k_bpeer : bool; k_match : bool }.
Definition kstep (k : kst) (ev : fqev) : kst * bool :=
  match ev with
  | QJoinPeer => if k_apeer k then (k, false) else ({| k_apeer := true; k_bpeer := k_bpeer k; k_match := false |}, false)
  | QDropPeer => ({| k_apeer := false; k_bpeer := k_bpeer k; k_match := false |}, false)
  | QPeerLost => if k_bpeer k then ({| k_apeer := k_apeer k; k_bpeer := false; k_match := false |}, false) else (k, false)
  | QPeerJoin => ({| k_apeer := k_apeer k; k_bpeer := true; k_match := k_match k |}, false)
  | QReconnect m =>
      match m with
      | HsLostReq => (k, false)
      | _ =>
          if k_apeer k && k_bpeer k then
            ({| k_apeer := true; k_bpeer := true; k_match := true |},
             negb (k_match k) && match m with HsLostResp => true | _ => false end)
          else (k, false)
      end
  | _ => (k, false)
  end.
Fixpoint kscan (k : kst) (evs : list fqev) : bool :=
  match evs with
  | [] => false
  | ev :: r => let '(k', hit) := kstep k ev in hit || kscan k' r
  end.
Definition kf_hello_reply_lost (evs : list fqev) : bool :=
  kscan {| k_apeer := false; k_bpeer := false; k_match := false |} evs.

(* F-C16-2: an event that cannot be marshalled (CorrelationData is a proto3 string): Send
   fails, the stream is re-established, the same event is sent again - for ever. *)
Definition fqev_unmarshallable (ev : fqev) : bool :=
  match ev with
  | QSub _ g f =>
      (* the Subscribe event, the Unsubscribe event of the full topic name, and the
         Subscribe event a resynchronisation derives from the full topic name *)
      negb (marshal_ok (ESub g f)) || negb (utf8_valid (fed_full_topic g f)) ||
      negb (marshal_ok (ESub (fst (split_topic (fed_full_topic g f))) (snd (split_topic (fed_full_topic g f)))))
  | QUnsub _ t => negb (marshal_ok (EUnsub t))
  | QMsg m => negb (marshal_ok (EMsg m))
  | _ => false
  end.
Definition kf_event_not_utf8 (ret : list msg) (evs : list fqev) : bool :=
  existsb (fun m => negb (marshal_ok (EMsg m))) ret || existsb fqev_unmarshallable evs.
