(* gmqtt.Message (message.go) *)
From Coq Require Import List NArith Bool.
Import ListNotations.
From GM Require Import Base.Topic.
Open Scope N_scope.

Record msg := {
  m_dup : bool; m_qos : N; m_retained : bool; m_topic : str; m_payload : str; m_pid : N;
  m_ctype : str; m_corr : str; m_expiry : N; m_pfmt : N; m_resp : str;
  m_subids : list N; m_uprops : list (str * str) }.

Fixpoint list_eqb {A} (eqb : A -> A -> bool) (a b : list A) : bool :=
  match a, b with
  | [], [] => true
  | x :: a', y :: b' => eqb x y && list_eqb eqb a' b'
  | _, _ => false
  end.

Definition msg_eqb (a b : msg) : bool :=
  Bool.eqb (m_dup a) (m_dup b) && N.eqb (m_qos a) (m_qos b) && Bool.eqb (m_retained a) (m_retained b) &&
  str_eqb (m_topic a) (m_topic b) && str_eqb (m_payload a) (m_payload b) && N.eqb (m_pid a) (m_pid b) &&
  str_eqb (m_ctype a) (m_ctype b) && str_eqb (m_corr a) (m_corr b) && N.eqb (m_expiry a) (m_expiry b) &&
  N.eqb (m_pfmt a) (m_pfmt b) && str_eqb (m_resp a) (m_resp b) && list_eqb N.eqb (m_subids a) (m_subids b) &&
  list_eqb (fun x y => str_eqb (fst x) (fst y) && str_eqb (snd x) (snd y)) (m_uprops a) (m_uprops b).

(* getVariablelenght *)
Definition varlen (l : N) : N :=
  if l <=? 127 then 1 else if l <=? 16383 then 2 else if l <=? 2097151 then 3 else if l <=? 268435455 then 4 else 0.

Definition len (s : str) : N := N.of_nat (length s).

(* Message.TotalBytes(version); v5 = true for packets.Version5.  uint32 result. *)
Definition msg_total_bytes (v5 : bool) (m : msg) : N :=
  let rl := len (m_payload m) + 2 + len (m_topic m) + (if 0 <? m_qos m then 2 else 0) in
  let rl :=
    if v5 then
      let pl := (if m_pfmt m =? 1 then 2 else 0)
                + (if len (m_ctype m) =? 0 then 0 else 3 + len (m_ctype m))
                + (if len (m_corr m) =? 0 then 0 else 3 + len (m_corr m))
                + fold_left (fun a v => a + 1 + varlen v) (m_subids m) 0
                + (if m_expiry m =? 0 then 0 else 5)
                + (if len (m_resp m) =? 0 then 0 else 3 + len (m_resp m))
                + fold_left (fun a kv => a + 5 + len (fst kv) + len (snd kv)) (m_uprops m) 0 in
      rl + pl + varlen pl
    else rl in
  ((if rl <=? 127 then 2 else if rl <=? 16383 then 3 else if rl <=? 2097151 then 4 else 5) + rl) mod 4294967296.
