(* Byte strings, topic levels, and the one definition of MQTT 4.7 matching (by levels).
   Executable definitions only; lemmas are in Proofs/TopicP.v. *)
From Coq Require Import List NArith Bool.
Import ListNotations.
Open Scope N_scope.

Definition str := list N.          (* Go string / []byte: bytes below 256 *)
Definition level := list N.

Definition SLASH : N := 47.
Definition PLUS : N := 43.
Definition HASH : N := 35.
Definition DOLLAR : N := 36.

Fixpoint str_eqb (a b : str) : bool :=
  match a, b with
  | [], [] => true
  | x :: a', y :: b' => N.eqb x y && str_eqb a' b'
  | _, _ => false
  end.

Definition is_empty (s : str) : bool := match s with [] => true | _ => false end.

(* strings.Split(s, "/"): never returns an empty slice *)
Fixpoint split (s : str) : list level :=
  match s with
  | [] => [[]]
  | c :: s' =>
      if N.eqb c SLASH then [] :: split s'
      else match split s' with
           | l :: ls => (c :: l) :: ls
           | [] => [[c]]
           end
  end.

Fixpoint join (ls : list level) : str :=
  match ls with
  | [] => []
  | [l] => l
  | l :: ls' => l ++ SLASH :: join ls'
  end.

Definition no_slash (s : str) : bool := forallb (fun c => negb (N.eqb c SLASH)) s.

Definition is_plus (l : level) : bool := str_eqb l [PLUS].
Definition is_hash (l : level) : bool := str_eqb l [HASH].

(* MQTT 4.7.1: topic levels against filter levels. '#' must be the last filter level and
   matches any number (including zero) of remaining topic levels - hence the parent match
   of "a/#" on "a"; '+' matches exactly one level (including the empty level). *)
Fixpoint lm (t f : list level) : bool :=
  match f with
  | [] => match t with [] => true | _ => false end
  | fl :: f' =>
      if is_hash fl then (match f' with [] => true | _ => false end)
      else match t with
           | [] => false
           | tl :: t' => (is_plus fl || str_eqb fl tl) && lm t' f'
           end
  end.

Definition starts_dollar (s : str) : bool :=
  match s with c :: _ => N.eqb c DOLLAR | [] => false end.
Definition starts_wild (s : str) : bool :=
  match s with c :: _ => N.eqb c PLUS || N.eqb c HASH | [] => false end.

(* MQTT 4.7.2-1: a filter starting with a wildcard does not match a topic starting with $ *)
Definition topic_match (t f : str) : bool :=
  negb (starts_dollar t && starts_wild f) && lm (split t) (split f).

(* topic names must not contain wildcard characters (4.7.1-1); what the trie lookups
   need is only that no level *is* a wildcard *)
Definition no_wild_levels (ts : list level) : bool :=
  forallb (fun l => negb (is_plus l || is_hash l)) ts.

(* For a fixed topic, the finite list of filter paths that match it, in the order in
   which topicTrie.matchTopic visits them. *)
Fixpoint cands (ts : list level) : list (list level) :=
  match ts with
  | [] => []
  | t :: rest =>
      let tail (l : level) :=
        match rest with
        | [] => [[l]; [l; [HASH]]]
        | _ => map (cons l) (cands rest)
        end in
      [[[HASH]]] ++ tail [PLUS] ++ tail t
  end.

(* subscription.SplitTopic *)
Definition SHARE_PREFIX : str := [36; 115; 104; 97; 114; 101; 47].   (* "$share/" *)

Fixpoint has_prefix (p s : str) : bool :=
  match p, s with
  | [], _ => true
  | x :: p', y :: s' => N.eqb x y && has_prefix p' s'
  | _, [] => false
  end.

(* cut s at the first '/': (before, Some after) or (s, None) *)
Fixpoint cut_slash (s : str) : str * option str :=
  match s with
  | [] => ([], None)
  | c :: s' =>
      if N.eqb c SLASH then ([], Some s')
      else let '(a, b) := cut_slash s' in (c :: a, b)
  end.

Definition split_topic (topic : str) : str * str :=
  if has_prefix SHARE_PREFIX topic then
    match cut_slash (skipn 7 topic) with
    | (g, Some f) => (g, f)
    | (_, None) => ([], [])
    end
  else ([], topic).
