(* C15 - the life cycle of one client connection as a FINITE transition system, read off
   /repo/server/client.go (serve, readLoop, writeLoop, pollMessageHandler, readHandle,
   connectWithTimeOut, setError, write, internalClose).  Executable definitions only; the
   reachable set is computed and the theorems are proved in Proofs/ConnLifeP.v.

   Goroutines are small program counters (natural numbers, constants below):

     serve  S1  connectWithTimeOut: select { p := <-in ... ; <-timeout }
            S1f failed: setError(err)           S1c  close(connected)
            S2  if ok { go poll; go handle }    S3   readWg.Wait()
            S4  queueStore.Close(); pl.close()  S5   wg.Wait()
            S6  rwc.Close()                     S7   internalClose: close(closed)     S8 done
     read   R0  ReadPacket (socket)   R1  select { in <- packet ; <-close (packet dropped) }     R2  <-connected
            R3  setError (deferred)   R3q setError with a *codes.Error while connected (v5):
                                          the Once body offers a DISCONNECT to `out` without blocking
            R4  close(in)      R5 exited
     write  W0  select { <-close ; p := <-out }   W1 writePacket (socket)
            W2  setError (deferred)               W3 exited
     poll   P0  waiting for ids/messages (cond.Wait; woken by queueStore.Close / pl.close)
            P1  client.write(publish): select { <-close ; out <- p }
            P2  setError (deferred)               P3 exited          (PN = never started)
     handle H0  p := <-in (range)     H1  handler      H2  client.write(response)
            H1b handler, after its write
            H3  setError   H3q setError with *codes.Error (DISCONNECT is offered to `out`)
            H4  exited                                                  (HN = never started)

   Channels: `in` and `out` are counters up to `cap` (abstraction of the buffer of 8: cap = 1,
   i.e. empty / non-empty = full), `in` can be closed; `close`, `connected`, `closed` are
   closed-flags.  `latch` is client.errOnce: 0 = not run, 2 = done.  Since b002260 the Once body
   does not block (the v5 DISCONNECT is offered to `out` with `select { case out <- d: default: }`),
   so it is one atomic step of the model; before that repair it could block in client.write
   while the writer waited for the Once (value 1 of the latch; finding kf_once_blocked_on_out,
   repaired).  Since 6670bb6 readLoop hands a packet over with
   `select { case in <- packet: case <-close: }` (finding kf_reader_blocked_on_in, repaired).

   Environment: the peer delivers at most `rx` packets and the queue at most `msgs` messages
   (budgets in the state - the bound of the model); a socket read can always fail (peer hangs
   up, read deadline, Close()), a socket write always returns (success or error).  What the
   model leaves out: blocking on locks (Model/LockOrder.v), the other connections
   (lockDuplicatedID waits for the OLD client's `closed`), timers other than the connect
   timeout. *)
From Coq Require Import List Arith Bool.
Import ListNotations.

Definition cap : nat := 1.

(* program counters *)
Definition S1 := 1. Definition S1f := 2. Definition S1c := 3. Definition S2 := 4. Definition S3 := 5.
Definition S4 := 6. Definition S5 := 7. Definition S6 := 8. Definition S7 := 9. Definition S8 := 10.
Definition R0 := 0. Definition R1 := 1. Definition R2 := 2. Definition R3 := 3. Definition R3q := 4.
Definition R4 := 6. Definition R5 := 7.
Definition W0 := 0. Definition W1 := 1. Definition W2 := 2. Definition W3 := 3.
Definition PN := 0. Definition P0 := 1. Definition P1 := 2. Definition P2 := 3. Definition P3 := 4.
Definition HN := 0. Definition H0 := 1. Definition H1 := 2. Definition H2 := 3. Definition H1b := 4.
Definition H3 := 5. Definition H3q := 6. Definition H4 := 8.

Record st := mk_st {
  pS : nat; pR : nat; pW : nat; pP : nat; pH : nat;
  inN : nat; inClosed : bool; outN : nat;
  chClose : bool; chConnected : bool; chClosed : bool;
  latch : nat;
  sock : bool;        (* true = the socket is open *)
  qclosed : bool;     (* queueStore.Close() / pl.close() have been called *)
  okc : bool;         (* the client is connected (registered) *)
  spawn : bool;       (* connectWithTimeOut returned ok: poll and handle are started *)
  rx : nat; msgs : nat
}.

Definition init (rx0 msgs0 : nat) : st :=
  mk_st S1 R0 W0 PN HN 0 false 0 false false false 0 true false false false rx0 msgs0.

(* field updates *)
Definition setS s v := mk_st v (pR s) (pW s) (pP s) (pH s) (inN s) (inClosed s) (outN s) (chClose s) (chConnected s) (chClosed s) (latch s) (sock s) (qclosed s) (okc s) (spawn s) (rx s) (msgs s).
Definition setR s v := mk_st (pS s) v (pW s) (pP s) (pH s) (inN s) (inClosed s) (outN s) (chClose s) (chConnected s) (chClosed s) (latch s) (sock s) (qclosed s) (okc s) (spawn s) (rx s) (msgs s).
Definition setW s v := mk_st (pS s) (pR s) v (pP s) (pH s) (inN s) (inClosed s) (outN s) (chClose s) (chConnected s) (chClosed s) (latch s) (sock s) (qclosed s) (okc s) (spawn s) (rx s) (msgs s).
Definition setP s v := mk_st (pS s) (pR s) (pW s) v (pH s) (inN s) (inClosed s) (outN s) (chClose s) (chConnected s) (chClosed s) (latch s) (sock s) (qclosed s) (okc s) (spawn s) (rx s) (msgs s).
Definition setH s v := mk_st (pS s) (pR s) (pW s) (pP s) v (inN s) (inClosed s) (outN s) (chClose s) (chConnected s) (chClosed s) (latch s) (sock s) (qclosed s) (okc s) (spawn s) (rx s) (msgs s).
Definition setIn s v := mk_st (pS s) (pR s) (pW s) (pP s) (pH s) v (inClosed s) (outN s) (chClose s) (chConnected s) (chClosed s) (latch s) (sock s) (qclosed s) (okc s) (spawn s) (rx s) (msgs s).
Definition setInClosed s v := mk_st (pS s) (pR s) (pW s) (pP s) (pH s) (inN s) v (outN s) (chClose s) (chConnected s) (chClosed s) (latch s) (sock s) (qclosed s) (okc s) (spawn s) (rx s) (msgs s).
Definition setOut s v := mk_st (pS s) (pR s) (pW s) (pP s) (pH s) (inN s) (inClosed s) v (chClose s) (chConnected s) (chClosed s) (latch s) (sock s) (qclosed s) (okc s) (spawn s) (rx s) (msgs s).
Definition setClose s v := mk_st (pS s) (pR s) (pW s) (pP s) (pH s) (inN s) (inClosed s) (outN s) v (chConnected s) (chClosed s) (latch s) (sock s) (qclosed s) (okc s) (spawn s) (rx s) (msgs s).
Definition setConnected s v := mk_st (pS s) (pR s) (pW s) (pP s) (pH s) (inN s) (inClosed s) (outN s) (chClose s) v (chClosed s) (latch s) (sock s) (qclosed s) (okc s) (spawn s) (rx s) (msgs s).
Definition setClosed s v := mk_st (pS s) (pR s) (pW s) (pP s) (pH s) (inN s) (inClosed s) (outN s) (chClose s) (chConnected s) v (latch s) (sock s) (qclosed s) (okc s) (spawn s) (rx s) (msgs s).
Definition setLatch s v := mk_st (pS s) (pR s) (pW s) (pP s) (pH s) (inN s) (inClosed s) (outN s) (chClose s) (chConnected s) (chClosed s) v (sock s) (qclosed s) (okc s) (spawn s) (rx s) (msgs s).
Definition setSock s v := mk_st (pS s) (pR s) (pW s) (pP s) (pH s) (inN s) (inClosed s) (outN s) (chClose s) (chConnected s) (chClosed s) (latch s) v (qclosed s) (okc s) (spawn s) (rx s) (msgs s).
Definition setQclosed s v := mk_st (pS s) (pR s) (pW s) (pP s) (pH s) (inN s) (inClosed s) (outN s) (chClose s) (chConnected s) (chClosed s) (latch s) (sock s) v (okc s) (spawn s) (rx s) (msgs s).
Definition setOkc s v := mk_st (pS s) (pR s) (pW s) (pP s) (pH s) (inN s) (inClosed s) (outN s) (chClose s) (chConnected s) (chClosed s) (latch s) (sock s) (qclosed s) v (spawn s) (rx s) (msgs s).
Definition setSpawn s v := mk_st (pS s) (pR s) (pW s) (pP s) (pH s) (inN s) (inClosed s) (outN s) (chClose s) (chConnected s) (chClosed s) (latch s) (sock s) (qclosed s) (okc s) v (rx s) (msgs s).
Definition setRx s v := mk_st (pS s) (pR s) (pW s) (pP s) (pH s) (inN s) (inClosed s) (outN s) (chClose s) (chConnected s) (chClosed s) (latch s) (sock s) (qclosed s) (okc s) (spawn s) v (msgs s).
Definition setMsgs s v := mk_st (pS s) (pR s) (pW s) (pP s) (pH s) (inN s) (inClosed s) (outN s) (chClose s) (chConnected s) (chClosed s) (latch s) (sock s) (qclosed s) (okc s) (spawn s) (rx s) v.

Definition when {A} (b : bool) (l : list A) : list A := if b then l else [].

(* setError (client.errOnce.Do): the first caller closes `close`; a later caller passes.
   `k` moves the caller's program counter. *)
Definition set_error_plain (s : st) (k : st -> st) : list st :=
  match latch s with
  | 0 => [k (setClose (setLatch s 2) true)]
  | _ => [k s]
  end.

(* setError with a *codes.Error on a connected v5 client: the first caller offers a DISCONNECT to
   `out` WITHOUT blocking (`select { case out <- d: default: }`), then closes `close` *)
Definition set_error_disc (s : st) (k : st -> st) : list st :=
  match latch s with
  | 0 => let s' := if Nat.ltb (outN s) cap then setOut s (S (outN s)) else s in
         [k (setClose (setLatch s' 2) true)]
  | _ => [k s]
  end.

(* client.write(p): select { <-close: return ; out <- p } *)
Definition client_write (s : st) (k : st -> st) : list st :=
  when (chClose s) [k s] ++ when (Nat.ltb (outN s) cap) [k (setOut s (S (outN s)))].

Definition step_serve (s : st) : list st :=
  match pS s with
  | 1 (* S1 *) =>
      (* a packet from `in`: the handshake continues, succeeds (client registered) or fails *)
      when (Nat.ltb 0 (inN s))
        (let s' := setIn s (pred (inN s)) in
         [s'; setS (setSpawn (setOkc s' true) true) S1c; setS s' S1f])
      (* `in` closed and empty: p == nil, err == nil -> ok although nothing connected *)
      ++ when (inClosed s && Nat.eqb (inN s) 0) [setS (setSpawn s true) S1c]
      (* 5 s timeout *)
      ++ [setS s S1f]
  | 2 (* S1f *) => set_error_plain s (fun s' => setS s' S1c)
  | 3 (* S1c *) => [setS (setConnected s true) S2]
  | 4 (* S2 *) => if spawn s then [setS (setH (setP s P0) H0) S3] else [setS s S3]
  | 5 (* S3 *) => when (Nat.eqb (pR s) R5) [setS s S4]
  | 6 (* S4 *) => [setS (setQclosed s true) S5]
  | 7 (* S5 *) => when (Nat.eqb (pW s) W3 && (Nat.eqb (pP s) PN || Nat.eqb (pP s) P3)
                        && (Nat.eqb (pH s) HN || Nat.eqb (pH s) H4)) [setS s S6]
  | 8 (* S6 *) => [setS (setSock s false) S7]
  | 9 (* S7 *) => [setS (setClosed s true) S8]
  | _ => []
  end.

Definition step_read (s : st) : list st :=
  match pR s with
  | 0 (* R0 *) =>
      when (sock s && Nat.ltb 0 (rx s)) [setR (setRx s (pred (rx s))) R1]
      ++ [setR s R3]                                   (* read error / EOF / deadline *)
      ++ when (okc s && sock s && Nat.ltb 0 (rx s)) [setR (setRx s (pred (rx s))) R3q]  (* receive quota exceeded *)
  | 1 (* R1 *) => when (Nat.ltb (inN s) cap) [setR (setIn s (S (inN s))) R2]
                  ++ when (chClose s) [setR s R2]          (* <-close: the packet is dropped *)
  | 2 (* R2 *) => when (chConnected s) [setR s R0]
  | 3 (* R3 *) => set_error_plain s (fun s' => setR s' R4)
  | 4 (* R3q *) => set_error_disc s (fun s' => setR s' R4)
  | 6 (* R4 *) => [setR (setInClosed s true) R5]
  | _ => []
  end.

Definition step_write (s : st) : list st :=
  match pW s with
  | 0 (* W0 *) => when (chClose s) [setW s W2] ++ when (Nat.ltb 0 (outN s)) [setW (setOut s (pred (outN s))) W1]
  | 1 (* W1 *) => [setW s W0; setW s W2; setW (setSock s false) W2]   (* ok / error / DISCONNECT written: rwc.Close() *)
  | 2 (* W2 *) => set_error_plain s (fun s' => setW s' W3)
  | _ => []
  end.

Definition step_poll (s : st) : list st :=
  match pP s with
  | 1 (* P0 *) =>
      if okc s then
        when (qclosed s) [setP s P2] ++ when (Nat.ltb 0 (msgs s)) [setP (setMsgs s (pred (msgs s))) P1]
      else [setP s P2]          (* queueStore is nil: the panic is recovered by the deferred function *)
  | 2 (* P1 *) => client_write s (fun s' => setP s' P0)
  | 3 (* P2 *) => set_error_plain s (fun s' => setP s' P3)
  | _ => []
  end.

Definition step_handle (s : st) : list st :=
  match pH s with
  | 1 (* H0 *) =>
      when (Nat.ltb 0 (inN s)) [setH (setIn s (pred (inN s))) H1]
      ++ when (inClosed s && Nat.eqb (inN s) 0) [setH s H3]
  | 2 (* H1 *) => [setH s H0; setH s H3; setH s H2] ++ when (okc s) [setH s H3q]
  | 3 (* H2 *) => client_write s (fun s' => setH s' H1b)
  | 4 (* H1b *) => [setH s H0; setH s H3] ++ when (okc s) [setH s H3q]
  | 5 (* H3 *) => set_error_plain s (fun s' => setH s' H4)
  | 6 (* H3q *) => set_error_disc s (fun s' => setH s' H4)
  | _ => []
  end.

Definition next (s : st) : list st :=
  step_serve s ++ step_read s ++ step_write s ++ step_poll s ++ step_handle s.

(* everything has exited and `closed` is closed *)
Definition final (s : st) : bool :=
  Nat.eqb (pS s) S8 && Nat.eqb (pR s) R5 && Nat.eqb (pW s) W3
  && (Nat.eqb (pP s) PN || Nat.eqb (pP s) P3) && (Nat.eqb (pH s) HN || Nat.eqb (pH s) H4)
  && chClosed s.

(* the two blocked states of the code before 6670bb6 / b002260 (repaired findings), kept as state
   predicates: the theorems say they are no longer blocked states *)
(* readLoop wants to hand over a packet while `in` is full *)
Definition reader_waits_on_full_in (s : st) : bool := Nat.eqb (pR s) R1 && Nat.eqb (inN s) cap.

(* a measure that every transition decreases (checked by computation over the reachable set) *)
Definition wA := 9. Definition wB := 6. Definition wC := 4. Definition wD := 2.

Definition rankS (s : st) : nat :=
  match pS s with
  | 1 => 40 | 2 => 39 | 3 => 38 | 4 => 37 | 5 => 5 | 6 => 4 | 7 => 3 | 8 => 2 | 9 => 1 | _ => 0
  end.
Definition rankR (s : st) : nat :=
  match pR s with
  | 0 => wD + 5 | 1 => wD + wB + 7 | 2 => wD + 6 | 3 => 2 | 4 => wD + 4 | 6 => 1 | _ => 0
  end.
Definition rankW (s : st) : nat := match pW s with 0 => 2 | 1 => 3 | 2 => 1 | _ => 0 end.
Definition rankP (s : st) : nat := match pP s with 1 => 2 | 2 => wD + 3 | 3 => 1 | _ => 0 end.
Definition rankH (s : st) : nat :=
  match pH s with
  | 1 => wD + 4 | 2 => 2 * wD + 7 | 3 => 2 * wD + 6 | 4 => wD + 5 | 5 => 1 | 6 => wD + 3 | _ => 0
  end.

Definition measure (s : st) : nat :=
  rx s * wA + inN s * wB + msgs s * wC + outN s * wD + rankS s + rankR s + rankW s + rankP s + rankH s.

(* the fields of a state as a list of numbers (injective; used for the visited set) *)
Definition fields (s : st) : list nat :=
  [pS s; pR s; pW s; pP s; pH s; inN s; Nat.b2n (inClosed s); outN s; Nat.b2n (chClose s);
   Nat.b2n (chConnected s); Nat.b2n (chClosed s); latch s; Nat.b2n (sock s); Nat.b2n (qclosed s);
   Nat.b2n (okc s); Nat.b2n (spawn s); rx s; msgs s].
