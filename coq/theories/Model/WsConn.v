(* Model of server.wsConn (server/server.go): Read / Write over a stream of
   WebSocket messages.  Executable Gallina only; proofs live in Proofs/WsConnP.v. *)
From Coq Require Import List NArith Arith.
Import ListNotations.

Inductive mtype := Binary | Text.

Definition wsmsg := (mtype * list N)%type.

(* ws.buf == nil  <->  buf = None ; ws.r = rpos *)
Record wsst := { buf : option (list N); rpos : nat }.

Definition ws_init : wsst := {| buf := None; rpos := 0 |}.

Inductive rres :=
| RData (chunk : list N)      (* n = length chunk, err = nil *)
| RErrType                    (* ErrInvalWsMsgType, n = 0 *)
| RErrEOF.                    (* ReadMessage returned an error (peer closed), n = 0 *)

(* the reset test `if ws.r >= len(ws.buf)` *)
Definition reset_cond (r len : nat) : bool := Nat.leb len r.

Definition copy_step (b : list N) (r p : nat) : rres * wsst :=
  let chunk := firstn p (skipn r b) in
  let r' := r + length chunk in
  (RData chunk,
   if reset_cond r' (length b) then ws_init else {| buf := Some b; rpos := r' |}).

(* one call ws.Read(p) with len(p) = p; msgs = messages not yet fetched by ReadMessage *)
Definition ws_read (s : wsst) (p : nat) (msgs : list wsmsg) : rres * wsst * list wsmsg :=
  match buf s with
  | Some b => let '(r, s') := copy_step b (rpos s) p in (r, s', msgs)
  | None =>
      match msgs with
      | [] => (RErrEOF, s, msgs)
      | (Text, _) :: rest => (RErrType, s, rest)
      | (Binary, b) :: rest => let '(r, s') := copy_step b (rpos s) p in (r, s', rest)
      end
  end.

(* run a list of read sizes; stop at the first error as the broker does (setError) *)
Fixpoint ws_reads (s : wsst) (ps : list nat) (msgs : list wsmsg)
  : list (list N) * option rres * wsst * list wsmsg :=
  match ps with
  | [] => ([], None, s, msgs)
  | p :: ps' =>
      match ws_read s p msgs with
      | (RData c, s', msgs') =>
          let '(cs, e, s'', msgs'') := ws_reads s' ps' msgs' in (c :: cs, e, s'', msgs'')
      | (e, s', msgs') => ([], Some e, s', msgs')
      end
  end.

(* bytes not yet returned by Read but already received *)
Definition pending (s : wsst) : list N :=
  match buf s with Some b => skipn (rpos s) b | None => [] end.

Definition payloads (msgs : list wsmsg) : list N := concat (map snd msgs).

Definition all_binary (msgs : list wsmsg) : bool :=
  forallb (fun m => match fst m with Binary => true | Text => false end) msgs.

(* ws.Write(p): one binary message carrying exactly p, returns len(p) *)
Definition ws_write (p : list N) : wsmsg * nat := ((Binary, p), length p).

Definition ws_writes (ps : list (list N)) : list wsmsg := map (fun p => fst (ws_write p)) ps.
