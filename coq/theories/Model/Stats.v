(* Model of server/stats.go + server/queue_notifier.go AS THE CODE IS (property C20).

   State: the global counters (GlobalStats.PacketStats / MessageStats), the ConnectionStats block, and
   the per-client table `clientStats` (created on first use by getClientStats, deleted by
   sessionTerminated).  Counters that only grow are unbounded N (a uint64 cannot overflow within the
   lifetime of a broker: every event adds at most one packet size).  GAUGES (InflightCurrent,
   QueuedCurrent, ActiveCurrent, InactiveCurrent) are uint64 with the code's explicit wrap-around:
   `atomic.AddUint64(&x, ^uint64(delta-1))` is x - delta mod 2^64, so "wraps below zero" is a value
   >= 2^63.

   Events are the calls the broker makes on the statsManager.  Every identifier is prefixed sts_/Sts
   (the extraction is merged into one flat OCaml module).

   The code modelled is /repo at af01428, i.e. after the repairs 8f7d148 (per-client QoS 1/2 counters), 0565bc2 (addInflight
   adds delta globally), 340ed8d (PacketBytes.copy copies Auth), 0045008 (sessionTerminated takes the entry's queued / in-flight
   share out of the global gauges) and af01428 (an over-quota PUBLISH is counted as a packet too - that one is in the
   reporting discipline C20O.c20_calls).  The former defects and their witnesses are kept in corpus/C20/fixed.sx.
   `sts_gone` is GHOST state (not in the code): the sum of the entries deleted so far, i.e. "the final
   values of terminated sessions" of the property's reading of `global = sum of per-client`. *)
From Coq Require Import List NArith ZArith Bool.
Import ListNotations.
Open Scope N_scope.

Definition sts_M64 : N := 18446744073709551616.

Inductive sts_ptype :=
  | StsAuth | StsConnect | StsConnack | StsDisconnect | StsPingreq | StsPingresp | StsPuback | StsPubcomp
  | StsPublish | StsPubrec | StsPubrel | StsSuback | StsSubscribe | StsUnsuback | StsUnsubscribe.
Inductive sts_dir := StsRx | StsTx.
Inductive sts_qos := StsQ0 | StsQ1 | StsQ2.
(* DroppedTotal: Internal, ExceedsMaxPacketSize, QueueFull, Expired, InflightExpired *)
Inductive sts_dropk := StsDkInternal | StsDkExceeds | StsDkFull | StsDkExpired | StsDkInflightExpired.
Inductive sts_reason := StsRNormal | StsRTakenOver | StsRExpired.

(* one field of PacketStats / MessageStats *)
Inductive sts_ctr :=
  | StsBytes (d : sts_dir) (t : sts_ptype)      (* BytesReceived.T / BytesSent.T *)
  | StsBytesTotal (d : sts_dir)
  | StsCount (d : sts_dir) (t : sts_ptype)      (* ReceivedTotal.T / SentTotal.T *)
  | StsCountTotal (d : sts_dir)
  | StsMsgRecv (q : sts_qos)                    (* MessageStats.QosN.ReceivedTotal *)
  | StsMsgSent (q : sts_qos)
  | StsDropped (q : sts_qos) (k : sts_dropk)
  | StsInflight                                 (* MessageStats.InflightCurrent (gauge) *)
  | StsQueued.                                  (* MessageStats.QueuedCurrent (gauge) *)
(* one field of ConnectionStats *)
Inductive sts_cctr :=
  | StsConnectedTotal | StsDisconnectedTotal | StsCreatedTotal
  | StsTermTakenOver | StsTermExpired | StsTermNormal
  | StsActive | StsInactive.                    (* gauges *)

Definition sts_ptype_eq_dec : forall a b : sts_ptype, {a = b} + {a <> b}. Proof. decide equality. Defined.
Definition sts_dir_eq_dec : forall a b : sts_dir, {a = b} + {a <> b}. Proof. decide equality. Defined.
Definition sts_qos_eq_dec : forall a b : sts_qos, {a = b} + {a <> b}. Proof. decide equality. Defined.
Definition sts_dropk_eq_dec : forall a b : sts_dropk, {a = b} + {a <> b}. Proof. decide equality. Defined.
Definition sts_ctr_eq_dec : forall a b : sts_ctr, {a = b} + {a <> b}.
Proof. decide equality; auto using sts_ptype_eq_dec, sts_dir_eq_dec, sts_qos_eq_dec, sts_dropk_eq_dec. Defined.
Definition sts_cctr_eq_dec : forall a b : sts_cctr, {a = b} + {a <> b}. Proof. decide equality. Defined.

Definition sts_vec := sts_ctr -> N.
Definition sts_cvec := sts_cctr -> N.
Definition sts_zero : sts_vec := fun _ => 0.
Definition sts_czero : sts_cvec := fun _ => 0.

(* atomic.AddUint64 on a counter *)
Definition sts_add (v : sts_vec) (k : sts_ctr) (d : N) : sts_vec :=
  fun k' => if sts_ctr_eq_dec k k' then v k' + d else v k'.
(* atomic.AddUint64 on a gauge: modulo 2^64 *)
Definition sts_wadd (v : sts_vec) (k : sts_ctr) (d : N) : sts_vec :=
  fun k' => if sts_ctr_eq_dec k k' then (v k' + d) mod sts_M64 else v k'.
(* ^uint64(delta-1) = 2^64 - delta (0 for delta = 0) *)
Definition sts_neg (d : N) : N := (sts_M64 - d mod sts_M64) mod sts_M64.
Definition sts_wsub (v : sts_vec) (k : sts_ctr) (d : N) : sts_vec := sts_wadd v k (sts_neg d).

Definition sts_cadd (v : sts_cvec) (k : sts_cctr) (d : N) : sts_cvec :=
  fun k' => if sts_cctr_eq_dec k k' then v k' + d else v k'.
Definition sts_cwadd (v : sts_cvec) (k : sts_cctr) (d : N) : sts_cvec :=
  fun k' => if sts_cctr_eq_dec k k' then (v k' + d) mod sts_M64 else v k'.

(* PacketStats.add *)
Definition sts_packet_add (v : sts_vec) (d : sts_dir) (t : sts_ptype) (sz : N) : sts_vec :=
  sts_add (sts_add (sts_add (sts_add v (StsBytes d t) sz) (StsCount d t) 1) (StsBytesTotal d) sz) (StsCountTotal d) 1.

(* DroppedTotal.messageDropped is the same on both sides *)
Definition sts_dropped_add (v : sts_vec) (q : sts_qos) (k : sts_dropk) : sts_vec := sts_add v (StsDropped q k) 1.

(* the clientStats map *)
Definition sts_tab := list (N * sts_vec).
Fixpoint sts_get (c : N) (l : sts_tab) : option sts_vec :=
  match l with [] => None | (c', v) :: r => if c =? c' then Some v else sts_get c r end.
(* getClientStats followed by an update of the entry *)
Fixpoint sts_upd (c : N) (f : sts_vec -> sts_vec) (l : sts_tab) : sts_tab :=
  match l with
  | [] => [(c, f sts_zero)]
  | (c', v) :: r => if c =? c' then (c', f v) :: r else (c', v) :: sts_upd c f r
  end.
Fixpoint sts_del (c : N) (l : sts_tab) : sts_tab :=
  match l with [] => [] | (c', v) :: r => if c =? c' then r else (c', v) :: sts_del c r end.
Definition sts_val (c : N) (l : sts_tab) : sts_vec := match sts_get c l with Some v => v | None => sts_zero end.
Fixpoint sts_sum (l : sts_tab) (k : sts_ctr) : N := match l with [] => 0 | (_, v) :: r => v k + sts_sum r k end.

Record sts_state := {
  sts_glob : sts_vec;            (* totalStats.PacketStats + MessageStats *)
  sts_conn : sts_cvec;           (* totalStats.ConnectionStats *)
  sts_clients : sts_tab;         (* clientStats *)
  sts_gone : sts_vec             (* GHOST: sum of the deleted entries *)
}.
Definition sts_init : sts_state := {| sts_glob := sts_zero; sts_conn := sts_czero; sts_clients := []; sts_gone := sts_zero |}.

(* the calls; `c` is the client id *)
Inductive sts_event :=
  | StsPacketReceived (t : sts_ptype) (sz : N) (c : N)
  | StsPacketSent (t : sts_ptype) (sz : N) (c : N)
  | StsMessageReceived (q : sts_qos) (c : N)
  | StsMessageSent (q : sts_qos) (c : N)
  | StsMessageDropped (q : sts_qos) (c : N) (k : sts_dropk)
  | StsAddInflight (c : N) (delta : N)
  | StsDecInflight (c : N) (delta : N)
  | StsAddQueueLen (c : N) (delta : N)
  | StsDecQueueLen (c : N) (delta : N)
  | StsClientConnected (c : N)
  | StsClientDisconnected (c : N)
  | StsSessionActive (create : bool) (c : N)    (* c is not a parameter in the code (ghost, used by well-formedness only) *)
  | StsSessionTerminated (c : N) (r : sts_reason).

Definition sts_set_glob (s : sts_state) (g : sts_vec) : sts_state :=
  {| sts_glob := g; sts_conn := sts_conn s; sts_clients := sts_clients s; sts_gone := sts_gone s |}.
Definition sts_set_conn (s : sts_state) (g : sts_cvec) : sts_state :=
  {| sts_glob := sts_glob s; sts_conn := g; sts_clients := sts_clients s; sts_gone := sts_gone s |}.
(* the same update f on the global block and g on the client's entry *)
Definition sts_both (s : sts_state) (c : N) (f g : sts_vec -> sts_vec) : sts_state :=
  {| sts_glob := f (sts_glob s); sts_conn := sts_conn s; sts_clients := sts_upd c g (sts_clients s); sts_gone := sts_gone s |}.

Definition sts_term_ctr (r : sts_reason) : sts_cctr :=
  match r with StsRNormal => StsTermNormal | StsRTakenOver => StsTermTakenOver | StsRExpired => StsTermExpired end.

(* sessionInActive *)
Definition sts_inactive (v : sts_cvec) : sts_cvec := sts_cwadd (sts_cwadd v StsActive (sts_neg 1)) StsInactive 1.

Definition sts_step (s : sts_state) (e : sts_event) : sts_state :=
  match e with
  | StsPacketReceived t sz c => sts_both s c (fun v => sts_packet_add v StsRx t sz) (fun v => sts_packet_add v StsRx t sz)
  | StsPacketSent t sz c => sts_both s c (fun v => sts_packet_add v StsTx t sz) (fun v => sts_packet_add v StsTx t sz)
  | StsMessageReceived q c => sts_both s c (fun v => sts_add v (StsMsgRecv q) 1) (fun v => sts_add v (StsMsgRecv q) 1)
  | StsMessageSent q c => sts_both s c (fun v => sts_add v (StsMsgSent q) 1) (fun v => sts_add v (StsMsgSent q) 1)
  | StsMessageDropped q c k => sts_both s c (fun v => sts_dropped_add v q k) (fun v => sts_dropped_add v q k)
  | StsAddInflight c d => sts_both s c (fun v => sts_wadd v StsInflight d) (fun v => sts_wadd v StsInflight d)
  | StsDecInflight c d =>
      if sts_val c (sts_clients s) StsInflight =? 0 then sts_both s c (fun v => v) (fun v => v)
      else sts_both s c (fun v => sts_wsub v StsInflight d) (fun v => sts_wsub v StsInflight d)
  | StsAddQueueLen c d => sts_both s c (fun v => sts_wadd v StsQueued d) (fun v => sts_wadd v StsQueued d)
  | StsDecQueueLen c d =>
      if sts_val c (sts_clients s) StsQueued =? 0 then sts_both s c (fun v => v) (fun v => v)
      else sts_both s c (fun v => sts_wsub v StsQueued d) (fun v => sts_wsub v StsQueued d)
  | StsClientConnected c => sts_set_conn s (sts_cadd (sts_conn s) StsConnectedTotal 1)
  | StsClientDisconnected c => sts_set_conn s (sts_inactive (sts_cadd (sts_conn s) StsDisconnectedTotal 1))
  | StsSessionActive create c =>
      sts_set_conn s (sts_cwadd (if create then sts_cadd (sts_conn s) StsCreatedTotal 1
                                 else sts_cwadd (sts_conn s) StsInactive (sts_neg 1)) StsActive 1)
  (* the entry is deleted; when there is one, its queued / in-flight share leaves the global gauges *)
  | StsSessionTerminated c r =>
      {| sts_glob := match sts_get c (sts_clients s) with
                     | Some v => sts_wsub (sts_wsub (sts_glob s) StsQueued (v StsQueued)) StsInflight (v StsInflight)
                     | None => sts_glob s
                     end;
         sts_conn := sts_cwadd (sts_cadd (sts_conn s) (sts_term_ctr r) 1) StsInactive (sts_neg 1);
         sts_clients := sts_del c (sts_clients s);
         sts_gone := fun k => sts_gone s k + sts_val c (sts_clients s) k |}
  end.

Definition sts_run_from (s : sts_state) (evs : list sts_event) : sts_state := fold_left sts_step evs s.
Definition sts_run (evs : list sts_event) : sts_state := sts_run_from sts_init evs.

(* ---- queue_notifier.go: the queue reports signed deltas ---- *)
Definition sts_notify_inflight (c : N) (delta : Z) : list sts_event :=
  if (0 <? delta)%Z then [StsAddInflight c (Z.to_N delta)]
  else if (delta <? 0)%Z then [StsDecInflight c (Z.to_N (- delta))] else [].
Definition sts_notify_queue (c : N) (delta : Z) : list sts_event :=
  if (0 <? delta)%Z then [StsAddQueueLen c (Z.to_N delta)]
  else if (delta <? 0)%Z then [StsDecQueueLen c (Z.to_N (- delta))] else [].
Definition sts_notify_dropped (c : N) (q : sts_qos) (k : sts_dropk) : list sts_event := [StsMessageDropped q c k].

(* ---- GetGlobalStats / GetClientStats: what a reader sees (copy() loads every field) ---- *)
Definition sts_copy (v : sts_vec) : sts_vec := fun k => v k.
Record sts_view := { stv_glob : sts_vec; stv_conn : sts_cvec; stv_clients : sts_tab }.
Definition sts_view_of (s : sts_state) : sts_view :=
  {| stv_glob := sts_copy (sts_glob s); stv_conn := sts_conn s;
     stv_clients := map (fun e => (fst e, sts_copy (snd e))) (sts_clients s) |}.

(* enumeration of the fields (for printing and for the boolean oracle) *)
Definition sts_all_ptypes : list sts_ptype :=
  [StsAuth; StsConnect; StsConnack; StsDisconnect; StsPingreq; StsPingresp; StsPuback; StsPubcomp; StsPublish; StsPubrec;
   StsPubrel; StsSuback; StsSubscribe; StsUnsuback; StsUnsubscribe].
Definition sts_all_qos : list sts_qos := [StsQ0; StsQ1; StsQ2].
Definition sts_all_dropk : list sts_dropk := [StsDkInternal; StsDkExceeds; StsDkFull; StsDkExpired; StsDkInflightExpired].
Definition sts_all_ctrs : list sts_ctr :=
  flat_map (fun d => map (StsBytes d) sts_all_ptypes ++ [StsBytesTotal d] ++ map (StsCount d) sts_all_ptypes ++ [StsCountTotal d]) [StsRx; StsTx]
  ++ flat_map (fun q => map (StsDropped q) sts_all_dropk ++ [StsMsgRecv q; StsMsgSent q]) sts_all_qos
  ++ [StsInflight; StsQueued].
Definition sts_all_cctrs : list sts_cctr :=
  [StsConnectedTotal; StsDisconnectedTotal; StsCreatedTotal; StsTermTakenOver; StsTermExpired; StsTermNormal; StsActive; StsInactive].
