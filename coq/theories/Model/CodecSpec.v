(* The MQTT 3.1.1 / 5.0 wire format written from the OASIS specifications (mqtt-v3.1.1-os,
   mqtt-v5.0-os), independently of pkg/packets.  It shares only the packet *value* types
   (Model/CodecPackets.v: body, props) with the model of the Go code, so that the two can be
   compared.  Section numbers refer to the v5.0 text unless marked (3.1.1).
   Executable definitions only. *)
From Coq Require Import List NArith Bool.
Import ListNotations.
From GM Require Import Base.Topic Base.Msg Model.TopicMatch Model.CodecBase Model.CodecProps Model.CodecPackets.
Open Scope N_scope.

Inductive sreason :=
| SIncomplete          (* the byte string ends before the packet does *)
| SVarint              (* 1.5.5: a Variable Byte Integer has at most four bytes *)
| SVarintNonMinimal    (* [MQTT-1.5.5-1] (v5): minimum number of bytes *)
| SReservedType        (* 2.1.2: packet type 0; type 15 before v5 *)
| SFlags               (* [MQTT-2.1.3-1]: reserved fixed-header flag bits; [MQTT-3.3.1-2] DUP with QoS 0 *)
| STrailing            (* bytes left over inside the Remaining Length *)
| SShort               (* a field runs past the Remaining Length *)
| SUtf8                (* [MQTT-1.5.4-1], [MQTT-1.5.4-2]: ill-formed UTF-8, or U+0000 *)
| STopicName           (* [MQTT-3.3.2-2], [MQTT-4.7.3-1] *)
| STopicFilter         (* [MQTT-4.7.1-1..3], [MQTT-4.7.3-1], 4.8.2 *)
| SProtoName | SProtoLevel
| SConnectFlags        (* [MQTT-3.1.2-3], [MQTT-3.1.2-11..14]; (3.1.1) [MQTT-3.1.2-22] *)
| SClientId            (* (3.1.1) [MQTT-3.1.3-8] *)
| SPacketId            (* [MQTT-2.2.1-3]: non-zero packet identifier *)
| SQos                 (* [MQTT-3.3.1-4], [MQTT-3.8.3-5]: QoS 3 *)
| SSubOpts             (* [MQTT-3.8.3-5]: reserved bits of the subscription options *)
| SRetainHandling      (* 3.8.3.1: Retain Handling 3 is a Protocol Error *)
| SNoLocalShared       (* [MQTT-3.8.3-4] *)
| SPropUnknown | SPropNotAllowed | SPropDup | SPropValue | SPropLen
| SAuthData            (* 3.1.2.11.10: Authentication Data without Authentication Method *)
| SNoTopics            (* [MQTT-3.8.3-2], [MQTT-3.10.3-2] *)
| SNoCodes
| SEmptyTopicNoAlias   (* 3.3.2.1 *)
| SConnackFlags.       (* [MQTT-3.2.2-1] *)

Inductive sres (A : Type) := SOk (a : A) | SBad (r : sreason).
Arguments SOk {A}. Arguments SBad {A}.
Definition sbind {A B} (r : sres A) (f : A -> sres B) : sres B :=
  match r with SOk a => f a | SBad e => SBad e end.
Notation "'sdo' x <- r ; k" := (sbind r (fun x => k))
  (at level 200, x name, r at level 100, k at level 200, right associativity).
Notation "'sdo' ' p <- r ; k" := (sbind r (fun p => k))
  (at level 200, p pattern, r at level 100, k at level 200, right associativity).
Definition nil_b {A} (l : list A) : bool := match l with [] => true | _ => false end.
Definition guard (c : bool) (r : sreason) : sres unit := if c then SOk tt else SBad r.

(* ---- 1.5.4 UTF-8 Encoded String: Unicode Table 3-7 (well-formed byte sequences) ---- *)
Definition cont (b : N) : bool := (128 <=? b) && (b <=? 191).
Fixpoint utf8_wf (s : list N) : bool :=
  match s with
  | [] => true
  | a :: r =>
      if a <=? 127 then utf8_wf r
      else match r with
      | [] => false
      | b :: r1 =>
          if (194 <=? a) && (a <=? 223) then cont b && utf8_wf r1
          else match r1 with
          | [] => false
          | c :: r2 =>
              if a =? 224 then (160 <=? b) && (b <=? 191) && cont c && utf8_wf r2
              else if ((225 <=? a) && (a <=? 236)) || (a =? 238) || (a =? 239) then cont b && cont c && utf8_wf r2
              else if a =? 237 then (128 <=? b) && (b <=? 159) && cont c && utf8_wf r2
              else match r2 with
              | [] => false
              | d :: r3 =>
                  if a =? 240 then (144 <=? b) && (b <=? 191) && cont c && cont d && utf8_wf r3
                  else if (241 <=? a) && (a <=? 243) then cont b && cont c && cont d && utf8_wf r3
                  else if a =? 244 then (128 <=? b) && (b <=? 143) && cont c && cont d && utf8_wf r3
                  else false
              end
          end
      end
  end.
(* [MQTT-1.5.4-1] well-formed (which excludes surrogates), [MQTT-1.5.4-2] no U+0000 *)
Definition spec_utf8 (s : str) : bool := utf8_wf s && negb (existsb (N.eqb 0) s).

(* 1.5.4: control characters U+0001..U+001F, U+007F..U+009F SHOULD NOT be included; a receiver
   MAY treat them as malformed.  In well-formed UTF-8 these are the bytes 01..1F, 7F and the
   pairs C2 80..C2 9F. *)
Fixpoint has_ctl (s : str) : bool :=
  match s with
  | [] => false
  | a :: r =>
      ((1 <=? a) && (a <=? 31)) || (a =? 127)
      || (match r with b :: _ => (a =? 194) && (128 <=? b) && (b <=? 159) | [] => false end)
      || has_ctl r
  end.
(* U+FFFD REPLACEMENT CHARACTER (EF BF BD): an ordinary, legal character *)
Fixpoint has_fffd (s : str) : bool :=
  match s with
  | a :: ((b :: c :: _) as r) => ((a =? 239) && (b =? 191) && (c =? 189)) || has_fffd r
  | _ => false
  end.

(* ---- 4.7 topic names and topic filters ---- *)
Definition spec_topic_name (t : str) : bool := spec_utf8 t && valid_name_spec t.
Definition spec_topic_filter (f : str) : bool := spec_utf8 f && valid_filter_spec f.
(* 4.8.2 $share/{ShareName}/{filter}: ShareName at least one character, without "/", "+", "#" *)
Definition spec_shared_filter (f : str) : bool :=
  match cut_slash (skipn 7 f) with
  | (g, Some flt) => negb (is_empty g) && negb (has_wild g) && spec_topic_filter flt && spec_utf8 g
  | (_, None) => false
  end.
Definition spec_v5_filter (f : str) : bool :=
  if has_prefix SHARE_PREFIX f then spec_shared_filter f else spec_topic_filter f.

(* ---- primitive fields, read from the bytes of one packet body ---- *)
Definition s_byte (b : list N) : sres (N * list N) :=
  match b with [] => SBad SShort | x :: r => SOk (x, r) end.
Definition s_u16 (b : list N) : sres (N * list N) :=
  match b with x :: y :: r => SOk (256 * x + y, r) | _ => SBad SShort end.
Definition s_u32 (b : list N) : sres (N * list N) :=
  match b with x :: y :: z :: w :: r => SOk (16777216 * x + 65536 * y + 256 * z + w, r) | _ => SBad SShort end.
Definition s_bin (b : list N) : sres (str * list N) :=
  sdo '(n, r) <- s_u16 b;
  if len r <? n then SBad SShort else SOk (firstn (N.to_nat n) r, skipn (N.to_nat n) r).
Definition s_str (b : list N) : sres (str * list N) :=
  sdo '(s, r) <- s_bin b;
  if spec_utf8 s then SOk (s, r) else SBad SUtf8.
(* 1.5.5 Variable Byte Integer: at most 4 bytes; `minimal` demands the shortest encoding *)
Definition s_varint (minimal : bool) (b : list N) : sres (N * list N) :=
  let fin (v : N) (last : N) (n : N) (r : list N) : sres (N * list N) :=
    if minimal && (last =? 0) && (1 <? n) then SBad SVarintNonMinimal else SOk (v, r) in
  match b with
  | [] => SBad SIncomplete
  | a :: r =>
      if a <? 128 then fin a a 1 r
      else match r with
      | [] => SBad SIncomplete
      | b1 :: r =>
          if b1 <? 128 then fin ((a - 128) + 128 * b1) b1 2 r
          else match r with
          | [] => SBad SIncomplete
          | c :: r =>
              if c <? 128 then fin ((a - 128) + 128 * (b1 - 128) + 16384 * c) c 3 r
              else match r with
              | [] => SBad SIncomplete
              | d :: r =>
                  if d <? 128 then fin ((a - 128) + 128 * (b1 - 128) + 16384 * (c - 128) + 2097152 * d) d 4 r
                  else SBad SVarint
              end
          end
      end
  end.

(* ---- 2.2.2 Properties ---- *)
Definition WILLCTX : N := 0.          (* the Will Properties of CONNECT *)
(* 2.2.2.2 Table 2-4: identifier -> packets / will properties in which it may appear *)
Definition spec_prop_ctx (id : N) : list N :=
  if id =? 1 then [PUBLISH; WILLCTX] else if id =? 2 then [PUBLISH; WILLCTX]
  else if id =? 3 then [PUBLISH; WILLCTX] else if id =? 8 then [PUBLISH; WILLCTX]
  else if id =? 9 then [PUBLISH; WILLCTX] else if id =? 11 then [PUBLISH; SUBSCRIBE]
  else if id =? 17 then [CONNECT; CONNACK; DISCONNECT] else if id =? 18 then [CONNACK]
  else if id =? 19 then [CONNACK] else if id =? 21 then [CONNECT; CONNACK; AUTH]
  else if id =? 22 then [CONNECT; CONNACK; AUTH] else if id =? 23 then [CONNECT]
  else if id =? 24 then [WILLCTX] else if id =? 25 then [CONNECT] else if id =? 26 then [CONNACK]
  else if id =? 28 then [CONNACK; DISCONNECT]
  else if id =? 31 then [CONNACK; PUBACK; PUBREC; PUBREL; PUBCOMP; SUBACK; UNSUBACK; DISCONNECT; AUTH]
  else if id =? 33 then [CONNECT; CONNACK] else if id =? 34 then [CONNECT; CONNACK]
  else if id =? 35 then [PUBLISH] else if id =? 36 then [CONNACK] else if id =? 37 then [CONNACK]
  else if id =? 38 then [WILLCTX; CONNECT; CONNACK; PUBLISH; PUBACK; PUBREC; PUBREL; PUBCOMP; SUBSCRIBE;
                         SUBACK; UNSUBSCRIBE; UNSUBACK; DISCONNECT; AUTH]
  else if id =? 39 then [CONNECT; CONNACK] else if id =? 40 then [CONNACK]
  else if id =? 41 then [CONNACK] else if id =? 42 then [CONNACK] else [].

Inductive sptype := TByte | TU16 | TU32 | TUtf8 | TBinary | TVarint | TPair.
Definition spec_prop_type (id : N) : option sptype :=
  if (id =? 1) || (id =? 23) || (id =? 25) || (id =? 36) || (id =? 37) || (id =? 40) || (id =? 41) || (id =? 42) then Some TByte
  else if (id =? 19) || (id =? 33) || (id =? 34) || (id =? 35) then Some TU16
  else if (id =? 2) || (id =? 17) || (id =? 24) || (id =? 39) then Some TU32
  else if (id =? 3) || (id =? 8) || (id =? 18) || (id =? 21) || (id =? 26) || (id =? 28) || (id =? 31) then Some TUtf8
  else if (id =? 9) || (id =? 22) then Some TBinary
  else if id =? 11 then Some TVarint
  else if id =? 38 then Some TPair
  else None.

(* one property of the property block `b` in context ctx, added to p *)
Definition s_prop (ctx : N) (p : props) (b : list N) : sres (props * list N) :=
  sdo '(id, r) <- s_byte b;
  match spec_prop_type id with
  | None => SBad SPropUnknown
  | Some ty =>
      sdo _ <- guard (existsb (N.eqb ctx) (spec_prop_ctx id)) SPropNotAllowed;
      match ty with
      | TPair =>
          sdo '(k, r) <- s_str r; sdo '(v, r) <- s_str r;
          SOk ({| pr_single := pr_single p; pr_subid := pr_subid p; pr_user := pr_user p ++ [(k, v)] |}, r)
      | TVarint =>
          (* Subscription Identifier: 1..268435455; at most once in SUBSCRIBE (3.8.2.1.2);
             a PUBLISH may carry several (3.3.2.3.8) *)
          sdo _ <- guard ((ctx =? PUBLISH) || is_empty (pr_subid p)) SPropDup;
          sdo '(v, r) <- (match s_varint true r with SBad SIncomplete => SBad SShort | x => x end);
          sdo _ <- guard (negb (v =? 0)) SPropValue;
          SOk ({| pr_single := pr_single p; pr_subid := pr_subid p ++ [v]; pr_user := pr_user p |}, r)
      | _ =>
          sdo _ <- guard (negb (is_some (ps_get id (pr_single p)))) SPropDup;   (* 2.2.2.2: more than once *)
          sdo '(v, r) <-
            match ty with
            | TByte => sdo '(x, r) <- s_byte r;
                       sdo _ <- guard ((x =? 0) || (x =? 1)) SPropValue;        (* all byte properties are 0/1 *)
                       SOk (PVByte x, r)
            | TU16 => sdo '(x, r) <- s_u16 r;
                      sdo _ <- guard (negb (((id =? 33) || (id =? 35)) && (x =? 0))) SPropValue;
                      SOk (PVU16 x, r)
            | TU32 => sdo '(x, r) <- s_u32 r;
                      sdo _ <- guard (negb ((id =? 39) && (x =? 0))) SPropValue;
                      SOk (PVU32 x, r)
            | TUtf8 => sdo '(s, r) <- s_str r;
                       (* [MQTT-3.3.2-14] Response Topic is a Topic Name *)
                       sdo _ <- guard (negb (id =? 8) || valid_name_spec s) STopicName;
                       SOk (PVStr s, r)
            | _ => sdo '(s, r) <- s_bin r; SOk (PVStr s, r)
            end;
          SOk (set_single id v p, r)
      end
  end.

Fixpoint s_props_loop (fuel : nat) (ctx : N) (p : props) (b : list N) : sres props :=
  match b with
  | [] => SOk p
  | _ => match fuel with
         | O => SBad SPropLen
         | S k => sdo '(p', r) <- s_prop ctx p b; s_props_loop k ctx p' r
         end
  end.

(* Property Length + properties; the block must lie inside the body *)
Definition s_props (ctx : N) (b : list N) : sres (props * list N) :=
  sdo '(n, r) <- (match s_varint true b with SBad SIncomplete => SBad SShort | x => x end);
  sdo _ <- guard (n <=? len r) SPropLen;
  sdo p <- s_props_loop (length r) ctx props_empty (firstn (N.to_nat n) r);
  sdo _ <- guard (negb (is_some (ps_get 22 (pr_single p))) || is_some (ps_get 21 (pr_single p))) SAuthData;
  SOk (p, skipn (N.to_nat n) r).

Definition s_end {A} (x : A) (b : list N) : sres A := match b with [] => SOk x | _ => SBad STrailing end.

(* ---- 3.1 CONNECT ---- *)
Definition s_connect (b : list N) : sres body :=
  sdo '(name, b) <- s_str b;
  sdo '(level, b) <- s_byte b;
  sdo _ <- guard (str_eqb name MQTT_NAME || str_eqb name MQISDP_NAME) SProtoName;
  sdo _ <- guard ((level =? 3) || (level =? 4) || (level =? 5)) SProtoLevel;
  sdo _ <- guard (str_eqb name (if level =? 3 then MQISDP_NAME else MQTT_NAME)) SProtoName;
  sdo '(fl, b) <- s_byte b;
  let clean := N.testbit fl 1 in let wflag := N.testbit fl 2 in
  let wqos := (fl / 8) mod 4 in let wretain := N.testbit fl 5 in
  let pflag := N.testbit fl 6 in let uflag := N.testbit fl 7 in
  sdo _ <- guard (negb (N.testbit fl 0)) SConnectFlags;                          (* [MQTT-3.1.2-3] *)
  sdo _ <- guard (wflag || ((wqos =? 0) && negb wretain)) SConnectFlags;         (* [MQTT-3.1.2-11/13] *)
  sdo _ <- guard (negb (wqos =? 3)) SConnectFlags;                               (* [MQTT-3.1.2-12] *)
  sdo _ <- guard ((level =? 5) || uflag || negb pflag) SConnectFlags;            (* (3.1.1) [MQTT-3.1.2-22] *)
  sdo '(ka, b) <- s_u16 b;
  sdo '(pr, b) <- (if level =? 5 then sdo '(p, r) <- s_props CONNECT b; SOk (Some p, r) else SOk (None, b));
  sdo '(cid, b) <- s_str b;
  sdo _ <- guard ((level =? 5) || negb (is_empty cid) || clean) SClientId;       (* (3.1.1) [MQTT-3.1.3-7/8] *)
  sdo '(wpr, wt, wm, b) <-
    (if wflag then
       sdo '(wp, b) <- (if level =? 5 then sdo '(p, r) <- s_props WILLCTX b; SOk (Some p, r) else SOk (None, b));
       sdo '(t, b) <- s_str b; sdo '(m, b) <- s_bin b; SOk (wp, t, m, b)
     else SOk (if level =? 5 then Some props_empty else None, [], [], b));
  sdo '(user, b) <- (if uflag then s_str b else SOk ([], b));
  sdo '(pass, b) <- (if pflag then s_bin b else SOk ([], b));
  s_end (BConnect {| c_version := level; c_level := level; c_uflag := uflag; c_pname := name; c_pflag := pflag;
                     c_wretain := wretain; c_wqos := wqos; c_wflag := wflag; c_wtopic := wt; c_wmsg := wm;
                     c_clean := clean; c_keepalive := ka; c_cid := cid; c_user := user; c_pass := pass;
                     c_props := pr; c_wprops := wpr |}) b.

(* ---- 3.2 CONNACK ---- *)
Definition s_connack (v : N) (b : list N) : sres body :=
  sdo '(af, b) <- s_byte b;
  sdo _ <- guard (af <=? 1) SConnackFlags;
  sdo '(code, b) <- s_byte b;
  if v =? 5 then sdo '(p, b) <- s_props CONNACK b; s_end (BConnack v code (af =? 1) (Some p)) b
  else s_end (BConnack v code (af =? 1) None) b.

(* ---- 3.3 PUBLISH ---- *)
Definition s_publish (v flags : N) (b : list N) : sres body :=
  let dup := N.testbit flags 3 in let qos := (flags / 2) mod 4 in let retain := N.testbit flags 0 in
  sdo _ <- guard (negb (qos =? 3)) SQos;
  sdo _ <- guard (negb ((qos =? 0) && dup)) SFlags;
  sdo '(topic, b) <- s_str b;
  sdo _ <- guard (negb (has_wild topic)) STopicName;
  sdo _ <- guard ((v =? 5) || negb (is_empty topic)) STopicName;
  sdo '(pid, b) <- (if qos =? 0 then SOk (0, b) else s_u16 b);
  sdo _ <- guard ((qos =? 0) || negb (pid =? 0)) SPacketId;
  sdo '(pr, b) <- (if v =? 5 then sdo '(p, r) <- s_props PUBLISH b; SOk (Some p, r) else SOk (None, b));
  sdo _ <- guard (negb (is_empty topic) || match pr with Some p => is_some (ps_get 35 (pr_single p)) | None => true end)
                 SEmptyTopicNoAlias;
  SOk (BPublish v dup qos retain topic pid b pr).

(* ---- 3.4-3.7 PUBACK, PUBREC, PUBREL, PUBCOMP ---- *)
Definition s_ackbody (v ctx : N) (b : list N) : sres (N * N * option props) :=
  sdo '(pid, b) <- s_u16 b;
  if v =? 5 then
    match b with
    | [] => SOk (pid, 0, None)                                  (* Remaining Length 2: Success, no properties *)
    | [code] => SOk (pid, code, Some props_empty)               (* Remaining Length 3 *)
    | code :: b => sdo '(p, b) <- s_props ctx b; s_end (pid, code, Some p) b
    end
  else s_end (pid, 0, None) b.

(* ---- 3.8 SUBSCRIBE ---- *)
Fixpoint s_sub_topics (fuel : nat) (v : N) (b : list N) : sres (list subtopic) :=
  match b with
  | [] => SOk []
  | _ => match fuel with
         | O => SBad SShort
         | S k =>
             sdo '(f, b) <- s_str b;
             sdo _ <- guard (if v =? 5 then spec_v5_filter f else spec_topic_filter f) STopicFilter;
             sdo '(o, b) <- s_byte b;
             sdo _ <- guard (negb (o mod 4 =? 3)) SQos;
             sdo t <-
               (if v =? 5 then
                  sdo _ <- guard (o <? 64) SSubOpts;
                  sdo _ <- guard (negb ((o / 16) mod 4 =? 3)) SRetainHandling;
                  sdo _ <- guard (negb (N.testbit o 2 && has_prefix SHARE_PREFIX f)) SNoLocalShared;
                  SOk {| st_name := f; st_qos := o mod 4; st_rh := (o / 16) mod 4;
                         st_nl := N.testbit o 2; st_rap := N.testbit o 3 |}
                else
                  sdo _ <- guard (o <? 4) SSubOpts;
                  SOk {| st_name := f; st_qos := o; st_rh := 0; st_nl := false; st_rap := false |});
             sdo ts <- s_sub_topics k v b;
             SOk (t :: ts)
         end
  end.

Definition s_subscribe (v : N) (b : list N) : sres body :=
  sdo '(pid, b) <- s_u16 b;
  sdo _ <- guard (negb (pid =? 0)) SPacketId;
  sdo '(pr, b) <- (if v =? 5 then sdo '(p, r) <- s_props SUBSCRIBE b; SOk (Some p, r) else SOk (None, b));
  sdo ts <- s_sub_topics (length b) v b;
  sdo _ <- guard (negb (nil_b ts)) SNoTopics;
  SOk (BSubscribe v pid ts pr).

(* ---- 3.10 UNSUBSCRIBE ---- *)
Fixpoint s_unsub_topics (fuel : nat) (v : N) (b : list N) : sres (list str) :=
  match b with
  | [] => SOk []
  | _ => match fuel with
         | O => SBad SShort
         | S k =>
             sdo '(f, b) <- s_str b;
             sdo _ <- guard (if v =? 5 then spec_v5_filter f else spec_topic_filter f) STopicFilter;
             sdo ts <- s_unsub_topics k v b;
             SOk (f :: ts)
         end
  end.

Definition s_unsubscribe (v : N) (b : list N) : sres body :=
  sdo '(pid, b) <- s_u16 b;
  sdo _ <- guard (negb (pid =? 0)) SPacketId;
  sdo '(pr, b) <- (if v =? 5 then sdo '(p, r) <- s_props UNSUBSCRIBE b; SOk (Some p, r) else SOk (None, b));
  sdo ts <- s_unsub_topics (length b) v b;
  sdo _ <- guard (negb (nil_b ts)) SNoTopics;
  SOk (BUnsubscribe v pid ts pr).

(* ---- 3.9 SUBACK, 3.11 UNSUBACK ---- *)
Definition s_suback (v : N) (b : list N) : sres body :=
  sdo '(pid, b) <- s_u16 b;
  sdo '(pr, b) <- (if v =? 5 then sdo '(p, r) <- s_props SUBACK b; SOk (Some p, r) else SOk (None, b));
  sdo _ <- guard (negb (is_empty b)) SNoCodes;
  SOk (BSuback v pid b pr).
Definition s_unsuback (v : N) (b : list N) : sres body :=
  sdo '(pid, b) <- s_u16 b;
  if v =? 5 then
    sdo '(p, b) <- s_props UNSUBACK b;
    sdo _ <- guard (negb (is_empty b)) SNoCodes;
    SOk (BUnsuback v pid b (Some p))
  else s_end (BUnsuback v pid [] None) b.

(* ---- 3.14 DISCONNECT, 3.15 AUTH ---- *)
Definition s_disconnect (v : N) (b : list N) : sres body :=
  if v =? 5 then
    match b with
    | [] => SOk (BDisconnect v 0 (Some props_empty))
    | [code] => SOk (BDisconnect v code (Some props_empty))
    | code :: b => sdo '(p, b) <- s_props DISCONNECT b; s_end (BDisconnect v code (Some p)) b
    end
  else s_end (BDisconnect v 0 None) b.
Definition s_auth (b : list N) : sres body :=
  match b with
  | [] => SOk (BAuth 0 None)
  | [code] => SOk (BAuth code (Some props_empty))
  | code :: b => sdo '(p, b) <- s_props AUTH b; s_end (BAuth code (Some p)) b
  end.

(* ---- 2.1 fixed header + dispatch: one packet from the front of bs, under protocol version v
   (3 = 3.1, 4 = 3.1.1, 5 = 5.0).  Returns the packet value and the bytes after it. ---- *)
Definition spec_decode (v : N) (bs : list N) : sres (body * list N) :=
  match bs with
  | [] => SBad SIncomplete
  | first :: r =>
      let t := first / 16 in let flags := first mod 16 in
      sdo '(rl, r) <- s_varint true r;                 (* 1.5.5 / (3.1.1) 2.2.3: the encoding scheme is minimal *)
      sdo _ <- guard (negb (t =? 0) && ((v =? 5) || negb (t =? 15))) SReservedType;
      sdo _ <- guard (if t =? PUBLISH then true
                      else if (t =? PUBREL) || (t =? SUBSCRIBE) || (t =? UNSUBSCRIBE) then flags =? 2
                      else flags =? 0) SFlags;
      sdo _ <- guard (rl <=? len r) SIncomplete;
      let b := firstn (N.to_nat rl) r in
      let rest := skipn (N.to_nat rl) r in
      sdo p <-
        (if t =? CONNECT then s_connect b
         else if t =? CONNACK then s_connack v b
         else if t =? PUBLISH then s_publish v flags b
         else if (t =? PUBACK) || (t =? PUBREC) || (t =? PUBCOMP) then
           sdo '(pid, code, pr) <- s_ackbody v t b; SOk (BAck t v pid code pr)
         else if t =? PUBREL then sdo '(pid, code, pr) <- s_ackbody v t b; SOk (BPubrel pid code pr)
         else if t =? SUBSCRIBE then s_subscribe v b
         else if t =? SUBACK then s_suback v b
         else if t =? UNSUBSCRIBE then s_unsubscribe v b
         else if t =? UNSUBACK then s_unsuback v b
         else if t =? PINGREQ then s_end BPingreq b
         else if t =? PINGRESP then s_end BPingresp b
         else if t =? DISCONNECT then s_disconnect v b
         else s_auth b);
      SOk (p, rest)
  end.

(* ================================================================ encoder *)
Definition e_u16 (x : N) : list N := [x / 256; x mod 256].
Definition e_u32 (x : N) : list N := [x / 16777216; (x / 65536) mod 256; (x / 256) mod 256; x mod 256].
Definition e_bin (s : str) : list N := e_u16 (len s) ++ s.
(* 1.5.5 the encoding algorithm of the specification (non-normative pseudo-code) *)
Fixpoint e_varint_fuel (fuel : nat) (x : N) : list N :=
  match fuel with
  | O => []
  | S k => if x <? 128 then [x] else (x mod 128 + 128) :: e_varint_fuel k (x / 128)
  end.
Definition e_varint (x : N) : list N := e_varint_fuel 4 x.

Definition e_prop (e : N * pval) : list N :=
  let '(id, v) := e in
  id :: match v with PVByte x => [x] | PVU16 x => e_u16 x | PVU32 x => e_u32 x | PVStr s => e_bin s end.
(* properties may be sent in any order (2.2.2.2); this encoder writes: single-valued ones
   by identifier, then subscription identifiers, then user properties *)
Definition e_props_body (p : props) : list N :=
  flat_map e_prop (pr_single p)
  ++ flat_map (fun v => 11 :: e_varint v) (pr_subid p)
  ++ flat_map (fun kv => 38 :: e_bin (fst kv) ++ e_bin (snd kv)) (pr_user p).
Definition e_props (p : option props) : list N :=
  let b := match p with Some p => e_props_body p | None => [] end in e_varint (len b) ++ b.
Definition is_props_empty (p : props) : bool :=
  nil_b (pr_single p) && is_empty (pr_subid p) && nil_b (pr_user p).

Definition e_flag (b : bool) (n : N) : N := if b then n else 0.

(* variable header and payload; (type, flags, bytes) *)
Definition spec_encode_body (b : body) : N * N * list N :=
  match b with
  | BConnect c =>
      let fl := e_flag (c_uflag c) 128 + e_flag (c_pflag c) 64 + e_flag (c_wretain c) 32 + 8 * c_wqos c
                + e_flag (c_wflag c) 4 + e_flag (c_clean c) 2 in
      (CONNECT, 0,
       e_bin (c_pname c) ++ [c_level c; fl] ++ e_u16 (c_keepalive c)
       ++ (if c_level c =? 5 then e_props (c_props c) else [])
       ++ e_bin (c_cid c)
       ++ (if c_wflag c then (if c_level c =? 5 then e_props (c_wprops c) else []) ++ e_bin (c_wtopic c) ++ e_bin (c_wmsg c) else [])
       ++ (if c_uflag c then e_bin (c_user c) else [])
       ++ (if c_pflag c then e_bin (c_pass c) else []))
  | BConnack ver code sp pr => (CONNACK, 0, [e_flag sp 1; code] ++ (if ver =? 5 then e_props pr else []))
  | BPublish ver dup qos retain topic pid payload pr =>
      (PUBLISH, e_flag dup 8 + 2 * qos + e_flag retain 1,
       e_bin topic ++ (if qos =? 0 then [] else e_u16 pid) ++ (if ver =? 5 then e_props pr else []) ++ payload)
  | BAck t ver pid code pr =>
      (t, 0, e_u16 pid ++ (if ver =? 5 then match pr with
                                              | None => []
                                              | Some p => if is_props_empty p then [code] else code :: e_props pr
                                              end else []))
  | BPubrel pid code pr =>
      (PUBREL, 2, e_u16 pid ++ match pr with
                               | None => []
                               | Some p => if is_props_empty p then [code] else code :: e_props pr
                               end)
  | BSubscribe ver pid topics pr =>
      (SUBSCRIBE, 2,
       e_u16 pid ++ (if ver =? 5 then e_props pr else [])
       ++ flat_map (fun t => e_bin (st_name t) ++
                             [if ver =? 5 then st_qos t + e_flag (st_nl t) 4 + e_flag (st_rap t) 8 + 16 * st_rh t
                              else st_qos t]) topics)
  | BSuback ver pid payload pr => (SUBACK, 0, e_u16 pid ++ (if ver =? 5 then e_props pr else []) ++ payload)
  | BUnsubscribe ver pid topics pr =>
      (UNSUBSCRIBE, 2, e_u16 pid ++ (if ver =? 5 then e_props pr else []) ++ flat_map e_bin topics)
  | BUnsuback ver pid payload pr =>
      (UNSUBACK, 0, e_u16 pid ++ (if ver =? 5 then e_props pr ++ payload else []))
  | BPingreq => (PINGREQ, 0, [])
  | BPingresp => (PINGRESP, 0, [])
  | BDisconnect ver code pr =>
      (DISCONNECT, 0,
       if ver =? 5 then match pr with
                        | None => []
                        | Some p => if is_props_empty p then (if code =? 0 then [] else [code]) else code :: e_props pr
                        end else [])
  | BAuth code pr =>
      (AUTH, 0, match pr with
                | None => []
                | Some p => if is_props_empty p then [code] else code :: e_props pr
                end)
  end.

Definition spec_encode (b : body) : list N :=
  let '(t, flags, bytes) := spec_encode_body b in
  (16 * t + flags) :: e_varint (len bytes) ++ bytes.

(* ================================================================ well-formed packet values *)
(* Strings the two codecs must agree on: well-formed UTF-8 without U+0000 (MUST) and without
   the control characters a receiver may refuse (the Go decoder refuses them). *)
Definition wf_str (s : str) : bool := (len s <=? 65535) && spec_utf8 s && negb (has_ctl s).
Definition wf_bin (s : str) : bool := (len s <=? 65535) && forallb (fun x => x <? 256) s.

Definition wf_pval (id : N) (v : pval) : bool :=
  match spec_prop_type id, v with
  | Some TByte, PVByte x => x <=? 1
  | Some TU16, PVU16 x => (x <? 65536) && negb (((id =? 33) || (id =? 35)) && (x =? 0))
  | Some TU32, PVU32 x => (x <? 4294967296) && negb ((id =? 39) && (x =? 0))
  | Some TUtf8, PVStr s => wf_str s && (negb (id =? 8) || valid_name_spec s)
  | Some TBinary, PVStr s => wf_bin s
  | _, _ => false
  end.

Fixpoint sorted_ids (prev : option N) (l : list (N * pval)) : bool :=
  match l with
  | [] => true
  | (k, _) :: r => (match prev with Some q => q <? k | None => true end) && sorted_ids (Some k) r
  end.

Definition wf_props (ctx : N) (p : props) : bool :=
  sorted_ids None (pr_single p)
  && forallb (fun e => existsb (N.eqb ctx) (spec_prop_ctx (fst e)) && wf_pval (fst e) (snd e)) (pr_single p)
  && (is_empty (pr_subid p) || (existsb (N.eqb ctx) (spec_prop_ctx 11) && ((ctx =? PUBLISH) || (len (pr_subid p) <=? 1))))
  && forallb (fun v => (1 <=? v) && (v <=? 268435455)) (pr_subid p)
  && forallb (fun kv => wf_str (fst kv) && wf_str (snd kv)) (pr_user p)
  && (negb (is_some (ps_get 22 (pr_single p))) || is_some (ps_get 21 (pr_single p))).

Definition wf_oprops (ver ctx : N) (p : option props) : bool :=
  if ver =? 5 then match p with Some p => wf_props ctx p | None => false end
  else match p with None => true | Some _ => false end.

Definition wf_ver (v : N) : bool := (v =? 3) || (v =? 4) || (v =? 5).
Definition wf_byte (x : N) : bool := x <? 256.
Definition wf_pid (x : N) : bool := (1 <=? x) && (x <? 65536).

(* the acknowledgement family: None = the two-byte form (code 0); Some = reason code present *)
Definition wf_ackprops (ver ctx code : N) (p : option props) : bool :=
  wf_byte code &&
  if ver =? 5 then match p with Some p => wf_props ctx p | None => code =? 0 end
  else match p with None => code =? 0 | Some _ => false end.

Definition wf_body (b : body) : bool :=
  match b with
  | BConnect c =>
      wf_ver (c_level c) && (c_version c =? c_level c)
      && str_eqb (c_pname c) (if c_level c =? 3 then MQISDP_NAME else MQTT_NAME)
      && (c_wqos c <? 3) && (c_wflag c || ((c_wqos c =? 0) && negb (c_wretain c)))
      && ((c_level c =? 5) || c_uflag c || negb (c_pflag c))
      && (c_keepalive c <? 65536) && wf_str (c_cid c)
      && ((c_level c =? 5) || negb (is_empty (c_cid c)) || c_clean c)
      && wf_oprops (c_level c) CONNECT (c_props c)
      && (if c_wflag c then wf_oprops (c_level c) WILLCTX (c_wprops c) && wf_str (c_wtopic c) && wf_bin (c_wmsg c)
          else is_empty (c_wtopic c) && is_empty (c_wmsg c)
               && match c_wprops c with Some p => (c_level c =? 5) && is_props_empty p | None => negb (c_level c =? 5) end)
      && (if c_uflag c then wf_str (c_user c) else is_empty (c_user c))
      && (if c_pflag c then wf_bin (c_pass c) else is_empty (c_pass c))
  | BConnack ver code sp pr => wf_ver ver && wf_byte code && wf_oprops ver CONNACK pr
  | BPublish ver dup qos retain topic pid payload pr =>
      wf_ver ver && (qos <? 3) && negb ((qos =? 0) && dup) && wf_str topic && negb (has_wild topic)
      && (if qos =? 0 then pid =? 0 else wf_pid pid) && wf_bin payload && wf_oprops ver PUBLISH pr
      && (negb (is_empty topic) || match pr with Some p => is_some (ps_get 35 (pr_single p)) | None => false end)
  | BAck t ver pid code pr =>
      ((t =? PUBACK) || (t =? PUBREC) || (t =? PUBCOMP)) && wf_ver ver && (pid <? 65536) && wf_ackprops ver t code pr
  | BPubrel pid code pr => (pid <? 65536) && wf_byte code && match pr with Some p => wf_props PUBREL p | None => code =? 0 end
  | BSubscribe ver pid topics pr =>
      wf_ver ver && wf_pid pid && negb (nil_b topics) && wf_oprops ver SUBSCRIBE pr
      && forallb (fun t => wf_str (st_name t) && (st_qos t <? 3)
                           && (if ver =? 5 then spec_v5_filter (st_name t) && (st_rh t <? 3)
                                                && negb (st_nl t && has_prefix SHARE_PREFIX (st_name t))
                               else spec_topic_filter (st_name t) && (st_rh t =? 0) && negb (st_nl t) && negb (st_rap t)))
                 topics
  | BSuback ver pid payload pr =>
      wf_ver ver && (pid <? 65536) && negb (is_empty payload) && forallb wf_byte payload && wf_oprops ver SUBACK pr
  | BUnsubscribe ver pid topics pr =>
      wf_ver ver && wf_pid pid && negb (nil_b topics) && wf_oprops ver UNSUBSCRIBE pr
      && forallb (fun t => wf_str t && (if ver =? 5 then spec_v5_filter t else spec_topic_filter t)) topics
  | BUnsuback ver pid payload pr =>
      wf_ver ver && (pid <? 65536) && forallb wf_byte payload && wf_oprops ver UNSUBACK pr
      && (if ver =? 5 then negb (is_empty payload) else is_empty payload)
  | BPingreq | BPingresp => true
  | BDisconnect ver code pr =>
      wf_ver ver && wf_byte code && wf_oprops ver DISCONNECT pr && ((ver =? 5) || (code =? 0))
  | BAuth code pr => wf_byte code && match pr with Some p => wf_props AUTH p | None => code =? 0 end
  end.

(* remaining length within the protocol limit (2.1.4) *)
Definition wf_packet (b : body) : bool :=
  wf_body b && (len (snd (spec_encode_body b)) <=? 268435455).
