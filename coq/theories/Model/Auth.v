(* Model of plugin/auth (auth.go, hooks.go, grpc_handler.go, config.go) and of the part of
   server/client.go that selects the authentication path (connectHandler, sendErrConnack).

   Accounts are the rows of admin.Indexer: an ordered association list user -> stored
   password (hash), with Set updating in place or appending and Remove deleting the row.
   The password file is a model value: the YAML document is the list of its entries
   (yaml.v2 Marshal/Unmarshal of []*Account is taken to be the identity on such lists), and
   the file system is a map from (directory, name) to documents.  Load resolves the path
   (absolute, or relative to the configuration directory) and saveFileHandler writes the
   path Load resolved (repaired in 54a09b0; before, it wrote relative to the working
   directory).  The working directory is still part of the state, to state that nothing
   depends on it; what can make a save fail is that the directory holding the password
   file is unavailable ([s_dir_ok]).

   The digests are SECTION VARIABLES: [H] for md5/sha256 (hex of the digest) and [bverify]
   for bcrypt.CompareHashAndPassword.  Nothing is assumed about them except that they are
   functions.  bcrypt.GenerateFromPassword is randomised (salt) and fails on passwords
   longer than 72 bytes: its result is an argument of the Update operation, read off the
   run of the implementation ("oracle resolved", DESIGN 2.3).
   Executable definitions only; lemmas are in Proofs/AuthP.v. *)
From Coq Require Import List NArith Bool Arith.
Import ListNotations.
From GM Require Import Base.Topic.
Open Scope N_scope.

Inductive halg := Plain | MD5 | SHA256 | Bcrypt.

Definition account := (str * str)%type.          (* user name, stored password *)
Definition acctab := list account.                (* admin.Indexer rows, front to back *)
Definition pwfile := list account.                 (* the YAML sequence, in file order *)
Definition pwpath := (N * str)%type.               (* directory (numbered), file name *)
Definition fsys := list (pwpath * pwfile).

(* ---- admin.Indexer ---- *)
Fixpoint t_get (u : str) (t : acctab) : option str :=
  match t with [] => None | (u', h) :: r => if str_eqb u u' then Some h else t_get u r end.

(* Set: overwrite the value of the existing row, else PushBack *)
Fixpoint t_set (u h : str) (t : acctab) : acctab :=
  match t with
  | [] => [(u, h)]
  | (u', h') :: r => if str_eqb u u' then (u', h) :: r else (u', h') :: t_set u h r
  end.

Fixpoint t_remove (u : str) (t : acctab) : acctab :=
  match t with [] => [] | (u', h') :: r => if str_eqb u u' then r else (u', h') :: t_remove u r end.

Fixpoint au_mem (u : str) (l : list str) : bool :=
  match l with [] => false | x :: r => str_eqb u x || au_mem u r end.

(* ---- file system ---- *)
Definition path_eqb (p q : pwpath) : bool := N.eqb (fst p) (fst q) && str_eqb (snd p) (snd q).

Fixpoint fs_get (p : pwpath) (f : fsys) : option pwfile :=
  match f with [] => None | (q, d) :: r => if path_eqb p q then Some d else fs_get p r end.

Fixpoint fs_put (p : pwpath) (d : pwfile) (f : fsys) : fsys :=
  match f with
  | [] => [(p, d)]
  | (q, d') :: r => if path_eqb p q then (q, d) :: r else (q, d') :: fs_put p d r
  end.

(* ---- configuration ---- *)
Record acfg := {
  a_alg : halg;                 (* config.Hash *)
  a_pf : str;                  (* file name part of config.PasswordFile *)
  a_pfdir : option N;          (* Some d: PasswordFile is the absolute path d/name; None: relative *)
  a_cfgdir : N                 (* config.ConfigDir (absolute) *)
}.

(* Load: path.IsAbs(PasswordFile) ? PasswordFile : path.Join(pwdDir, PasswordFile) *)
Definition load_path (c : acfg) : pwpath :=
  match a_pfdir c with Some d => (d, a_pf c) | None => (a_cfgdir c, a_pf c) end.

(* ---- CONNECT as seen by the hooks ---- *)
Record aconnect := {
  ac_version : N;              (* protocol level *)
  ac_cid : str;
  ac_uflag : bool; ac_pflag : bool;
  ac_user : str; ac_pass : str;
  ac_authmethod : option str;  (* v5 property 0x15 *)
  ac_authdata : option str     (* v5 property 0x16 *)
}.

(* the decoder leaves Connect.Username / Password nil when the flag is not set *)
Definition ac_username (c : aconnect) : str := if ac_uflag c then ac_user c else [].
Definition ac_password (c : aconnect) : str := if ac_pflag c then ac_pass c else [].

Definition au_v3x (v : N) : bool := (v =? 3) || (v =? 4).
Definition au_v5 (v : N) : bool := v =? 5.

(* result of a hook: nil or an error carrying a reason code (converError maps every error
   that is not a *codes.Error to UnspecifiedError) *)
Inductive authres := HkOk | HkErr (code : N).

Definition V3_NOT_AUTHORIZED : N := 5.
Definition NOT_AUTHORIZED : N := 135.          (* 0x87 *)
Definition UNSPECIFIED_ERROR : N := 128.       (* 0x80 *)
Definition CLIENT_ID_NOT_VALID : N := 133.     (* 0x85 *)

Section Auth.
  Variable H : halg -> str -> str.              (* hex(md5(p)), hex(sha256(p)) *)
  Variable bverify : str -> str -> bool.       (* bcrypt.CompareHashAndPassword(h, p) == nil *)

  (* does password [p] match the stored value [h] under the configured algorithm *)
  Definition au_matches (a : halg) (h p : str) : bool :=
    match a with
    | Plain => str_eqb h p
    | MD5 => str_eqb h (H MD5 p)
    | SHA256 => str_eqb h (H SHA256 p)
    | Bcrypt => bverify h p
    end.

  (* Auth.validate *)
  Definition au_validate (a : halg) (t : acctab) (u p : str) : bool :=
    match t_get u t with
    | None => false
    | Some h => au_matches a h p
    end.

  (* Auth.generatePassword; [g] is what bcrypt.GenerateFromPassword returned (None: error) *)
  Definition gen_password (a : halg) (p : str) (g : option str) : option str :=
    match a with
    | Plain => Some p
    | MD5 => Some (H MD5 p)
    | SHA256 => Some (H SHA256 p)
    | Bcrypt => g
    end.

  (* OnBasicAuthWrapper(pre): [v] is client.Version().  When validation fails and the
     every version that is not 3.x is answered with NotAuthorized (repaired in bb4907e; before,
     a version other than 3, 4, 5 fell through to `return nil`). *)
  Definition au_wrapper (a : halg) (t : acctab) (pre : aconnect -> authres) (v : N) (c : aconnect) : authres :=
    match pre c with
    | HkErr e => HkErr e
    | HkOk =>
        if au_validate a t (ac_username c) (ac_password c) then HkOk
        else if au_v3x v then HkErr V3_NOT_AUTHORIZED
        else HkErr NOT_AUTHORIZED
    end.

  (* ---- server/client.go: connectHandler ---- *)
  Inductive enhres := EResp (cont : bool) | ENil | EFail (code : N).

  (* [basic] = srv.hooks.OnBasicAuth, [enh] = srv.hooks.OnEnhancedAuth (None: nil).
     Result: AOk = authentication succeeded (or continues, for an enhanced exchange). *)
  Definition connect_handler (allow_zero : bool) (basic : option (N -> aconnect -> authres))
             (enh : option (aconnect -> enhres)) (c : aconnect) : authres :=
    if negb allow_zero && is_empty (ac_cid c) then HkErr CLIENT_ID_NOT_VALID
    else
      let v := ac_version c in
      let r1 :=
        if au_v3x v || (au_v5 v && match ac_authmethod c with None => true | Some _ => false end)
        then match basic with Some hk => hk v c | None => HkOk end
        else HkOk in
      if au_v5 v && match ac_authmethod c with None => false | Some _ => true end
      then match enh with
           | None => HkErr UNSPECIFIED_ERROR          (* errors.New("OnEnhancedAuth hook is nil") *)
           | Some hk => match hk c with
                        | EResp _ => HkOk
                        | ENil => HkErr UNSPECIFIED_ERROR
                        | EFail e => HkErr e
                        end
           end
      else r1.

  (* sendErrConnack: the code written into the CONNACK; None = CONNACK(success) *)
  Definition connack_code (v : N) (r : authres) : option N :=
    match r with
    | HkOk => None
    | HkErr e => Some (if au_v3x v && (V3_NOT_AUTHORIZED <? e) then NOT_AUTHORIZED else e)
    end.

  (* the broker with exactly this plugin loaded: OnBasicAuth = wrapper(default hook),
     OnEnhancedAuth = nil *)
  Definition broker_connect (allow_zero : bool) (a : halg) (t : acctab) (c : aconnect) : option N :=
    (* connectHandler assigns client.version only after the client-id check: a CONNECT refused
       there is answered with client.version still 0 (no v3 override of the code) *)
    let v := if negb allow_zero && is_empty (ac_cid c) then 0 else ac_version c in
    connack_code v
      (connect_handler allow_zero (Some (au_wrapper a t (fun _ => HkOk))) None c).

  (* ---- Load ---- *)
  (* the two checks of Load over the parsed entries *)
  Fixpoint load_check (seen : list str) (f : pwfile) : bool :=
    match f with
    | [] => true
    | (u, _) :: r => negb (is_empty u) && negb (au_mem u seen) && load_check (u :: seen) r
    end.

  Definition load_rows (t : acctab) (f : pwfile) : acctab :=
    fold_left (fun t a => t_set (fst a) (snd a) t) f t.

  (* Load of a fresh instance: O_CREATE makes a missing file an empty one *)
  Definition au_load (c : acfg) (f : fsys) : fsys * option acctab :=
    match fs_get (load_path c) f with
    | None => (fs_put (load_path c) [] f, Some [])
    | Some d => (f, if load_check [] d then Some (load_rows [] d) else None)
    end.

  (* ---- the plugin instance and its environment ---- *)
  Record austate := { s_tab : acctab; s_fs : fsys; s_cwd : N; s_dir_ok : bool }.

  (* saveFileHandler: TempFile(filepath.Dir(pwdFile)) and Rename onto pwdFile, the path Load
     resolved; fails when that directory is unavailable *)
  Definition au_save (c : acfg) (t : acctab) (s : austate) : option fsys :=
    if s_dir_ok s then Some (fs_put (load_path c) t (s_fs s)) else None.

  Inductive aop :=
  | OUpdate (u p : str) (g : option str)
  | ODelete (u : str)
  | OGet (u : str)
  | OList (page size : N)
  | OChdir (d : N)                             (* os.Chdir: no operation depends on it *)
  | OBreak (b : bool)                          (* the directory of the password file goes away (true) / comes back *)
  | OValidate (u p : str)
  | OAuth (pre : authres) (v : N) (c : aconnect)
  | OReload                                    (* a fresh instance Loads; its full listing *)
  | OFile.                                     (* the document at the path Load reads *)

  Inductive aout :=
  | XOk | XInvalid | XErr | XNotFound
  | XAccount (h : str)
  | XList (l : list account) (total : N)
  | XBool (b : bool)
  | XAuth (r : authres)
  | XLoaded (t : option (list account))
  | XFile (d : option pwfile).

  Definition with_tab (s : austate) (t : acctab) : austate :=
    {| s_tab := t; s_fs := s_fs s; s_cwd := s_cwd s; s_dir_ok := s_dir_ok s |}.
  Definition with_tab_fs (s : austate) (t : acctab) (f : fsys) : austate :=
    {| s_tab := t; s_fs := f; s_cwd := s_cwd s; s_dir_ok := s_dir_ok s |}.

  (* Update *)
  Definition au_update (c : acfg) (u p : str) (g : option str) (s : austate) : austate * aout :=
    if is_empty u then (s, XInvalid)
    else match gen_password (a_alg c) p g with
         | None => (s, XErr)
         | Some h =>
             let old := t_get u (s_tab s) in
             let t' := t_set u h (s_tab s) in
             match au_save c t' s with
             | Some f' => (with_tab_fs s t' f', XOk)
             | None =>
                 match old with
                 | None => (with_tab s (t_remove u t'), XErr)
                 | Some ho => (with_tab s (t_set u ho t'), XErr)
                 end
             end
         end.

  (* Delete *)
  Definition au_delete (c : acfg) (u : str) (s : austate) : austate * aout :=
    if is_empty u then (s, XInvalid)
    else match t_get u (s_tab s) with
         | None => (s, XOk)                                  (* fast path: nothing is saved *)
         | Some ho =>
             let t' := t_remove u (s_tab s) in
             match au_save c t' s with
             | Some f' => (with_tab_fs s t' f', XOk)
             | None => (with_tab s (t_set u ho t'), XErr)     (* rollback re-appends at the back *)
             end
         end.

  (* List: GetPage, GetOffsetN, Indexer.Iterate *)
  Definition list_page (page size : N) (t : acctab) : list account :=
    let pg := if page =? 0 then 1 else page in
    let sz := if size =? 0 then 20 else size in
    firstn (N.to_nat sz) (skipn (N.to_nat ((pg - 1) * sz)) t).

  Definition au_step (c : acfg) (s : austate) (o : aop) : austate * aout :=
    match o with
    | OUpdate u p g => au_update c u p g s
    | ODelete u => au_delete c u s
    | OGet u => if is_empty u then (s, XInvalid)
                else (s, match t_get u (s_tab s) with Some h => XAccount h | None => XNotFound end)
    | OList page size => (s, XList (list_page page size (s_tab s)) (N.of_nat (length (s_tab s)) mod 4294967296))
    | OChdir d => ({| s_tab := s_tab s; s_fs := s_fs s; s_cwd := d; s_dir_ok := s_dir_ok s |}, XOk)
    | OBreak b => ({| s_tab := s_tab s; s_fs := s_fs s; s_cwd := s_cwd s; s_dir_ok := negb b |}, XOk)
    | OValidate u p => (s, XBool (au_validate (a_alg c) (s_tab s) u p))
    | OAuth pre v cn => (s, XAuth (au_wrapper (a_alg c) (s_tab s) (fun _ => pre) v cn))
    | OReload => if s_dir_ok s
                 then let '(f', r) := au_load c (s_fs s) in (with_tab_fs s (s_tab s) f', XLoaded r)
                 else (s, XLoaded None)                       (* OpenFile fails *)
    | OFile => (s, XFile (if s_dir_ok s then fs_get (load_path c) (s_fs s) else None))
    end.

  Fixpoint au_run (c : acfg) (s : austate) (ops : list aop) : austate * list aout :=
    match ops with
    | [] => (s, [])
    | o :: r => let '(s', x) := au_step c s o in
                let '(s'', xs) := au_run c s' r in (s'', x :: xs)
    end.

  (* a case: the configuration, the initial password file (None: absent), the working
     directory in which the plugin is started, the operations *)
  Definition init_fs (c : acfg) (init : option pwfile) : fsys :=
    match init with None => [] | Some d => [(load_path c, d)] end.

  (* None: Load of the first instance failed (the broker does not start) *)
  Definition au_start (c : acfg) (init : option pwfile) (cwd : N) : option austate :=
    let '(f, r) := au_load c (init_fs c init) in
    match r with
    | None => None
    | Some t => Some {| s_tab := t; s_fs := f; s_cwd := cwd; s_dir_ok := true |}
    end.

  Definition au_model_outs (c : acfg) (init : option pwfile) (cwd : N) (ops : list aop) : option (list aout) :=
    match au_start c init cwd with
    | None => None
    | Some s => Some (snd (au_run c s ops))
    end.
End Auth.
