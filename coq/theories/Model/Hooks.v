(* C14 (static half) - composition of plugin hook wrappers.
   A hook of some kind is a value of type H; a wrapper maps a hook to a hook
   (`type OnXWrapper func(OnX) OnX`).  `compose [w1; ...; wn] base` is the hook the property
   asks for: the wrapper of the FIRST plugin in plugin_order is outermost.
   loop_desc / loop_asc are the two loop shapes the translator distinguishes in
   initPluginHooks (Gen/HookKinds.v, hr_dir):
     Desc:  for i := len(ws); i > 0; i-- { h = ws[i-1](h) }
     Asc :  for i := 0; i < len(ws); i++ { h = ws[i](h) }      (or `for _, w := range ws`)
   Definitions only; proofs in Proofs/HooksP.v. *)
From Coq Require Import List.
Import ListNotations.

Section Compose.
  Context {H : Type}.

  Definition compose (ws : list (H -> H)) (base : H) : H :=
    fold_right (fun w h => w h) base ws.

  (* i counts down from len(ws); the body applies ws[i-1] *)
  Fixpoint loop_desc (ws : list (H -> H)) (i : nat) (h : H) : H :=
    match i with
    | 0 => h
    | S i' => loop_desc ws i' (nth i' ws (fun x => x) h)
    end.

  Definition loop_asc (ws : list (H -> H)) (h : H) : H :=
    fold_left (fun h w => w h) ws h.
End Compose.

(* A recording instance, used for the non-vacuity examples: a hook is the trace of wrapper
   names it passes through, outermost first. *)
Definition tag (n : nat) : list nat -> list nat := fun h => n :: h.
