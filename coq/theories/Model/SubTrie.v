(* Model of persistence/subscription/mem: topicTrie (topic_trie.go) and TrieDB (trie_db.go).
   Go maps are association lists (observables are compared after sorting); the node
   pointers kept in the three indexes are modelled as paths into the trie. *)
From Coq Require Import List NArith Bool.
Import ListNotations.
From GM Require Import Base.Topic.
Open Scope N_scope.

Definition cid := str.

Record sub := {
  s_share : str; s_filter : str; s_id : N; s_qos : N;
  s_nl : bool; s_rap : bool; s_rh : N }.

(* ---------- association lists keyed by byte strings ---------- *)
Section Assoc.
  Context {V : Type}.
  Fixpoint aget (k : str) (l : list (str * V)) : option V :=
    match l with
    | [] => None
    | (k', v) :: r => if str_eqb k k' then Some v else aget k r
    end.
  Fixpoint aset (k : str) (v : V) (l : list (str * V)) : list (str * V) :=
    match l with
    | [] => [(k, v)]
    | (k', v') :: r => if str_eqb k k' then (k, v) :: r else (k', v') :: aset k v r
    end.
  Fixpoint adel (k : str) (l : list (str * V)) : list (str * V) :=
    match l with
    | [] => []
    | (k', v') :: r => if str_eqb k k' then r else (k', v') :: adel k r
    end.
  Definition ahas (k : str) (l : list (str * V)) : bool :=
    match aget k l with Some _ => true | None => false end.
End Assoc.

Definition copts := list (cid * sub).

(* topicNode; `parent` is implicit in the tree shape *)
Inductive node :=
  Node (clients : copts) (shared : list (str * copts)) (tname : str) (children : list (level * node)).

Definition n_clients (n : node) := let 'Node c _ _ _ := n in c.
Definition n_shared (n : node) := let 'Node _ s _ _ := n in s.
Definition n_tname (n : node) := let 'Node _ _ t _ := n in t.
Definition n_children (n : node) := let 'Node _ _ _ c := n in c.

Definition empty_node : node := Node [] [] [] [].

Definition child (lv : level) (n : node) : option node := aget lv (n_children n).

Definition with_children (n : node) (ch : list (level * node)) : node :=
  Node (n_clients n) (n_shared n) (n_tname n) ch.

(* topicTrie.subscribe, after strings.Split *)
Fixpoint tsubscribe (path : list level) (c : cid) (s : sub) (n : node) : node :=
  match path with
  | [] =>
      if is_empty (s_share s)
      then Node (aset c s (n_clients n)) (n_shared n) (s_filter s) (n_children n)
      else
        let g := match aget (s_share s) (n_shared n) with Some g => g | None => [] end in
        Node (n_clients n) (aset (s_share s) (aset c s g) (n_shared n)) (s_filter s) (n_children n)
  | lv :: rest =>
      let ch := match child lv n with Some x => x | None => empty_node end in
      with_children n (aset lv (tsubscribe rest c s ch) (n_children n))
  end.

Fixpoint tget (path : list level) (n : node) : option node :=
  match path with
  | [] => Some n
  | lv :: rest => match child lv n with Some ch => tget rest ch | None => None end
  end.

(* topicTrie.find *)
Definition tfind (filter : str) (n : node) : option node :=
  match tget (split filter) n with
  | Some x => if str_eqb (n_tname x) filter then Some x else None
  | None => None
  end.

Definition is_nil {A} (l : list A) : bool := match l with [] => true | _ => false end.

(* what unsubscribe does to the node it reached; returns the node and whether it is
   deleted from its parent *)
Definition leave_node (c : cid) (share : str) (x : node) : node * bool :=
  if is_empty share then
    let x' := Node (adel c (n_clients x)) (n_shared x) (n_tname x) (n_children x) in
    (x', is_nil (n_clients x') && is_nil (n_children x'))
  else
    match aget share (n_shared x) with
    | None => (x, false)
    | Some g =>
        let g' := adel c g in
        let sh' := match g' with [] => adel share (n_shared x) | _ => aset share g' (n_shared x) end in
        let x' := Node (n_clients x) sh' (n_tname x) (n_children x) in
        (x', is_nil sh' && is_nil (n_children x'))
    end.

(* topicTrie.unsubscribe *)
Fixpoint tunsubscribe (path : list level) (c : cid) (share : str) (n : node) : node :=
  match path with
  | [] => n
  | lv :: rest =>
      match child lv n with
      | None => n
      | Some ch =>
          match rest with
          | [] =>
              let '(ch', prune) := leave_node c share ch in
              if prune then with_children n (adel lv (n_children n))
              else with_children n (aset lv ch' (n_children n))
          | _ => with_children n (aset lv (tunsubscribe rest c share ch) (n_children n))
          end
      end
  end.

(* setRs *)
Definition set_rs (n : node) : list (cid * sub) :=
  n_clients n ++ flat_map snd (n_shared n).

Definition rs_of (o : option node) : list (cid * sub) :=
  match o with Some n => set_rs n | None => [] end.

(* topicTrie.matchTopic: the '#' child, the '+' child, then matchLiteral (the last summand) *)
Fixpoint tmatch (ts : list level) (n : node) : list (cid * sub) :=
  match ts with
  | [] => []
  | t :: rest =>
      let go (o : option node) : list (cid * sub) :=
        match o with
        | None => []
        | Some c =>
            match rest with
            | [] => set_rs c ++ rs_of (child [HASH] c)
            | _ => tmatch rest c
            end
        end in
      rs_of (child [HASH] n) ++ go (child [PLUS] n) ++ go (child t n)
  end.

(* topicTrie.matchLiteral: only the child named like the first level is followed (no '#' / '+'
   child at this level); the levels below are matched by matchTopic *)
Definition tmatch_lit (ts : list level) (n : node) : list (cid * sub) :=
  match ts with
  | [] => []
  | t :: rest =>
      match child t n with
      | None => []
      | Some c =>
          match rest with
          | [] => set_rs c ++ rs_of (child [HASH] c)
          | _ => tmatch rest c
          end
      end
  end.

(* topicTrie.getMatchedTopicFilter: a topic name beginning with '$' is matched literally at its
   first level [MQTT-4.7.2-1], whatever the trie *)
Definition tmatch_top (topic : str) (n : node) : list (cid * sub) :=
  if starts_dollar topic then tmatch_lit (split topic) n else tmatch (split topic) n.

(* topicTrie.preOrderTraverse with fn always returning true *)
Fixpoint traverse (n : node) : list (cid * sub) :=
  match n with
  | Node cl sh tn ch =>
      (if is_empty tn then [] else cl ++ flat_map snd sh) ++
      flat_map (fun p : level * node => let '(_, c) := p in traverse c) ch
  end.

(* ---------- TrieDB ---------- *)

Definition index := list (cid * list str).     (* [clientID] -> set of index keys *)

Definition U64 : N := 18446744073709551616.
Definition u64_sub (a b : N) : N := (a + U64 - b mod U64) mod U64.
Definition u64_add (a b : N) : N := (a + b) mod U64.

Record stats := { st_total : N; st_cur : N }.

Record db := {
  userT : node; sysT : node; sharedT : node;
  userI : index; sysI : index; sharedI : index;
  gstats : stats;
  cstats : list (cid * stats);
  panicked : bool }.

Definition db_init : db :=
  {| userT := empty_node; sysT := empty_node; sharedT := empty_node;
     userI := []; sysI := []; sharedI := [];
     gstats := {| st_total := 0; st_cur := 0 |}; cstats := []; panicked := false |}.

Inductive kind := KUser | KSys | KShared.

Definition kind_of (share filter : str) : kind :=
  if negb (is_empty share) then KShared else if starts_dollar filter then KSys else KUser.

Definition trie_of (k : kind) (d : db) : node :=
  match k with KUser => userT d | KSys => sysT d | KShared => sharedT d end.
Definition index_of (k : kind) (d : db) : index :=
  match k with KUser => userI d | KSys => sysI d | KShared => sharedI d end.

Definition set_trie_index (k : kind) (t : node) (i : index) (d : db) : db :=
  match k with
  | KUser => {| userT := t; sysT := sysT d; sharedT := sharedT d; userI := i; sysI := sysI d; sharedI := sharedI d;
                gstats := gstats d; cstats := cstats d; panicked := panicked d |}
  | KSys => {| userT := userT d; sysT := t; sharedT := sharedT d; userI := userI d; sysI := i; sharedI := sharedI d;
               gstats := gstats d; cstats := cstats d; panicked := panicked d |}
  | KShared => {| userT := userT d; sysT := sysT d; sharedT := t; userI := userI d; sysI := sysI d; sharedI := i;
                  gstats := gstats d; cstats := cstats d; panicked := panicked d |}
  end.

Definition set_stats (g : stats) (cs : list (cid * stats)) (p : bool) (d : db) : db :=
  {| userT := userT d; sysT := sysT d; sharedT := sharedT d; userI := userI d; sysI := sysI d; sharedI := sharedI d;
     gstats := g; cstats := cs; panicked := p |}.

Fixpoint mem_str (k : str) (l : list str) : bool :=
  match l with [] => false | x :: r => str_eqb k x || mem_str k r end.
Fixpoint del_str (k : str) (l : list str) : list str :=
  match l with [] => [] | x :: r => if str_eqb k x then r else x :: del_str k r end.

(* key of a subscription in its index: the filter, or "<share>/<filter>" in sharedIndex *)
Definition index_key (share filter : str) : str :=
  if is_empty share then filter else share ++ SLASH :: filter.

(* SubscribeLocked for one subscription; returns AlreadyExisted *)
Definition db_subscribe (c : cid) (s : sub) (d : db) : db * bool :=
  let k := kind_of (s_share s) (s_filter s) in
  let t' := tsubscribe (split (s_filter s)) c s (trie_of k d) in
  let idx := index_of k d in
  let key := index_key (s_share s) (s_filter s) in
  let '(keys, cs0) :=
    match aget c idx with
    | Some keys => (keys, cstats d)
    | None => ([], match aget c (cstats d) with
                   | Some _ => cstats d
                   | None => aset c {| st_total := 0; st_cur := 0 |} (cstats d)
                   end)
    end in
  let existed := mem_str key keys in
  let '(g', cs', p') :=
    if existed then (gstats d, cs0, panicked d)
    else
      let g' := {| st_total := u64_add (st_total (gstats d)) 1; st_cur := u64_add (st_cur (gstats d)) 1 |} in
      match aget c cs0 with
      | Some x => (g', aset c {| st_total := u64_add (st_total x) 1; st_cur := u64_add (st_cur x) 1 |} cs0, panicked d)
      | None => (g', cs0, true)      (* nil dereference of db.clientStats[clientID] *)
      end in
  let keys' := if existed then keys else keys ++ [key] in
  (set_stats g' cs' p' (set_trie_index k t' (aset c keys' idx) d), existed).

(* UnsubscribeLocked for one topic string (full name, possibly "$share/g/f") *)
Definition db_unsubscribe (c : cid) (topic : str) (d : db) : db :=
  let '(share, filter) := split_topic topic in
  let k := kind_of share filter in
  let idx := index_of k d in
  let key := index_key share filter in
  let '(idx', g', cs', p') :=
    match aget c idx with
    | None => (idx, gstats d, cstats d, panicked d)
    | Some keys =>
        if mem_str key keys then
          let g' := {| st_total := st_total (gstats d); st_cur := u64_sub (st_cur (gstats d)) 1 |} in
          match aget c (cstats d) with
          | Some x => (aset c (del_str key keys) idx, g',
                       aset c {| st_total := st_total x; st_cur := u64_sub (st_cur x) 1 |} (cstats d), panicked d)
          | None => (aset c (del_str key keys) idx, g', cstats d, true)
          end
        else (idx, gstats d, cstats d, panicked d)
    end in
  let t' := tunsubscribe (split filter) c share (trie_of k d) in
  set_stats g' cs' p' (set_trie_index k t' idx' d).

(* one index entry of unsubscribeAll: remove the client from the node the entry points
   to and prune the node when it became empty *)
Definition unsub_entry (shared_kind : bool) (c : cid) (key : str) (t : node) : node :=
  if shared_kind then
    match cut_slash key with
    | (g, Some f) => tunsubscribe (split f) c g t
    | (_, None) => t
    end
  else tunsubscribe (split key) c [] t.

Definition db_unsub_all_kind (k : kind) (c : cid) (d : db) : db :=
  let idx := index_of k d in
  let keys := match aget c idx with Some keys => keys | None => [] end in
  let n := N.of_nat (length keys) in
  let g' := {| st_total := st_total (gstats d); st_cur := u64_sub (st_cur (gstats d)) n |} in
  let cs' := match aget c (cstats d) with
             | Some x => aset c {| st_total := st_total x; st_cur := u64_sub (st_cur x) n |} (cstats d)
             | None => cstats d
             end in
  let t' := fold_left (fun t key => unsub_entry (match k with KShared => true | _ => false end) c key t)
                      keys (trie_of k d) in
  set_stats g' cs' (panicked d) (set_trie_index k t' (adel c idx) d).

Definition db_unsubscribe_all (c : cid) (d : db) : db :=
  db_unsub_all_kind KShared c (db_unsub_all_kind KSys c (db_unsub_all_kind KUser c d)).

(* ---------- Iterate ---------- *)

Inductive mtype := MatchNone | MatchName | MatchFilter.

Record iopts := {
  io_sys : bool; io_shared : bool; io_nonshared : bool;
  io_client : cid; io_topic : str; io_mt : mtype }.

(* an entry handed to the callback: the subscription may be nil *)
Definition ient := (cid * option sub)%type.

Definition some_ents (l : list (cid * sub)) : list ient := map (fun '(c, s) => (c, Some s)) l.

Definition of_client (c : cid) (l : list (cid * sub)) : list (cid * sub) :=
  filter (fun '(c', _) => str_eqb c c') l.

Inductive ires := IOk (l : list ient) | IPanic.

Definition iterate_nonshared (o : iopts) (idx : index) (t : node) : list ient :=
  let by_client_or_traverse :=
    if negb (is_empty (io_client o)) then
      match aget (io_client o) idx with
      | None => []
      | Some keys =>
          map (fun key =>
                 (io_client o,
                  match tget (split key) t with
                  | Some x => aget (io_client o) (n_clients x)
                  | None => None
                  end)) keys
      end
    else some_ents (traverse t) in
  if negb (is_empty (io_topic o)) then
    match io_mt o with
    | MatchName =>
        match tfind (io_topic o) t with
        | None => []
        | Some x =>
            if negb (is_empty (io_client o)) then
              some_ents (of_client (io_client o) (n_clients x) ++
                         flat_map (fun g => of_client (io_client o) (snd g)) (n_shared x))
            else some_ents (set_rs x)
        end
    | MatchFilter =>
        let rs := tmatch_top (io_topic o) t in
        if negb (is_empty (io_client o)) then some_ents (of_client (io_client o) rs) else some_ents rs
    | MatchNone => by_client_or_traverse
    end
  else by_client_or_traverse.

Definition iterate_shared (o : iopts) (idx : index) (t : node) : ires :=
  let by_client_or_traverse :=
    if negb (is_empty (io_client o)) then
      match aget (io_client o) idx with
      | None => IOk []
      | Some keys =>
          IOk (flat_map (fun key =>
                 match cut_slash key with
                 | (g, Some f) =>
                     match tget (split f) t with
                     | Some x =>
                         match aget g (n_shared x) with
                         | Some grp => some_ents (of_client (io_client o) grp)
                         | None => []
                         end
                     | None => []
                     end
                 | (_, None) => []
                 end) keys)
      end
    else IOk (some_ents (traverse t)) in
  if negb (is_empty (io_topic o)) then
    match io_mt o with
    | MatchName =>
        if has_prefix SHARE_PREFIX (io_topic o) then
          match cut_slash (skipn 7 (io_topic o)) with
          | (_, None) => IPanic                    (* shared[2]: index out of range *)
          | (g, Some f) =>
              match tfind f t with
              | None => IOk []
              | Some x =>
                  match aget g (n_shared x) with
                  | None => IOk []
                  | Some grp =>
                      if negb (is_empty (io_client o)) then IOk (some_ents (of_client (io_client o) grp))
                      else IOk (some_ents grp)
                  end
              end
          end
        else IOk []
    | MatchFilter =>
        let rs := tmatch_top (io_topic o) t in
        if negb (is_empty (io_client o)) then IOk (some_ents (of_client (io_client o) rs)) else IOk (some_ents rs)
    | MatchNone => by_client_or_traverse
    end
  else by_client_or_traverse.

(* IterateLocked with a callback that never stops the iteration *)
Definition db_iterate (o : iopts) (d : db) : ires :=
  let r1 := if io_shared o then iterate_shared o (sharedI d) (sharedT d) else IOk [] in
  match r1 with
  | IPanic => IPanic
  | IOk l1 =>
      let has_topic := negb (is_empty (io_topic o)) in
      let l2 := if io_nonshared o && negb (has_topic && starts_dollar (io_topic o))
                then iterate_nonshared o (userI d) (userT d) else [] in
      let l3 := if io_sys o && negb (has_topic && negb (starts_dollar (io_topic o)))
                then iterate_nonshared o (sysI d) (sysT d) else [] in
      IOk (l1 ++ l2 ++ l3)
  end.

Definition db_client_stats (c : cid) (d : db) : option stats := aget c (cstats d).

(* ---------- histories ---------- *)
Inductive op :=
| OSub (c : cid) (s : sub)
| OUnsub (c : cid) (topic : str)
| OUnsubAll (c : cid).

Definition db_step (d : db) (o : op) : db :=
  match o with
  | OSub c s => fst (db_subscribe c s d)
  | OUnsub c t => db_unsubscribe c t d
  | OUnsubAll c => db_unsubscribe_all c d
  end.

Definition db_run (ops : list op) : db := fold_left db_step ops db_init.
