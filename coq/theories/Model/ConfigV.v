(* config.MQTT.Validate: the validator is the list of guards REGENERATED from the source (Gen/ValidateTable.v,
   translator validate); this file is its interpreter.  A configuration is an environment field name -> value;
   Validate returns the error of the first guard whose condition holds, nil when none does.  A guard that cannot
   be evaluated (unknown field, comparison of values of different kinds, ordering of strings) is `VStuck`:
   excluded by theorem for the generated table on well-typed environments. *)
From Coq Require Import ZArith NArith String List Bool.
Import ListNotations.
From GM Require Import Base.Topic Gen.ValidateTable.
Local Open Scope string_scope.

Inductive cval := VInt (z : Z) | VStr (s : str) | VBool (b : bool).
Definition cenv := list (str * cval).

Fixpoint env_get (k : str) (e : cenv) : option cval :=
  match e with
  | [] => None
  | (k', v) :: r => if str_eqb k' k then Some v else env_get k r
  end.

Definition eval_operand (e : cenv) (o : voperand) : option cval :=
  match o with
  | OField n => env_get n e
  | OInt z => Some (VInt z)
  | OStr s => Some (VStr s)
  | OBool b => Some (VBool b)
  end.

Definition cmp_int (c : vcmp) (a b : Z) : bool :=
  match c with
  | CEq => Z.eqb a b | CNe => negb (Z.eqb a b) | CLt => Z.ltb a b | CLe => Z.leb a b | CGt => Z.gtb a b | CGe => Z.geb a b
  end.

Definition eval_cmp (c : vcmp) (a b : cval) : option bool :=
  match a, b with
  | VInt x, VInt y => Some (cmp_int c x y)
  | VStr x, VStr y => match c with CEq => Some (str_eqb x y) | CNe => Some (negb (str_eqb x y)) | _ => None end
  | VBool x, VBool y => match c with CEq => Some (Bool.eqb x y) | CNe => Some (negb (Bool.eqb x y)) | _ => None end
  | _, _ => None
  end.

(* Go's && and || evaluate the right operand only when needed *)
Fixpoint eval_guard (e : cenv) (g : vguard) : option bool :=
  match g with
  | GCmp c a b => match eval_operand e a, eval_operand e b with Some x, Some y => eval_cmp c x y | _, _ => None end
  | GAnd a b => match eval_guard e a with Some true => eval_guard e b | Some false => Some false | None => None end
  | GOr a b => match eval_guard e a with Some true => Some true | Some false => eval_guard e b | None => None end
  | GNot a => match eval_guard e a with Some v => Some (negb v) | None => None end
  end.

Inductive vresult := VOk | VReject (guard : nat) | VStuck.

Fixpoint run_guards (e : cenv) (gs : list vguard) (i : nat) : vresult :=
  match gs with
  | [] => VOk
  | g :: r => match eval_guard e g with
              | Some true => VReject i
              | Some false => run_guards e r (S i)
              | None => VStuck
              end
  end.

Definition mqtt_validate (e : cenv) : vresult := run_guards e validate_guards 0.

(* the fields Validate reads, as the typed record the broker is configured with (config.MQTT): MaximumQoS uint8,
   MaxQueuedMsg int, ReceiveMax uint16, MaxPacketSize uint32, MaxInflight uint16, DeliveryMode string *)
Record mqttc := { v_max_qos : Z; v_max_queued : Z; v_recv_max : Z; v_max_packet : Z; v_max_inflight : Z; v_mode : str }.

Definition in_range (c : mqttc) : Prop :=
  (0 <= v_max_qos c < 256)%Z /\ (- 9223372036854775808 <= v_max_queued c < 9223372036854775808)%Z /\
  (0 <= v_recv_max c < 65536)%Z /\ (0 <= v_max_packet c < 4294967296)%Z /\ (0 <= v_max_inflight c < 65536)%Z.

Definition F_MaximumQoS : str := Eval vm_compute in s2b "MaximumQoS".
Definition F_MaxQueuedMsg : str := Eval vm_compute in s2b "MaxQueuedMsg".
Definition F_ReceiveMax : str := Eval vm_compute in s2b "ReceiveMax".
Definition F_MaxPacketSize : str := Eval vm_compute in s2b "MaxPacketSize".
Definition F_MaxInflight : str := Eval vm_compute in s2b "MaxInflight".
Definition F_DeliveryMode : str := Eval vm_compute in s2b "DeliveryMode".
Definition M_OVERLAP : str := Eval vm_compute in s2b "overlap".
Definition M_ONLYONCE : str := Eval vm_compute in s2b "onlyonce".

Definition env_of (c : mqttc) : cenv :=
  [(F_MaximumQoS, VInt (v_max_qos c)); (F_MaxQueuedMsg, VInt (v_max_queued c)); (F_ReceiveMax, VInt (v_recv_max c));
   (F_MaxPacketSize, VInt (v_max_packet c)); (F_MaxInflight, VInt (v_max_inflight c)); (F_DeliveryMode, VStr (v_mode c))].

(* what an accepted configuration is, written from the documentation of the fields *)
Definition accepted (c : mqttc) : Prop :=
  (v_max_qos c <= 2)%Z /\ (1 <= v_max_queued c)%Z /\ (1 <= v_recv_max c)%Z /\ (1 <= v_max_packet c)%Z /\
  (1 <= v_max_inflight c <= v_max_queued c)%Z /\ (v_mode c = M_OVERLAP \/ v_mode c = M_ONLYONCE).

Definition accepted_b (c : mqttc) : bool :=
  (v_max_qos c <=? 2)%Z && (1 <=? v_max_queued c)%Z && (1 <=? v_recv_max c)%Z && (1 <=? v_max_packet c)%Z &&
  (1 <=? v_max_inflight c)%Z && (v_max_inflight c <=? v_max_queued c)%Z &&
  (str_eqb (v_mode c) M_OVERLAP || str_eqb (v_mode c) M_ONLYONCE).
