(* C15 - server.Stop (/repo/server/server.go) with its stopOnce, two concurrent callers and two
   client connections abstracted to their life-cycle state, as a finite transition system.
   Executable definitions only; theorems in Proofs/StopLifeP.v.

   Stop(ctx):  stopOnce.Do(func() {
                 defer close(exitedChan)
     O1          exit(); close the listeners
     O2          mu.Lock(); for every client in srv.clients and every connection in srv.connecting:
                 remember its `closed` channel, c.Close(); mu.Unlock()
     O3          select { <-ctx.Done(): return ctx.Err()           (O7: timeout return, no Unload, no OnStop)
                          <-done (all remembered `closed` channels are closed): }
     O4          plugins: Unload()       O5  hooks.OnStop()        O6  return
               })
   A second caller waits in stopOnce.Do until the first has returned (C8), then returns (C9).

   A connection is (constants KN, KA, ...): KN not yet accepted; KA accepted - Accept has returned, the OnAccept
   hook / newClient are running, the connection is in NEITHER map yet; KC connecting - in
   srv.connecting (since 1d02d65: newClient ends with addConnecting); KR registered - in srv.clients;
   KF connect failed or refused - still in srv.connecting, socket open until the peer or Stop closes it;
   KX closing - its socket is closed, the goroutines are winding down (it leaves its map in
   internalClose, i.e. when it becomes KD); KD closed - internalClose has closed `closed`.
   A connection whose socket has been closed always reaches KD: that is C15_conn_no_stuck
   (Model/ConnLife.v).  registerClient refuses a CONNECT once exit() has run (1d02d65): KC -> KR only
   while the listeners are open (O1 runs exit() and closes the listeners in one step of the model).
   addConnecting closes a connection that it records after exit() (9fa9d46): KA -> KX instead of
   KA -> KC; such a connection is in srv.connecting with its socket closed: never served.
   Stop's locked block lists srv.clients AND srv.connecting: KR, KC, KF and KX connections are
   remembered (w) and closed.  `ctx_may_expire` says whether the caller's context can expire while
   Stop waits. *)
From Coq Require Import List Arith Bool.
Import ListNotations.

Definition C0 := 0. (* not called yet *)
Definition O1 := 1. Definition O2 := 2. Definition O3 := 3. Definition O4 := 4. Definition O5 := 5.
Definition O6 := 6. Definition O7 := 7. Definition C8 := 8. Definition C9 := 9.

Definition KA := 0. Definition KR := 1. Definition KX := 2. Definition KD := 3.
Definition KC := 5. Definition KF := 7. Definition KN := 8.

Record sst := mk_sst {
  cA : nat; cB : nat;            (* the two callers of Stop *)
  once : nat;                    (* stopOnce: 0 fresh, 1 running, 2 done *)
  lst : bool;                    (* listeners open *)
  k1 : nat; k2 : nat;            (* connections *)
  w1 : bool; w2 : bool;          (* Stop remembered the connection's `closed` channel *)
  ctx : bool;                    (* the context has expired and Stop gave up *)
  unl : nat; ons : nat;          (* number of Unload rounds / OnStop calls *)
  exited : bool;                 (* exitedChan closed *)
  ctx_may_expire : bool
}.

Definition sinit (expire : bool) : sst :=
  mk_sst C0 C0 0 true KN KN false false false 0 0 false expire.

Definition when {A} (b : bool) (l : list A) : list A := if b then l else [].

Definition set_caller (a : bool) (s : sst) (v : nat) : sst :=
  if a then mk_sst v (cB s) (once s) (lst s) (k1 s) (k2 s) (w1 s) (w2 s) (ctx s) (unl s) (ons s) (exited s) (ctx_may_expire s)
  else mk_sst (cA s) v (once s) (lst s) (k1 s) (k2 s) (w1 s) (w2 s) (ctx s) (unl s) (ons s) (exited s) (ctx_may_expire s).
Definition set_once s v := mk_sst (cA s) (cB s) v (lst s) (k1 s) (k2 s) (w1 s) (w2 s) (ctx s) (unl s) (ons s) (exited s) (ctx_may_expire s).
Definition set_lst s v := mk_sst (cA s) (cB s) (once s) v (k1 s) (k2 s) (w1 s) (w2 s) (ctx s) (unl s) (ons s) (exited s) (ctx_may_expire s).
Definition set_k (first : bool) s v :=
  if first then mk_sst (cA s) (cB s) (once s) (lst s) v (k2 s) (w1 s) (w2 s) (ctx s) (unl s) (ons s) (exited s) (ctx_may_expire s)
  else mk_sst (cA s) (cB s) (once s) (lst s) (k1 s) v (w1 s) (w2 s) (ctx s) (unl s) (ons s) (exited s) (ctx_may_expire s).
Definition set_w s a b := mk_sst (cA s) (cB s) (once s) (lst s) (k1 s) (k2 s) a b (ctx s) (unl s) (ons s) (exited s) (ctx_may_expire s).
Definition set_ctx s v := mk_sst (cA s) (cB s) (once s) (lst s) (k1 s) (k2 s) (w1 s) (w2 s) v (unl s) (ons s) (exited s) (ctx_may_expire s).
Definition set_unl s v := mk_sst (cA s) (cB s) (once s) (lst s) (k1 s) (k2 s) (w1 s) (w2 s) (ctx s) v (ons s) (exited s) (ctx_may_expire s).
Definition set_ons s v := mk_sst (cA s) (cB s) (once s) (lst s) (k1 s) (k2 s) (w1 s) (w2 s) (ctx s) (unl s) v (exited s) (ctx_may_expire s).
Definition set_exited s v := mk_sst (cA s) (cB s) (once s) (lst s) (k1 s) (k2 s) (w1 s) (w2 s) (ctx s) (unl s) (ons s) v (ctx_may_expire s).

(* the program counters the owner of the Once goes through, in order, with the operations of the
   source each one stands for (Proofs/StopLifeP.v proves that this is the order of the operations in
   the body of stopOnce.Do as regenerated into Gen/StopOrder.v, and that step_caller follows it):
     O1  exit(); close every TCP listener; shut down every websocket server
     O2  srv.mu.Lock(); remember `closed` of and Close() every client in srv.clients and every
         connection in srv.connecting; srv.mu.Unlock()
     O3  start the waiter; select { ctx.Done() -> O7 ; all remembered channels closed -> O4 }
     O4  Unload of every plugin        O5  OnStop hook        (O6/O7: return, deferred close(exitedChan)) *)
Definition owner_phases : list nat := [O1; O2; O3; O4; O5].

Definition caller (a : bool) (s : sst) : nat := if a then cA s else cB s.
Definition conn (first : bool) (s : sst) : nat := if first then k1 s else k2 s.

(* the connection is in srv.clients or in srv.connecting *)
Definition in_maps (k : nat) : bool := Nat.eqb k KR || Nat.eqb k KC || Nat.eqb k KF || Nat.eqb k KX.

(* c.Close() on a listed connection *)
Definition close_conn (k : nat) : nat := if in_maps k then KX else k.

Definition step_caller (a : bool) (s : sst) : list sst :=
  match caller a s with
  | 0 (* C0: call Stop *) =>
      match once s with
      | 0 => [set_caller a (set_once s 1) O1]
      | 1 => [set_caller a s C8]
      | _ => [set_caller a s C9]
      end
  | 1 (* O1 *) => [set_caller a (set_lst s false) O2]
  | 2 (* O2 *) =>
      let s1 := set_w s (in_maps (k1 s)) (in_maps (k2 s)) in
      let s2 := set_k true s1 (close_conn (k1 s1)) in
      let s3 := set_k false s2 (close_conn (k2 s2)) in
      [set_caller a s3 O3]
  | 3 (* O3 *) =>
      when ((negb (w1 s) || Nat.eqb (k1 s) 3) && (negb (w2 s) || Nat.eqb (k2 s) 3)) [set_caller a s O4]
      ++ when (ctx_may_expire s) [set_caller a (set_ctx s true) O7]
  | 4 (* O4 *) => [set_caller a (set_unl s (S (unl s))) O5]
  | 5 (* O5 *) => [set_caller a (set_ons s (S (ons s))) O6]
  | 6 (* O6 *) => [set_caller a (set_once (set_exited s true) 2) C9]
  | 7 (* O7 *) => [set_caller a (set_once (set_exited s true) 2) C9]
  | 8 (* C8 *) => when (Nat.eqb (once s) 2) [set_caller a s C9]
  | _ => []
  end.

Definition step_conn (first : bool) (s : sst) : list sst :=
  match conn first s with
  | 8 (* KN *) => when (lst s) [set_k first s KA]                 (* Accept returns only while the listener is open *)
  | 0 (* KA *) => [set_k first s (if lst s then KC else KX);      (* newClient: addConnecting - closes it after exit() *)
                   set_k first s KD]                              (* the OnAccept hook refuses: rw.Close() *)
  | 5 (* KC *) => when (lst s) [set_k first s KR]                 (* CONNECT registers - refused after exit() *)
                  ++ [set_k first s KF; set_k first s KX]         (* refused, auth failure, timeout / the peer hangs up *)
  | 7 (* KF *) => [set_k first s KX]
  | 1 (* KR *) => [set_k first s KX]
  | 2 (* KX *) => [set_k first s KD]
  | _ => []
  end.

Definition snext (s : sst) : list sst :=
  step_caller true s ++ step_caller false s ++ step_conn true s ++ step_conn false s.

Definition rank_caller (pc : nat) : nat :=
  match pc with 0 => 10 | 1 => 8 | 2 => 7 | 3 => 6 | 4 => 5 | 5 => 4 | 6 => 3 | 7 => 3 | 8 => 2 | _ => 0 end.
Definition rank_conn (k : nat) : nat := match k with 8 => 7 | 0 => 6 | 5 => 5 | 7 => 3 | 1 => 3 | 2 => 1 | _ => 0 end.

Definition smeasure (s : sst) : nat :=
  rank_caller (cA s) + rank_caller (cB s) + rank_conn (k1 s) + rank_conn (k2 s).

Definition sfields (s : sst) : list nat :=
  [cA s; cB s; once s; Nat.b2n (lst s); k1 s; k2 s; Nat.b2n (w1 s); Nat.b2n (w2 s); Nat.b2n (ctx s);
   unl s; ons s; Nat.b2n (exited s); Nat.b2n (ctx_may_expire s)].

(* some call of Stop has returned *)
Definition returned (s : sst) : bool := Nat.eqb (cA s) C9 || Nat.eqb (cB s) C9.

(* the statements, as state predicates *)
Definition at_most_once (s : sst) : bool := Nat.leb (unl s) 1 && Nat.leb (ons s) 1.

(* once a Stop call has returned: the Once is done, and unless the context expired, Unload and
   OnStop have each run exactly once, the listeners are closed and exitedChan is closed *)
Definition exactly_once_on_return (s : sst) : bool :=
  negb (returned s)
  || (Nat.eqb (once s) 2 && exited s && negb (lst s)
      && (ctx s || (Nat.eqb (unl s) 1 && Nat.eqb (ons s) 1))).

(* OnStop only after Unload, both only after every remembered connection is closed *)
Definition order_ok (s : sst) : bool :=
  Nat.leb (ons s) (unl s)
  && (Nat.eqb (unl s) 0 || ((negb (w1 s) || Nat.eqb (k1 s) KD) && (negb (w2 s) || Nat.eqb (k2 s) KD))).

(* the locked block has run: the owner is past O2 (or the Once is done) *)
Definition snap_done (s : sst) : bool :=
  let past (pc : nat) := Nat.leb O3 pc && Nat.leb pc O7 in
  Nat.eqb (once s) 2 || past (cA s) || past (cB s).

Definition seen_closed (w : bool) (k : nat) : bool := negb w || Nat.eqb k KD.

(* every connection that Stop listed - registered or not - is closed when Stop returns without timeout *)
Definition listed_closed_on_return (s : sst) : bool :=
  negb (returned s) || ctx s || (seen_closed (w1 s) (k1 s) && seen_closed (w2 s) (k2 s)).

(* after the locked block a registered connection is one that was listed: nobody registers later,
   and after a return without timeout no connection is registered at all *)
Definition registered_is_listed (s : sst) : bool :=
  negb (snap_done s) || ((negb (Nat.eqb (k1 s) KR) || w1 s) && (negb (Nat.eqb (k2 s) KR) || w2 s)).

Definition none_registered_on_return (s : sst) : bool :=
  negb (returned s) || ctx s || (negb (Nat.eqb (k1 s) KR) && negb (Nat.eqb (k2 s) KR)).

(* a transition does not register a connection once exit() has run *)
Definition no_late_registration (s s' : sst) : bool :=
  lst s || ((Nat.eqb (k1 s) KR || negb (Nat.eqb (k1 s') KR)) && (Nat.eqb (k2 s) KR || negb (Nat.eqb (k2 s') KR))).

(* the connection is being served: socket open, its goroutines read and answer *)
Definition served (k : nat) : bool := Nat.eqb k KC || Nat.eqb k KF || Nat.eqb k KR.

(* once the locked block of Stop has run, no connection is served any more *)
Definition none_served_after_snapshot (s : sst) : bool :=
  negb (snap_done s) || (negb (served (k1 s)) && negb (served (k2 s))).

(* a transition does not start serving a connection once exit() has run *)
Definition no_late_service (s s' : sst) : bool :=
  lst s || ((served (k1 s) || negb (served (k1 s'))) && (served (k2 s) || negb (served (k2 s')))).

(* "when Stop has returned without timeout every accepted connection is closed": NOT true - Stop does
   not wait for a connection that is recorded after its locked block *)
Definition conn_gone (k : nat) : bool := Nat.eqb k KD || Nat.eqb k KN.
Definition all_closed_on_return (s : sst) : bool :=
  negb (returned s) || ctx s || (conn_gone (k1 s) && conn_gone (k2 s)).

(* what is true: a connection that is not closed then was not listed, and it is either not yet
   recorded (KA: addConnecting will close it) or closed by addConnecting and winding down (KX) *)
Definition unlisted_unserved (w : bool) (k : nat) : bool := negb w && (Nat.eqb k KA || Nat.eqb k KX).
Definition all_closed_or_unserved (s : sst) : bool :=
  negb (returned s) || ctx s
  || ((conn_gone (k1 s) || unlisted_unserved (w1 s) (k1 s)) && (conn_gone (k2 s) || unlisted_unserved (w2 s) (k2 s))).

(* Stop has returned and such a connection exists *)
Definition late_recorded_not_waited_for (s : sst) : bool :=
  returned s && negb (ctx s) && (unlisted_unserved (w1 s) (k1 s) || unlisted_unserved (w2 s) (k2 s)).

(* where a run may end *)
Definition both_returned (s : sst) : bool := Nat.eqb (cA s) C9 && Nat.eqb (cB s) C9.
(* ... and every accepted connection is closed *)
Definition all_over (s : sst) : bool := both_returned s && conn_gone (k1 s) && conn_gone (k2 s).
