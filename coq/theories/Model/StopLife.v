(* C15 - server.Stop (/repo/server/server.go) with its stopOnce, two concurrent callers and two
   client connections abstracted to their life-cycle state, as a finite transition system.
   Executable definitions only; theorems in Proofs/StopLifeP.v.

   Stop(ctx):  stopOnce.Do(func() {
                 defer close(exitedChan)
     O1          exit(); close the listeners
     O2          mu.Lock(); for every REGISTERED client: remember its `closed` channel, c.Close(); mu.Unlock()
     O3          select { <-ctx.Done(): return ctx.Err()           (O7: timeout return, no Unload, no OnStop)
                          <-done (all remembered `closed` channels are closed): }
     O4          plugins: Unload()       O5  hooks.OnStop()        O6  return
               })
   A second caller waits in stopOnce.Do until the first has returned (C8), then returns (C9).

   A connection is: 0 Connecting (accepted, CONNECT not completed: not in srv.clients),
   1 Registered, 2 Closing (its socket is closed, the goroutines are winding down),
   3 Closed (internalClose has closed `closed`).  A connection whose socket has been closed always
   reaches Closed: that is C15_conn_no_stuck (Model/ConnLife.v; before the repairs 6670bb6 and
   b002260 a connection could stay blocked for ever and this model had a state 4 "Stuck" for it).
   `ctx_may_expire` says whether the caller's context can expire while Stop waits. *)
From Coq Require Import List Arith Bool.
Import ListNotations.

Definition C0 := 0. (* not called yet *)
Definition O1 := 1. Definition O2 := 2. Definition O3 := 3. Definition O4 := 4. Definition O5 := 5.
Definition O6 := 6. Definition O7 := 7. Definition C8 := 8. Definition C9 := 9.

Record sst := mk_sst {
  cA : nat; cB : nat;            (* the two callers of Stop *)
  once : nat;                    (* stopOnce: 0 fresh, 1 running, 2 done *)
  lst : bool;                    (* listeners open *)
  k1 : nat; k2 : nat;            (* connections *)
  w1 : bool; w2 : bool;          (* Stop remembered the connection's `closed` channel *)
  ctx : bool;                    (* the context has expired and Stop gave up *)
  unl : nat; ons : nat;          (* number of Unload rounds / OnStop calls *)
  exited : bool;                 (* exitedChan closed *)
  ctx_may_expire : bool
}.

Definition sinit (expire : bool) : sst :=
  mk_sst C0 C0 0 true 0 0 false false false 0 0 false expire.

Definition when {A} (b : bool) (l : list A) : list A := if b then l else [].

Definition set_caller (a : bool) (s : sst) (v : nat) : sst :=
  if a then mk_sst v (cB s) (once s) (lst s) (k1 s) (k2 s) (w1 s) (w2 s) (ctx s) (unl s) (ons s) (exited s) (ctx_may_expire s)
  else mk_sst (cA s) v (once s) (lst s) (k1 s) (k2 s) (w1 s) (w2 s) (ctx s) (unl s) (ons s) (exited s) (ctx_may_expire s).
Definition set_once s v := mk_sst (cA s) (cB s) v (lst s) (k1 s) (k2 s) (w1 s) (w2 s) (ctx s) (unl s) (ons s) (exited s) (ctx_may_expire s).
Definition set_lst s v := mk_sst (cA s) (cB s) (once s) v (k1 s) (k2 s) (w1 s) (w2 s) (ctx s) (unl s) (ons s) (exited s) (ctx_may_expire s).
Definition set_k (first : bool) s v :=
  if first then mk_sst (cA s) (cB s) (once s) (lst s) v (k2 s) (w1 s) (w2 s) (ctx s) (unl s) (ons s) (exited s) (ctx_may_expire s)
  else mk_sst (cA s) (cB s) (once s) (lst s) (k1 s) v (w1 s) (w2 s) (ctx s) (unl s) (ons s) (exited s) (ctx_may_expire s).
Definition set_w s a b := mk_sst (cA s) (cB s) (once s) (lst s) (k1 s) (k2 s) a b (ctx s) (unl s) (ons s) (exited s) (ctx_may_expire s).
Definition set_ctx s v := mk_sst (cA s) (cB s) (once s) (lst s) (k1 s) (k2 s) (w1 s) (w2 s) v (unl s) (ons s) (exited s) (ctx_may_expire s).
Definition set_unl s v := mk_sst (cA s) (cB s) (once s) (lst s) (k1 s) (k2 s) (w1 s) (w2 s) (ctx s) v (ons s) (exited s) (ctx_may_expire s).
Definition set_ons s v := mk_sst (cA s) (cB s) (once s) (lst s) (k1 s) (k2 s) (w1 s) (w2 s) (ctx s) (unl s) v (exited s) (ctx_may_expire s).
Definition set_exited s v := mk_sst (cA s) (cB s) (once s) (lst s) (k1 s) (k2 s) (w1 s) (w2 s) (ctx s) (unl s) (ons s) v (ctx_may_expire s).

(* the program counters the owner of the Once goes through, in order, with the operations of the
   source each one stands for (Proofs/StopLifeP.v proves that this is the order of the operations in
   the body of stopOnce.Do as regenerated into Gen/StopOrder.v, and that step_caller follows it):
     O1  exit(); close every TCP listener; shut down every websocket server
     O2  srv.mu.Lock(); remember `closed` of and Close() every REGISTERED client; srv.mu.Unlock()
     O3  start the waiter; select { ctx.Done() -> O7 ; all remembered channels closed -> O4 }
     O4  Unload of every plugin        O5  OnStop hook        (O6/O7: return, deferred close(exitedChan)) *)
Definition owner_phases : list nat := [O1; O2; O3; O4; O5].

Definition caller (a : bool) (s : sst) : nat := if a then cA s else cB s.
Definition conn (first : bool) (s : sst) : nat := if first then k1 s else k2 s.

(* c.Close() on a registered connection *)
Definition close_conn (k : nat) : nat := if Nat.eqb k 1 then 2 else k.

Definition step_caller (a : bool) (s : sst) : list sst :=
  match caller a s with
  | 0 (* C0: call Stop *) =>
      match once s with
      | 0 => [set_caller a (set_once s 1) O1]
      | 1 => [set_caller a s C8]
      | _ => [set_caller a s C9]
      end
  | 1 (* O1 *) => [set_caller a (set_lst s false) O2]
  | 2 (* O2 *) =>
      let s1 := set_w s (Nat.eqb (k1 s) 1) (Nat.eqb (k2 s) 1) in
      let s2 := set_k true s1 (close_conn (k1 s1)) in
      let s3 := set_k false s2 (close_conn (k2 s2)) in
      [set_caller a s3 O3]
  | 3 (* O3 *) =>
      when ((negb (w1 s) || Nat.eqb (k1 s) 3) && (negb (w2 s) || Nat.eqb (k2 s) 3)) [set_caller a s O4]
      ++ when (ctx_may_expire s) [set_caller a (set_ctx s true) O7]
  | 4 (* O4 *) => [set_caller a (set_unl s (S (unl s))) O5]
  | 5 (* O5 *) => [set_caller a (set_ons s (S (ons s))) O6]
  | 6 (* O6 *) => [set_caller a (set_once (set_exited s true) 2) C9]
  | 7 (* O7 *) => [set_caller a (set_once (set_exited s true) 2) C9]
  | 8 (* C8 *) => when (Nat.eqb (once s) 2) [set_caller a s C9]
  | _ => []
  end.

Definition step_conn (first : bool) (s : sst) : list sst :=
  match conn first s with
  | 0 => [set_k first s 1; set_k first s 3]
  | 1 => [set_k first s 2]
  | 2 => [set_k first s 3]
  | _ => []
  end.

Definition snext (s : sst) : list sst :=
  step_caller true s ++ step_caller false s ++ step_conn true s ++ step_conn false s.

Definition rank_caller (pc : nat) : nat :=
  match pc with 0 => 10 | 1 => 8 | 2 => 7 | 3 => 6 | 4 => 5 | 5 => 4 | 6 => 3 | 7 => 3 | 8 => 2 | _ => 0 end.
Definition rank_conn (k : nat) : nat := match k with 0 => 3 | 1 => 2 | 2 => 1 | _ => 0 end.

Definition smeasure (s : sst) : nat :=
  rank_caller (cA s) + rank_caller (cB s) + rank_conn (k1 s) + rank_conn (k2 s).

Definition sfields (s : sst) : list nat :=
  [cA s; cB s; once s; Nat.b2n (lst s); k1 s; k2 s; Nat.b2n (w1 s); Nat.b2n (w2 s); Nat.b2n (ctx s);
   unl s; ons s; Nat.b2n (exited s); Nat.b2n (ctx_may_expire s)].

(* some call of Stop has returned *)
Definition returned (s : sst) : bool := Nat.eqb (cA s) C9 || Nat.eqb (cB s) C9.

(* the statements, as state predicates *)
Definition at_most_once (s : sst) : bool := Nat.leb (unl s) 1 && Nat.leb (ons s) 1.

(* once a Stop call has returned: the Once is done, and unless the context expired, Unload and
   OnStop have each run exactly once, the listeners are closed and exitedChan is closed *)
Definition exactly_once_on_return (s : sst) : bool :=
  negb (returned s)
  || (Nat.eqb (once s) 2 && exited s && negb (lst s)
      && (ctx s || (Nat.eqb (unl s) 1 && Nat.eqb (ons s) 1))).

(* OnStop only after Unload, both only after every remembered connection is closed *)
Definition order_ok (s : sst) : bool :=
  Nat.leb (ons s) (unl s)
  && (Nat.eqb (unl s) 0 || ((negb (w1 s) || Nat.eqb (k1 s) 3) && (negb (w2 s) || Nat.eqb (k2 s) 3))).

(* FULL statement about connections: when Stop has returned without timeout, every connection is closed *)
Definition all_closed_on_return (s : sst) : bool :=
  negb (returned s) || ctx s || (Nat.eqb (k1 s) 3 && Nat.eqb (k2 s) 3).

(* what holds: the connections that were registered when Stop looked are closed *)
Definition registered_closed_on_return (s : sst) : bool :=
  negb (returned s) || ctx s || ((negb (w1 s) || Nat.eqb (k1 s) 3) && (negb (w2 s) || Nat.eqb (k2 s) 3)).

(* a connection that Stop did not see (still connecting when Stop took its snapshot) and that is
   alive after Stop has returned *)
Definition kf_unregistered_survives (s : sst) : bool :=
  returned s && negb (ctx s) && ((negb (w1 s) && negb (Nat.eqb (k1 s) 3)) || (negb (w2 s) && negb (Nat.eqb (k2 s) 3))).

(* where a run may end *)
Definition both_returned (s : sst) : bool := Nat.eqb (cA s) C9 && Nat.eqb (cB s) C9.
