(* Model of the redis data store as the gmqtt redis persistence backend uses it: a finite map
   key -> hash | list, and the dozen commands issued through redigo (HSET multi-field, HMGET,
   HGETALL, HDEL, DEL, RPUSH, LRANGE, LREM count=1, LSET, LLEN, SCAN MATCH prefix* ).

   Stored byte strings are kept in decoded form (`blob`): a subscription (the value of
   persistence/subscription/redis.EncodeSubscription), a queue element (queue.Elem.Encode), or
   raw bytes.  The encodings are canonical (one byte string per value), so equality of the
   stored bytes - what LREM compares - is equality of the decoded values; the correspondence
   check decodes the journalled bytes with the implementation's own decoders before comparing.

   A command that fails in redis (WRONGTYPE, LSET on a missing key or out of range) leaves
   the store unchanged. *)
From Coq Require Import List NArith ZArith Bool.
Import ListNotations.
From GM Require Import Base.Topic Base.Msg Model.SubTrie Model.Queue.
Open Scope N_scope.

Definition sub_eqb (a b : sub) : bool :=
  str_eqb (s_share a) (s_share b) && str_eqb (s_filter a) (s_filter b) && N.eqb (s_id a) (s_id b) &&
  N.eqb (s_qos a) (s_qos b) && Bool.eqb (s_nl a) (s_nl b) && Bool.eqb (s_rap a) (s_rap b) && N.eqb (s_rh a) (s_rh b).

Definition optN_eqb (a b : option N) : bool :=
  match a, b with Some x, Some y => N.eqb x y | None, None => true | _, _ => false end.

Definition qbody_eqb (a b : qbody) : bool :=
  match a, b with
  | QPub m, QPub m' => msg_eqb m m'
  | QRel p, QRel p' => N.eqb p p'
  | _, _ => false
  end.

(* equality of the encoded forms: entry time, expiry, body (the ghost tag is not stored) *)
Definition elem_eqb (a b : elem) : bool :=
  N.eqb (e_at a) (e_at b) && optN_eqb (e_expiry a) (e_expiry b) && qbody_eqb (e_body a) (e_body b).

Inductive blob := BRaw (b : str) | BSub (s : sub) | BElem (e : elem).

Definition blob_eqb (a b : blob) : bool :=
  match a, b with
  | BRaw x, BRaw y => str_eqb x y
  | BSub x, BSub y => sub_eqb x y
  | BElem x, BElem y => elem_eqb x y
  | _, _ => false
  end.

Inductive rval := RHash (h : list (str * blob)) | RList (l : list blob).

(* association list with distinct keys; a key whose hash/list became empty is removed *)
Definition rstore := list (str * rval).

Inductive rcmd :=
| CHSet (k : str) (fvs : list (str * blob))
| CHDel (k : str) (fs : list str)
| CDel (k : str)
| CRPush (k : str) (v : blob)
| CLRem (k : str) (v : blob)           (* LREM key 1 v: the first element equal to v *)
| CLSet (k : str) (i : Z) (v : blob).

Fixpoint hset_all (fvs : list (str * blob)) (h : list (str * blob)) : list (str * blob) :=
  match fvs with
  | [] => h
  | (f, v) :: r => hset_all r (aset f v h)
  end.

Fixpoint hdel_all (fs : list str) (h : list (str * blob)) : list (str * blob) :=
  match fs with
  | [] => h
  | f :: r => hdel_all r (adel f h)
  end.

Fixpoint remove_first (v : blob) (l : list blob) : list blob :=
  match l with
  | [] => []
  | x :: r => if blob_eqb x v then r else x :: remove_first v r
  end.

(* redis index normalisation: negative = from the tail; None = out of range *)
Definition norm_index (i : Z) (n : nat) : option nat :=
  let j := if (i <? 0)%Z then (i + Z.of_nat n)%Z else i in
  if (j <? 0)%Z then None
  else if (j <? Z.of_nat n)%Z then Some (Z.to_nat j) else None.

Definition exec (s : rstore) (c : rcmd) : rstore :=
  match c with
  | CHSet k fvs =>
      match aget k s with
      | None => aset k (RHash (hset_all fvs [])) s
      | Some (RHash h) => aset k (RHash (hset_all fvs h)) s
      | Some (RList _) => s
      end
  | CHDel k fs =>
      match aget k s with
      | Some (RHash h) =>
          match hdel_all fs h with
          | [] => adel k s
          | h' => aset k (RHash h') s
          end
      | _ => s
      end
  | CDel k => adel k s
  | CRPush k v =>
      match aget k s with
      | None => aset k (RList [v]) s
      | Some (RList l) => aset k (RList (l ++ [v])) s
      | Some (RHash _) => s
      end
  | CLRem k v =>
      match aget k s with
      | Some (RList l) =>
          match remove_first v l with
          | [] => adel k s
          | l' => aset k (RList l') s
          end
      | _ => s
      end
  | CLSet k i v =>
      match aget k s with
      | Some (RList l) =>
          match norm_index i (length l) with
          | Some j => aset k (RList (replace_nth j v l)) s
          | None => s
          end
      | _ => s
      end
  end.

Definition exec_all (s : rstore) (cs : list rcmd) : rstore := fold_left exec cs s.

(* ---- reads ---- *)
Definition hgetall (k : str) (s : rstore) : option (list (str * blob)) :=
  match aget k s with
  | None => Some []
  | Some (RHash h) => Some h
  | Some (RList _) => None          (* WRONGTYPE *)
  end.

Definition hmget (k : str) (fs : list str) (s : rstore) : option (list (option blob)) :=
  match hgetall k s with
  | Some h => Some (map (fun f => aget f h) fs)
  | None => None
  end.

Definition lget (k : str) (s : rstore) : option (list blob) :=
  match aget k s with
  | None => Some []
  | Some (RList l) => Some l
  | Some (RHash _) => None
  end.

Definition llen (k : str) (s : rstore) : Z :=
  match lget k s with Some l => Z.of_nat (length l) | None => 0%Z end.

(* LRANGE key start stop on a list of length n: the (start, count) window *)
Definition lrange_window (st en : Z) (n : nat) : nat * nat :=
  let zn := Z.of_nat n in
  let st := if (st <? 0)%Z then (st + zn)%Z else st in
  let en := if (en <? 0)%Z then (en + zn)%Z else en in
  let st := if (st <? 0)%Z then 0%Z else st in
  let en := if (zn <=? en)%Z then (zn - 1)%Z else en in
  if (en <? st)%Z then (0%nat, 0%nat) else (Z.to_nat st, Z.to_nat (en - st + 1)%Z).

Definition lrange (k : str) (st en : Z) (s : rstore) : list blob :=
  match lget k s with
  | Some l => let '(a, c) := lrange_window st en (length l) in firstn c (skipn a l)
  | None => []
  end.

Fixpoint has_prefix_str (p s : str) : bool :=
  match p, s with
  | [], _ => true
  | x :: p', y :: s' => N.eqb x y && has_prefix_str p' s'
  | _ :: _, [] => false
  end.

(* SCAN 0 MATCH prefix* iterated to the end: every key with the prefix (order unspecified) *)
Definition scan_prefix (p : str) (s : rstore) : list str :=
  map fst (filter (fun kv => has_prefix_str p (fst kv)) s).
