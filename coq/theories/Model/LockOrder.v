(* C15 - abstract semantics of threads acquiring and releasing locks, the wait-for graph, and
   the executable checks that are run on the relation extracted from the Go source
   (Gen/LockOrder.v).  Definitions only; proofs are in Proofs/LockOrderP.v.

   Threads are natural numbers, lock INSTANCES are values of a type L, every instance belongs
   to a lock CLASS (`cls : L -> C`; the translator's classes: one per mutex field).  A state
   gives, for every thread, the list of instances it holds and the instance it is blocked on,
   if any.  A blocked thread does not move until it is granted the lock.

   The model is deliberately liberal: a grant does not require the lock to be free (so the
   read side of an RWMutex - several holders - is covered) and a release may take any held
   instance (explicit Unlock out of stack order); the soundness theorem needs neither mutual
   exclusion nor LIFO release. *)
From Coq Require Import List Arith Bool Relations.
Import ListNotations.

Section Semantics.
  Context {L C : Type}.
  Context (cls : L -> C).

  Record lstate := mk_lstate {
    held : nat -> list L;          (* per-thread list of held lock instances, newest first *)
    waiting : nat -> option L      (* the instance the thread is blocked on *)
  }.

  Definition linit : lstate := mk_lstate (fun _ => []) (fun _ => None).

  Definition upd {A} (f : nat -> A) (t : nat) (v : A) : nat -> A :=
    fun t' => if Nat.eqb t' t then v else f t'.

  (* the discipline: a thread only requests a lock whose class is above (for the relation lt)
     the classes of all the locks it holds *)
  Definition respects (lt : C -> C -> Prop) (s : lstate) (t : nat) (l : L) : Prop :=
    forall l', In l' (held s t) -> lt (cls l') (cls l).

  Inductive lstep (lt : C -> C -> Prop) : lstate -> lstate -> Prop :=
  | step_request : forall s t l,            (* X.Lock() is called: the thread now waits for X *)
      waiting s t = None -> respects lt s t l ->
      lstep lt s (mk_lstate (held s) (upd (waiting s) t (Some l)))
  | step_grant : forall s t l,              (* the waiting thread obtains the lock *)
      waiting s t = Some l ->
      lstep lt s (mk_lstate (upd (held s) t (l :: held s t)) (upd (waiting s) t None))
  | step_release : forall s t l pre post,   (* X.Unlock() of any held instance *)
      waiting s t = None -> held s t = pre ++ l :: post ->
      lstep lt s (mk_lstate (upd (held s) t (pre ++ post)) (waiting s)).

  Inductive lreach (lt : C -> C -> Prop) : lstate -> Prop :=
  | lreach_init : lreach lt linit
  | lreach_step : forall s s', lreach lt s -> lstep lt s s' -> lreach lt s'.

  (* wait-for graph: t waits for an instance that t' holds *)
  Definition wait_for (s : lstate) (t t' : nat) : Prop :=
    exists l, waiting s t = Some l /\ In l (held s t').

  (* a deadlock among lock waits = a cycle in the wait-for graph *)
  Definition deadlocked (s : lstate) : Prop := exists t, clos_trans nat (wait_for s) t t.
End Semantics.

Arguments lstate : clear implicits.
Arguments linit {L}.

(* ------------------------------------------------------------------------------------ *)
(* Executable checks on a finite relation between lock classes (list of pairs).          *)

Section Checks.
  Context {C : Type}.
  Context (eqb : C -> C -> bool).

  Definition edge (r : list (C * C)) (a b : C) : Prop := In (a, b) r.

  Definition nodes (r : list (C * C)) : list C := flat_map (fun e => [fst e; snd e]) r.

  Fixpoint lookup (rk : list (C * nat)) (x : C) : nat :=
    match rk with
    | [] => 0
    | (y, n) :: tl => if eqb x y then n else lookup tl x
    end.

  (* one round of longest-path relaxation: rank b >= rank a + 1 for every edge (a, b) *)
  Definition relax_node (r : list (C * C)) (rk : list (C * nat)) (x : C) : nat :=
    fold_left (fun m e => if eqb (snd e) x then Nat.max m (S (lookup rk (fst e))) else m) r (lookup rk x).

  Definition relax (r : list (C * C)) (ns : list C) (rk : list (C * nat)) : list (C * nat) :=
    map (fun x => (x, relax_node r rk x)) ns.

  Definition ranks (r : list (C * C)) : list (C * nat) :=
    let ns := nodes r in
    Nat.iter (List.length ns) (relax r ns) (map (fun x => (x, 0)) ns).

  (* the check itself: the computed ranking strictly increases along every edge.  Whatever
     `ranks` computes, a `true` answer is a certificate (see acyclicb_sound). *)
  Definition rank_okb (rk : list (C * nat)) (r : list (C * C)) : bool :=
    forallb (fun e => Nat.ltb (lookup rk (fst e)) (lookup rk (snd e))) r.

  Definition acyclicb (r : list (C * C)) : bool := rank_okb (ranks r) r.

  (* a cycle of length 1 or 2 *)
  Definition two_cycleb (r : list (C * C)) : bool :=
    existsb (fun e => existsb (fun e' => eqb (snd e) (fst e') && eqb (fst e) (snd e')) r) r.

  (* b is reachable from a by a path of at most n edges *)
  Fixpoint reachb (r : list (C * C)) (n : nat) (a b : C) : bool :=
    match n with
    | 0 => eqb a b
    | S n' => eqb a b || existsb (fun e => eqb a (fst e) && reachb r n' (snd e) b) r
    end.

  (* NON-reachability by certificate: a set of classes that contains x and is closed under the
     relation contains everything reachable from x.  `behind r n x` computes a candidate (n rounds
     of adding successors); `closed_setb` checks it - whatever `behind` computes, a `true`
     answer of closed_setb is a certificate (closed_setb_sound). *)
  Definition memb (x : C) (l : list C) : bool := existsb (eqb x) l.

  Definition add_succs (r : list (C * C)) (acc : list C) : list C :=
    fold_left (fun a e => if memb (fst e) a && negb (memb (snd e) a) then snd e :: a else a) r acc.

  Definition behind (r : list (C * C)) (n : nat) (x : C) : list C := Nat.iter n (add_succs r) [x].

  Definition closed_setb (r : list (C * C)) (S : list C) : bool :=
    forallb (fun e => negb (memb (fst e) S) || memb (snd e) S) r.
End Checks.
