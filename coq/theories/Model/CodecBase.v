(* pkg/packets/packets.go, byte level: bytes.Buffer reads, EncodeRemainLength (which READS a
   varint), DecodeRemainLength (which WRITES one), readUint16/32, readUTF8String,
   utf8.DecodeRune, ValidUTF8, ValidTopicName, ValidTopicFilter, ValidV5Topic.
   Executable definitions only (lemmas: Proofs/CodecBaseP.v).  The functions follow the Go
   code statement by statement, including what it does on inputs it should reject. *)
From Coq Require Import List NArith Bool.
Import ListNotations.
From GM Require Import Base.Topic Base.Msg.
Open Scope N_scope.

(* ---- results ---- *)
(* error values ReadPacket can return: io.EOF, io.ErrUnexpectedEOF, *codes.Error{Code},
   and fmt.Errorf("property %v presents more than once") *)
Inductive err := EEOF | EUnexpectedEOF | ECode (c : N) | EDup (id : N).

Inductive res (A : Type) :=
| Ok (a : A)
| Err (e : err)
| Panic            (* a Go run-time panic: index/slice out of range, nil dereference *)
| OutOfFuel.       (* a fuelled loop ran out of fuel: excluded by theorem *)
Arguments Ok {A}. Arguments Err {A}. Arguments Panic {A}. Arguments OutOfFuel {A}.

Definition bind {A B} (r : res A) (f : A -> res B) : res B :=
  match r with Ok a => f a | Err e => Err e | Panic => Panic | OutOfFuel => OutOfFuel end.

Notation "'do' x <- r ; k" := (bind r (fun x => k))
  (at level 200, x name, r at level 100, k at level 200, right associativity).
Notation "'do' ' p <- r ; k" := (bind r (fun p => k))
  (at level 200, p pattern, r at level 100, k at level 200, right associativity).

(* `x, err := f(); if err != nil { return E }` : any error of f is replaced by E *)
Definition remap {A} (e : err) (r : res A) : res A :=
  match r with Err _ => Err e | x => x end.

Definition MALFORMED : err := ECode 129.        (* codes.ErrMalformed, 0x81 *)
Definition PROTOCOL : err := ECode 130.         (* codes.ErrProtocol, 0x82 *)

(* ---- slices and bytes.Buffer ---- *)
Fixpoint takeN {A} (n : N) (l : list A) : list A :=
  match l with
  | [] => []
  | x :: r => if n =? 0 then [] else x :: takeN (N.pred n) r
  end.
Fixpoint dropN {A} (n : N) (l : list A) : list A :=
  match l with
  | [] => []
  | x :: r => if n =? 0 then l else dropN (N.pred n) r
  end.
(* length l < n, without walking more than n cells *)
Fixpoint shorter {A} (l : list A) (n : N) : bool :=
  match l with
  | [] => 0 <? n
  | _ :: r => if n =? 0 then false else shorter r (N.pred n)
  end.

(* bytes.Buffer.Next(n): the next n bytes, or fewer when the buffer holds fewer (no panic) *)
Definition buf_next (n : N) (b : list N) : list N * list N := (takeN n b, dropN n b).
(* bytes.Buffer.ReadByte / bufio.Reader.ReadByte *)
Definition read_byte (b : list N) : res (N * list N) :=
  match b with [] => Err EEOF | x :: r => Ok (x, r) end.
(* p[n:] panics when n > len(p) *)
Definition slice_from (n : N) (p : list N) : res (list N) :=
  if shorter p n then Panic else Ok (dropN n p).
(* p[i] panics when i >= len(p) *)
Definition idx (p : list N) (i : N) : res N :=
  match dropN i p with x :: _ => Ok x | [] => Panic end.

(* binary.BigEndian.Uint16/Uint32 panic on a short slice *)
Definition be16 (l : list N) : res N :=
  match l with a :: b :: _ => Ok (a * 256 + b) | _ => Panic end.
Definition be32 (l : list N) : res N :=
  match l with a :: b :: c :: d :: _ => Ok (((a * 256 + b) * 256 + c) * 256 + d) | _ => Panic end.

Definition read_uint16 (b : list N) : res (N * list N) :=
  if shorter b 2 then Err MALFORMED
  else let '(h, r) := buf_next 2 b in do v <- be16 h; Ok (v, r).
Definition read_uint32 (b : list N) : res (N * list N) :=
  if shorter b 4 then Err MALFORMED
  else let '(h, r) := buf_next 4 b in do v <- be32 h; Ok (v, r).

(* writeUint16 / writeUint32: byte(i >> 8), byte(i) ... *)
Definition put16 (i : N) : list N := [(i / 256) mod 256; i mod 256].
Definition put32 (i : N) : list N :=
  [(i / 16777216) mod 256; (i / 65536) mod 256; (i / 256) mod 256; i mod 256].
(* writeBinary / writeUTF8String: uint16(len(s)) silently truncates the length *)
Definition put_bin (s : str) : list N := put16 (len s mod 65536) ++ s.

(* ---- EncodeRemainLength: reads a variable byte integer ---- *)
(* uint32(x) << m for a uint32 shift count m *)
Definition shl32 (x m : N) : N := if m <? 32 then (N.shiftl x m) mod 4294967296 else 0.

(* for { digit, err := r.ReadByte(); if err != nil {return 0, err}; if multiplier > 21 {return ErrMalformed}; ... }
   at end of input ReadByte gives io.EOF, which is returned; a fifth byte is refused *)
Fixpoint read_vbi (b : list N) (vbi mult : N) : res (N * list N) :=
  match b with
  | [] => Err EEOF
  | d :: r =>
      if 21 <? mult then Err MALFORMED
      else
        let vbi' := N.lor vbi (shl32 (N.land d 127) mult) in
        if 268435455 <? vbi' then Err MALFORMED
        else if N.land d 128 =? 0 then
          (* minimum number of bytes [MQTT-1.5.5-1]: the last of several bytes is not zero *)
          if (d =? 0) && negb (mult =? 0) then Err MALFORMED else Ok (vbi', r)
        else read_vbi r vbi' ((mult + 7) mod 4294967296)
  end.
Definition read_varint (b : list N) : res (N * list N) := read_vbi b 0 0.

(* ---- DecodeRemainLength: writes a variable byte integer ---- *)
Fixpoint varint_loop (fuel : nat) (n : N) : list N :=
  match fuel with
  | O => []
  | S k => let b := n mod 128 in
           let n' := n / 128 in
           if 0 <? n' then (N.lor b 128) :: varint_loop k n' else [b]
  end.
Definition varint_size (n : N) : option N :=
  if n <? 128 then Some 1 else if n <? 16384 then Some 2 else if n <? 2097152 then Some 3
  else if n <? 268435456 then Some 4 else None.
(* result = make([]byte, size); result[i] = ... panics if the loop writes past size *)
Definition encode_varint (n : N) : res (list N) :=
  match varint_size n with
  | None => Err MALFORMED
  | Some sz =>
      let bs := varint_loop 6 n in
      if sz <? len bs then Panic else Ok (bs ++ repeat 0 (N.to_nat (sz - len bs)))
  end.
(* `b, _ := DecodeRemainLength(n); w.Write(b)` : on error nothing is written *)
Definition encode_varint_or_nil (n : N) : list N :=
  match encode_varint n with Ok b => b | _ => [] end.

(* ---- unicode/utf8.DecodeRune (Go standard library; not code under test) ---- *)
Definition RUNE_ERROR : N := 65533.
Definition decode_rune (p : list N) : N * N :=
  match p with
  | [] => (RUNE_ERROR, 0)
  | p0 :: t =>
      if p0 <? 128 then (p0, 1)
      else if (p0 <? 194) || (244 <? p0) then (RUNE_ERROR, 1)
      else
        let lo := if p0 =? 224 then 160 else if p0 =? 240 then 144 else 128 in
        let hi := if p0 =? 237 then 159 else if p0 =? 244 then 143 else 191 in
        match t with
        | [] => (RUNE_ERROR, 1)
        | b1 :: t1 =>
            if (b1 <? lo) || (hi <? b1) then (RUNE_ERROR, 1)
            else if p0 <? 224 then (N.land p0 31 * 64 + N.land b1 63, 2)
            else match t1 with
                 | [] => (RUNE_ERROR, 1)
                 | b2 :: t2 =>
                     if (b2 <? 128) || (191 <? b2) then (RUNE_ERROR, 1)
                     else if p0 <? 240 then ((N.land p0 15 * 64 + N.land b1 63) * 64 + N.land b2 63, 3)
                     else match t2 with
                          | [] => (RUNE_ERROR, 1)
                          | b3 :: _ =>
                              if (b3 <? 128) || (191 <? b3) then (RUNE_ERROR, 1)
                              else (((N.land p0 7 * 64 + N.land b1 63) * 64 + N.land b2 63) * 64 + N.land b3 63, 4)
                          end
                 end
        end
  end.
(* utf8.ValidRune *)
Definition valid_rune (r : N) : bool := (r <? 55296) || ((57343 <? r) && (r <=? 1114111)).

(* ---- ValidUTF8 ---- *)
Fixpoint valid_utf8_loop (fuel : nat) (p : list N) : res bool :=
  match fuel with
  | O => OutOfFuel
  | S k =>
      match p with
      | [] => Ok true
      | _ =>
          let '(ru, size) := decode_rune p in
          if ru <=? 31 then Ok false
          else if (127 <=? ru) && (ru <=? 159) then Ok false
          else if (ru =? RUNE_ERROR) && (size <=? 1) then Ok false
          else if negb (valid_rune ru) then Ok false
          else if size =? 0 then Ok true
          else do p' <- slice_from size p; valid_utf8_loop k p'
      end
  end.
Definition valid_utf8_impl (p : list N) : res bool := valid_utf8_loop (S (length p)) p.

(* ---- ValidTopicName ---- *)
Fixpoint valid_topic_name_loop (fuel : nat) (must : bool) (p : list N) : res bool :=
  match fuel with
  | O => OutOfFuel
  | S k =>
      match p with
      | [] => Ok true
      | p0 :: _ =>
          let '(ru, size) := decode_rune p in
          if must && (ru =? RUNE_ERROR) && (size <=? 1) then Ok false
          else if ru =? 0 then Ok false                          (* [MQTT-4.7.3-2] *)
          else if (size =? 1) && ((p0 =? PLUS) || (p0 =? HASH)) then Ok false
          else do p' <- slice_from size p; valid_topic_name_loop k must p'
      end
  end.
Definition valid_topic_name_impl (must : bool) (p : list N) : res bool :=
  match p with
  | [] => Ok false                                               (* [MQTT-4.7.3-1] *)
  | _ => valid_topic_name_loop (S (length p)) must p
  end.

(* ---- ValidTopicFilter ---- *)
Fixpoint valid_topic_filter_loop (fuel : nat) (must : bool) (prev : option N) (p : list N) : res bool :=
  match fuel with
  | O => OutOfFuel
  | S k =>
      match p with
      | [] => Ok true
      | p0 :: t =>
          let '(ru, size) := decode_rune p in
          let plen1 := is_empty t in                       (* plen == 1 *)
          if must && (ru =? RUNE_ERROR) && (size <=? 1) then Ok false
          else if ru =? 0 then Ok false
          else if (p0 =? HASH) && negb plen1 then Ok false
          else
            do ok <-
              match prev with
              | Some pb =>
                  if size =? 1 then
                    if ((p0 =? PLUS) || (p0 =? HASH)) && negb (pb =? SLASH) then Ok false
                    else if negb plen1 then
                      if p0 =? PLUS then do p1 <- idx p 1; Ok (p1 =? SLASH) else Ok true
                    else Ok true
                  else Ok true
              | None => Ok true
              end;
            if negb ok then Ok false
            else do p' <- slice_from size p; valid_topic_filter_loop k must (Some p0) p'
      end
  end.
(* prevByte = '/', isSetPrevByte = true: the start of the filter is the start of a level *)
Definition valid_topic_filter_impl (must : bool) (p : list N) : res bool :=
  match p with
  | [] => Ok false
  | _ => valid_topic_filter_loop (S (length p)) must (Some SLASH) p
  end.

(* ---- ValidV5Topic ---- *)
Fixpoint v5_share_loop (fuel : nat) (subp : list N) : res bool :=
  match fuel with
  | O => OutOfFuel
  | S k =>
      match subp with
      | [] => Ok false                       (* loop ends without a '/': return false *)
      | s0 :: _ =>
          let '(ru, size) := decode_rune subp in
          if (ru =? RUNE_ERROR) && (size <=? 1) then Ok false
          else if ru =? 0 then Ok false
          else if (size =? 1) && (s0 =? SLASH) then
            do rest <- slice_from 1 subp; valid_topic_filter_impl true rest
          else if (size =? 1) && ((s0 =? PLUS) || (s0 =? HASH)) then Ok false
          else do subp' <- slice_from size subp; v5_share_loop k subp'
      end
  end.
Definition valid_v5_topic_impl (p : list N) : res bool :=
  match p with
  | [] => Ok false
  | _ =>
      if has_prefix SHARE_PREFIX p then
        if shorter p 9 then Ok false
        else do p7 <- idx p 7;
             if negb (p7 =? SLASH) then do subp <- slice_from 7 p; v5_share_loop (S (length subp)) subp
             else Ok false
      else valid_topic_filter_impl true p
  end.

(* ---- readUTF8String ---- *)
Definition read_utf8_string (must : bool) (b : list N) : res (str * list N) :=
  if shorter b 2 then Err MALFORMED
  else
    let '(h, r) := buf_next 2 b in
    do n <- be16 h;
    if shorter r n then Err MALFORMED
    else
      let '(payload, r') := buf_next n r in
      if must then
        do ok <- valid_utf8_impl payload;
        if ok then Ok (payload, r') else Err MALFORMED
      else Ok (payload, r').

(* EncodeUTF8String (used by Connect.Pack only): refuses more than 65535 bytes *)
Definition encode_utf8_string (s : str) : res (list N) :=
  if 65535 <? len s then Err MALFORMED else Ok (put16 (len s) ++ s).
