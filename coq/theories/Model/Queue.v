(* Model of persistence/queue/mem (mem.go): the per-session message queue.
   container/list + the `current` element pointer are a list plus an index
   (q_cur = length q_l  <->  current == nil).  Time is explicit (milliseconds). *)
From Coq Require Import List NArith ZArith Bool Arith.
Import ListNotations.
From GM Require Import Base.Topic Base.Msg.
Open Scope N_scope.

Inductive qbody := QPub (m : msg) | QRel (pid : N).

(* queue.Elem; e_tag is a ghost identity given by the caller of Add (never read by the code) *)
Record elem := { e_tag : N; e_at : N; e_expiry : option N (* None = zero time *); e_body : qbody }.

Definition e_id (e : elem) : N := match e_body e with QPub m => m_pid m | QRel p => p end.

Definition set_pid (p : N) (m : msg) : msg :=
  {| m_dup := m_dup m; m_qos := m_qos m; m_retained := m_retained m; m_topic := m_topic m;
     m_payload := m_payload m; m_pid := p; m_ctype := m_ctype m; m_corr := m_corr m;
     m_expiry := m_expiry m; m_pfmt := m_pfmt m; m_resp := m_resp m; m_subids := m_subids m;
     m_uprops := m_uprops m |}.

Definition with_expiry (x : option N) (e : elem) : elem :=
  {| e_tag := e_tag e; e_at := e_at e; e_expiry := x; e_body := e_body e |}.
Definition with_body (b : qbody) (e : elem) : elem :=
  {| e_tag := e_tag e; e_at := e_at e; e_expiry := e_expiry e; e_body := b |}.

(* queue.ElemExpiry *)
Definition expired (now : N) (e : elem) : bool :=
  match e_expiry e with Some x => x <? now | None => false end.

Inductive dropreason := DFull | DExpired | DExpiredInflight | DExceedsMax.

(* Notifier calls, in call order *)
Inductive qev :=
| EvDropped (e : elem) (r : dropreason)
| EvInflight (delta : Z)
| EvQueue (delta : Z).

Record queue := {
  q_l : list elem; q_cur : nat; q_drained : bool; q_closed : bool;
  q_max : nat; q_limit : N; q_v5 : bool; q_ifexp : N (* 0 = no in-flight expiry; ms *) }.

Definition q_new (max : nat) (ifexp : N) : queue :=
  {| q_l := []; q_cur := 0; q_drained := false; q_closed := false;
     q_max := max; q_limit := 0; q_v5 := false; q_ifexp := ifexp |}.

Definition q_set (l : list elem) (cur : nat) (drained : bool) (q : queue) : queue :=
  {| q_l := l; q_cur := cur; q_drained := drained; q_closed := q_closed q;
     q_max := q_max q; q_limit := q_limit q; q_v5 := q_v5 q; q_ifexp := q_ifexp q |}.

Inductive qres (A : Type) := QOk (a : A) | QPanic | QBlocked | QClosed.
Arguments QOk {A} a.
Arguments QPanic {A}.
Arguments QBlocked {A}.
Arguments QClosed {A}.

Fixpoint remove_nth {A} (i : nat) (l : list A) : list A :=
  match i, l with
  | _, [] => []
  | O, _ :: r => r
  | S k, x :: r => x :: remove_nth k r
  end.

Fixpoint replace_nth {A} (i : nat) (y : A) (l : list A) : list A :=
  match i, l with
  | _, [] => []
  | O, _ :: r => y :: r
  | S k, x :: r => x :: replace_nth k y r
  end.

(* Close *)
Definition q_close (q : queue) : queue :=
  {| q_l := q_l q; q_cur := q_cur q; q_drained := q_drained q; q_closed := true;
     q_max := q_max q; q_limit := q_limit q; q_v5 := q_v5 q; q_ifexp := q_ifexp q |}.

(* Init *)
Definition q_init (clean : bool) (v5 : bool) (limit : N) (q : queue) : queue :=
  {| q_l := if clean then [] else q_l q; q_cur := 0; q_drained := false; q_closed := false;
     q_max := q_max q; q_limit := limit; q_v5 := v5; q_ifexp := q_ifexp q |}.

(* the scan `for e := q.current; e != nil; e = e.Next()` of Add; i = index of the element
   at the head of l (in-flight PUBREL entries are skipped).  Result:
   (index of the victim, reason) / nothing found. *)
Inductive scanres := SNone | SVictim (i : nat) (r : dropreason).

Fixpoint add_scan (now : N) (l : list elem) (i : nat) (qos0 : option nat) : scanres :=
  match l with
  | [] => match qos0 with Some j => SVictim j DFull | None => SNone end
  | e :: r =>
      match e_body e with
      | QRel _ => add_scan now r (S i) qos0
      | QPub m =>
          if (m_pid m =? 0) && expired now e then SVictim i DExpired
          else if (m_pid m =? 0) && (m_qos m =? 0) && (match qos0 with None => true | Some _ => false end)
               then add_scan now r (S i) (Some i)
               else add_scan now r (S i) qos0
      end
  end.

(* first expired entry among the in-flight ones: the entries with a packet id, which
   precede the queued ones *)
Fixpoint first_expired_inflight (now : N) (l : list elem) (i : nat) : option nat :=
  match l with
  | [] => None
  | e :: r => if e_id e =? 0 then None
              else if expired now e then Some i else first_expired_inflight now r (S i)
  end.

(* first queued (id = 0) entry at or after index i *)
Fixpoint first_queued (l : list elem) (i : nat) : option nat :=
  match l with
  | [] => None
  | e :: r => if e_id e =? 0 then Some i else first_queued r (S i)
  end.

(* which element Add sacrifices when the queue is full: VNew = the newcomer *)
Inductive victim := VPanic | VNew (r : dropreason) | VOld (i : nat) (r : dropreason).

Definition add_victim (now : N) (e : elem) (q : queue) : victim :=
  let l := q_l q in
  match first_expired_inflight now l 0 with
  | Some i => VOld i DExpiredInflight
  | None =>
      if q_drained q && (q_cur q =? length l)%nat then VNew DFull
      else
        match add_scan now (skipn (q_cur q) l) (q_cur q) None with
        | SVictim i r => VOld i r
        | SNone =>
            match e_body e with
            | QRel _ => VPanic
            | QPub m =>
                if m_qos m =? 0 then VNew DFull
                else match first_queued (skipn (q_cur q) l) (q_cur q) with
                     | Some i => VOld i DFull
                     | None => VNew DFull
                     end
            end
        end
  end.

(* Add *)
Definition q_add (now : N) (e : elem) (q : queue) : qres (queue * list qev) :=
  let l := q_l q in
  if (q_max q <=? length l)%nat then
    match add_victim now e q with
    | VPanic => QPanic
    | VNew r => QOk (q, [EvDropped e r])
    | VOld i r =>
        match nth_error l i with
        | None => QPanic        (* dropElem == q.current == nil: nil dereference *)
        | Some d =>
            let cur' := if (i <? q_cur q)%nat then (q_cur q - 1)%nat else q_cur q in
            QOk (q_set (remove_nth i l ++ [e]) cur' (q_drained q) q,
                 (match r with DExpiredInflight => [EvInflight (-1)] | _ => [] end) ++ [EvDropped d r])
        end
    end
  else QOk (q_set (l ++ [e]) (q_cur q) (q_drained q) q, [EvQueue 1]).

(* the loop of Read; n = remaining iterations; pids = ids not yet used *)
Fixpoint read_loop (now : N) (n : nat) (pids : list N) (l : list elem) (cur : nat)
                   (limit : N) (v5 : bool) (ifexp : N) (dq di : Z) (evs : list qev) (rs : list elem)
  : option (list elem * nat * Z * Z * list qev * list elem) :=
  match n with
  | O => Some (l, cur, dq, di, evs, rs)
  | S k =>
      match nth_error l cur with
      | None => Some (l, cur, dq, di, evs, rs)
      | Some v =>
          if expired now v then
            read_loop now k pids (remove_nth cur l) cur limit v5 ifexp (dq - 1)%Z di (evs ++ [EvDropped v DExpired]) rs
          else
            match e_body v with
            | QRel _ => None                       (* type assertion panics *)
            | QPub m =>
                if limit <? msg_total_bytes v5 m then
                  read_loop now k pids (remove_nth cur l) cur limit v5 ifexp (dq - 1)%Z di (evs ++ [EvDropped v DExceedsMax]) rs
                else if m_qos m =? 0 then
                  read_loop now k pids (remove_nth cur l) cur limit v5 ifexp (dq - 1)%Z di evs (rs ++ [v])
                else
                  match pids with
                  | [] => None                     (* pids[pflag] out of range: cannot happen, n <= len pids *)
                  | p :: pids' =>
                      let v' := with_body (QPub (set_pid p m)) v in
                      let v' := if ifexp =? 0 then v' else with_expiry (Some (now + ifexp)) v' in
                      read_loop now k pids' (replace_nth cur v' l) (S cur) limit v5 ifexp dq (di + 1)%Z evs (rs ++ [v'])
                  end
            end
      end
  end.

(* Read(pids) *)
Definition q_read (now : N) (pids : list N) (q : queue) : qres (queue * list elem * list qev) :=
  if negb (q_drained q) then QPanic
  else if q_closed q then QClosed
  else if (q_cur q =? length (q_l q))%nat then QBlocked       (* l empty or current == nil *)
  else
    match read_loop now (Nat.min (length (q_l q)) (length pids)) pids (q_l q) (q_cur q)
                    (q_limit q) (q_v5 q) (q_ifexp q) 0%Z 0%Z [] [] with
    | None => QPanic
    | Some (l, cur, dq, di, evs, rs) =>
        QOk (q_set l cur true q, rs, evs ++ [EvQueue dq; EvInflight di])
    end.

Fixpoint rif_loop (now : N) (n : nat) (l : list elem) (cur : nat) (ifexp : N) (rs : list elem)
  : list elem * nat * bool * list elem :=
  match n with
  | O => (l, cur, false, rs)
  | S k =>
      match nth_error l cur with
      | None => (l, cur, false, rs)
      | Some e =>
          if e_id e =? 0 then (l, cur, true, rs)
          else
            let e' := if ifexp =? 0 then e else with_expiry (Some (now + ifexp)) e in
            rif_loop now k (replace_nth cur e' l) (S cur) ifexp (rs ++ [e'])
      end
  end.

(* ReadInflight(maxSize) *)
Definition q_read_inflight (now : N) (maxsize : nat) (q : queue) : queue * list elem :=
  if (length (q_l q) =? 0)%nat || (q_cur q =? length (q_l q))%nat then (q_set (q_l q) (q_cur q) true q, [])
  else
    let '(l, cur, dr, rs) := rif_loop now (Nat.min maxsize (length (q_l q))) (q_l q) (q_cur q) (q_ifexp q) [] in
    (q_set l cur (q_drained q || dr) q, rs).

Fixpoint find_id (pid : N) (l : list elem) (n : nat) (i : nat) : option nat :=
  match n, l with
  | S k, e :: r => if e_id e =? pid then Some i else find_id pid r k (S i)
  | _, _ => None
  end.

(* Remove(pid): only among the elements before `current` *)
Definition q_remove (pid : N) (q : queue) : queue * list qev :=
  match find_id pid (q_l q) (q_cur q) 0 with
  | Some i => (q_set (remove_nth i (q_l q)) (q_cur q - 1)%nat (q_drained q) q, [EvQueue (-1); EvInflight (-1)])
  | None => (q, [])
  end.

(* Replace(elem) *)
Definition q_replace (e : elem) (q : queue) : queue * bool :=
  match find_id (e_id e) (q_l q) (q_cur q) 0 with
  | Some i => (q_set (replace_nth i e (q_l q)) (q_cur q) (q_drained q) q, true)
  | None => (q, false)
  end.

(* ---------- histories ---------- *)
Inductive qop :=
| OAdd (now : N) (e : elem)
| ORead (now : N) (pids : list N)
| OReadInflight (now : N) (maxsize : nat)
| ORemove (pid : N)
| OReplace (e : elem)
| OInit (clean v5 : bool) (limit : N)
| OClose.

Inductive qout :=
| RAdd (evs : list qev)
| RRead (rs : list elem) (evs : list qev)
| RReadInflight (rs : list elem)
| RRemove (evs : list qev)
| RReplace (b : bool)
| RUnit
| RPanic | RBlocked | RClosedErr.

Definition q_step (q : queue) (o : qop) : queue * qout :=
  match o with
  | OAdd now e => match q_add now e q with
                  | QOk (q', evs) => (q', RAdd evs)
                  | QPanic => (q, RPanic) | QBlocked => (q, RBlocked) | QClosed => (q, RClosedErr)
                  end
  | ORead now pids => match q_read now pids q with
                      | QOk (q', rs, evs) => (q', RRead rs evs)
                      | QPanic => (q, RPanic) | QBlocked => (q, RBlocked) | QClosed => (q, RClosedErr)
                      end
  | OReadInflight now n => let '(q', rs) := q_read_inflight now n q in (q', RReadInflight rs)
  | ORemove pid => let '(q', evs) := q_remove pid q in (q', RRemove evs)
  | OReplace e => let '(q', b) := q_replace e q in (q', RReplace b)
  | OInit c v l => (q_init c v l q, RUnit)
  | OClose => (q_close q, RUnit)
  end.

Fixpoint q_run (q : queue) (ops : list qop) : queue * list qout :=
  match ops with
  | [] => (q, [])
  | o :: r => let '(q', out) := q_step q o in
              match out with
              | RPanic => (q', [out])              (* the process is gone *)
              | _ => let '(q'', outs) := q_run q' r in (q'', out :: outs)
              end
  end.
