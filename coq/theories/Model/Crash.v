(* Model of the redis persistence layer of the broker (persistence/redis.go,
   persistence/{session,subscription,unack}/redis, server.init): for every operation the
   list of storage commands it issues (interleaved, at broker level, with the
   acknowledgements it sends), and `recover` = what a fresh broker loads from a store.

   PART 1 (this section): the three small stores.
   PART 2: the broker level journal and `recover`.

   The behaviours that deviate from the durability statement (C09) are switchable
   (`fixes`): `cur_code` is the code as it is; flipping a flag gives the repaired behaviour,
   for which the unconditional theorem is proved (Proofs/CrashP.v). *)
From Coq Require Import List NArith ZArith Bool Arith.
Import ListNotations.
From GM Require Import Base.Topic Base.Msg Model.SubTrie Model.Queue Model.Redis Model.RQueue.
Open Scope N_scope.

Record fixes := {
  fix_hdel : bool;      (* Unsubscribe passes the topics as separate HDEL fields *)
  fix_trim : bool;      (* Init registers the subscriptions under the unmodified client id *)
  fix_unack : bool }.   (* a fresh unack store loads the stored packet ids *)

Definition cur_code : fixes := {| fix_hdel := false; fix_trim := false; fix_unack := false |}.
Definition all_fixed : fixes := {| fix_hdel := true; fix_trim := true; fix_unack := true |}.
(* the behaviour of /repo as it is now: the one place to change when a defect is repaired *)
Definition code_fixes : fixes := cur_code.

(* ---------- keys ---------- *)
Definition SESS_PREFIX : str := [115; 101; 115; 115; 105; 111; 110; 58].    (* "session:" *)
Definition SUBS_PREFIX : str := [115; 117; 98; 58].                        (* "sub:" *)
Definition UNACK_PREFIX : str := [117; 110; 97; 99; 107; 58].              (* "unack:" *)
Definition sess_key (c : str) : str := SESS_PREFIX ++ c.
Definition sub_key (c : str) : str := SUBS_PREFIX ++ c.
Definition unack_key (c : str) : str := UNACK_PREFIX ++ c.

(* ---------- decimal printing (redigo writes integers with strconv / fmt) ---------- *)
Fixpoint dec_aux (fuel : nat) (n : N) (acc : str) : str :=
  match fuel with
  | O => acc
  | S k => let acc' := (48 + n mod 10) :: acc in
           if n / 10 =? 0 then acc' else dec_aux k (n / 10) acc'
  end.
Definition dec (n : N) : str := dec_aux (S (N.to_nat (N.size n))) n [].

(* ---------- subscription store (persistence/subscription/redis) ---------- *)
Definition SHARE_SLASH : str := [36; 115; 104; 97; 114; 101; 47].          (* "$share/" *)

(* subscription.GetFullTopicName *)
Definition full_topic (s : sub) : str :=
  if is_empty (s_share s) then s_filter s else SHARE_SLASH ++ s_share s ++ [SLASH] ++ s_filter s.

(* fmt.Sprint([]string{..}) = "[a b c]" : what redigo sends for a Go slice argument *)
Fixpoint join_sp (ts : list str) : str :=
  match ts with
  | [] => []
  | [t] => t
  | t :: r => t ++ [32] ++ join_sp r
  end.
Definition go_print_slice (ts : list str) : str := [91] ++ join_sp ts ++ [93].

(* one call of the store API *)
Inductive sop :=
| SSub (c : cid) (subs : list sub)
| SUnsub (c : cid) (topics : list str)
| SUnsubAll (c : cid).

Definition sop_cmds (fx : fixes) (o : sop) : list rcmd :=
  match o with
  | SSub c subs => map (fun s => CHSet (sub_key c) [(full_topic s, BSub s)]) subs
  | SUnsub c ts => if fix_hdel fx then [CHDel (sub_key c) ts] else [CHDel (sub_key c) [go_print_slice ts]]
  | SUnsubAll c => [CDel (sub_key c)]
  end.

(* the same call on the in-memory index (mem.TrieDB), as single-item operations *)
Definition sop_flat (o : sop) : list op :=
  match o with
  | SSub c subs => map (OSub c) subs
  | SUnsub c ts => map (OUnsub c) ts
  | SUnsubAll c => [OUnsubAll c]
  end.

Definition sops_cmds (fx : fixes) (ops : list sop) : list rcmd := concat (map (sop_cmds fx) ops).
Definition sops_flat (ops : list sop) : list op := concat (map sop_flat ops).

(* strings.TrimLeft(v, "sub:"): drops every leading character that is one of s,u,b,: *)
Definition in_cutset (x : N) : bool := (x =? 115) || (x =? 117) || (x =? 98) || (x =? 58).
Fixpoint trim_left (c : str) : str :=
  match c with
  | [] => []
  | x :: r => if in_cutset x then trim_left r else c
  end.
Definition load_cid (fx : fixes) (c : cid) : cid := if fix_trim fx then c else trim_left c.

(* sub.Init(clientIDs): HGETALL sub:<id> for every id, decode, SubscribeLocked.
   None = start-up fails (wrong type / undecodable value) *)
Fixpoint subs_of_hash (h : list (str * blob)) : option (list sub) :=
  match h with
  | [] => Some []
  | (_, BSub s) :: r => match subs_of_hash r with Some l => Some (s :: l) | None => None end
  | _ :: _ => None
  end.

Fixpoint load_subs (fx : fixes) (s : rstore) (cids : list cid) : option (list op) :=
  match cids with
  | [] => Some []
  | c :: r =>
      match hgetall (sub_key c) s with
      | None => None
      | Some h =>
          match subs_of_hash h, load_subs fx s r with
          | Some l, Some rest => Some (map (OSub (load_cid fx c)) l ++ rest)
          | _, _ => None
          end
      end
  end.

(* ---------- unack store (persistence/unack/redis) ---------- *)
Definition ONE : str := [49].

Inductive ruop := RUInit (clean : bool) | RUSet (id : N) | RURemove (id : N) | RURestart.

(* ids recorded in the stored hash (fields are decimal numbers) *)
Fixpoint undec (s : str) (acc : N) : option N :=
  match s with
  | [] => Some acc
  | x :: r => if (48 <=? x) && (x <=? 57) then undec r (acc * 10 + (x - 48)) else None
  end.
Fixpoint ids_of_hash (h : list (str * blob)) : list N :=
  match h with
  | [] => []
  | (f, _) :: r => match f with
                   | [] => ids_of_hash r
                   | _ => match undec f 0 with Some n => n :: ids_of_hash r | None => ids_of_hash r end
                   end
  end.
Definition stored_unack (c : cid) (s : rstore) : list N :=
  match hgetall (unack_key c) s with Some h => ids_of_hash h | None => [] end.

Fixpoint memN (x : N) (l : list N) : bool := match l with [] => false | y :: r => (x =? y) || memN x r end.
Fixpoint delN (x : N) (l : list N) : list N := match l with [] => [] | y :: r => if x =? y then delN x r else y :: delN x r end.

(* state: the in-memory cache of the store object.  Result: new cache, answer of Set, commands *)
Definition ru_step (fx : fixes) (c : cid) (s : rstore) (cache : list N) (o : ruop) : list N * option bool * list rcmd :=
  match o with
  | RUInit clean => if clean then ([], None, [CDel (unack_key c)]) else (cache, None, [])
  | RUSet id => if memN id cache then (cache, Some true, [])
                else (id :: cache, Some false, [CHSet (unack_key c) [(dec id, BRaw ONE)]])
  | RURemove id => (delN id cache, None, [CHDel (unack_key c) [dec id]])
  | RURestart => (if fix_unack fx then stored_unack c s else [], None, [])
  end.

Fixpoint ru_run (fx : fixes) (c : cid) (s : rstore) (cache : list N) (ops : list ruop) : list (option bool) * list rcmd :=
  match ops with
  | [] => ([], [])
  | o :: r =>
      let '(cache', out, cmds) := ru_step fx c s cache o in
      let '(outs, cmds') := ru_run fx c (exec_all s cmds) cache' r in
      (out :: outs, cmds ++ cmds')
  end.
