(* Model of the redis persistence layer of the broker (persistence/redis.go,
   persistence/{session,subscription,unack}/redis, server.init): for every operation the
   list of storage commands it issues (interleaved, at broker level, with the
   acknowledgements it sends), and `recover` = what a fresh broker loads from a store.

   PART 1 (this section): the three small stores.
   PART 2: the broker level journal and `recover`.

   Three behaviours that deviated from the durability statement (C09) are switchable
   (`fixes`): `old_code` is /repo before the repairs 41101f9 (HDEL arguments), 9588927 (client
   id at load) and 892f3ad (unack ids reloaded); `cur_code` is the code as it is now, with
   all three repaired.  The theorems of Proofs/CrashP.v are stated for every setting; the old
   behaviour is kept for the regression examples of Props/C09.v. *)
From Coq Require Import List NArith ZArith Bool Arith.
Import ListNotations.
From GM Require Import Base.Topic Base.Msg Model.SubTrie Model.Queue Model.Redis Model.RQueue.
Open Scope N_scope.

Record fixes := {
  fix_hdel : bool;      (* Unsubscribe passes the topics as separate HDEL fields *)
  fix_trim : bool;      (* Init registers the subscriptions under the unmodified client id *)
  fix_unack : bool }.   (* unack.Init(cleanStart=false) reloads the stored packet ids (HKEYS) *)

Definition old_code : fixes := {| fix_hdel := false; fix_trim := false; fix_unack := false |}.
Definition all_fixed : fixes := {| fix_hdel := true; fix_trim := true; fix_unack := true |}.
Definition cur_code : fixes := all_fixed.
(* the behaviour of /repo as it is now: the one place to change when the code changes *)
Definition code_fixes : fixes := cur_code.

(* ---------- keys ---------- *)
Definition SESS_PREFIX : str := [115; 101; 115; 115; 105; 111; 110; 58].    (* "session:" *)
Definition SUBS_PREFIX : str := [115; 117; 98; 58].                        (* "sub:" *)
Definition UNACK_PREFIX : str := [117; 110; 97; 99; 107; 58].              (* "unack:" *)
Definition sess_key (c : str) : str := SESS_PREFIX ++ c.
Definition sub_key (c : str) : str := SUBS_PREFIX ++ c.
Definition unack_key (c : str) : str := UNACK_PREFIX ++ c.

(* ---------- decimal printing (redigo writes integers with strconv / fmt) ---------- *)
Fixpoint dec_aux (fuel : nat) (n : N) (acc : str) : str :=
  match fuel with
  | O => acc
  | S k => let acc' := (48 + n mod 10) :: acc in
           if n / 10 =? 0 then acc' else dec_aux k (n / 10) acc'
  end.
Definition dec (n : N) : str := dec_aux (S (N.to_nat (N.size n))) n [].

(* ---------- subscription store (persistence/subscription/redis) ---------- *)
Definition SHARE_SLASH : str := [36; 115; 104; 97; 114; 101; 47].          (* "$share/" *)

(* subscription.GetFullTopicName *)
Definition full_topic (s : sub) : str :=
  if is_empty (s_share s) then s_filter s else SHARE_SLASH ++ s_share s ++ [SLASH] ++ s_filter s.

(* fmt.Sprint([]string{..}) = "[a b c]" : what redigo sends for a Go slice argument *)
Fixpoint join_sp (ts : list str) : str :=
  match ts with
  | [] => []
  | [t] => t
  | t :: r => t ++ [32] ++ join_sp r
  end.
Definition go_print_slice (ts : list str) : str := [91] ++ join_sp ts ++ [93].

(* one call of the store API *)
Inductive sop :=
| SSub (c : cid) (subs : list sub)
| SUnsub (c : cid) (topics : list str)
| SUnsubAll (c : cid).

Definition sop_cmds (fx : fixes) (o : sop) : list rcmd :=
  match o with
  | SSub c subs => map (fun s => CHSet (sub_key c) [(full_topic s, BSub s)]) subs
  | SUnsub c ts => if fix_hdel fx then [CHDel (sub_key c) ts] else [CHDel (sub_key c) [go_print_slice ts]]
  | SUnsubAll c => [CDel (sub_key c)]
  end.

(* the same call on the in-memory index (mem.TrieDB), as single-item operations *)
Definition sop_flat (o : sop) : list op :=
  match o with
  | SSub c subs => map (OSub c) subs
  | SUnsub c ts => map (OUnsub c) ts
  | SUnsubAll c => [OUnsubAll c]
  end.

Definition sops_cmds (fx : fixes) (ops : list sop) : list rcmd := concat (map (sop_cmds fx) ops).
Definition sops_flat (ops : list sop) : list op := concat (map sop_flat ops).

(* strings.TrimLeft(v, "sub:"): drops every leading character that is one of s,u,b,: *)
Definition in_cutset (x : N) : bool := (x =? 115) || (x =? 117) || (x =? 98) || (x =? 58).
Fixpoint trim_left (c : str) : str :=
  match c with
  | [] => []
  | x :: r => if in_cutset x then trim_left r else c
  end.
Definition load_cid (fx : fixes) (c : cid) : cid := if fix_trim fx then c else trim_left c.

(* sub.Init(clientIDs): HGETALL sub:<id> for every id, decode, SubscribeLocked.
   None = start-up fails (wrong type / undecodable value) *)
Fixpoint subs_of_hash (h : list (str * blob)) : option (list sub) :=
  match h with
  | [] => Some []
  | (_, BSub s) :: r => match subs_of_hash r with Some l => Some (s :: l) | None => None end
  | _ :: _ => None
  end.

Fixpoint load_subs (fx : fixes) (s : rstore) (cids : list cid) : option (list op) :=
  match cids with
  | [] => Some []
  | c :: r =>
      match hgetall (sub_key c) s with
      | None => None
      | Some h =>
          match subs_of_hash h, load_subs fx s r with
          | Some l, Some rest => Some (map (OSub (load_cid fx c)) l ++ rest)
          | _, _ => None
          end
      end
  end.

(* ---------- unack store (persistence/unack/redis) ---------- *)
Definition ONE : str := [49].

Inductive ruop := RUInit (clean : bool) | RUSet (id : N) | RURemove (id : N) | RURestart.

(* ids recorded in the stored hash (fields are decimal numbers) *)
Fixpoint undec (s : str) (acc : N) : option N :=
  match s with
  | [] => Some acc
  | x :: r => if (48 <=? x) && (x <=? 57) then undec r (acc * 10 + (x - 48)) else None
  end.
Fixpoint ids_of_hash (h : list (str * blob)) : list N :=
  match h with
  | [] => []
  | (f, _) :: r => match f with
                   | [] => ids_of_hash r
                   | _ => match undec f 0 with Some n => n :: ids_of_hash r | None => ids_of_hash r end
                   end
  end.
Definition stored_unack (c : cid) (s : rstore) : list N :=
  match hgetall (unack_key c) s with Some h => ids_of_hash h | None => [] end.

Fixpoint memN (x : N) (l : list N) : bool := match l with [] => false | y :: r => (x =? y) || memN x r end.
Fixpoint delN (x : N) (l : list N) : list N := match l with [] => [] | y :: r => if x =? y then delN x r else y :: delN x r end.

(* state: the in-memory cache of the store object.  Result: new cache, answer of Set, commands *)
Definition ru_step (fx : fixes) (c : cid) (s : rstore) (cache : list N) (o : ruop) : list N * option bool * list rcmd :=
  match o with
  | RUInit clean => if clean then ([], None, [CDel (unack_key c)])
                    else (if fix_unack fx then stored_unack c s ++ cache else cache, None, [])
  | RUSet id => if memN id cache then (cache, Some true, [])
                else (id :: cache, Some false, [CHSet (unack_key c) [(dec id, BRaw ONE)]])
  | RURemove id => (delN id cache, None, [CHDel (unack_key c) [dec id]])
  | RURestart => ([], None, [])
  end.

Fixpoint ru_run (fx : fixes) (c : cid) (s : rstore) (cache : list N) (ops : list ruop) : list (option bool) * list rcmd :=
  match ops with
  | [] => ([], [])
  | o :: r =>
      let '(cache', out, cmds) := ru_step fx c s cache o in
      let '(outs, cmds') := ru_run fx c (exec_all s cmds) cache' r in
      (out :: outs, cmds ++ cmds')
  end.

(* ====================================================================================
   PART 2: the broker.  Sessions, the in-memory subscription index (flat: client id ->
   full topic name -> subscription; the trie of persistence/subscription/mem refines the flat
   map keyed by (client, share name, filter) - Props/C02.v - and the broker only hands it
   validated filters, for which (share name, filter) and the full name determine each
   other), per-session queue and unack objects, and for
   every client event the journal it produces: storage commands interleaved with the
   packets the broker writes.  Handlers run to completion (the harness waits for the
   broker to be quiet after every client packet); the asynchronous delivery loop of a
   connection is the separate event EPoll.  Packet ids given to outgoing messages are chosen
   by the packet id limiter; the model takes them as an argument of the event.
   Configuration: the defaults (onlyonce delivery, max_queued 1000, max_inflight 100,
   in-flight expiry > 0, session expiry cap 2 h, queue_qos0 on), MQTT 5 clients, no wills, no
   retained messages.  The clock does not advance (nothing expires within a history). *)
Require Import GM.Model.SubSpec.

Definition IFEXP : N := 30000.
Definition MAXQ : nat := 1000.
Definition MAXINFLIGHT : nat := 100.
Definition MAXPACKET : N := 4294967295.     (* ClientMaxPacketSize when the client sets none *)

Record bclient := {
  bc_online : bool;
  bc_q : option rq;           (* srv.queueStore[cid] *)
  bc_ua : option (list N) }.  (* srv.unackStore[cid]: the cache of the store object *)

(* the subscription index: client id -> (full topic name -> subscription) *)
Definition bsubs := list (cid * list (str * sub)).
Definition bs_table (c : cid) (m : bsubs) : list (str * sub) := match aget c m with Some tb => tb | None => [] end.
Definition bs_get (c : cid) (t : str) (m : bsubs) : option sub := aget t (bs_table c m).
Definition bs_sub (c : cid) (s : sub) (m : bsubs) : bsubs := aset c (aset (full_topic s) s (bs_table c m)) m.
Definition bs_unsub (c : cid) (t : str) (m : bsubs) : bsubs := aset c (adel t (bs_table c m)) m.
Definition bs_clear (c : cid) (m : bsubs) : bsubs := adel c m.
Definition bs_entries (m : bsubs) : list (cid * sub) := flat_map (fun ct => map (fun ts => (fst ct, snd ts)) (snd ct)) m.

Record broker := {
  b_store : rstore;
  b_subs : bsubs;                        (* the subscription index *)
  b_clients : list (cid * bclient) }.

Definition b_get (c : cid) (b : broker) : option bclient := aget c (b_clients b).
Definition b_set (c : cid) (x : bclient) (b : broker) : broker :=
  {| b_store := b_store b; b_subs := b_subs b; b_clients := aset c x (b_clients b) |}.
Definition b_with_store (s : rstore) (b : broker) : broker :=
  {| b_store := s; b_subs := b_subs b; b_clients := b_clients b |}.
Definition b_with_subs (sp : bsubs) (b : broker) : broker :=
  {| b_store := b_store b; b_subs := sp; b_clients := b_clients b |}.

Definition broker0 : broker := {| b_store := []; b_subs := []; b_clients := [] |}.

(* what the broker writes to a client *)
Inductive bout :=
| OConnack (c : cid) (sp : bool)
| OSuback (c : cid) (pid : N)
| OUnsuback (c : cid) (pid : N)
| OPuback (c : cid) (pid : N)
| OPubrec (c : cid) (pid : N)
| OPubcomp (c : cid) (pid : N)
| OPubrel (c : cid) (pid : N)
| ODeliver (c : cid) (dup : bool) (qos : N) (payload : str) (pid : N).

Inductive jentry := JCmd (c : rcmd) | JOut (o : bout).

Fixpoint jcmds (j : list jentry) : list rcmd :=
  match j with
  | [] => []
  | JCmd c :: r => c :: jcmds r
  | JOut _ :: r => jcmds r
  end.

(* client events *)
Inductive bevent :=
| EConnect (c : cid) (clean : bool) (expiry : N) (pids : list N)   (* pids: ids given to the messages delivered right after CONNACK *)
| EClose (c : cid)
| ESubscribe (c : cid) (pid : N) (subs : list sub)
| EUnsubscribe (c : cid) (pid : N) (topics : list str)
| EPublish (c : cid) (qos pid : N) (topic payload : str)
| EPubrel (c : cid) (pid : N)
| EPoll (c : cid) (pids : list N)
| EPuback (c : cid) (pid : N)
| EPubrec (c : cid) (pid : N)
| EPubcomp (c : cid) (pid : N).

(* ---------- session store ---------- *)
Definition F_CLIENT_ID : str := [99; 108; 105; 101; 110; 116; 95; 105; 100].
Definition F_WILL : str := [119; 105; 108; 108].
Definition F_WILL_DELAY : str := [119; 105; 108; 108; 95; 100; 101; 108; 97; 121; 95; 105; 110; 116; 101; 114; 118; 97; 108].
Definition F_CONNECTED_AT : str := [99; 111; 110; 110; 101; 99; 116; 101; 100; 95; 97; 116].
Definition F_EXPIRY : str := [101; 120; 112; 105; 114; 121; 95; 105; 110; 116; 101; 114; 118; 97; 108].

(* sessionStore.Set; connected_at is a wall clock value, masked to 0 on both sides *)
Definition sess_set_cmd (c : cid) (expiry : N) : rcmd :=
  CHSet (sess_key c) [(F_CLIENT_ID, BRaw c); (F_WILL, BRaw []); (F_WILL_DELAY, BRaw (dec 0));
                      (F_CONNECTED_AT, BRaw (dec 0)); (F_EXPIRY, BRaw (dec expiry))].

Definition raw_of (b : option blob) : str := match b with Some (BRaw x) => x | _ => [] end.

(* sessionStore.Get: the fields of the hash; a missing key has none (client id "" here), which the store reports
   as `no session` (bstep: exists_) *)
Definition sess_get (c : cid) (s : rstore) : option (cid * N) :=
  match hgetall (sess_key c) s with
  | None => None                                   (* WRONGTYPE: Get fails *)
  | Some h => Some (raw_of (aget F_CLIENT_ID h),
                    match undec (raw_of (aget F_EXPIRY h)) 0 with Some n => n | None => 0 end)
  end.

(* ---------- delivery ---------- *)
Definition sub_matches (topic : str) (publisher : cid) (e : cid * sub) : bool :=
  let '(c, s) := e in
  is_empty (s_share s) && topic_match topic (s_filter s) && negb (s_nl s && str_eqb c publisher).

Fixpoint insert_sorted (x : N) (l : list N) : list N :=
  match l with
  | [] => [x]
  | y :: r => if x <=? y then x :: l else y :: insert_sorted x r
  end.
Definition sort_ids (l : list N) : list N := fold_right insert_sorted [] l.

(* onlyonce mode: one copy per client, QoS = min(publish QoS, highest matching subscription QoS),
   all non-zero subscription identifiers of the matching subscriptions (the order follows
   Go's map iteration; it is canonicalised - sorted - on both sides) *)
Definition client_match (topic : str) (publisher c : cid) (sp : bsubs) : option (N * list N) :=
  match filter (fun e => str_eqb (fst e) c && sub_matches topic publisher e) (bs_entries sp) with
  | [] => None
  | ms => Some (fold_left N.max (map (fun e => s_qos (snd e)) ms) 0,
                sort_ids (filter (fun i => negb (i =? 0)) (map (fun e => s_id (snd e)) ms)))
  end.

Definition mk_msg (qos : N) (topic payload : str) (subids : list N) : msg :=
  {| m_dup := false; m_qos := qos; m_retained := false; m_topic := topic; m_payload := payload; m_pid := 0;
     m_ctype := []; m_corr := []; m_expiry := 0; m_pfmt := 0; m_resp := []; m_subids := subids; m_uprops := [] |}.

(* the message expiry of the configuration (2 h) is set on every queued element *)
Definition MSGEXP : N := 7200000.
Definition mk_elem (m : msg) : elem := {| e_tag := 0; e_at := 0; e_expiry := Some MSGEXP; e_body := QPub m |}.

(* Add to every matching session's queue, in the order of the client table *)
Fixpoint deliver (topic payload : str) (qos : N) (publisher : cid) (sp : bsubs)
                 (cl : list (cid * bclient)) (s : rstore) : list (cid * bclient) * rstore * list rcmd :=
  match cl with
  | [] => ([], s, [])
  | (c, x) :: r =>
      match bc_q x, client_match topic publisher c sp with
      | Some q, Some (sq, ids) =>
          let res := rq_add 0 (mk_elem (mk_msg (N.min qos sq) topic payload ids)) s q in
          let x' := {| bc_online := bc_online x; bc_q := Some (r_q res); bc_ua := bc_ua x |} in
          let '(r', s', cmds) := deliver topic payload qos publisher sp r (r_store res) in
          ((c, x') :: r', s', r_cmds res ++ cmds)
      | _, _ => let '(r', s', cmds) := deliver topic payload qos publisher sp r s in ((c, x) :: r', s', cmds)
      end
  end.

Definition any_match (topic : str) (publisher : cid) (sp : bsubs) (cl : list (cid * bclient)) : bool :=
  existsb (fun cx => match bc_q (snd cx), client_match topic publisher (fst cx) sp with Some _, Some _ => true | _, _ => false end) cl.

(* ---------- the delivery loop of a connection ---------- *)
Definition deliveries_of (c : cid) (dup : bool) (l : list elem) : list jentry :=
  map (fun e => match e_body e with
                | QPub m => JOut (ODeliver c dup (m_qos m) (m_payload m) (m_pid m))
                | QRel p => JOut (OPubrel c p)
                end) l.

Fixpoint filler (n : nat) : list N := match n with O => [] | S k => 0 :: filler k end.

(* pollNewMessages: one Read with the ids the limiter handed out (those used come first) *)
Definition poll_new (c : cid) (pids : list N) (s : rstore) (q : rq) : rstore * rq * list jentry :=
  let res := rq_read 0 (pids ++ filler (MAXINFLIGHT - length pids)) s q in
  match r_out res with
  | RRead rs _ => (r_store res, r_q res, map JCmd (r_cmds res) ++ deliveries_of c false rs)
  | _ => (r_store res, r_q res, map JCmd (r_cmds res))
  end.

(* pollInflights until it returns nothing *)
Fixpoint poll_inflight (fuel : nat) (c : cid) (s : rstore) (q : rq) : rstore * rq * list jentry :=
  match fuel with
  | O => (s, q, [])
  | S k =>
      let res := rq_read_inflight 0 MAXINFLIGHT s q in
      match r_out res with
      | RReadInflight (e :: rs) =>
          let '(s', q', j) := poll_inflight k c (r_store res) (r_q res) in
          (s', q', map JCmd (r_cmds res) ++ deliveries_of c true (e :: rs) ++ j)
      | _ => (r_store res, r_q res, map JCmd (r_cmds res))
      end
  end.

(* removeSessionLocked(id): queue Clean, session Remove, UnsubscribeAll *)
Definition remove_session (id : cid) (b : broker) : broker * list rcmd :=
  let qcmd := match b_get id b with
              | Some x => match bc_q x with Some _ => [CDel (queue_key id)] | None => [] end
              | None => []
              end in
  let cmds := qcmd ++ [CDel (sess_key id); CDel (sub_key id)] in
  let cl := match b_get id b with
            | Some x => aset id {| bc_online := false; bc_q := None; bc_ua := bc_ua x |} (b_clients b)
            | None => b_clients b
            end in
  ({| b_store := exec_all (b_store b) cmds; b_subs := bs_clear id (b_subs b); b_clients := cl |}, cmds).

Definition SESSION_CAP : N := 7200.

(* redis_queue.New on a store: the length of the list is read at once *)
Definition rq_fresh (s : rstore) (max : nat) (ifexp : N) (c : cid) : rq := r_q (rq_restart s (rq_new max ifexp c)).

Definition with_q (x : bclient) (q : rq) : bclient := {| bc_online := bc_online x; bc_q := Some q; bc_ua := bc_ua x |}.

(* one client event: new state and journal.  An event of a client that is not connected
   (or a CONNECT of a connected one) is not generated by the harness; it is a no-op here. *)
Definition bstep (fx : fixes) (b : broker) (ev : bevent) : broker * list jentry :=
  let online c := match b_get c b with Some x => bc_online x | None => false end in
  match ev with
  | EConnect c clean expiry pids =>
      if online c then (b, []) else
      match sess_get c (b_store b) with
      | None => (b, [])
      | Some (old_id, old_exp) =>
          let exists_ := negb (is_empty old_id) in
          (* an absent session has connected_at = 1970 and expiry 0: expired *)
          let resume0 := exists_ && negb (old_exp =? 0) && negb clean in
          let old := b_get c b in
          let have := match old with
                      | Some x => match bc_q x, bc_ua x with Some _, Some _ => true | _, _ => false end
                      | None => false
                      end in
          let resume := resume0 && have in
          (* terminate the old session unless it is resumed (an inconsistent one is just replaced) *)
          (* since 654780c the store answers `no session` for a missing key (it used to answer an all-empty session,
             which was then terminated under the client id ""): nothing is terminated in that case *)
          let '(b1, cmds1) := if resume0 || negb exists_ then (b, []) else remove_session old_id b in
          let exp := N.min expiry SESSION_CAP in
          if resume then
            match old with
            | Some x =>
                match bc_q x with
                | Some q =>
                    let ri := rq_init false true MAXPACKET (b_store b1) q in
                    let cmds := cmds1 ++ r_cmds ri ++ [sess_set_cmd c exp] in
                    let s2 := exec (r_store ri) (sess_set_cmd c exp) in
                    let '(s3, q3, j3) := poll_inflight 3 c s2 (r_q ri) in
                    let '(s4, q4, j4) :=
                      if (rq_cur q3 <? rq_len q3)%Z then poll_new c pids s3 q3 else (s3, q3, []) in
                    (* ua.Init(false): the stored ids awaiting PUBREL are (re)loaded *)
                    let ua := match bc_ua x with
                              | Some u => Some (if fix_unack fx then stored_unack c (b_store b1) ++ u else u)
                              | None => None
                              end in
                    (b_set c {| bc_online := true; bc_q := Some q4; bc_ua := ua |} (b_with_store s4 b1),
                     map JCmd cmds ++ [JOut (OConnack c true)] ++ j3 ++ j4)
                | None => (b, [])
                end
            | None => (b, [])
            end
          else
            let q0 := rq_new MAXQ IFEXP c in
            let ri := rq_init true true MAXPACKET (b_store b1) q0 in
            let cmds := cmds1 ++ r_cmds ri ++ [CDel (unack_key c); sess_set_cmd c exp] in
            let s2 := exec_all (r_store ri) [CDel (unack_key c); sess_set_cmd c exp] in
            let '(s3, q3, j3) := poll_inflight 3 c s2 (r_q ri) in
            (b_set c {| bc_online := true; bc_q := Some q3; bc_ua := Some [] |} (b_with_store s3 b1),
             map JCmd cmds ++ [JOut (OConnack c false)] ++ j3)
      end
  | EClose c =>
      if negb (online c) then (b, []) else
      match b_get c b, sess_get c (b_store b) with
      | Some x, Some (_, exp) =>
          let x' := {| bc_online := false;
                       bc_q := match bc_q x with Some q => Some (r_q (rq_close (b_store b) q)) | None => None end;
                       bc_ua := bc_ua x |} in
          let b' := b_set c x' b in
          if exp =? 0 then let '(b2, cmds) := remove_session c b' in (b2, map JCmd cmds)
          else (b', [])
      | _, _ => (b, [])
      end
  | ESubscribe c pid subs =>
      if negb (online c) then (b, []) else
      let cmds := sop_cmds fx (SSub c subs) in
      ({| b_store := exec_all (b_store b) cmds; b_subs := fold_left (fun m s => bs_sub c s m) subs (b_subs b);
          b_clients := b_clients b |},
       map JCmd cmds ++ [JOut (OSuback c pid)])
  | EUnsubscribe c pid topics =>
      if negb (online c) then (b, []) else
      (* the handler calls Unsubscribe once per topic *)
      let cmds := concat (map (fun t => sop_cmds fx (SUnsub c [t])) topics) in
      ({| b_store := exec_all (b_store b) cmds; b_subs := fold_left (fun m t => bs_unsub c t m) topics (b_subs b);
          b_clients := b_clients b |},
       map JCmd cmds ++ [JOut (OUnsuback c pid)])
  | EPublish c qos pid topic payload =>
      if negb (online c) then (b, []) else
      match b_get c b with
      | Some x =>
          let cache := match bc_ua x with Some u => u | None => [] end in
          let dup := (qos =? 2) && memN pid cache in
          let ucmds := if (qos =? 2) && negb dup then [CHSet (unack_key c) [(dec pid, BRaw ONE)]] else [] in
          let x' := if (qos =? 2) && negb dup
                    then {| bc_online := bc_online x; bc_q := bc_q x; bc_ua := Some (pid :: cache) |} else x in
          let b1 := b_set c x' (b_with_store (exec_all (b_store b) ucmds) b) in
          let '(cl, s2, dcmds) :=
            if dup then (b_clients b1, b_store b1, [])
            else deliver topic payload qos c (b_subs b1) (b_clients b1) (b_store b1) in
          let ack := if qos =? 1 then [JOut (OPuback c pid)] else if qos =? 2 then [JOut (OPubrec c pid)] else [] in
          ({| b_store := s2; b_subs := b_subs b1; b_clients := cl |}, map JCmd (ucmds ++ dcmds) ++ ack)
      | None => (b, [])
      end
  | EPubrel c pid =>
      if negb (online c) then (b, []) else
      match b_get c b with
      | Some x =>
          let cmds := [CHDel (unack_key c) [dec pid]] in
          let x' := {| bc_online := bc_online x; bc_q := bc_q x;
                       bc_ua := match bc_ua x with Some u => Some (delN pid u) | None => None end |} in
          (b_set c x' (b_with_store (exec_all (b_store b) cmds) b), map JCmd cmds ++ [JOut (OPubcomp c pid)])
      | None => (b, [])
      end
  | EPoll c pids =>
      if negb (online c) then (b, []) else
      match b_get c b with
      | Some x => match bc_q x with
                  | Some q => let '(s', q', j) := poll_new c pids (b_store b) q in
                              (b_set c (with_q x q') (b_with_store s' b), j)
                  | None => (b, [])
                  end
      | None => (b, [])
      end
  | EPuback c pid | EPubcomp c pid =>
      if negb (online c) then (b, []) else
      match b_get c b with
      | Some x => match bc_q x with
                  | Some q => let res := rq_remove pid (b_store b) q in
                              (b_set c (with_q x (r_q res)) (b_with_store (r_store res) b), map JCmd (r_cmds res))
                  | None => (b, [])
                  end
      | None => (b, [])
      end
  | EPubrec c pid =>
      if negb (online c) then (b, []) else
      match b_get c b with
      | Some x => match bc_q x with
                  | Some q => let res := rq_replace {| e_tag := 0; e_at := 0; e_expiry := None; e_body := QRel pid |} (b_store b) q in
                              (b_set c (with_q x (r_q res)) (b_with_store (r_store res) b),
                               map JCmd (r_cmds res) ++ [JOut (OPubrel c pid)])
                  | None => (b, [])
                  end
      | None => (b, [])
      end
  end.

Fixpoint brun (fx : fixes) (b : broker) (h : list bevent) : broker * list jentry :=
  match h with
  | [] => (b, [])
  | ev :: r => let '(b1, j1) := bstep fx b ev in
               let '(b2, j2) := brun fx b1 r in (b2, j1 ++ j2)
  end.

Definition journal (fx : fixes) (h : list bevent) : list jentry := snd (brun fx broker0 h).

(* ---------- recover: server.init on a store ---------- *)
(* the sessions found by SCAN MATCH session:* + HMGET: (client id, expiry) *)
Fixpoint stored_sessions (s : rstore) (keys : list str) : list (cid * N) :=
  match keys with
  | [] => []
  | k :: r => match hgetall k s with
              | Some h => (raw_of (aget F_CLIENT_ID h),
                           match undec (raw_of (aget F_EXPIRY h)) 0 with Some n => n | None => 0 end) :: stored_sessions s r
              | None => stored_sessions s r
              end
  end.

Definition has_wrongtype_session (s : rstore) : bool :=
  existsb (fun kv => has_prefix_str SESS_PREFIX (fst kv) && match snd kv with RList _ => true | RHash _ => false end) s.

(* sub.Init(clientIDs): HGETALL sub:<id>, decode, SubscribeLocked under the (trimmed) id.
   None = start-up fails (wrong type / undecodable value) *)
Fixpoint load_bsubs (fx : fixes) (s : rstore) (cids : list cid) (m : bsubs) : option bsubs :=
  match cids with
  | [] => Some m
  | c :: r =>
      match hgetall (sub_key c) s with
      | None => None
      | Some h =>
          match subs_of_hash h with
          | Some l => load_bsubs fx s r (fold_left (fun m x => bs_sub (load_cid fx c) x m) l m)
          | None => None
          end
      end
  end.

(* None = start-up fails *)
Definition recover (fx : fixes) (s : rstore) : option broker :=
  if has_wrongtype_session s then None else
  let sess := stored_sessions s (scan_prefix SESS_PREFIX s) in
  let cids := map fst sess in
  match load_bsubs fx s cids [] with
  | None => None
  | Some m =>
      Some {| b_store := s;
              b_subs := m;
              b_clients := fold_left (fun cl c =>
                             aset c {| bc_online := false;
                                       bc_q := Some (rq_fresh s MAXQ IFEXP c);
                                       bc_ua := Some [] |} cl) cids [] |}
  end.
