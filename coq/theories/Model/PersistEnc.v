(* Byte-level model of the encodings the redis persistence backend stores:
     persistence/encoding/binary.go   WriteUint16/32, WriteBool, WriteString, WriteBytes and the readers
     persistence/encoding/redis.go    EncodeMessage / DecodeMessage (queue elements, stored wills)
     persistence/queue/elem.go        Elem.Encode / Elem.Decode
     persistence/subscription/redis   EncodeSubscription / DecodeSubscription
   Executable definitions only (lemmas: Proofs/PersistEncP.v).  The functions follow the Go code
   statement by statement; byte strings are `list N` (bytes below 256), Go's fixed-width integers
   are reduced explicitly where the code converts (uint16(len(s)), uint64(int64)).

   Times: queue.Elem.At / Expiry are stored as uint64(t.Unix()).  In the model an entry time is a
   number of seconds (N), an expiry is `option N` with None = the zero time.Time, whose Unix()
   is -62135596800, stored as 2^64 - 62135596800. *)
From Coq Require Import List NArith ZArith Bool.
Import ListNotations.
From GM Require Import Base.Topic Base.Msg Model.CodecBase Model.SubTrie Model.Queue Gen.Consts.
Open Scope N_scope.

(* every reader error is one error value here: the callers only test err != nil *)
Definition PERR : err := EUnexpectedEOF.
Definition perr {A} (r : res A) : res A := remap PERR r.

(* ---------------------------------------------------------------- binary.go *)
Definition wr_bool (b : bool) : list N := [if b then 1 else 0].
Definition rd_bool (b : list N) : res (bool * list N) :=
  do '(x, r) <- perr (read_byte b); Ok (negb (x =? 0), r).

(* WriteString: WriteUint16(w, uint16(len(s))); w.Write(s)  - the length is truncated silently *)
Definition wr_string (s : str) : list N := put16 (len s mod 65536) ++ s.
(* ReadString: io.ReadFull of 2 bytes, then of `length` bytes *)
Definition rd_string (b : list N) : res (str * list N) :=
  do '(n, r) <- perr (read_uint16 b);
  if shorter r n then Err PERR else Ok (takeN n r, dropN n r).

(* WriteBytes: a length below 0xFFFF in 2 bytes, else 0xFFFF and the length in 4 bytes (uint32(len(s))) *)
Definition wr_bytes (s : str) : list N :=
  if len s <? 65535 then wr_string s
  else put16 65535 ++ put32 (len s mod 4294967296) ++ s.
Definition rd_bytes (b : list N) : res (str * list N) :=
  do '(l, r) <- perr (read_uint16 b);
  do '(n, r1) <- (if l =? 65535 then perr (read_uint32 r) else Ok (l, r));
  if shorter r1 n then Err PERR else Ok (takeN n r1, dropN n r1).

(* ---------------------------------------------------------------- EncodeMessage *)
Definition enc_subids (l : list N) : list N :=
  flat_map (fun v => pk_PropSubscriptionIdentifier :: encode_varint_or_nil v) l.
Definition enc_uprops (l : list (str * str)) : list N :=
  flat_map (fun kv => pk_PropUser :: wr_string (fst kv) ++ wr_string (snd kv)) l.

Definition enc_msg (m : msg) : list N :=
  wr_bool (m_dup m) ++ [m_qos m] ++ wr_bool (m_retained m) ++ wr_string (m_topic m) ++ wr_bytes (m_payload m) ++
  put16 (m_pid m) ++
  (if len (m_ctype m) =? 0 then [] else pk_PropContentType :: wr_string (m_ctype m)) ++
  (if len (m_corr m) =? 0 then [] else pk_PropCorrelationData :: wr_string (m_corr m)) ++
  (if m_expiry m =? 0 then [] else pk_PropMessageExpiry :: put32 (m_expiry m)) ++
  [pk_PropPayloadFormat; m_pfmt m] ++
  (if len (m_resp m) =? 0 then [] else pk_PropResponseTopic :: wr_string (m_resp m)) ++
  enc_subids (m_subids m) ++ enc_uprops (m_uprops m).

(* ---------------------------------------------------------------- DecodeMessage *)
Definition set_ctype (v : str) (m : msg) : msg :=
  {| m_dup := m_dup m; m_qos := m_qos m; m_retained := m_retained m; m_topic := m_topic m; m_payload := m_payload m;
     m_pid := m_pid m; m_ctype := v; m_corr := m_corr m; m_expiry := m_expiry m; m_pfmt := m_pfmt m;
     m_resp := m_resp m; m_subids := m_subids m; m_uprops := m_uprops m |}.
Definition set_corr (v : str) (m : msg) : msg :=
  {| m_dup := m_dup m; m_qos := m_qos m; m_retained := m_retained m; m_topic := m_topic m; m_payload := m_payload m;
     m_pid := m_pid m; m_ctype := m_ctype m; m_corr := v; m_expiry := m_expiry m; m_pfmt := m_pfmt m;
     m_resp := m_resp m; m_subids := m_subids m; m_uprops := m_uprops m |}.
Definition set_expiry (v : N) (m : msg) : msg :=
  {| m_dup := m_dup m; m_qos := m_qos m; m_retained := m_retained m; m_topic := m_topic m; m_payload := m_payload m;
     m_pid := m_pid m; m_ctype := m_ctype m; m_corr := m_corr m; m_expiry := v; m_pfmt := m_pfmt m;
     m_resp := m_resp m; m_subids := m_subids m; m_uprops := m_uprops m |}.
Definition set_pfmt (v : N) (m : msg) : msg :=
  {| m_dup := m_dup m; m_qos := m_qos m; m_retained := m_retained m; m_topic := m_topic m; m_payload := m_payload m;
     m_pid := m_pid m; m_ctype := m_ctype m; m_corr := m_corr m; m_expiry := m_expiry m; m_pfmt := v;
     m_resp := m_resp m; m_subids := m_subids m; m_uprops := m_uprops m |}.
Definition set_resp (v : str) (m : msg) : msg :=
  {| m_dup := m_dup m; m_qos := m_qos m; m_retained := m_retained m; m_topic := m_topic m; m_payload := m_payload m;
     m_pid := m_pid m; m_ctype := m_ctype m; m_corr := m_corr m; m_expiry := m_expiry m; m_pfmt := m_pfmt m;
     m_resp := v; m_subids := m_subids m; m_uprops := m_uprops m |}.
Definition add_subid (v : N) (m : msg) : msg :=
  {| m_dup := m_dup m; m_qos := m_qos m; m_retained := m_retained m; m_topic := m_topic m; m_payload := m_payload m;
     m_pid := m_pid m; m_ctype := m_ctype m; m_corr := m_corr m; m_expiry := m_expiry m; m_pfmt := m_pfmt m;
     m_resp := m_resp m; m_subids := m_subids m ++ [v]; m_uprops := m_uprops m |}.
Definition add_uprop (k v : str) (m : msg) : msg :=
  {| m_dup := m_dup m; m_qos := m_qos m; m_retained := m_retained m; m_topic := m_topic m; m_payload := m_payload m;
     m_pid := m_pid m; m_ctype := m_ctype m; m_corr := m_corr m; m_expiry := m_expiry m; m_pfmt := m_pfmt m;
     m_resp := m_resp m; m_subids := m_subids m; m_uprops := m_uprops m ++ [(k, v)] |}.

(* for { pt, err := b.ReadByte(); if err == io.EOF { return msg, nil }; switch pt {...} }
   an identifier the switch does not list is skipped; every iteration consumes at least one byte *)
Fixpoint dec_props (fuel : nat) (b : list N) (m : msg) : res msg :=
  match fuel with
  | O => OutOfFuel
  | S k =>
      match b with
      | [] => Ok m
      | pt :: r =>
          if pt =? pk_PropContentType then do '(v, r') <- rd_string r; dec_props k r' (set_ctype v m)
          else if pt =? pk_PropCorrelationData then do '(v, r') <- rd_string r; dec_props k r' (set_corr v m)
          else if pt =? pk_PropMessageExpiry then do '(v, r') <- perr (read_uint32 r); dec_props k r' (set_expiry v m)
          else if pt =? pk_PropPayloadFormat then do '(v, r') <- perr (read_byte r); dec_props k r' (set_pfmt v m)
          else if pt =? pk_PropResponseTopic then do '(v, r') <- rd_string r; dec_props k r' (set_resp v m)
          else if pt =? pk_PropSubscriptionIdentifier then do '(v, r') <- perr (read_varint r); dec_props k r' (add_subid v m)
          else if pt =? pk_PropUser then
            do '(kk, r1) <- rd_string r; do '(v, r') <- rd_string r1; dec_props k r' (add_uprop kk v m)
          else dec_props k r m
      end
  end.

Definition dec_msg (b : list N) : res msg :=
  do '(dup, r) <- rd_bool b;
  do '(qos, r) <- perr (read_byte r);
  do '(ret, r) <- rd_bool r;
  do '(topic, r) <- rd_string r;
  do '(payload, r) <- rd_bytes r;
  do '(pid, r) <- perr (read_uint16 r);
  dec_props (S (length r)) r
    {| m_dup := dup; m_qos := qos; m_retained := ret; m_topic := topic; m_payload := payload; m_pid := pid;
       m_ctype := []; m_corr := []; m_expiry := 0; m_pfmt := 0; m_resp := []; m_subids := []; m_uprops := [] |}.

(* ---------------------------------------------------------------- Elem.Encode / Elem.Decode *)
Definition ZERO_TIME_U64 : N := 18446744011573954816.    (* uint64(time.Time{}.Unix()) = 2^64 - 62135596800 *)

(* binary.BigEndian.PutUint64 *)
Definition put64 (i : N) : list N :=
  [(i / 72057594037927936) mod 256; (i / 281474976710656) mod 256; (i / 1099511627776) mod 256; (i / 4294967296) mod 256;
   (i / 16777216) mod 256; (i / 65536) mod 256; (i / 256) mod 256; i mod 256].
Definition be64 (l : list N) : res N :=
  match l with
  | a :: b :: c :: d :: e :: f :: g :: h :: _ =>
      Ok (((((((a * 256 + b) * 256 + c) * 256 + d) * 256 + e) * 256 + f) * 256 + g) * 256 + h)
  | _ => Panic
  end.

Definition expiry_u64 (x : option N) : N := match x with None => ZERO_TIME_U64 | Some v => v mod 18446744073709551616 end.
Definition u64_expiry (v : N) : option N := if v =? ZERO_TIME_U64 then None else Some v.

(* rs := make([]byte, 19); PutUint64(rs[0:9], at); PutUint64(rs[9:18], expiry); rs[18] = kind *)
Definition enc_elem (e : elem) : list N :=
  put64 (e_at e mod 18446744073709551616) ++ [0] ++ put64 (expiry_u64 (e_expiry e)) ++ [0] ++
  match e_body e with
  | QPub m => [0] ++ enc_msg m
  | QRel p => [1] ++ put16 p
  end.

(* the ghost tag is not stored: a decoded element has tag 0 *)
Definition dec_elem (b : list N) : res elem :=
  if shorter b 19 then Err PERR
  else
    do at_ <- be64 (takeN 9 b);
    do ex <- be64 (takeN 10 (dropN 9 b));
    do kind <- idx b 18;
    let body := dropN 19 b in
    if kind =? 0 then
      do m <- dec_msg body; Ok {| e_tag := 0; e_at := at_; e_expiry := u64_expiry ex; e_body := QPub m |}
    else if kind =? 1 then
      do '(p, _) <- perr (read_uint16 body); Ok {| e_tag := 0; e_at := at_; e_expiry := u64_expiry ex; e_body := QRel p |}
    else Err PERR.

(* ---------------------------------------------------------------- EncodeSubscription / DecodeSubscription *)
Definition enc_sub (s : sub) : list N :=
  wr_string (s_share s) ++ wr_string (s_filter s) ++ put32 (s_id s) ++ [s_qos s] ++
  wr_bool (s_nl s) ++ wr_bool (s_rap s) ++ [s_rh s].

Definition dec_sub (b : list N) : res sub :=
  do '(share, r) <- rd_string b;
  do '(filter, r) <- rd_string r;
  do '(id, r) <- perr (read_uint32 r);
  do '(qos, r) <- perr (read_byte r);
  do '(nl, r) <- rd_bool r;
  do '(rap, r) <- rd_bool r;
  do '(rh, _) <- perr (read_byte r);
  Ok {| s_share := share; s_filter := filter; s_id := id; s_qos := qos; s_nl := nl; s_rap := rap; s_rh := rh |}.

(* ---------------------------------------------------------------- well-formed values (what the broker stores) *)
Definition wf_bytes (s : str) : bool := forallb (fun c => c <? 256) s.
Definition wf_str16 (s : str) : bool := wf_bytes s && (len s <? 65536).

Definition wf_pmsg (m : msg) : bool :=
  (m_qos m <? 256) && wf_str16 (m_topic m) && wf_bytes (m_payload m) && (len (m_payload m) <? 4294967296) &&
  (m_pid m <? 65536) && wf_str16 (m_ctype m) && wf_str16 (m_corr m) && (m_expiry m <? 4294967296) &&
  (m_pfmt m <? 256) && wf_str16 (m_resp m) && forallb (fun v => v <? 268435456) (m_subids m) &&
  forallb (fun kv => wf_str16 (fst kv) && wf_str16 (snd kv)) (m_uprops m).

Definition wf_pelem (e : elem) : bool :=
  (e_at e <? 9223372036854775808) &&
  match e_expiry e with None => true | Some x => x <? 9223372036854775808 end &&
  match e_body e with QPub m => wf_pmsg m | QRel p => p <? 65536 end.

Definition wf_psub (s : sub) : bool :=
  wf_str16 (s_share s) && wf_str16 (s_filter s) && (s_id s <? 4294967296) && (s_qos s <? 256) && (s_rh s <? 256).


(* ---------------------------------------------------------------- oracle of the round-trip statements
   (Props/C09e.v), evaluated by the correspondence check on what the IMPLEMENTATION did: `dec` is
   what the implementation decoded from the bytes it had encoded for the value *)
Definition elem_same (a b : elem) : bool :=
  N.eqb (e_at a) (e_at b) &&
  (match e_expiry a, e_expiry b with Some x, Some y => N.eqb x y | None, None => true | _, _ => false end) &&
  (match e_body a, e_body b with QPub m, QPub m' => msg_eqb m m' | QRel p, QRel p' => N.eqb p p' | _, _ => false end).

Definition penc_elem_ok (e : elem) (dec : option elem) : bool :=
  if wf_pelem e then match dec with Some d => elem_same e d | None => false end else true.

Definition sub_same (a b : sub) : bool :=
  str_eqb (s_share a) (s_share b) && str_eqb (s_filter a) (s_filter b) && N.eqb (s_id a) (s_id b) &&
  N.eqb (s_qos a) (s_qos b) && Bool.eqb (s_nl a) (s_nl b) && Bool.eqb (s_rap a) (s_rap b) && N.eqb (s_rh a) (s_rh b).

Definition penc_sub_ok (s : sub) (dec : option sub) : bool :=
  if wf_psub s then match dec with Some d => sub_same s d | None => false end else true.
