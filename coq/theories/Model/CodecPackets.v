(* pkg/packets: Reader.ReadPacket, NewPacket, every packet type's New*Packet / Unpack / Pack,
   FixHeader.Pack, TotalBytes; message.go: MessageToPublish.  Executable definitions only. *)
From Coq Require Import List NArith Bool.
Import ListNotations.
From GM Require Import Base.Topic Base.Msg Model.CodecBase Model.CodecProps.
Open Scope N_scope.

Record fixhdr := { fh_type : N; fh_flags : N; fh_rl : N }.

Record connect := {
  c_version : N; c_level : N; c_uflag : bool; c_pname : str; c_pflag : bool; c_wretain : bool;
  c_wqos : N; c_wflag : bool; c_wtopic : str; c_wmsg : str; c_clean : bool; c_keepalive : N;
  c_cid : str; c_user : str; c_pass : str; c_props : option props; c_wprops : option props }.

(* packets.Topic *)
Record subtopic := { st_name : str; st_qos : N; st_rh : N; st_nl : bool; st_rap : bool }.

Inductive body :=
| BConnect (c : connect)
| BConnack (ver code : N) (sp : bool) (pr : option props)
| BPublish (ver : N) (dup : bool) (qos : N) (retain : bool) (topic : str) (pid : N) (payload : str) (pr : option props)
| BAck (t : N) (ver pid code : N) (pr : option props)       (* Puback (t=4), Pubrec (5), Pubcomp (7) *)
| BPubrel (pid code : N) (pr : option props)
| BSubscribe (ver pid : N) (topics : list subtopic) (pr : option props)
| BSuback (ver pid : N) (payload : list N) (pr : option props)
| BUnsubscribe (ver pid : N) (topics : list str) (pr : option props)
| BUnsuback (ver pid : N) (payload : list N) (pr : option props)
| BPingreq
| BPingresp
| BDisconnect (ver code : N) (pr : option props)
| BAuth (code : N) (pr : option props).

(* a packet struct: the FixHeader pointer (nil until decoded or packed) and the other fields *)
Record packet := { p_fh : option fixhdr; p_body : body }.

Definition is_v3x (v : N) : bool := (v =? 4) || (v =? 3).
Definition is_v5 (v : N) : bool := v =? 5.

Definition bit (x k : N) : bool := N.testbit x k.                 (* (1 & (x >> k)) > 0 *)

(* version2protoName *)
Definition MQTT_NAME : str := [77; 81; 84; 84].
Definition MQISDP_NAME : str := [77; 81; 73; 115; 100; 112].
Definition proto_name (level : N) : option str :=
  if level =? 3 then Some MQISDP_NAME else if (level =? 4) || (level =? 5) then Some MQTT_NAME else None.

(* ---------------------------------------------------------------- Unpack *)

(* Connect.Unpack after io.ReadFull, and unpackPayload *)
Definition parse_connect (b : list N) : res body :=
  do '(pname, b) <- read_utf8_string false b;
  do '(level, b) <- remap MALFORMED (read_byte b);
  let version := level in
  match proto_name level with
  | None => Err (ECode 1)                                        (* V3UnacceptableProtocolVersion *)
  | Some name =>
      if negb (str_eqb pname name) then Err (ECode 132)          (* UnsupportedProtocolVersion *)
      else
        do '(flags, b) <- remap MALFORMED (read_byte b);
        if negb (N.land 1 flags =? 0) then Err MALFORMED
        else
          let clean := bit flags 1 in
          let wflag := bit flags 2 in
          let wqos := N.land 3 (N.shiftr flags 3) in
          if negb wflag && negb (wqos =? 0) then Err MALFORMED
          else if 2 <? wqos then Err MALFORMED                          (* [MQTT-3.1.2-14] *)
          else
            let wretain := bit flags 5 in
            if negb wflag && wretain then Err MALFORMED
            else
              let pflag := bit flags 6 in
              let uflag := bit flags 7 in
              if is_v3x version && pflag && negb uflag then Err MALFORMED    (* (3.1.1) [MQTT-3.1.2-22] *)
              else
              do '(keepalive, b) <- remap MALFORMED (read_uint16 b);
              do '(pr, wpr, b) <-
                (if version =? 5 then
                   do '(p, b') <- props_unpack CONNECT b; Ok (Some p, Some props_empty, b')
                 else Ok (None, None, b));
              (* unpackPayload *)
              do '(cid, b) <- read_utf8_string true b;
              if is_v3x version && (len cid =? 0) && negb clean then Err (ECode 2)   (* V3IdentifierRejected *)
              else
                do '(wpr, wtopic, wmsg, b) <-
                  (if wflag then
                     do '(wpr', b1) <-
                       (if version =? 5 then do '(p, b') <- will_props_unpack b; Ok (Some p, b')
                        else Ok (wpr, b));
                     do '(wt, b2) <- read_utf8_string true b1;
                     do '(wm, b3) <- read_utf8_string false b2;
                     Ok (wpr', wt, wm, b3)
                   else Ok (wpr, [], [], b));
                do '(user, b) <- (if uflag then read_utf8_string true b else Ok ([], b));
                do '(pass, b) <- (if pflag then read_utf8_string false b else Ok ([], b));
                if negb (is_empty b) then Err MALFORMED              (* bytes left over *)
                else
                Ok (BConnect {| c_version := version; c_level := level; c_uflag := uflag; c_pname := pname;
                                c_pflag := pflag; c_wretain := wretain; c_wqos := wqos; c_wflag := wflag;
                                c_wtopic := wtopic; c_wmsg := wmsg; c_clean := clean; c_keepalive := keepalive;
                                c_cid := cid; c_user := user; c_pass := pass; c_props := pr; c_wprops := wpr |})
  end.

(* Connack.Unpack *)
Definition parse_connack (ver : N) (b : list N) : res body :=
  let '(sp, b) := match b with [] => (0, []) | x :: r => (x, r) end in    (* sp, err := bufr.ReadByte(): err ignored *)
  if 0 <? N.land 127 (N.shiftr sp 1) then Err MALFORMED
  else
    do '(code, b) <- remap MALFORMED (read_byte b);
    do '(pr, b) <- (if ver =? 5 then do '(p, b') <- props_unpack CONNACK b; Ok (Some p, b') else Ok (None, b));
    if negb (is_empty b) then Err MALFORMED                               (* bytes left over *)
    else Ok (BConnack ver code (sp =? 1) pr).

(* NewPublishPacket + Publish.Unpack *)
Definition publish_flags (flags : N) : res (bool * N * bool) :=
  let dup := bit flags 3 in
  let qos := N.land (N.shiftr flags 1) 3 in
  if (qos =? 0) && dup then Err MALFORMED
  else if 2 <? qos then Err MALFORMED
  else Ok (dup, qos, N.land flags 1 =? 1).

Definition parse_publish (ver : N) (dup : bool) (qos : N) (retain : bool) (b : list N) : res body :=
  do '(topic, b) <- read_utf8_string true b;
  do ok <- (if len topic =? 0 then Ok true else valid_topic_name_impl true topic);
  if negb ok then Err MALFORMED
  else
    do '(pid, b) <- (if 0 <? qos then
                       do '(i, b') <- read_uint16 b; if i =? 0 then Err PROTOCOL else Ok (i, b')   (* [MQTT-2.2.1-3] *)
                     else Ok (0, b));
    do '(pr, b) <- (if ver =? 5 then do '(p, b') <- props_unpack PUBLISH b; Ok (Some p, b') else Ok (None, b));
    (* len(p.TopicName) == 0 && (p.Version != Version5 || p.Properties.TopicAlias == nil) *)
    if (len topic =? 0)
       && (negb (ver =? 5) || match pr with Some p => negb (is_some (ps_get 35 (pr_single p))) | None => true end)
    then Err PROTOCOL
    else Ok (BPublish ver dup qos retain topic pid b pr).

(* Puback / Pubrec / Pubcomp .Unpack *)
Definition parse_ack (t ver rl : N) (b : list N) : res body :=
  do '(pid, b) <- read_uint16 b;
  if rl =? 2 then Ok (BAck t ver pid 0 None)
  else
    do '(code, pr, b) <-
      (if ver =? 5 then
         do '(code, b) <- remap MALFORMED (read_byte b);
         do '(p, b) <- props_unpack t b;
         Ok (code, Some p, b)
       else Ok (0, None, b));
    if negb (is_empty b) then Err MALFORMED                               (* bytes left over *)
    else Ok (BAck t ver pid code pr).

(* Pubrel.Unpack: no version *)
Definition parse_pubrel (rl : N) (b : list N) : res body :=
  do '(pid, b) <- read_uint16 b;
  if rl =? 2 then Ok (BPubrel pid 0 None)
  else
    do '(code, b) <- read_byte b;
    do '(p, b) <- props_unpack PUBREL b;
    if negb (is_empty b) then Err MALFORMED
    else Ok (BPubrel pid code (Some p)).

(* Subscribe.Unpack: the topic loop *)
Fixpoint sub_topics_loop (fuel : nat) (ver : N) (acc : list subtopic) (b : list N) : res (list subtopic) :=
  match fuel with
  | O => OutOfFuel
  | S k =>
      do '(tf, b) <- read_utf8_string true b;
      do ok <- (if ver =? 5 then valid_v5_topic_impl tf else valid_topic_filter_impl true tf);
      if negb ok then Err MALFORMED
      else
        do '(opts, b) <- remap MALFORMED (read_byte b);
        let t :=
          if ver =? 5 then
            {| st_name := tf; st_qos := N.land opts 3; st_rh := N.land 3 (N.shiftr opts 4);
               st_nl := bit opts 2; st_rap := bit opts 3 |}
          else {| st_name := tf; st_qos := opts; st_rh := 0; st_nl := false; st_rap := false |} in
        if (ver =? 5) && (2 <? st_rh t) then Err PROTOCOL                   (* Retain Handling 3 *)
        else if negb (ver =? 5) && (2 <? st_qos t) then Err PROTOCOL
        else if negb (N.land 3 (N.shiftr opts 6) =? 0) then Err PROTOCOL
        else if 2 <? st_qos t then Err PROTOCOL
        else if st_nl t && has_prefix SHARE_PREFIX tf then Err PROTOCOL     (* [MQTT-3.8.3-4] *)
        else
          let acc' := acc ++ [t] in
          match b with [] => Ok acc' | _ => sub_topics_loop k ver acc' b end
  end.

Definition parse_subscribe (ver : N) (b : list N) : res body :=
  do '(pid, b) <- read_uint16 b;
  if pid =? 0 then Err PROTOCOL else
  do '(pr, b) <- (if ver =? 5 then do '(p, b') <- props_unpack SUBSCRIBE b; Ok (Some p, b') else Ok (None, b));
  do ts <- sub_topics_loop (S (length b)) ver [] b;
  Ok (BSubscribe ver pid ts pr).

(* the reason-code loops of Suback / Unsuback: at least one byte, then all of them *)
Definition parse_codes (b : list N) : res (list N) :=
  match b with [] => Err MALFORMED | _ => Ok b end.

Definition parse_suback (ver : N) (b : list N) : res body :=
  do '(pid, b) <- remap MALFORMED (read_uint16 b);
  do '(pr, b) <- (if ver =? 5 then do '(p, b') <- props_unpack SUBACK b; Ok (Some p, b') else Ok (None, b));
  do cs <- parse_codes b;
  Ok (BSuback ver pid cs pr).

Fixpoint unsub_topics_loop (fuel : nat) (ver : N) (acc : list str) (b : list N) : res (list str) :=
  match fuel with
  | O => OutOfFuel
  | S k =>
      do '(tf, b) <- read_utf8_string true b;
      do ok <- (if ver =? 5 then valid_v5_topic_impl tf else valid_topic_filter_impl true tf);
      if negb ok then Err PROTOCOL
      else
        let acc' := acc ++ [tf] in
        match b with [] => Ok acc' | _ => unsub_topics_loop k ver acc' b end
  end.

Definition parse_unsubscribe (ver : N) (b : list N) : res body :=
  do '(pid, b) <- read_uint16 b;
  if pid =? 0 then Err PROTOCOL else
  do '(pr, b) <- (if ver =? 5 then do '(p, b') <- props_unpack UNSUBSCRIBE b; Ok (Some p, b') else Ok (None, b));
  do ts <- unsub_topics_loop (S (length b)) ver [] b;
  Ok (BUnsubscribe ver pid ts pr).

Definition parse_unsuback (ver : N) (b : list N) : res body :=
  do '(pid, b) <- read_uint16 b;
  if is_v3x ver then (if negb (is_empty b) then Err MALFORMED else Ok (BUnsuback ver pid [] None))
  else
    do '(p, b) <- props_unpack UNSUBACK b;
    do cs <- parse_codes b;
    Ok (BUnsuback ver pid cs (Some p)).

Definition parse_disconnect (ver rl : N) (b : list N) : res body :=
  if ver =? 5 then
    if rl =? 0 then Ok (BDisconnect ver 0 (Some props_empty))
    else
      do '(code, b) <- remap MALFORMED (read_byte b);
      do '(p, b) <- props_unpack DISCONNECT b;
      if negb (is_empty b) then Err MALFORMED
      else Ok (BDisconnect ver code (Some p))
  else if negb (rl =? 0) then Err MALFORMED                                (* a v3 DISCONNECT is empty *)
  else Ok (BDisconnect ver 0 None).

Definition parse_auth (b : list N) : res body :=
  do '(code, b) <- remap MALFORMED (read_byte b);
  do '(p, b) <- props_unpack AUTH b;
  if negb (is_empty b) then Err MALFORMED
  else Ok (BAuth code (Some p)).

(* ---- NewPacket dispatch, split at the point where Unpack allocates and reads the body ---- *)

(* what New*Packet checks before calling Unpack; for PUBLISH also the decoded flags *)
Inductive pre :=
| PreBody                       (* Unpack does make([]byte, RemainLength) + io.ReadFull *)
| PreNoBody (b : body).         (* Unpack returns without reading (PINGREQ, PINGRESP, AUTH with length 0) *)

Definition precheck (fh : fixhdr) : res pre :=
  let t := fh_type fh in
  let flags := fh_flags fh in
  let need0 := if flags =? 0 then Ok PreBody else Err MALFORMED in
  if t =? CONNECT then need0
  else if t =? CONNACK then need0
  else if t =? PUBLISH then do _ <- publish_flags flags; Ok PreBody
  else if (t =? PUBACK) || (t =? PUBREC) || (t =? PUBCOMP) then need0
  else if t =? PUBREL then if flags =? 2 then Ok PreBody else Err MALFORMED
  else if (t =? SUBSCRIBE) || (t =? UNSUBSCRIBE) then if flags =? 2 then Ok PreBody else Err MALFORMED
  else if (t =? SUBACK) || (t =? UNSUBACK) || (t =? DISCONNECT) then need0
  else if t =? PINGREQ then
    if flags =? 0 then (if fh_rl fh =? 0 then Ok (PreNoBody BPingreq) else Err MALFORMED) else Err MALFORMED
  else if t =? PINGRESP then
    if flags =? 0 then (if fh_rl fh =? 0 then Ok (PreNoBody BPingresp) else Err MALFORMED) else Err MALFORMED
  else if t =? AUTH then
    if flags =? 0 then (if fh_rl fh =? 0 then Ok (PreNoBody (BAuth 0 None)) else Ok PreBody) else Err MALFORMED
  else Err PROTOCOL.                                              (* default: RESERVED *)

(* the error Unpack returns when io.ReadFull fails; avail = bytes that could be read *)
Definition readfull_err (t : N) (avail : N) : err :=
  if t =? CONNECT then (if avail =? 0 then EEOF else EUnexpectedEOF) else MALFORMED.

Definition parse_body (v : N) (fh : fixhdr) (b : list N) : res body :=
  let t := fh_type fh in
  if t =? CONNECT then parse_connect b
  else if t =? CONNACK then parse_connack v b
  else if t =? PUBLISH then
    do '(dup, qos, retain) <- publish_flags (fh_flags fh); parse_publish v dup qos retain b
  else if (t =? PUBACK) || (t =? PUBREC) || (t =? PUBCOMP) then parse_ack t v (fh_rl fh) b
  else if t =? PUBREL then parse_pubrel (fh_rl fh) b
  else if t =? SUBSCRIBE then parse_subscribe v b
  else if t =? SUBACK then parse_suback v b
  else if t =? UNSUBSCRIBE then parse_unsubscribe v b
  else if t =? UNSUBACK then parse_unsuback v b
  else if t =? DISCONNECT then parse_disconnect v (fh_rl fh) b
  else if t =? AUTH then parse_auth b
  else Err PROTOCOL.

(* Reader.ReadPacket on the byte stream `bs` (then end of input).  Returns the result and
   the number of bytes readRemaining asks for before it knows they have arrived (the whole
   Remaining Length up to 4096, beyond that only what the input really holds). *)
Definition read_packet_full (v : N) (bs : list N) : res (packet * list N) * N :=
  match bs with
  | [] => (Err EEOF, 0)
  | first :: r =>
      match read_varint r with
      | Ok (rl, r1) =>
          let fh := {| fh_type := N.shiftr first 4; fh_flags := N.land first 15; fh_rl := rl |} in
          match precheck fh with
          | Ok PreBody =>
              (* restBuffer, err := readRemaining(r, RemainLength) *)
              let alloc := if rl <=? 4096 then rl else N.min rl (len r1) in
              if shorter r1 rl then (Err (readfull_err (fh_type fh) (len r1)), alloc)
              else
                let '(bodyb, rest) := buf_next rl r1 in
                (do b <- parse_body v fh bodyb; Ok ({| p_fh := Some fh; p_body := b |}, rest), alloc)
          | Ok (PreNoBody b) => (Ok ({| p_fh := Some fh; p_body := b |}, r1), 0)
          | Err e => (Err e, 0)
          | Panic => (Panic, 0)
          | OutOfFuel => (OutOfFuel, 0)
          end
      | Err e => (Err e, 0)
      | Panic => (Panic, 0)
      | OutOfFuel => (OutOfFuel, 0)
      end
  end.

Definition read_packet (v : N) (bs : list N) : res (packet * list N) := fst (read_packet_full v bs).
Definition read_alloc (v : N) (bs : list N) : N := snd (read_packet_full v bs).

(* ReadPacket: after a Connect packet r.version = p.Version *)
Definition next_version (v : N) (b : body) : N :=
  match b with BConnect c => c_version c | _ => v end.

(* ---------------------------------------------------------------- Pack *)

Definition b2n (b : bool) (n : N) : N := if b then n else 0.

(* the variable header + payload each Pack builds in bufw, and the header flags *)
Definition pack_body (b : body) : res (N * N * list N) :=      (* (type, flags, bytes) *)
  match b with
  | BConnect c =>
      let wq := if c_wqos c =? 1 then 8 else if c_wqos c =? 2 then 16 else 0 in
      let cf := N.lor (b2n (c_uflag c) 128) (N.lor (b2n (c_pflag c) 64) (N.lor (b2n (c_wretain c) 32)
                 (N.lor (b2n (c_wflag c) 4) (N.lor wq (N.lor (b2n (c_clean c) 2) 0))))) in
      let head := put_bin (c_pname c) ++ [c_level c] ++ [cf mod 256] ++ put16 (c_keepalive c)
                  ++ (if c_version c =? 5 then props_pack (c_props c) else []) in
      do cid <- encode_utf8_string (c_cid c);
      do will <-
        (if c_wflag c then
           do wt <- encode_utf8_string (c_wtopic c);
           do wm <- encode_utf8_string (c_wmsg c);
           Ok ((if c_version c =? 5 then will_props_pack (c_wprops c) else []) ++ wt ++ wm)
         else Ok []);
      do user <- (if c_uflag c then encode_utf8_string (c_user c) else Ok []);
      do pass <- (if c_pflag c then encode_utf8_string (c_pass c) else Ok []);
      Ok (CONNECT, 0, head ++ cid ++ will ++ user ++ pass)
  | BConnack ver code sp pr =>
      Ok (CONNACK, 0, [b2n sp 1; code] ++ (if ver =? 5 then props_pack pr else []))
  | BPublish ver dup qos retain topic pid payload pr =>
      Ok (PUBLISH, N.lor (N.lor (b2n dup 8) (b2n retain 1)) ((qos * 2) mod 256),
          put_bin topic ++ (if (qos =? 1) || (qos =? 2) then put16 pid else [])
          ++ (if ver =? 5 then props_pack pr else []) ++ payload)
  | BAck t ver pid code pr =>
      Ok (t, 0, put16 pid ++ (if (ver =? 5) && (negb (code =? 0) || is_some pr) then code :: props_pack pr else []))
  | BPubrel pid code pr =>
      Ok (PUBREL, 2, put16 pid ++ (if negb (code =? 0) || is_some pr then code :: props_pack pr else []))
  | BSubscribe ver pid topics pr =>
      Ok (SUBSCRIBE, 2,
          put16 pid ++
          (if ver =? 5 then
             props_pack pr ++
             flat_map (fun t => put_bin (st_name t) ++
                                [N.lor (N.lor (N.lor (st_qos t) (b2n (st_nl t) 4)) (b2n (st_rap t) 8))
                                       ((st_rh t * 16) mod 256)]) topics
           else flat_map (fun t => put_bin (st_name t) ++ [st_qos t]) topics))
  | BSuback ver pid payload pr =>
      Ok (SUBACK, 0, put16 pid ++ (if ver =? 5 then props_pack pr else []) ++ payload)
  | BUnsubscribe ver pid topics pr =>
      Ok (UNSUBSCRIBE, 2, put16 pid ++ (if ver =? 5 then props_pack pr else []) ++ flat_map put_bin topics)
  | BUnsuback ver pid payload pr =>
      Ok (UNSUBACK, 0, put16 pid ++ (if ver =? 5 then props_pack pr else []) ++ payload)
  | BPingreq => Ok (PINGREQ, 0, [])
  | BPingresp => Ok (PINGRESP, 0, [])
  | BDisconnect ver code pr =>
      if is_v3x ver then Ok (DISCONNECT, 0, [])
      else Ok (DISCONNECT, 0, if negb (code =? 0) || is_some pr then code :: props_pack pr else [])
  | BAuth code pr =>
      Ok (AUTH, 0, if negb (code =? 0) || is_some pr then code :: props_pack pr else [])
  end.

(* FixHeader.Pack: b[0] = PacketType<<4 | Flags (bytes), then DecodeRemainLength *)
Definition pack_fixhdr (fh : fixhdr) : res (list N) :=
  do l <- encode_varint (fh_rl fh);
  Ok (N.lor ((fh_type fh * 16) mod 256) (fh_flags fh) :: l).

(* Pack: returns the bytes written and the FixHeader the packet holds afterwards *)
Definition pack_full (b : body) : res (list N * fixhdr) :=
  do '(t, flags, bytes) <- pack_body b;
  let fh := {| fh_type := t; fh_flags := flags; fh_rl := len bytes |} in
  do h <- pack_fixhdr fh;
  Ok (h ++ bytes, fh).
Definition pack (b : body) : res (list N) := do '(bs, _) <- pack_full b; Ok bs.

(* packets.TotalBytes *)
Definition total_bytes (p : packet) : N :=
  match p_fh p with
  | None => 0
  | Some h =>
      let rl := fh_rl h in
      let hl := if rl <=? 127 then 2 else if rl <=? 16383 then 3 else if rl <=? 2097151 then 4
                else if rl <=? 268435455 then 5 else 0 in
      (hl + rl) mod 4294967296
  end.

(* gmqtt.MessageToPublish(msg, version) *)
Definition opt_nonempty (s : str) : option pval := match s with [] => None | _ => Some (PVStr s) end.
Definition message_to_publish (m : msg) (version : N) : body :=
  let pr :=
    if version =? 5 then
      let add (id : N) (o : option pval) (l : list (N * pval)) := match o with Some v => ps_set id v l | None => l end in
      Some {| pr_single :=
                add 1 (if m_pfmt m =? 1 then Some (PVByte (m_pfmt m)) else None)
                (add 2 (if m_expiry m =? 0 then None else Some (PVU32 (m_expiry m)))
                (add 3 (opt_nonempty (m_ctype m))
                (add 8 (opt_nonempty (m_resp m))
                (add 9 (opt_nonempty (m_corr m)) []))));      (* a nil/empty CorrelationData slice *)
              pr_subid := m_subids m; pr_user := m_uprops m |}
    else None in
  BPublish version (m_dup m) (m_qos m) (m_retained m) (m_topic m) (m_pid m) (m_payload m) pr.

(* gmqtt.MessageFromPublish(p): the message the broker works with.  The packet id of the publisher and any
   subscription identifier are NOT carried over (the subscriber's connection allocates its own id, identifiers are
   those of the subscriber's subscriptions); for a version 5 packet p.Properties is dereferenced (None = nil: panic,
   here `None`; the decoder never produces it). *)
Definition pv_str (o : option pval) : str := match o with Some (PVStr s) => s | _ => [] end.
Definition pv_num (o : option pval) : N := match o with Some (PVByte v) | Some (PVU16 v) | Some (PVU32 v) => v | _ => 0 end.
Definition message_from_publish (b : body) : option msg :=
  match b with
  | BPublish ver dup qos retain topic pid payload pr =>
      let base := {| m_dup := dup; m_qos := qos; m_retained := retain; m_topic := topic; m_payload := payload; m_pid := 0;
                     m_ctype := []; m_corr := []; m_expiry := 0; m_pfmt := 0; m_resp := []; m_subids := []; m_uprops := [] |} in
      if ver =? 5 then
        match pr with
        | None => None
        | Some p =>
            Some {| m_dup := dup; m_qos := qos; m_retained := retain; m_topic := topic; m_payload := payload; m_pid := 0;
                    m_ctype := pv_str (ps_get 3 (pr_single p)); m_corr := pv_str (ps_get 9 (pr_single p));
                    m_expiry := pv_num (ps_get 2 (pr_single p)); m_pfmt := pv_num (ps_get 1 (pr_single p));
                    m_resp := pv_str (ps_get 8 (pr_single p)); m_subids := []; m_uprops := pr_user p |}
        end
      else Some base
  | _ => None
  end.

(* what survives MessageToPublish followed by MessageFromPublish *)
Definition msg_core (v5 : bool) (m : msg) : msg :=
  if v5 then
    {| m_dup := m_dup m; m_qos := m_qos m; m_retained := m_retained m; m_topic := m_topic m; m_payload := m_payload m; m_pid := 0;
       m_ctype := m_ctype m; m_corr := m_corr m; m_expiry := m_expiry m; m_pfmt := (if m_pfmt m =? 1 then 1 else 0);
       m_resp := m_resp m; m_subids := []; m_uprops := m_uprops m |}
  else
    {| m_dup := m_dup m; m_qos := m_qos m; m_retained := m_retained m; m_topic := m_topic m; m_payload := m_payload m; m_pid := 0;
       m_ctype := []; m_corr := []; m_expiry := 0; m_pfmt := 0; m_resp := []; m_subids := []; m_uprops := [] |}.
