(* pkg/packets/properties.go: Properties.Unpack / UnpackWillProperties / Pack /
   PackWillProperties, ValidProperties, ValidateID.  Executable definitions only.

   The Go struct `Properties` has one pointer (or byte slice) field per single-valued
   property (nil = absent) and two slices (SubscriptionIdentifier, User).  It is modelled
   as the finite map  property id -> value  of the non-nil fields, kept as an association
   list sorted by id (the order in which Pack writes the fields is the ascending id order),
   plus the two lists.  `ps_get id = None` is `field == nil`. *)
From Coq Require Import List NArith Bool.
Import ListNotations.
From GM Require Import Base.Topic Base.Msg Model.CodecBase.
Open Scope N_scope.

Inductive pval :=
| PVByte (v : N)          (* *byte *)
| PVU16 (v : N)           (* *uint16 *)
| PVU32 (v : N)           (* *uint32 *)
| PVStr (s : str).        (* []byte, non-nil (possibly empty) *)

Record props := { pr_single : list (N * pval); pr_subid : list N; pr_user : list (str * str) }.
Definition props_empty : props := {| pr_single := []; pr_subid := []; pr_user := [] |}.

Fixpoint ps_get (id : N) (l : list (N * pval)) : option pval :=
  match l with
  | [] => None
  | (k, v) :: r => if k =? id then Some v else ps_get id r
  end.
Fixpoint ps_set (id : N) (v : pval) (l : list (N * pval)) : list (N * pval) :=
  match l with
  | [] => [(id, v)]
  | (k, w) :: r => if id <? k then (id, v) :: l else if id =? k then (id, v) :: r else (k, w) :: ps_set id v r
  end.
Definition is_some {A} (o : option A) : bool := match o with Some _ => true | None => false end.
Definition set_single (id : N) (v : pval) (p : props) : props :=
  {| pr_single := ps_set id v (pr_single p); pr_subid := pr_subid p; pr_user := pr_user p |}.

(* packet types *)
Definition CONNECT : N := 1.   Definition CONNACK : N := 2.   Definition PUBLISH : N := 3.
Definition PUBACK : N := 4.    Definition PUBREC : N := 5.    Definition PUBREL : N := 6.
Definition PUBCOMP : N := 7.   Definition SUBSCRIBE : N := 8. Definition SUBACK : N := 9.
Definition UNSUBSCRIBE : N := 10. Definition UNSUBACK : N := 11. Definition PINGREQ : N := 12.
Definition PINGRESP : N := 13. Definition DISCONNECT : N := 14. Definition AUTH : N := 15.

(* var ValidProperties: property id -> packet types in which the server accepts it *)
Definition valid_properties : list (N * list N) :=
  [ (1,  [PUBLISH]);                           (* PropPayloadFormat *)
    (2,  [PUBLISH]);                           (* PropMessageExpiry *)
    (3,  [PUBLISH]);                           (* PropContentType *)
    (8,  [PUBLISH]);                           (* PropResponseTopic *)
    (9,  [PUBLISH]);                           (* PropCorrelationData *)
    (11, [SUBSCRIBE]);                         (* PropSubscriptionIdentifier *)
    (17, [CONNECT; CONNACK; DISCONNECT]);      (* PropSessionExpiryInterval *)
    (18, [CONNACK]);                           (* PropAssignedClientID *)
    (19, [CONNACK]);                           (* PropServerKeepAlive *)
    (21, [CONNECT; CONNACK; AUTH]);            (* PropAuthMethod *)
    (22, [CONNECT; CONNACK; AUTH]);            (* PropAuthData *)
    (23, [CONNECT]);                           (* PropRequestProblemInfo *)
    (24, []);                                  (* PropWillDelayInterval: will properties only *)
    (25, [CONNECT]);                           (* PropRequestResponseInfo *)
    (26, [CONNACK]);                           (* PropResponseInfo *)
    (28, [CONNACK; DISCONNECT]);               (* PropServerReference *)
    (31, [CONNACK; PUBACK; PUBREC; PUBREL; PUBCOMP; SUBACK; UNSUBACK; DISCONNECT; AUTH]); (* PropReasonString *)
    (33, [CONNECT; CONNACK]);                  (* PropReceiveMaximum *)
    (34, [CONNECT; CONNACK]);                  (* PropTopicAliasMaximum *)
    (35, [PUBLISH]);                           (* PropTopicAlias *)
    (36, [CONNACK]);                           (* PropMaximumQoS *)
    (37, [CONNACK]);                           (* PropRetainAvailable *)
    (38, [CONNECT; CONNACK; PUBLISH; PUBACK; PUBREC; PUBREL; PUBCOMP; SUBSCRIBE; UNSUBSCRIBE;
          SUBACK; UNSUBACK; DISCONNECT; AUTH]); (* PropUser *)
    (39, [CONNECT; CONNACK]);                  (* PropMaximumPacketSize *)
    (40, [CONNACK]);                           (* PropWildcardSubAvailable *)
    (41, [CONNACK]);                           (* PropSubIDAvailable *)
    (42, [CONNACK]) ].                         (* PropSharedSubAvailable *)

Fixpoint assoc_n {A} (k : N) (l : list (N * A)) : option A :=
  match l with [] => None | (k', v) :: r => if k' =? k then Some v else assoc_n k r end.

(* ValidateID(packetType, i): `_, ok := ValidProperties[i][packetType]` *)
Definition validate_id (ptype id : N) : bool :=
  match assoc_n id valid_properties with
  | Some l => existsb (N.eqb ptype) l
  | None => false
  end.

(* which propertyRead* helper the switch uses for a single-valued property *)
Inductive pkind := KBool | KU16 | KU32 | KStr | KBin.
Definition prop_kind (id : N) : option pkind :=
  if (id =? 1) || (id =? 23) || (id =? 25) || (id =? 36) || (id =? 37) || (id =? 40) || (id =? 41) || (id =? 42) then Some KBool
  else if (id =? 19) || (id =? 33) || (id =? 34) || (id =? 35) then Some KU16
  else if (id =? 2) || (id =? 17) || (id =? 24) || (id =? 39) then Some KU32
  else if (id =? 3) || (id =? 8) || (id =? 18) || (id =? 21) || (id =? 26) || (id =? 28) || (id =? 31) then Some KStr
  else if (id =? 9) || (id =? 22) then Some KBin                   (* CorrelationData, AuthData: propertyReadBinary *)
  else None.

Definition TOPIC_ALIAS_INVALID : err := ECode 148.

(* one `case PropX: p.X, err = propertyReadK(p.X, newBufr, propType, validate)` *)
Definition read_single (id : N) (k : pkind) (p : props) (b : list N) : res (props * list N) :=
  let dup := is_some (ps_get id (pr_single p)) in
  match k with
  | KBool =>
      if dup then Err PROTOCOL
      else match b with
           | [] => Err MALFORMED
           | o :: r => if negb (o =? 0) && negb (o =? 1) then Err PROTOCOL
                       else Ok (set_single id (PVByte o) p, r)
           end
  | KU16 =>
      if dup then Err PROTOCOL
      else do '(o, r) <- remap MALFORMED (read_uint16 b);
           if (id =? 33) && (o =? 0) then Err PROTOCOL              (* ReceiveMaximum: u != 0 *)
           else if (id =? 35) && (o =? 0) then Err TOPIC_ALIAS_INVALID
           else Ok (set_single id (PVU16 o) p, r)
  | KU32 =>
      if dup then Err (EDup id)
      else do '(o, r) <- remap MALFORMED (read_uint32 b);
           if (id =? 39) && (o =? 0) then Err PROTOCOL              (* MaximumPacketSize: u != 0 *)
           else Ok (set_single id (PVU32 o) p, r)
  | KStr =>
      if dup then Err (EDup id)
      else do '(o, r) <- read_utf8_string true b;
           if id =? 8 then                                          (* ResponseTopic: ValidTopicName(true, u) *)
             do ok <- valid_topic_name_impl true o;
             if ok then Ok (set_single id (PVStr o) p, r) else Err PROTOCOL
           else Ok (set_single id (PVStr o) p, r)
  | KBin =>
      if dup then Err (EDup id)
      else do '(o, r) <- remap MALFORMED (read_utf8_string false b);
           Ok (set_single id (PVStr o) p, r)
  end.

(* case PropUser *)
Definition read_user (p : props) (b : list N) : res (props * list N) :=
  do '(k, r) <- remap MALFORMED (read_utf8_string true b);
  do '(v, r') <- remap MALFORMED (read_utf8_string true r);
  Ok ({| pr_single := pr_single p; pr_subid := pr_subid p; pr_user := pr_user p ++ [(k, v)] |}, r').

(* case PropSubscriptionIdentifier *)
Definition read_subid (p : props) (b : list N) : res (props * list N) :=
  match pr_subid p with
  | _ :: _ => Err PROTOCOL
  | [] =>
      do '(si, r) <- remap MALFORMED (read_varint b);
      if si =? 0 then Err PROTOCOL
      else Ok ({| pr_single := pr_single p; pr_subid := pr_subid p ++ [si]; pr_user := pr_user p |}, r)
  end.

(* the `for` loop of Properties.Unpack over newBufr *)
Fixpoint props_loop (fuel : nat) (ptype : N) (p : props) (b : list N) : res props :=
  match fuel with
  | O => OutOfFuel
  | S k =>
      match b with
      | [] => Ok p                                           (* ReadByte: io.EOF -> break *)
      | id :: r =>
          if negb (validate_id ptype id) then Err PROTOCOL
          else
            do '(p', r') <-
              (if id =? 11 then read_subid p r
               else if id =? 38 then read_user p r
               else match prop_kind id with
                    | Some kd => read_single id kd p r
                    | None => Err MALFORMED                  (* default: *)
                    end);
            props_loop k ptype p' r'
      end
  end.

(* Properties.Unpack(bufr, packetType) on a fresh &Properties{} *)
Definition props_unpack (ptype : N) (b : list N) : res (props * list N) :=
  match b with
  | [] =>                                                    (* bufr.Len() == 0: Property Length omitted *)
      if (ptype =? PUBACK) || (ptype =? PUBREC) || (ptype =? PUBREL) || (ptype =? PUBCOMP)
         || (ptype =? DISCONNECT) || (ptype =? AUTH)
      then Ok (props_empty, []) else Err MALFORMED
  | _ =>
      do '(length, r) <- read_varint b;
      if length =? 0 then Ok (props_empty, r)
      else if shorter r length then Err MALFORMED            (* length > bufr.Len() *)
      else
        let '(pb, r') := buf_next length r in                (* bufr.Next(length) clamps *)
        do p <- props_loop (S (List.length pb)) ptype props_empty pb;
        if is_some (ps_get 22 (pr_single p)) && negb (is_some (ps_get 21 (pr_single p)))
        then Err MALFORMED                                   (* AuthData without AuthMethod *)
        else Ok (p, r')
  end.

(* UnpackWillProperties: no ValidateID; only the will properties are known *)
Definition will_prop_known (id : N) : bool :=
  (id =? 24) || (id =? 1) || (id =? 2) || (id =? 3) || (id =? 8) || (id =? 9).

Fixpoint will_props_loop (fuel : nat) (p : props) (b : list N) : res props :=
  match fuel with
  | O => OutOfFuel
  | S k =>
      match b with
      | [] => Ok p
      | id :: r =>
          do '(p', r') <-
            (if id =? 38 then read_user p r
             else if will_prop_known id then
               match prop_kind id with
               | Some kd => read_single id kd p r
               | None => Err MALFORMED
               end
             else Err MALFORMED);
          will_props_loop k p' r'
      end
  end.

Definition will_props_unpack (b : list N) : res (props * list N) :=
  do '(length, r) <- read_varint b;
  if length =? 0 then Ok (props_empty, r)
  else if shorter r length then Err MALFORMED
  else
    let '(pb, r') := buf_next length r in
    do p <- will_props_loop (S (List.length pb)) props_empty pb;
    Ok (p, r').

(* ---- Pack ---- *)
(* propertyWriteByte / Uint16 / Uint32 / String *)
Definition pack_single (e : N * pval) : list N :=
  let '(id, v) := e in
  match v with
  | PVByte x => [id; x]
  | PVU16 x => id :: put16 x
  | PVU32 x => id :: put32 x
  | PVStr s => id :: put_bin s
  end.
Definition pack_user (kv : str * str) : list N := 38 :: put_bin (fst kv) ++ put_bin (snd kv).
Definition pack_subid (v : N) : list N := 11 :: encode_varint_or_nil v.

Definition pack_singles (l : list (N * pval)) : list N := flat_map pack_single l.

(* the fields in the order Pack writes them: ascending property id *)
Definition props_body (p : props) : list N :=
  pack_singles (filter (fun e => fst e <? 11) (pr_single p))
  ++ flat_map pack_subid (pr_subid p)
  ++ pack_singles (filter (fun e => (11 <? fst e) && (fst e <? 38)) (pr_single p))
  ++ flat_map pack_user (pr_user p)
  ++ pack_singles (filter (fun e => 38 <? fst e) (pr_single p)).

(* Properties.Pack on a possibly nil receiver: property length, then the fields *)
Definition props_pack (p : option props) : list N :=
  let body := match p with None => [] | Some p => props_body p end in
  encode_varint_or_nil (len body) ++ body.

(* PackWillProperties writes only PayloadFormat, MessageExpiry, ContentType, ResponseTopic,
   CorrelationData, WillDelayInterval, User *)
Definition will_props_body (p : props) : list N :=
  pack_singles (filter (fun e => will_prop_known (fst e)) (pr_single p))
  ++ flat_map pack_user (pr_user p).
Definition will_props_pack (p : option props) : list N :=
  let body := match p with None => [] | Some p => will_props_body p end in
  encode_varint_or_nil (len body) ++ body.
