(* packets.TopicMatch (pkg/packets/packets.go) transcribed as a fuelled two-cursor loop,
   and the MQTT 4.7 well-formedness predicates it is specified against. *)
From Coq Require Import List NArith Bool Arith.
Import ListNotations.
From GM Require Import Base.Topic.

Definition at_ (s : str) (i : nat) : N := nth i s 0%N.

Inductive tmres := TMRet (b : bool) | TMCont (spos tpos : nat).

(* advance tpos to the next '/' of the topic, or to its end *)
Fixpoint skip_level (t : str) (tpos : nat) (fuel : nat) : nat :=
  match fuel with
  | O => tpos
  | S k => if (tpos <? length t)%nat && negb (N.eqb (at_ t tpos) SLASH) then skip_level t (S tpos) k else tpos
  end.

(* one iteration of the `for` loop; f = topicFilter, t = topic *)
Definition tm_body (f t : str) (spos tpos : nat) : tmres :=
  let sublen := length f in
  let topiclen := length t in
  if (spos <? sublen)%nat && (tpos <=? topiclen)%nat then
    if negb (tpos =? topiclen)%nat && N.eqb (at_ f spos) (at_ t tpos) then
      if (S tpos =? topiclen)%nat && (spos + 3 =? sublen)%nat &&
         N.eqb (at_ f (spos + 1)) SLASH && N.eqb (at_ f (spos + 2)) HASH
      then TMRet true
      else
        let spos := S spos in
        let tpos := S tpos in
        if (spos =? sublen)%nat && (tpos =? topiclen)%nat then TMRet true
        else if (tpos =? topiclen)%nat && (S spos =? sublen)%nat && N.eqb (at_ f spos) PLUS then
          if (0 <? spos)%nat && negb (N.eqb (at_ f (spos - 1)) SLASH) then TMRet false else TMRet true
        else TMCont spos tpos
    else
      if N.eqb (at_ f spos) PLUS then
        let spos := S spos in
        let tpos := skip_level t tpos (length t) in
        if (tpos =? topiclen)%nat && (spos =? sublen)%nat then TMRet true else TMCont spos tpos
      else if N.eqb (at_ f spos) HASH then TMRet true
      else
        if (0 <? spos)%nat && (spos + 2 =? sublen)%nat && (tpos =? topiclen)%nat &&
           N.eqb (at_ f (spos - 1)) PLUS && N.eqb (at_ f spos) SLASH && N.eqb (at_ f (spos + 1)) HASH
        then TMRet true
        else TMRet false
  else TMRet false.

Fixpoint tm_loop (fuel : nat) (f t : str) (spos tpos : nat) : option bool :=
  match fuel with
  | O => None                                   (* out of fuel: excluded by the theorems *)
  | S k =>
      match tm_body f t spos tpos with
      | TMRet b => Some b
      | TMCont s' t' => tm_loop k f t s' t'
      end
  end.

(* TopicMatch(topic, topicFilter) *)
Definition tm_impl (t f : str) : option bool :=
  match f, t with
  | [], _ | _, [] => Some false
  | f0 :: _, t0 :: _ =>
      if (N.eqb f0 DOLLAR && negb (N.eqb t0 DOLLAR)) || (N.eqb t0 DOLLAR && negb (N.eqb f0 DOLLAR))
      then Some false
      else tm_loop (length f + 2) f t 0 0
  end.

(* ---- MQTT 4.7.1 / 4.7.3 well-formedness, by levels (the specification) ---- *)
Definition has_wild (l : level) : bool := existsb (fun c => N.eqb c PLUS || N.eqb c HASH) l.

Definition valid_name_spec (t : str) : bool := negb (is_empty t) && negb (has_wild t).

Fixpoint valid_filter_levels (ls : list level) : bool :=
  match ls with
  | [] => true
  | [l] => is_plus l || is_hash l || negb (has_wild l)
  | l :: rest => (is_plus l || negb (has_wild l)) && valid_filter_levels rest
  end.

Definition valid_filter_spec (f : str) : bool := negb (is_empty f) && valid_filter_levels (split f).
