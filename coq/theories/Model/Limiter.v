(* Model of server/limiter.go (packetIDLimiter), persistence/unack/mem (Store) and
   topicalias/fifo (Queue.Check). *)
From Coq Require Import List NArith Bool Arith.
Import ListNotations.
From GM Require Import Base.Topic.
Open Scope N_scope.

Definition MAXPID : N := 65535.
Definition U16 : N := 65536.

Record lim := { l_used : N; l_limit : N; l_exit : bool; l_locked : list N; l_free : N }.

Definition lim_new (limit : N) : lim :=
  {| l_used := 0; l_limit := limit; l_exit := false; l_locked := []; l_free := 1 |}.

Fixpoint memN (x : N) (l : list N) : bool := match l with [] => false | y :: r => (x =? y) || memN x r end.
Fixpoint delN (x : N) (l : list N) : list N :=
  match l with [] => [] | y :: r => if x =? y then delN x r else y :: delN x r end.

Definition next_pid (p : N) : N := if p =? MAXPID then 1 else p + 1.

(* `for p.lockedPid.Get(p.freePid) == 1 { advance }` ; None = never terminates *)
Fixpoint find_free (fuel : nat) (locked : list N) (p : N) : option N :=
  match fuel with
  | O => None
  | S k => if memN p locked then find_free k locked (next_pid p) else Some p
  end.

Inductive pollres := PBlocked | PExit | PHang | PIds (ids : list N).

Fixpoint poll_n (n : nat) (l : lim) (acc : list N) : option (lim * list N) :=
  match n with
  | O => Some (l, acc)
  | S k =>
      match find_free (S (length (l_locked l))) (l_locked l) (l_free l) with
      | None => None
      | Some p =>
          poll_n k {| l_used := (l_used l + 1) mod U16; l_limit := l_limit l; l_exit := l_exit l;
                      l_locked := p :: l_locked l; l_free := next_pid p |} (acc ++ [p])
      end
  end.

(* pollPacketIDs(max) *)
Definition lim_poll (max : N) (l : lim) : lim * pollres :=
  if (l_limit l <=? l_used l) && negb (l_exit l) then (l, PBlocked)
  else if l_exit l then (l, PExit)
  else
    let remain := (l_limit l + U16 - l_used l) mod U16 in
    let n := if remain <? max then remain else max in
    match poll_n (N.to_nat n) l [] with
    | Some (l', []) => (l', PExit)          (* a nil slice: the caller cannot tell it from exit *)
    | Some (l', ids) => (l', PIds ids)
    | None => (l, PHang)
    end.

(* release / releaseLocked *)
Definition lim_release (id : N) (l : lim) : lim :=
  if memN id (l_locked l)
  then {| l_used := (l_used l + U16 - 1) mod U16; l_limit := l_limit l; l_exit := l_exit l;
          l_locked := delN id (l_locked l); l_free := l_free l |}
  else l.

Definition lim_batch_release (ids : list N) (l : lim) : lim := fold_left (fun l id => lim_release id l) ids l.

(* markUsedLocked: used++ even when the id is already marked *)
Definition lim_mark (id : N) (l : lim) : lim :=
  {| l_used := (l_used l + 1) mod U16; l_limit := l_limit l; l_exit := l_exit l;
     l_locked := if memN id (l_locked l) then l_locked l else id :: l_locked l; l_free := l_free l |}.

Definition lim_close (l : lim) : lim :=
  {| l_used := l_used l; l_limit := l_limit l; l_exit := true; l_locked := l_locked l; l_free := l_free l |}.

Definition lim_set_free (p : N) (l : lim) : lim :=
  {| l_used := l_used l; l_limit := l_limit l; l_exit := l_exit l; l_locked := l_locked l; l_free := p |}.

Inductive lop := LPoll (max : N) | LRelease (id : N) | LBatch (ids : list N) | LMark (id : N) | LClose | LSetFree (p : N).

Definition lim_step (l : lim) (o : lop) : lim * option pollres :=
  match o with
  | LPoll m => let '(l', r) := lim_poll m l in (l', Some r)
  | LRelease id => (lim_release id l, None)
  | LBatch ids => (lim_batch_release ids l, None)
  | LMark id => (lim_mark id l, None)
  | LClose => (lim_close l, None)
  | LSetFree p => (lim_set_free p l, None)
  end.

Fixpoint lim_run (l : lim) (ops : list lop) : lim * list (option pollres * N) :=
  match ops with
  | [] => (l, [])
  | o :: r => let '(l', out) := lim_step l o in
              let '(l'', outs) := lim_run l' r in (l'', (out, l_used l') :: outs)
  end.

(* ---- unack store: a set of packet ids ---- *)
Definition unack := list N.
Definition unack_init (clean : bool) (u : unack) : unack := if clean then [] else u.
Definition unack_set (id : N) (u : unack) : unack * bool := if memN id u then (u, true) else (id :: u, false).
Definition unack_remove (id : N) (u : unack) : unack := delN id u.

(* ---- topic alias manager (fifo): alias list oldest first ---- *)
Record amgr := { am_max : N; am_list : list (str * N) }.
Definition am_new (max : N) : amgr := {| am_max := max; am_list := [] |}.

Fixpoint am_find (t : str) (l : list (str * N)) : option N :=
  match l with [] => None | (t', a) :: r => if str_eqb t t' then Some a else am_find t r end.

Inductive amres := AOk (alias : N) (exist : bool) | APanic.

(* Check(publish) *)
Definition am_check (t : str) (m : amgr) : amgr * amres :=
  match am_find t (am_list m) with
  | Some a => (m, AOk a true)
  | None =>
      let len := N.of_nat (length (am_list m)) in
      if len =? am_max m then
        match am_list m with
        | [] => (m, APanic)                                 (* Front() == nil: max = 0 *)
        | (_, a) :: rest => ({| am_max := am_max m; am_list := rest ++ [(t, a)] |}, AOk a false)
        end
      else
        let a := (len + 1) mod U16 in
        ({| am_max := am_max m; am_list := am_list m ++ [(t, a)] |}, AOk a false)
  end.
