(* The shared broker model: server/server.go + server/client.go composed from the component
   models.  A sequential step function over scenario events; after every event the
   per-connection poll loops run until nothing more can be sent (the harness observes the
   implementation at quiescence, see DESIGN sec. 3 and 4.1). *)
From Coq Require Import List NArith ZArith Bool Arith.
Import ListNotations.
From GM Require Import Base.Topic Base.Msg Model.SubTrie Model.RetTrie Model.Queue Model.Limiter Model.TopicMatch.
Open Scope N_scope.

(* ---------- packets at the level the scenarios speak ---------- *)
Inductive prop :=
| PSei (n : N) | PRecvMax (n : N) | PMaxPkt (n : N) | PAliasMax (n : N) | PAlias (n : N)
| PMsgExpiry (n : N) | PPfmt (n : N) | PCtype (s : str) | PResp (s : str) | PCorr (s : str)
| PSubId (n : N) | PUser (k v : str) | PReason (s : str) | PAssigned (s : str) | PMaxQos (n : N)
| PRetainAvail (n : N) | PWildcard (n : N) | PSubIdAvail (n : N) | PSharedAvail (n : N)
| PKeepAlive (n : N) | PRespInfo (s : str) | PAuthMethod (s : str) | PAuthData (s : str)
| PWillDelay (n : N) | PReqProb (n : N) | PReqResp (n : N) | PServerRef (s : str).

Record topic_req := { tq_name : str; tq_qos : N; tq_nl : bool; tq_rap : bool; tq_rh : N }.

Inductive pkt :=
| KConnack (sp : bool) (code : N) (props : list prop)
| KPublish (dup : bool) (qos : N) (retain : bool) (topic payload : str) (pid : N) (props : list prop)
| KPuback (pid code : N) (props : list prop)
| KPubrec (pid code : N) (props : list prop)
| KPubrel (pid code : N) (props : list prop)
| KPubcomp (pid code : N) (props : list prop)
| KSubscribe (pid : N) (props : list prop) (topics : list topic_req)
| KSuback (pid : N) (codes : list N) (props : list prop)
| KUnsubscribe (pid : N) (props : list prop) (topics : list str)
| KUnsuback (pid : N) (codes : list N) (props : list prop)
| KPingreq | KPingresp
| KDisconnect (code : N) (props : list prop)
| KAuth (code : N) (props : list prop).

Record willspec := { w_topic : str; w_payload : str; w_qos : N; w_retain : bool; w_props : list prop }.

Record connect := {
  cn_ver : N; cn_cid : str; cn_clean : bool; cn_keepalive : N;
  cn_user : option str; cn_pass : option str; cn_will : option willspec; cn_props : list prop }.

(* property lookups *)
Fixpoint p_sei (l : list prop) : option N := match l with [] => None | PSei n :: _ => Some n | _ :: r => p_sei r end.
Fixpoint p_recvmax (l : list prop) : option N := match l with [] => None | PRecvMax n :: _ => Some n | _ :: r => p_recvmax r end.
Fixpoint p_maxpkt (l : list prop) : option N := match l with [] => None | PMaxPkt n :: _ => Some n | _ :: r => p_maxpkt r end.
Fixpoint p_aliasmax (l : list prop) : option N := match l with [] => None | PAliasMax n :: _ => Some n | _ :: r => p_aliasmax r end.
Fixpoint p_alias (l : list prop) : option N := match l with [] => None | PAlias n :: _ => Some n | _ :: r => p_alias r end.
Fixpoint p_msgexpiry (l : list prop) : option N := match l with [] => None | PMsgExpiry n :: _ => Some n | _ :: r => p_msgexpiry r end.
Fixpoint p_pfmt (l : list prop) : option N := match l with [] => None | PPfmt n :: _ => Some n | _ :: r => p_pfmt r end.
Fixpoint p_ctype (l : list prop) : option str := match l with [] => None | PCtype s :: _ => Some s | _ :: r => p_ctype r end.
Fixpoint p_resp (l : list prop) : option str := match l with [] => None | PResp s :: _ => Some s | _ :: r => p_resp r end.
Fixpoint p_corr (l : list prop) : option str := match l with [] => None | PCorr s :: _ => Some s | _ :: r => p_corr r end.
Fixpoint p_willdelay (l : list prop) : option N := match l with [] => None | PWillDelay n :: _ => Some n | _ :: r => p_willdelay r end.
Fixpoint p_authmethod (l : list prop) : option str := match l with [] => None | PAuthMethod s :: _ => Some s | _ :: r => p_authmethod r end.
Fixpoint p_subids (l : list prop) : list N := match l with [] => [] | PSubId n :: r => n :: p_subids r | _ :: r => p_subids r end.
Fixpoint p_users (l : list prop) : list (str * str) := match l with [] => [] | PUser k v :: r => (k, v) :: p_users r | _ :: r => p_users r end.

Definition opt_or {A} (o : option A) (d : A) : A := match o with Some x => x | None => d end.
Definition U32MAX : N := 4294967295.

(* ---------- configuration and scripted hooks ---------- *)
Record cfg := {
  c_onlyonce : bool; c_max_inflight : N; c_max_queued : nat; c_queue_qos0 : bool;
  c_session_expiry : N; c_message_expiry : N; c_recv_max : N; c_alias_max : N; c_max_packet : N;
  c_max_qos : N; c_retain_avail : bool; c_wildcard : bool; c_subid : bool; c_shared : bool;
  c_max_keepalive : N; c_allow_zero_len : bool; c_inflight_expiry : N }.

Inductive sub_action := SAccept | SReject (code : N) | SQos (q : N).
(* MRewrite: the hook replaced topic, payload, QoS and possibly the RETAIN flag of the message.  The last
   argument packs the two: qos = qr mod 4, and qr / 4 = 0 leaves the RETAIN flag alone, 1 clears it, 2 sets it. *)
Inductive msg_action := MAccept | MReject (code : N) | MDrop | MRewrite (topic payload : str) (qr : N).
Definition rw_qos (qr : N) : N := qr mod 4.
Definition rw_retain (qr : N) (old : bool) : bool :=
  if qr / 4 =? 0 then old else if qr / 4 =? 1 then false else true.

Record hooks := {
  h_auth : option (list (str * str * N) * N);            (* (user, pass, code) table, default code *)
  h_sub_all : option N;                                  (* fail the whole SUBSCRIBE with this code *)
  h_sub : list (str * str * sub_action);                 (* (client id, full topic name) -> action *)
  h_msg : list (str * msg_action);                       (* topic -> action; Some [] table = hook installed *)
  h_msg_on : bool;
  h_will : list (str * msg_action);                      (* client id -> action *)
  h_will_on : bool }.

Definition no_hooks : hooks :=
  {| h_auth := None; h_sub_all := None; h_sub := []; h_msg := []; h_msg_on := false; h_will := []; h_will_on := false |}.

(* ---------- state ---------- *)
Record session := { se_will : option msg; se_will_delay : N; se_connected_at : N; se_expiry : N }.

(* PhZombie: the packet handlers have stopped (client DISCONNECT, or an error that sends no
   DISCONNECT packet) but the broker keeps the socket - and the registration - until the peer
   closes it; PhDead: CONNECT failed, the socket stays open and is ignored *)
Inductive phase := PhFresh | PhConnected | PhZombie | PhDead | PhClosed.

Record conn := {
  k_cid : str; k_v : N; k_phase : phase;
  k_max_inflight : N; k_client_max_packet : N; k_client_alias_max : N; k_server_alias_max : N;
  k_recv_max : N; k_keepalive : N; k_session_expiry : N;
  k_retain_avail : bool; k_wildcard : bool; k_subid : bool; k_shared : bool;
  k_lim : lim; k_held : option (list N);      (* packet ids taken by the poll loop while it waits in Read *)
  k_alias_out : amgr; k_alias_in : list (N * str); k_alias_in_size : N;
  k_quota : N; k_clean_will : bool; k_disc_sei : option N; k_got_disconnect : bool; k_force_remove : bool;
  k_drained : bool }.

Record st := {
  b_cfg : cfg; b_hooks : hooks; b_now : N; b_rt : N;
  b_sessions : list (str * session);
  b_online : list (str * N);                 (* client id -> socket *)
  b_offline : list (str * N);                (* client id -> deadline *)
  b_wills : list (str * (msg * N));          (* pending delayed wills: message, real-time fire point *)
  b_subs : db; b_ret : rdb;
  b_queues : list (str * queue);
  b_unacks : list (str * unack);
  b_conns : list (N * conn);
  b_picks : list nat;                        (* oracle-resolved random choices of flush *)
  b_tag : N;
  b_auto : N;
  b_npick : N }.                             (* number of random choices made so far *)                              (* client ids assigned so far *)

Definition st_init (c : cfg) (h : hooks) (picks : list nat) : st :=
  {| b_cfg := c; b_hooks := h; b_now := 1000000000000; b_rt := 0; b_sessions := []; b_online := []; b_offline := [];
     b_wills := []; b_subs := db_init; b_ret := rdb_init; b_queues := []; b_unacks := []; b_conns := [];
     b_picks := picks; b_tag := 1; b_auto := 0; b_npick := 0 |}.

(* association lists keyed by socket number *)
Fixpoint nget {V} (k : N) (l : list (N * V)) : option V :=
  match l with [] => None | (k', v) :: r => if k =? k' then Some v else nget k r end.
Fixpoint nset {V} (k : N) (v : V) (l : list (N * V)) : list (N * V) :=
  match l with [] => [(k, v)] | (k', v') :: r => if k =? k' then (k, v) :: r else (k', v') :: nset k v r end.

(* outputs: packets written to sockets, sockets closed by the broker, dropped messages *)
Inductive out :=
| OSend (c : N) (p : pkt)
| OClose (c : N)
| ODropped (cid : str) (m : msg) (r : dropreason).

(* record updates *)
Definition upd_conn (c : N) (k : conn) (s : st) : st :=
  {| b_cfg := b_cfg s; b_hooks := b_hooks s; b_now := b_now s; b_rt := b_rt s; b_sessions := b_sessions s;
     b_online := b_online s; b_offline := b_offline s; b_wills := b_wills s; b_subs := b_subs s; b_ret := b_ret s;
     b_queues := b_queues s; b_unacks := b_unacks s; b_conns := nset c k (b_conns s); b_picks := b_picks s; b_tag := b_tag s; b_auto := b_auto s; b_npick := b_npick s |}.

Definition set_queues (q : list (str * queue)) (s : st) : st :=
  {| b_cfg := b_cfg s; b_hooks := b_hooks s; b_now := b_now s; b_rt := b_rt s; b_sessions := b_sessions s;
     b_online := b_online s; b_offline := b_offline s; b_wills := b_wills s; b_subs := b_subs s; b_ret := b_ret s;
     b_queues := q; b_unacks := b_unacks s; b_conns := b_conns s; b_picks := b_picks s; b_tag := b_tag s; b_auto := b_auto s; b_npick := b_npick s |}.

Definition set_tables (se : list (str * session)) (on off : list (str * N)) (w : list (str * (msg * N)))
                      (q : list (str * queue)) (u : list (str * unack)) (s : st) : st :=
  {| b_cfg := b_cfg s; b_hooks := b_hooks s; b_now := b_now s; b_rt := b_rt s; b_sessions := se;
     b_online := on; b_offline := off; b_wills := w; b_subs := b_subs s; b_ret := b_ret s;
     b_queues := q; b_unacks := u; b_conns := b_conns s; b_picks := b_picks s; b_tag := b_tag s; b_auto := b_auto s; b_npick := b_npick s |}.

Definition set_subs (d : db) (s : st) : st :=
  {| b_cfg := b_cfg s; b_hooks := b_hooks s; b_now := b_now s; b_rt := b_rt s; b_sessions := b_sessions s;
     b_online := b_online s; b_offline := b_offline s; b_wills := b_wills s; b_subs := d; b_ret := b_ret s;
     b_queues := b_queues s; b_unacks := b_unacks s; b_conns := b_conns s; b_picks := b_picks s; b_tag := b_tag s; b_auto := b_auto s; b_npick := b_npick s |}.

Definition set_ret (r : rdb) (s : st) : st :=
  {| b_cfg := b_cfg s; b_hooks := b_hooks s; b_now := b_now s; b_rt := b_rt s; b_sessions := b_sessions s;
     b_online := b_online s; b_offline := b_offline s; b_wills := b_wills s; b_subs := b_subs s; b_ret := r;
     b_queues := b_queues s; b_unacks := b_unacks s; b_conns := b_conns s; b_picks := b_picks s; b_tag := b_tag s; b_auto := b_auto s; b_npick := b_npick s |}.

Definition set_time (now rt : N) (s : st) : st :=
  {| b_cfg := b_cfg s; b_hooks := b_hooks s; b_now := now; b_rt := rt; b_sessions := b_sessions s;
     b_online := b_online s; b_offline := b_offline s; b_wills := b_wills s; b_subs := b_subs s; b_ret := b_ret s;
     b_queues := b_queues s; b_unacks := b_unacks s; b_conns := b_conns s; b_picks := b_picks s; b_tag := b_tag s; b_auto := b_auto s; b_npick := b_npick s |}.

Definition set_picks_tag (p : list nat) (t : N) (s : st) : st :=
  {| b_cfg := b_cfg s; b_hooks := b_hooks s; b_now := b_now s; b_rt := b_rt s; b_sessions := b_sessions s;
     b_online := b_online s; b_offline := b_offline s; b_wills := b_wills s; b_subs := b_subs s; b_ret := b_ret s;
     b_queues := b_queues s; b_unacks := b_unacks s; b_conns := b_conns s; b_picks := p; b_tag := t; b_auto := b_auto s; b_npick := b_npick s |}.

Definition set_unacks (u : list (str * unack)) (s : st) : st :=
  set_tables (b_sessions s) (b_online s) (b_offline s) (b_wills s) (b_queues s) u s.

(* ---------- delivery: deliverMessage / newDeliverHandler / flush / addMsgToQueueLocked ---------- *)

Definition with_qos_etc (m : msg) (qos : N) (ids : list N) (retained : bool) : msg :=
  {| m_dup := false; m_qos := qos; m_retained := retained; m_topic := m_topic m; m_payload := m_payload m;
     m_pid := m_pid m; m_ctype := m_ctype m; m_corr := m_corr m; m_expiry := m_expiry m; m_pfmt := m_pfmt m;
     m_resp := m_resp m; m_subids := m_subids m ++ ids; m_uprops := m_uprops m |}.

(* queue notifier events of one Add turned into outputs *)
Definition drops_of (cid : str) (evs : list qev) : list out :=
  flat_map (fun e => match e with
                     | EvDropped el r => match e_body el with QPub m => [ODropped cid m r] | QRel _ => [] end
                     | _ => []
                     end) evs.

(* queueNotifier.NotifyDropped: an expired in-flight entry gives its packet id back to the
   limiter of the connection the session is attached to *)
Definition release_dropped (cid : str) (evs : list qev) (s : st) : st :=
  match aget cid (b_online s) with
  | None => s
  | Some c =>
      match nget c (b_conns s) with
      | None => s
      | Some k =>
          let l := fold_left (fun l e => match e with
                                         | EvDropped el DExpiredInflight => lim_release (e_id el) l
                                         | _ => l
                                         end) evs (k_lim k) in
          upd_conn c {| k_cid := k_cid k; k_v := k_v k; k_phase := k_phase k; k_max_inflight := k_max_inflight k;
                        k_client_max_packet := k_client_max_packet k; k_client_alias_max := k_client_alias_max k;
                        k_server_alias_max := k_server_alias_max k; k_recv_max := k_recv_max k; k_keepalive := k_keepalive k;
                        k_session_expiry := k_session_expiry k; k_retain_avail := k_retain_avail k; k_wildcard := k_wildcard k;
                        k_subid := k_subid k; k_shared := k_shared k; k_lim := l; k_held := k_held k;
                        k_alias_out := k_alias_out k; k_alias_in := k_alias_in k; k_alias_in_size := k_alias_in_size k;
                        k_quota := k_quota k; k_clean_will := k_clean_will k; k_disc_sei := k_disc_sei k;
                        k_got_disconnect := k_got_disconnect k; k_force_remove := k_force_remove k; k_drained := k_drained k |} s
      end
  end.

(* addMsgToQueueLocked *)
Definition add_to_queue (cid : str) (m : msg) (s_ : sub) (ids : list N) (s : st) : st * list out :=
  match aget cid (b_queues s) with
  | None => (s, [])
  | Some q =>
      let online := ahas cid (b_online s) in
      if negb (c_queue_qos0 (b_cfg s)) && negb online && (m_qos m =? 0) then (s, [])
      else
        let qos := if s_qos s_ <? m_qos m then s_qos s_ else m_qos m in
        let m' := with_qos_etc m qos (filter (fun i => negb (i =? 0)) ids) (m_retained m && s_rap s_) in
        let now := b_now s in
        let ce := c_message_expiry (b_cfg s) in
        let expiry :=
          if negb (ce =? 0) then
            (* the publisher's interval, capped by the configured maximum lifetime *)
            if negb (m_expiry m' =? 0) && (m_expiry m' <=? ce) then Some (now + m_expiry m' * 1000)
            else Some (now + ce * 1000)
          else if negb (m_expiry m' =? 0) then Some (now + m_expiry m' * 1000) else None in
        let e := {| e_tag := b_tag s; e_at := now; e_expiry := expiry; e_body := QPub m' |} in
        match q_add now e q with
        | QOk (q', evs) =>
            (release_dropped cid evs (set_picks_tag (b_picks s) (b_tag s + 1) (set_queues (aset cid q' (b_queues s)) s)), drops_of cid evs)
        | _ => (s, [])
        end
  end.

Definition full_name (s_ : sub) : str :=
  if is_empty (s_share s_) then s_filter s_ else SHARE_PREFIX ++ s_share s_ ++ SLASH :: s_filter s_.

(* group the shared matches by full topic name, in iteration order *)
Fixpoint group_shared (l : list (cid * sub)) (acc : list (str * list (cid * sub))) : list (str * list (cid * sub)) :=
  match l with
  | [] => acc
  | (c, s_) :: r =>
      let k := full_name s_ in
      group_shared r (aset k (opt_or (aget k acc) [] ++ [(c, s_)]) acc)
  end.

(* onlyonce: per client all matching subscriptions; the one that is used is the first of
   highest QoS in (map) iteration order, which is oracle-resolved; all ids are carried *)
Fixpoint group_by_client (l : list (cid * sub)) (acc : list (str * list sub)) : list (str * list sub) :=
  match l with
  | [] => acc
  | (c, s_) :: r => group_by_client r (aset c (opt_or (aget c acc) [] ++ [s_]) acc)
  end.
Definition max_qos_of (l : list sub) : N := fold_left (fun a x => if a <? s_qos x then s_qos x else a) l 0.

Definition count_pick (s : st) : st :=
  {| b_cfg := b_cfg s; b_hooks := b_hooks s; b_now := b_now s; b_rt := b_rt s; b_sessions := b_sessions s;
     b_online := b_online s; b_offline := b_offline s; b_wills := b_wills s; b_subs := b_subs s; b_ret := b_ret s;
     b_queues := b_queues s; b_unacks := b_unacks s; b_conns := b_conns s; b_picks := b_picks s; b_tag := b_tag s;
     b_auto := b_auto s; b_npick := b_npick s + 1 |}.

Definition take_pick (n : nat) (s : st) : nat * st :=
  match b_picks s with
  | [] => (0%nat, count_pick s)
  | p :: r => ((p mod (Nat.max n 1))%nat, count_pick (set_picks_tag r (b_tag s) s))
  end.

Definition deliver_opts (topic : str) : iopts :=
  {| io_sys := true; io_shared := true; io_nonshared := true; io_client := []; io_topic := topic; io_mt := MatchFilter |}.

(* deliverMessage: returns matched *)
Definition deliver (src : str) (m : msg) (s : st) : st * list out * bool :=
  let ents := match db_iterate (deliver_opts (m_topic m)) (b_subs s) with
              | IOk l => flat_map (fun e => match snd e with Some x => [(fst e, x)] | None => [] end) l
              | IPanic => []
              end in
  let ents := filter (fun e => negb (s_nl (snd e) && str_eqb (fst e) src)) ents in
  let matched := match ents with [] => false | _ => true end in
  let shared := filter (fun e => negb (is_empty (s_share (snd e)))) ents in
  let plain := filter (fun e => is_empty (s_share (snd e))) ents in
  (* overlap: one copy per matching subscription, queued while iterating *)
  let '(s1, o1) :=
    if c_onlyonce (b_cfg s) then (s, [])
    else fold_left (fun acc e => let '(s0, o0) := acc in
                                 let '(s', o') := add_to_queue (fst e) m (snd e) [s_id (snd e)] s0 in (s', o0 ++ o'))
                   plain (s, []) in
  (* flush: one member per shared group *)
  let '(s2, o2) :=
    fold_left (fun acc g => let '(s0, o0) := acc in
                            let members := snd g in
                            let '(i, s0') := match members with [_] => (0%nat, s0) | _ => take_pick (length members) s0 end in
                            match nth_error members i with
                            | Some (c, s_) => let '(s', o') := add_to_queue c m s_ [s_id s_] s0' in (s', o0 ++ o')
                            | None => (s0', o0)
                            end)
              (group_shared shared []) (s1, o1) in
  let '(s3, o3) :=
    if c_onlyonce (b_cfg s) then
      fold_left (fun acc g => let '(s0, o0) := acc in
                              let subs := snd g in
                              let best := filter (fun x => s_qos x =? max_qos_of subs) subs in
                              let '(i, s0') := match best with
                                               | [_] => (0%nat, s0)
                                               | _ => take_pick (length best) s0
                                               end in
                              match nth_error best i with
                              | Some s_ => let '(s', o') := add_to_queue (fst g) m s_ (map s_id subs) s0' in (s', o0 ++ o')
                              | None => (s0', o0)
                              end)
                (group_by_client plain []) (s2, o2)
    else (s2, o2) in
  (s3, o3, matched).

(* ---------- sessions ---------- *)

(* removeSessionLocked (+ sessionTerminatedLocked) *)
Definition remove_session (cid : str) (s : st) : st :=
  set_subs (db_unsubscribe_all cid (b_subs s))
    (set_tables (adel cid (b_sessions s)) (adel cid (b_online s)) (adel cid (b_offline s)) (b_wills s)
                (adel cid (b_queues s)) (b_unacks s) s).

Definition will_action (cid : str) (s : st) : msg_action :=
  if h_will_on (b_hooks s) then opt_or (aget cid (h_will (b_hooks s))) MAccept else MAccept.

Definition with_topic_payload_qos (t p : str) (q : N) (m : msg) : msg :=
  {| m_dup := m_dup m; m_qos := rw_qos q; m_retained := rw_retain q (m_retained m); m_topic := t; m_payload := p;
     m_pid := m_pid m; m_ctype := m_ctype m; m_corr := m_corr m; m_expiry := m_expiry m; m_pfmt := m_pfmt m;
     m_resp := m_resp m; m_subids := m_subids m; m_uprops := m_uprops m |}.

(* what a PUBLISH with RETAIN=1 does to the retained store *)
Definition retain_update (m : msg) (s : st) : st :=
  if m_retained m then set_ret (rdb_step (b_ret s) (retain_op m)) s else s.

(* sendWillLocked: the hook may drop or rewrite the will; what it returns is what is published *)
Definition send_will (cid : str) (m : msg) (s : st) : st * list out :=
  match will_action cid s with
  | MDrop => (s, [])
  | MReject _ => (s, [])
  | MAccept => let '(s', o, _) := deliver cid m (retain_update m s) in (s', o)
  | MRewrite t p q => let m' := with_topic_payload_qos t p q m in
                      let '(s', o, _) := deliver cid m' (retain_update m' s) in (s', o)
  end.

(* sessionTerminatedLocked signals a will that still waits for its delay: it is published as soon as
   the broker lock is free again *)
Definition release_will (cid : str) (s : st) : st * list out :=
  match aget cid (b_wills s) with
  | Some (w, _) =>
      send_will cid w (set_tables (b_sessions s) (b_online s) (b_offline s) (adel cid (b_wills s)) (b_queues s) (b_unacks s) s)
  | None => (s, [])
  end.

(* unregisterClient for the connection on socket c *)
Definition unregister (c : N) (k : conn) (s : st) : st * list out :=
  let cid := k_cid k in
  (* srv.clients still holds the client while the will is delivered: it counts as online for queue_qos0 *)
  match aget cid (b_sessions s) with
  | None => (remove_session cid s, [])
  | Some se =>
      let expiry := if negb (k_force_remove k) && (k_v k =? 5) && k_got_disconnect k
                    then N.min (opt_or (k_disc_sei k) (se_expiry se)) (c_session_expiry (b_cfg s)) else se_expiry se in
      let store := negb (k_force_remove k) && negb (expiry =? 0) in
      let '(s1, o1) :=
        match se_will se with
        | Some w =>
            if k_clean_will k then (s, [])
            else
              let delay := if expiry <=? se_will_delay se then expiry else se_will_delay se in
              if negb (delay =? 0) && store
              then (set_tables (b_sessions s) (b_online s) (b_offline s) (aset cid (w, b_rt s + delay * 1000) (b_wills s))
                               (b_queues s) (b_unacks s) s, [])
              else send_will cid w s
        | None => (s, [])
        end in
      if store then
        (set_tables (aset cid {| se_will := se_will se; se_will_delay := se_will_delay se;
                                 se_connected_at := se_connected_at se; se_expiry := expiry |} (b_sessions s1))
                    (adel cid (b_online s1)) (aset cid (b_now s1 + expiry * 1000) (b_offline s1)) (b_wills s1)
                    (b_queues s1) (b_unacks s1) s1, o1)
      else (remove_session cid s1, o1)
  end.

Definition set_phase (ph : phase) (k : conn) : conn :=
  {| k_cid := k_cid k; k_v := k_v k; k_phase := ph; k_max_inflight := k_max_inflight k;
     k_client_max_packet := k_client_max_packet k; k_client_alias_max := k_client_alias_max k;
     k_server_alias_max := k_server_alias_max k; k_recv_max := k_recv_max k; k_keepalive := k_keepalive k;
     k_session_expiry := k_session_expiry k; k_retain_avail := k_retain_avail k; k_wildcard := k_wildcard k;
     k_subid := k_subid k; k_shared := k_shared k; k_lim := k_lim k;
     k_held := match ph with PhClosed => None | _ => k_held k end;
     k_alias_out := k_alias_out k; k_alias_in := k_alias_in k; k_alias_in_size := k_alias_in_size k;
     k_quota := k_quota k; k_clean_will := k_clean_will k; k_disc_sei := k_disc_sei k;
     k_got_disconnect := k_got_disconnect k; k_force_remove := k_force_remove k; k_drained := k_drained k |}.

(* the TCP connection of socket c has gone (closed by either side): a registered client is
   unregistered (internalClose) *)
Definition conn_gone (c : N) (s : st) : st * list out :=
  match nget c (b_conns s) with
  | None => (s, [])
  | Some k =>
      match k_phase k with
      | PhClosed => (s, [])
      | PhFresh | PhDead => (upd_conn c (set_phase PhClosed k) s, [OClose c])
      | PhConnected | PhZombie =>
          let k' := set_phase PhClosed k in
          (* the queue store is closed when the connection goes away *)
          let s0 := match aget (k_cid k) (b_queues s) with
                    | Some q => set_queues (aset (k_cid k) (q_close q) (b_queues s)) s
                    | None => s
                    end in
          let '(s', o') := unregister c k' (upd_conn c k' s0) in
          (s', [OClose c] ++ o')
      end
  end.

(* a packet handler (by_reader = false) or the read loop (by_reader = true) fails on socket c.
   setError sends DISCONNECT(code) to a connected v5 client and the write loop then closes
   the socket; the read loop's own errors end the connection too; otherwise the handlers
   stop and the socket lingers until the peer closes it. *)
Definition fail_conn (c : N) (code : option N) (by_reader : bool) (s : st) : st * list out :=
  match nget c (b_conns s) with
  | None => (s, [])
  | Some k =>
      match k_phase k with
      | PhConnected =>
          let disc := match code with
                      | Some cd => if k_v k =? 5 then [OSend c (KDisconnect cd [])] else []
                      | None => []
                      end in
          if by_reader || match disc with [] => false | _ => true end
          then let '(s', o) := conn_gone c s in (s', disc ++ o)
          else (upd_conn c (set_phase PhZombie k) s, [])
      | _ => (s, [])
      end
  end.

(* ---------- CONNECT ---------- *)

Definition will_msg (w : willspec) : msg :=
  {| m_dup := false; m_qos := w_qos w; m_retained := w_retain w; m_topic := w_topic w; m_payload := w_payload w; m_pid := 0;
     m_ctype := opt_or (p_ctype (w_props w)) []; m_corr := opt_or (p_corr (w_props w)) [];
     m_expiry := opt_or (p_msgexpiry (w_props w)) 0; m_pfmt := opt_or (p_pfmt (w_props w)) 0;
     m_resp := opt_or (p_resp (w_props w)) []; m_subids := []; m_uprops := p_users (w_props w) |}.

Definition auth_code (cn : connect) (s : st) : N :=
  match h_auth (b_hooks s) with
  | None => 0
  | Some (tbl, dflt) =>
      let u := opt_or (cn_user cn) [] in
      let p := opt_or (cn_pass cn) [] in
      match find (fun e => str_eqb (fst (fst e)) u && str_eqb (snd (fst e)) p) tbl with
      | Some e => snd e
      | None => dflt
      end
  end.

(* broker-assigned client ids are canonicalised by the harness to auto1, auto2, ... *)
Definition AUTO_PREFIX : str := [97; 117; 116; 111].
Fixpoint dec_digits (fuel : nat) (n : N) (acc : str) : str :=
  match fuel with
  | O => acc
  | S f => let acc' := (48 + n mod 10) :: acc in if n / 10 =? 0 then acc' else dec_digits f (n / 10) acc'
  end.
Definition dec_str (n : N) : str := dec_digits 20 n [].
Definition set_auto (a : N) (s : st) : st :=
  {| b_cfg := b_cfg s; b_hooks := b_hooks s; b_now := b_now s; b_rt := b_rt s; b_sessions := b_sessions s;
     b_online := b_online s; b_offline := b_offline s; b_wills := b_wills s; b_subs := b_subs s; b_ret := b_ret s;
     b_queues := b_queues s; b_unacks := b_unacks s; b_conns := b_conns s; b_picks := b_picks s; b_tag := b_tag s; b_auto := a; b_npick := b_npick s |}.

Definition fresh_conn (cid : str) (v : N) : conn :=
  {| k_cid := cid; k_v := v; k_phase := PhFresh; k_max_inflight := 0; k_client_max_packet := U32MAX;
     k_client_alias_max := 0; k_server_alias_max := 0; k_recv_max := 0; k_keepalive := 0; k_session_expiry := 0;
     k_retain_avail := true; k_wildcard := true; k_subid := true; k_shared := true;
     k_lim := lim_new 0; k_held := None; k_alias_out := am_new 0; k_alias_in := []; k_alias_in_size := 0;
     k_quota := 0; k_clean_will := false; k_disc_sei := None; k_got_disconnect := false; k_force_remove := false;
     k_drained := false |}.

(* does the stored session still count: Session.IsExpired(now) *)
Definition session_expired (cid : str) (se : session) (s : st) : bool :=
  match aget cid (b_offline s) with
  | Some deadline => deadline <? b_now s
  | None => se_connected_at se + se_expiry se * 1000 <? b_now s
  end.

Definition handle_connect (c : N) (cn : connect) (s : st) : st * list out :=
  let v := cn_ver cn in
  let v5 := v =? 5 in
  let cfg_ := b_cfg s in
  if negb (c_allow_zero_len cfg_) && is_empty (cn_cid cn) then
    (* rejected before the version is recorded: the CONNACK is packed for version 0 *)
    (upd_conn c (set_phase PhDead (fresh_conn [] 0)) s, [OSend c (KConnack false 133 [])])
  else
    let code := if (v5 && match p_authmethod (cn_props cn) with Some _ => true | None => false end)
                then 128      (* enhanced authentication without a hook: generic error *)
                else auth_code cn s in
    if negb (code =? 0) then
      let code' := if negb v5 && (5 <? code) then 135 else code in
      (upd_conn c (set_phase PhDead (fresh_conn (cn_cid cn) v)) s, [OSend c (KConnack false code' [])])
    else
      let assigned := is_empty (cn_cid cn) in
      let cid := if assigned then AUTO_PREFIX ++ dec_str (b_auto s + 1) else cn_cid cn in
      let s := if assigned then set_auto (b_auto s + 1) s else s in
      let sess_exp0 := c_session_expiry cfg_ in
      let sess_exp := if v5 then match p_sei (cn_props cn) with
                                 | None => 0
                                 | Some i => if i <? sess_exp0 then i else sess_exp0
                                 end
                      else sess_exp0 in
      let ka := if cn_keepalive cn <? c_max_keepalive cfg_ then cn_keepalive cn else c_max_keepalive cfg_ in
      let max_inflight := if v5 then
                            match p_recvmax (cn_props cn) with
                            | Some r => if r <? c_max_inflight cfg_ then r else c_max_inflight cfg_
                            | None => c_max_inflight cfg_
                            end
                          else c_max_inflight cfg_ in
      let cmax := if v5 then opt_or (p_maxpkt (cn_props cn)) U32MAX else U32MAX in
      let camax := if v5 then opt_or (p_aliasmax (cn_props cn)) 0 else 0 in
      (* take over an online duplicate first *)
      let '(s, o_dup) :=
        match aget cid (b_online s) with
        | Some oldc => conn_gone oldc s          (* setError(SessionTakenOver) + Close(): the DISCONNECT races with the close and is normally lost *)
        | None => (s, [])
        end in
      let old := aget cid (b_sessions s) in
      let resume0 := match old with
                     | Some se => negb (session_expired cid se s) && negb (cn_clean cn)
                     | None => false
                     end in
      (* terminate the old session when it is not resumed; a pending will is then sent *)
      let '(s, o_will, resume) :=
        match old with
        | Some se =>
            if resume0 then
              match aget cid (b_queues s), aget cid (b_unacks s) with
              | Some q, Some u =>
                  (set_tables (b_sessions s) (b_online s) (b_offline s) (adel cid (b_wills s))
                              (aset cid (q_init false v5 cmax q) (b_queues s)) (b_unacks s) s, [], true)
              | _, _ => (s, [], false)
              end
            else
              let s1 := remove_session cid s in
              match aget cid (b_wills s1) with
              | Some (w, _) =>
                  let s2 := set_tables (b_sessions s1) (b_online s1) (b_offline s1) (adel cid (b_wills s1)) (b_queues s1) (b_unacks s1) s1 in
                  (s2, [(cid, w)], false)
              | None => (s1, [], false)
              end
        | None => (s, [], false)
        end in
      let s :=
        if resume then s
        else set_tables (b_sessions s) (b_online s) (b_offline s) (b_wills s)
                        (aset cid (q_init true v5 cmax (q_new (c_max_queued cfg_) (c_inflight_expiry cfg_ * 1000))) (b_queues s))
                        (aset cid [] (b_unacks s)) s in
      let will := match cn_will cn with Some w => Some (will_msg w) | None => None end in
      let '(wdelay, expiry) :=
        if negb v5 && negb (cn_clean cn) then (0, c_session_expiry cfg_)
        else if v5 then (match cn_will cn with Some w => opt_or (p_willdelay (w_props w)) 0 | None => 0 end, sess_exp)
        else (0, 0) in
      let se := {| se_will := will; se_will_delay := wdelay; se_connected_at := b_now s; se_expiry := expiry |} in
      let k := {| k_cid := cid; k_v := v; k_phase := PhConnected; k_max_inflight := max_inflight;
                  k_client_max_packet := cmax; k_client_alias_max := camax; k_server_alias_max := c_alias_max cfg_;
                  k_recv_max := c_recv_max cfg_; k_keepalive := if v5 then ka else cn_keepalive cn;
                  k_session_expiry := sess_exp;
                  k_retain_avail := c_retain_avail cfg_; k_wildcard := c_wildcard cfg_; k_subid := c_subid cfg_;
                  k_shared := c_shared cfg_;
                  k_lim := lim_new max_inflight; k_held := None; k_alias_out := am_new camax; k_alias_in := [];
                  k_alias_in_size := c_alias_max cfg_ + 1;
                  k_quota := c_recv_max cfg_; k_clean_will := false; k_disc_sei := None; k_got_disconnect := false;
                  k_force_remove := false; k_drained := false |} in
      let s := set_tables (aset cid se (b_sessions s)) (aset cid c (b_online s)) (adel cid (b_offline s)) (b_wills s)
                          (b_queues s) (b_unacks s) (upd_conn c k s) in
      let props := if v5 then
                     [PSei sess_exp; PRecvMax (c_recv_max cfg_); PMaxQos (if 2 <=? c_max_qos cfg_ then 1 else 0);
                      PRetainAvail (if c_retain_avail cfg_ then 1 else 0); PAliasMax (c_alias_max cfg_);
                      PWildcard (if c_wildcard cfg_ then 1 else 0); PSubIdAvail (if c_subid cfg_ then 1 else 0);
                      PSharedAvail (if c_shared cfg_ then 1 else 0); PMaxPkt (c_max_packet cfg_); PKeepAlive ka] ++
                     (if assigned then [PAssigned cid] else [])
                   else [] in
      (* the will of the discarded session is published by its timer goroutine once the broker lock is free *)
      let '(s, o_w) := fold_left (fun acc cw => let '(s0, o0) := acc in
                                                let '(s', o') := send_will (fst cw) (snd cw) s0 in (s', o0 ++ o'))
                                 o_will (s, []) in
      (s, o_dup ++ [OSend c (KConnack resume 0 props)] ++ o_w).

(* ---------- the poll loop of one connection (pollMessageHandler / writeLoop) ---------- *)

Definition msg_props (v5 : bool) (m : msg) : list prop :=
  if v5 then
    (if m_pfmt m =? 1 then [PPfmt 1] else []) ++
    (if m_expiry m =? 0 then [] else [PMsgExpiry (m_expiry m)]) ++
    (match m_ctype m with [] => [] | x => [PCtype x] end) ++
    (match m_resp m with [] => [] | x => [PResp x] end) ++
    (match m_corr m with [] => [] | x => [PCorr x] end) ++
    map PSubId (m_subids m) ++ map (fun kv => PUser (fst kv) (snd kv)) (m_uprops m)
  else [].

(* writeLoop for a PUBLISH: topic alias rewriting *)
Definition write_publish (c : N) (k : conn) (m : msg) : conn * list out :=
  let v5 := k_v k =? 5 in
  (* an alias is used only if the packet still fits the client's Maximum Packet Size with the property added (+5) *)
  if v5 && (0 <? k_client_alias_max k) && (msg_total_bytes true m + 5 <=? k_client_max_packet k) then
    match am_check (m_topic m) (k_alias_out k) with
    | (am', AOk a ex) =>
        let k' := {| k_cid := k_cid k; k_v := k_v k; k_phase := k_phase k; k_max_inflight := k_max_inflight k;
                     k_client_max_packet := k_client_max_packet k; k_client_alias_max := k_client_alias_max k;
                     k_server_alias_max := k_server_alias_max k; k_recv_max := k_recv_max k; k_keepalive := k_keepalive k;
                     k_session_expiry := k_session_expiry k; k_retain_avail := k_retain_avail k; k_wildcard := k_wildcard k;
                     k_subid := k_subid k; k_shared := k_shared k; k_lim := k_lim k; k_held := k_held k;
                     k_alias_out := am'; k_alias_in := k_alias_in k; k_alias_in_size := k_alias_in_size k;
                     k_quota := k_quota k; k_clean_will := k_clean_will k; k_disc_sei := k_disc_sei k;
                     k_got_disconnect := k_got_disconnect k; k_force_remove := k_force_remove k; k_drained := k_drained k |} in
        (k', [OSend c (KPublish (m_dup m) (m_qos m) (m_retained m) (if ex then [] else m_topic m) (m_payload m) (m_pid m)
                                (msg_props true m ++ (if a =? 0 then [] else [PAlias a])))])
    | (_, APanic) => (k, [])
    end
  else (k, [OSend c (KPublish (m_dup m) (m_qos m) (m_retained m) (m_topic m) (m_payload m) (m_pid m) (msg_props v5 m))]).

Definition set_lim_held (l : lim) (h : option (list N)) (dr : bool) (k : conn) : conn :=
  {| k_cid := k_cid k; k_v := k_v k; k_phase := k_phase k; k_max_inflight := k_max_inflight k;
     k_client_max_packet := k_client_max_packet k; k_client_alias_max := k_client_alias_max k;
     k_server_alias_max := k_server_alias_max k; k_recv_max := k_recv_max k; k_keepalive := k_keepalive k;
     k_session_expiry := k_session_expiry k; k_retain_avail := k_retain_avail k; k_wildcard := k_wildcard k;
     k_subid := k_subid k; k_shared := k_shared k; k_lim := l; k_held := h;
     k_alias_out := k_alias_out k; k_alias_in := k_alias_in k; k_alias_in_size := k_alias_in_size k;
     k_quota := k_quota k; k_clean_will := k_clean_will k; k_disc_sei := k_disc_sei k;
     k_got_disconnect := k_got_disconnect k; k_force_remove := k_force_remove k; k_drained := dr |}.

Definition with_expiry_val (x : N) (m : msg) : msg :=
  {| m_dup := m_dup m; m_qos := m_qos m; m_retained := m_retained m; m_topic := m_topic m; m_payload := m_payload m;
     m_pid := m_pid m; m_ctype := m_ctype m; m_corr := m_corr m; m_expiry := x; m_pfmt := m_pfmt m;
     m_resp := m_resp m; m_subids := m_subids m; m_uprops := m_uprops m |}.

Definition as_dup (m : msg) : msg :=
  {| m_dup := true; m_qos := m_qos m; m_retained := m_retained m; m_topic := m_topic m; m_payload := m_payload m;
     m_pid := m_pid m; m_ctype := m_ctype m; m_corr := m_corr m; m_expiry := m_expiry m; m_pfmt := m_pfmt m;
     m_resp := m_resp m; m_subids := []; m_uprops := m_uprops m |}.

(* the Message Expiry Interval forwarded to a v5 subscriber: what is left of it, at least 1 *)
Definition remaining (orig waited : N) : N := if waited <? orig then orig - waited else 1.

(* publishWithRemainingExpiry *)
Definition aged (v5 : bool) (now : N) (e : elem) (m : msg) : msg :=
  if v5 && negb (m_expiry m =? 0) then with_expiry_val (remaining (m_expiry m) ((now - e_at e) / 1000)) m else m.

(* one turn of the poll loop; returns None when the loop is parked *)
Definition poll_once (c : N) (s : st) : option (st * list out) :=
  match nget c (b_conns s) with
  | None => None
  | Some k =>
      match k_phase k with
      | PhConnected | PhZombie =>
          match aget (k_cid k) (b_queues s) with
          | None => None
          | Some q =>
              if negb (k_drained k) then
                (* pollInflights *)
                let '(q', rs) := q_read_inflight (b_now s) (N.to_nat (k_max_inflight k)) q in
                let s1 := set_queues (aset (k_cid k) q' (b_queues s)) s in
                match rs with
                | [] => Some (upd_conn c (set_lim_held (k_lim k) (k_held k) true k) s1, [])
                | _ =>
                    let '(k', o) :=
                      fold_left (fun acc e =>
                                   let '(k0, o0) := acc in
                                   match e_body e with
                                   | QPub m =>
                                       let k1 := set_lim_held (lim_mark (m_pid m) (k_lim k0)) (k_held k0) (k_drained k0) k0 in
                                       let '(k2, o2) := write_publish c k1 (aged (k_v k0 =? 5) (b_now s) e (as_dup m)) in (k2, o0 ++ o2)
                                   | QRel p => (set_lim_held (lim_mark p (k_lim k0)) (k_held k0) (k_drained k0) k0, o0 ++ [OSend c (KPubrel p 0 [])])
                                   end) rs (k, []) in
                    (* the stored message keeps Dup and loses its subscription identifiers *)
                    let q'' := q_set (map (fun e => match e_body e with
                                                    | QPub m => if existsb (fun r => e_tag r =? e_tag e) rs
                                                                then with_body (QPub (as_dup m)) e else e
                                                    | QRel _ => e
                                                    end) (q_l q')) (q_cur q') (q_drained q') q' in
                    Some (upd_conn c k' (set_queues (aset (k_cid k) q'' (b_queues s1)) s1), o)
                end
              else
                match k_held k with
                | None =>
                    let max := if k_max_inflight k <? 100 then k_max_inflight k else 100 in
                    match lim_poll max (k_lim k) with
                    | (l', PIds ids) => Some (upd_conn c (set_lim_held l' (Some ids) true k) s, [])
                    | _ => None
                    end
                | Some ids =>
                    match q_read (b_now s) ids q with
                    | QOk (q', rs, evs) =>
                        let used := length (filter (fun e => match e_body e with QPub m => negb (m_qos m =? 0) | QRel _ => false end) rs) in
                        let l' := lim_batch_release (skipn used ids) (k_lim k) in
                        let v5 := k_v k =? 5 in
                        (* the PUBLISH carries the remaining lifetime; the stored message keeps the original interval *)
                        let rs' := map (fun e => match e_body e with
                                                 | QPub m => with_body (QPub (aged v5 (b_now s) e m)) e
                                                 | QRel _ => e
                                                 end) rs in
                        let q'' := q' in
                        let '(k', o) :=
                          fold_left (fun acc e =>
                                       let '(k0, o0) := acc in
                                       match e_body e with
                                       | QPub m => let '(k1, o1) := write_publish c k0 m in (k1, o0 ++ o1)
                                       | QRel _ => (k0, o0)
                                       end) rs' (set_lim_held l' None true k, []) in
                        Some (upd_conn c k' (set_queues (aset (k_cid k) q'' (b_queues s)) s), drops_of (k_cid k) evs ++ o)
                    | _ => None
                    end
                end
          end
      | _ => None
      end
  end.

Fixpoint poll_conn (fuel : nat) (c : N) (s : st) : st * list out :=
  match fuel with
  | O => (s, [])
  | S f => match poll_once c s with
           | Some (s', o) =>
               (* a zombie's poll loop keeps consuming its queue, but client.write drops everything *)
               let o := match nget c (b_conns s) with
                        | Some k => match k_phase k with
                                    | PhZombie => filter (fun x => match x with OSend _ _ => false | _ => true end) o
                                    | _ => o
                                    end
                        | None => o
                        end in
               let '(s'', o') := poll_conn f c s' in (s'', o ++ o')
           | None => (s, [])
           end
  end.

Definition poll_all (s : st) : st * list out :=
  fold_left (fun acc ck => let '(s0, o0) := acc in
                           let '(s', o') := poll_conn 400 (fst ck) s0 in (s', o0 ++ o'))
            (b_conns s) (s, []).

(* ---------- packet handlers ---------- *)

Definition set_quota (q : N) (k : conn) : conn :=
  {| k_cid := k_cid k; k_v := k_v k; k_phase := k_phase k; k_max_inflight := k_max_inflight k;
     k_client_max_packet := k_client_max_packet k; k_client_alias_max := k_client_alias_max k;
     k_server_alias_max := k_server_alias_max k; k_recv_max := k_recv_max k; k_keepalive := k_keepalive k;
     k_session_expiry := k_session_expiry k; k_retain_avail := k_retain_avail k; k_wildcard := k_wildcard k;
     k_subid := k_subid k; k_shared := k_shared k; k_lim := k_lim k; k_held := k_held k;
     k_alias_out := k_alias_out k; k_alias_in := k_alias_in k; k_alias_in_size := k_alias_in_size k;
     k_quota := q; k_clean_will := k_clean_will k; k_disc_sei := k_disc_sei k;
     k_got_disconnect := k_got_disconnect k; k_force_remove := k_force_remove k; k_drained := k_drained k |}.

Definition set_alias_in (a : list (N * str)) (k : conn) : conn :=
  {| k_cid := k_cid k; k_v := k_v k; k_phase := k_phase k; k_max_inflight := k_max_inflight k;
     k_client_max_packet := k_client_max_packet k; k_client_alias_max := k_client_alias_max k;
     k_server_alias_max := k_server_alias_max k; k_recv_max := k_recv_max k; k_keepalive := k_keepalive k;
     k_session_expiry := k_session_expiry k; k_retain_avail := k_retain_avail k; k_wildcard := k_wildcard k;
     k_subid := k_subid k; k_shared := k_shared k; k_lim := k_lim k; k_held := k_held k;
     k_alias_out := k_alias_out k; k_alias_in := a; k_alias_in_size := k_alias_in_size k;
     k_quota := k_quota k; k_clean_will := k_clean_will k; k_disc_sei := k_disc_sei k;
     k_got_disconnect := k_got_disconnect k; k_force_remove := k_force_remove k; k_drained := k_drained k |}.

Definition set_disc (clean_will : bool) (sei : option N) (k : conn) : conn :=
  {| k_cid := k_cid k; k_v := k_v k; k_phase := k_phase k; k_max_inflight := k_max_inflight k;
     k_client_max_packet := k_client_max_packet k; k_client_alias_max := k_client_alias_max k;
     k_server_alias_max := k_server_alias_max k; k_recv_max := k_recv_max k; k_keepalive := k_keepalive k;
     k_session_expiry := k_session_expiry k; k_retain_avail := k_retain_avail k; k_wildcard := k_wildcard k;
     k_subid := k_subid k; k_shared := k_shared k; k_lim := k_lim k; k_held := k_held k;
     k_alias_out := k_alias_out k; k_alias_in := k_alias_in k; k_alias_in_size := k_alias_in_size k;
     k_quota := k_quota k; k_clean_will := clean_will; k_disc_sei := sei;
     k_got_disconnect := true; k_force_remove := k_force_remove k; k_drained := k_drained k |}.

Definition set_force (k : conn) : conn :=
  {| k_cid := k_cid k; k_v := k_v k; k_phase := k_phase k; k_max_inflight := k_max_inflight k;
     k_client_max_packet := k_client_max_packet k; k_client_alias_max := k_client_alias_max k;
     k_server_alias_max := k_server_alias_max k; k_recv_max := k_recv_max k; k_keepalive := k_keepalive k;
     k_session_expiry := k_session_expiry k; k_retain_avail := k_retain_avail k; k_wildcard := k_wildcard k;
     k_subid := k_subid k; k_shared := k_shared k; k_lim := k_lim k; k_held := k_held k;
     k_alias_out := k_alias_out k; k_alias_in := k_alias_in k; k_alias_in_size := k_alias_in_size k;
     k_quota := k_quota k; k_clean_will := k_clean_will k; k_disc_sei := k_disc_sei k;
     k_got_disconnect := k_got_disconnect k; k_force_remove := true; k_drained := k_drained k |}.

(* a handler result: continue, or the connection dies with this reason code (None = plain error) *)
Inductive hres := HOk (s : st) (o : list out) | HErr (s : st) (o : list out) (code : option N) | HErrRead (s : st) (code : option N).

Definition msg_of_publish (v5 : bool) (dup : bool) (qos : N) (retain : bool) (topic payload : str) (pid : N) (props : list prop) : msg :=
  {| m_dup := dup; m_qos := qos; m_retained := retain; m_topic := topic; m_payload := payload; m_pid := 0;
     m_ctype := if v5 then opt_or (p_ctype props) [] else [];
     m_corr := if v5 then opt_or (p_corr props) [] else [];
     m_expiry := if v5 then opt_or (p_msgexpiry props) 0 else 0;
     m_pfmt := if v5 then opt_or (p_pfmt props) 0 else 0;
     m_resp := if v5 then opt_or (p_resp props) [] else [];
     m_subids := []; m_uprops := if v5 then p_users props else [] |}.

Definition with_topic (t : str) (m : msg) : msg :=
  {| m_dup := m_dup m; m_qos := m_qos m; m_retained := m_retained m; m_topic := t; m_payload := m_payload m;
     m_pid := m_pid m; m_ctype := m_ctype m; m_corr := m_corr m; m_expiry := m_expiry m; m_pfmt := m_pfmt m;
     m_resp := m_resp m; m_subids := m_subids m; m_uprops := m_uprops m |}.

Definition rewrite_msg (t p : str) (q : N) (m : msg) : msg :=
  {| m_dup := m_dup m; m_qos := rw_qos q; m_retained := rw_retain q (m_retained m); m_topic := t; m_payload := p;
     m_pid := m_pid m; m_ctype := m_ctype m; m_corr := m_corr m; m_expiry := m_expiry m; m_pfmt := m_pfmt m;
     m_resp := m_resp m; m_subids := m_subids m; m_uprops := m_uprops m |}.

(* publishHandler *)
Definition handle_publish (c : N) (k : conn) (dup : bool) (qos : N) (retain : bool) (topic payload : str) (pid : N)
                          (props : list prop) (s : st) : hres :=
  let v5 := k_v k =? 5 in
  if negb (k_retain_avail k) && retain then HErr s [] (Some 154)
  else
    let m0 := msg_of_publish v5 dup qos retain topic payload pid props in
    (* topic alias *)
    let alias_res : option (conn * msg) + N :=
      match (if v5 then p_alias props else None) with
      | None => inl (Some (k, m0))
      | Some a =>
          if (a =? 0) || (k_server_alias_max k <? a) then inr 148
          else
            match topic with
            | [] => match nget a (k_alias_in k) with
                    | Some name => match name with [] => inr 148 | _ => inl (Some (k, with_topic name m0)) end
                    | None => inr 148
                    end
            | _ => inl (Some (set_alias_in (nset a topic (k_alias_in k)) k, m0))
            end
      end in
    match alias_res with
    | inr code => HErr s [] (Some code)
    | inl None => HErr s [] None
    | inl (Some (k, m)) =>
        let s := upd_conn c k s in
        (* QoS 2 duplicate detection *)
        let '(s, isdup) :=
          if qos =? 2 then
            let u := opt_or (aget (k_cid k) (b_unacks s)) [] in
            let '(u', ex) := unack_set pid u in
            let s := set_unacks (aset (k_cid k) u' (b_unacks s)) s in
            (* a retransmission gives back the quota unit the read loop charged *)
            let s := if ex && v5 then
                       match nget c (b_conns s) with
                       | Some k1 => if k_quota k1 <? k_recv_max k1 then upd_conn c (set_quota (k_quota k1 + 1) k1) s else s
                       | None => s
                       end
                     else s in
            (s, ex)
          else (s, false) in
        let action := if h_msg_on (b_hooks s) then opt_or (aget (m_topic m) (h_msg (b_hooks s))) MAccept else MAccept in
        let '(s, o, matched, err) :=
          if isdup then (s, [], false, None)
          else
            match action with
            | MReject code => (s, [], false, Some code)
            | MDrop => (s, [], false, None)
            | MAccept => let '(s', o, mt) := deliver (k_cid k) m (retain_update m s) in (s', o, mt, None)
            | MRewrite t p q => let m' := rewrite_msg t p q m in
                                let '(s', o, mt) := deliver (k_cid k) m' (retain_update m' s) in (s', o, mt, None)
            end in
        let code := if v5 then match err with Some cd => cd | None => if matched then 0 else 16 end else 0 in
        let s := if (qos =? 2) && (128 <=? code)
                 then set_unacks (aset (k_cid k) (unack_remove pid (opt_or (aget (k_cid k) (b_unacks s)) [])) (b_unacks s)) s
                 else s in
        let ack := if qos =? 1 then [OSend c (KPuback pid code [])]
                   else if qos =? 2 then [OSend c (KPubrec pid code [])] else [] in
        (* writeLoop gives the receive quota back when it writes the ack *)
        let s := match nget c (b_conns s) with
                 | Some k1 =>
                     if v5 && ((qos =? 1) || ((qos =? 2) && (128 <=? code))) && (k_quota k1 <? k_recv_max k1)
                     then upd_conn c (set_quota (k_quota k1 + 1) k1) s else s
                 | None => s
                 end in
        HOk s (o ++ ack)
    end.

Definition sub_of_req (t : topic_req) (id : N) : sub :=
  let '(g, f) := split_topic (tq_name t) in
  {| s_share := g; s_filter := f; s_id := id; s_qos := tq_qos t; s_nl := tq_nl t; s_rap := tq_rap t; s_rh := tq_rh t |}.

Definition has_wildcard (f : str) : bool := existsb (fun c => (c =? PLUS) || (c =? HASH)) f.

(* the retained messages queued for a new subscription *)
Definition replay_retained (c : N) (k : conn) (sb : sub) (s : st) : st * list out :=
  fold_left (fun acc m =>
               let '(s0, o0) := acc in
               match aget (k_cid k) (b_queues s0) with
               | None => (s0, o0)
               | Some q =>
                   let qos := if s_qos sb <? m_qos m then s_qos sb else m_qos m in
                   (* as coded (and as the repository's own tests demand): RETAIN survives only under Retain-As-Published *)
                   (* the replayed copy carries the identifier of the subscription that caused it (it replaces whatever was stored) *)
                   let m' := if s_id sb =? 0 then with_qos_etc m qos [] (m_retained m && s_rap sb)
                             else with_qos_etc (as_dup m) qos [s_id sb] (m_retained m && s_rap sb) in
                   let expiry := if m_expiry m =? 0 then None else Some (b_now s0 + m_expiry m * 1000) in
                   let e := {| e_tag := b_tag s0; e_at := b_now s0; e_expiry := expiry; e_body := QPub m' |} in
                   match q_add (b_now s0) e q with
                   | QOk (q', evs) =>
                       (release_dropped (k_cid k) evs (set_picks_tag (b_picks s0) (b_tag s0 + 1) (set_queues (aset (k_cid k) q' (b_queues s0)) s0)),
                        o0 ++ drops_of (k_cid k) evs)
                   | _ => (s0, o0)
                   end
               end)
            (rdb_matched (s_filter sb) (b_ret s)) (s, []).

(* subReq.Subscriptions is a map keyed by the topic name: when a SUBSCRIBE lists a name twice, every
   entry of that name is processed with the options of the last one *)
Fixpoint last_with_name (name : str) (l : list topic_req) (d : topic_req) : topic_req :=
  match l with
  | [] => d
  | t :: r => last_with_name name r (if str_eqb (tq_name t) name then t else d)
  end.

(* subscribeHandler *)
Definition handle_subscribe (c : N) (k : conn) (pid : N) (props : list prop) (topics : list topic_req) (s : st) : hres :=
  let v5 := k_v k =? 5 in
  let subid := if v5 && k_subid k then match p_subids props with i :: _ => i | [] => 0 end else 0 in
  if v5 && negb (c_subid (b_cfg s)) && negb (subid =? 0) then HErr s [] (Some 161)
  else
    match h_sub_all (b_hooks s) with
    | Some code =>
        HOk s [OSend c (KSuback pid (map (fun _ => if v5 then code else 128) topics) [])]
    | None =>
        let '(s, o, codes) :=
          fold_left
            (fun acc t =>
               let '(s0, o0, cs) := acc in
               let t_eff := last_with_name (tq_name t) topics t in
               let sb0 := sub_of_req t_eff subid in
               let action := opt_or (match find (fun e => str_eqb (fst (fst e)) (k_cid k) && str_eqb (snd (fst e)) (tq_name t)) (h_sub (b_hooks s0)) with
                                     | Some e => Some (snd e) | None => None end) SAccept in
               let sb := match action with
                         | SQos q => {| s_share := s_share sb0; s_filter := s_filter sb0; s_id := s_id sb0; s_qos := q;
                                        s_nl := s_nl sb0; s_rap := s_rap sb0; s_rh := s_rh sb0 |}
                         | _ => sb0
                         end in
               let shared := negb (is_empty (s_share sb)) in
               let code := s_qos sb in
               let code := if v5 && shared && negb (k_shared k) then 158 else code in
               let code := if v5 && negb (k_subid k) && negb (subid =? 0) then 161 else code in
               let code := if v5 && negb (k_wildcard k) && has_wildcard (s_filter sb) then 162 else code in
               let code := match action with SReject cd => if v5 then cd else 128 | _ => code end in
               if code <? 128 then
                 let '(d', existed) := db_subscribe (k_cid k) sb (b_subs s0) in
                 let s1 := set_subs d' s0 in
                 let '(s2, o2) :=
                   if negb shared && ((negb existed && negb (tq_rh t =? 2)) || (tq_rh t =? 0))
                   then replay_retained c k sb s1 else (s1, []) in
                 (s2, o0 ++ o2, cs ++ [code])
               else (s0, o0, cs ++ [code]))
            topics (s, [], []) in
        HOk s (o ++ [OSend c (KSuback pid codes [])])
    end.

(* unsubscribeHandler *)
Definition handle_unsubscribe (c : N) (k : conn) (pid : N) (topics : list str) (s : st) : hres :=
  let d := fold_left (fun d t => db_unsubscribe (k_cid k) t d) topics (b_subs s) in
  HOk (set_subs d s) [OSend c (KUnsuback pid (if k_v k =? 5 then map (fun _ => 0) topics else []) [])].

Definition queue_op (cid : str) (f : queue -> queue) (s : st) : st :=
  match aget cid (b_queues s) with
  | Some q => set_queues (aset cid (f q) (b_queues s)) s
  | None => s
  end.

Definition release_id (c : N) (pid : N) (s : st) : st :=
  match nget c (b_conns s) with
  | Some k => upd_conn c (set_lim_held (lim_release pid (k_lim k)) (k_held k) (k_drained k) k) s
  | None => s
  end.

(* readLoop + readHandle for one packet on a connected socket *)
Definition handle_packet (c : N) (k : conn) (p : pkt) (s : st) : hres :=
  let v5 := k_v k =? 5 in
  match p with
  | KPublish dup qos retain topic payload pid props =>
      (* the decoder rejects a topic name with wildcard characters (malformed packet: the read loop ends) *)
      if has_wild topic then HErrRead s (Some 129) else
      (* ... a Topic Alias property with value 0 (0x94, from the property decoder) *)
      if v5 && match p_alias props with Some a => a =? 0 | None => false end then HErrRead s (Some 148) else
      (* ... and an empty topic name unless a v5 Topic Alias stands in for it (protocol error) *)
      if is_empty topic && negb (v5 && match p_alias props with Some _ => true | None => false end) then HErrRead s (Some 130) else
      (* readLoop: receive quota *)
      if v5 && (0 <? qos) && (k_quota k =? 0) then HErrRead s (Some 147)
      else
        let k := if v5 && (0 <? qos) then set_quota (k_quota k - 1) k else k in
        handle_publish c k dup qos retain topic payload pid props (upd_conn c k s)
  | KSubscribe pid props topics =>
      if forallb (fun t => let '(g, f) := split_topic (tq_name t) in valid_filter_spec f) topics
      then handle_subscribe c k pid props topics s else HErrRead s (Some 129)
  | KUnsubscribe pid _ topics => handle_unsubscribe c k pid topics s
  | KPuback pid _ _ =>
      HOk (release_id c pid (queue_op (k_cid k) (fun q => fst (q_remove pid q)) s)) []
  | KPubrec pid code _ =>
      if v5 && (128 <=? code)
      then HOk (release_id c pid (queue_op (k_cid k) (fun q => fst (q_remove pid q)) s)) []
      else
        let e := {| e_tag := 0; e_at := b_now s; e_expiry := None; e_body := QRel pid |} in
        HOk (queue_op (k_cid k) (fun q => fst (q_replace e q)) s) [OSend c (KPubrel pid 0 [])]
  | KPubrel pid _ _ =>
      let u := opt_or (aget (k_cid k) (b_unacks s)) [] in
      let s := set_unacks (aset (k_cid k) (unack_remove pid u) (b_unacks s)) s in
      let s := match nget c (b_conns s) with
               | Some k1 => if v5 && (k_quota k1 <? k_recv_max k1) then upd_conn c (set_quota (k_quota k1 + 1) k1) s else s
               | None => s
               end in
      HOk s [OSend c (KPubcomp pid 0 [])]
  | KPubcomp pid _ _ =>
      HOk (release_id c pid (queue_op (k_cid k) (fun q => fst (q_remove pid q)) s)) []
  | KPingreq => HOk s [OSend c KPingresp]
  | KDisconnect code props =>
      if v5 then
        let sei := p_sei props in
        match aget (k_cid k) (b_sessions s) with
        | Some se =>
            (* the handler's error is dropped by readHandle (`return` before err is set): no DISCONNECT is sent,
               and the request is not recorded (the will stays armed) *)
            if (se_expiry se =? 0) && negb (opt_or sei 0 =? 0) then HErr s [] None
            else
              (* SetSessionExpiry on the stored session *)
              let s := match sei with
                       | Some x => if x =? 0 then s else
                                     set_tables (aset (k_cid k) {| se_will := se_will se; se_will_delay := se_will_delay se;
                                                                   se_connected_at := se_connected_at se;
                                                                   se_expiry := N.min x (c_session_expiry (b_cfg s)) |} (b_sessions s))
                                                (b_online s) (b_offline s) (b_wills s) (b_queues s) (b_unacks s) s
                       | None => s
                       end in
              HErr (upd_conn c (set_disc (negb (code =? 4)) sei k) s) [] None
        | None => HErr s [] None
        end
      else HErr (upd_conn c (set_disc true None k) s) [] None
  | KAuth _ _ => HErr s [] (Some 130)
  | _ => HErr s [] (Some 130)
  end.

(* ---------- events ---------- *)
Inductive event :=
| EConnect (c : N) (cn : connect)
| EOpen (c : N)
| ESend (c : N) (p : pkt)
| ESendSz (c : N) (p : pkt) (n : N)     (* the same, with the size of the packet on the wire (an observed fact, like time) *)
| EClose (c : N)
| EApiPublish (m : msg)
| ETerminate (cid : str)
| EAdvance (ms : N)
| EExpireCheck
| ESleep (ms : N)
| EInspect.

(* delayed wills whose timer has fired *)
Definition fire_wills (s : st) : st * list out :=
  fold_left (fun acc w =>
               let '(s0, o0) := acc in
               let '(cid, (m, at_)) := w in
               if at_ <=? b_rt s0 then
                 match aget cid (b_wills s0) with
                 | Some _ =>
                     let s1 := set_tables (b_sessions s0) (b_online s0) (b_offline s0) (adel cid (b_wills s0)) (b_queues s0) (b_unacks s0) s0 in
                     let '(s2, o2) := send_will cid m s1 in (s2, o0 ++ o2)
                 | None => (s0, o0)
                 end
               else (s0, o0))
            (b_wills s) (s, []).

(* readHandle refuses a packet of a v5 client that is larger than the server's Maximum Packet Size (0x95); the read
   loop has decoded it and charged the receive quota before *)
Definition too_big (k : conn) (n : N) (s : st) : bool :=
  (k_v k =? 5) && (0 <? c_max_packet (b_cfg s)) && (c_max_packet (b_cfg s) <? n).

Definition handle_packet_sz (c : N) (k : conn) (p : pkt) (n : N) (s : st) : hres :=
  if too_big k n s then
    match p with
    | KPublish dup qos retain topic payload pid props =>
        if has_wild topic then HErrRead s (Some 129) else
        if match p_alias props with Some a => a =? 0 | None => false end then HErrRead s (Some 148) else
        if is_empty topic && negb (match p_alias props with Some _ => true | None => false end) then HErrRead s (Some 130) else
        if (0 <? qos) && (k_quota k =? 0) then HErrRead s (Some 147)
        else
          let k' := if 0 <? qos then set_quota (k_quota k - 1) k else k in
          HErr (upd_conn c k' s) [] (Some 149)
    | KSubscribe pid props topics =>
        if forallb (fun t => let '(g, f) := split_topic (tq_name t) in valid_filter_spec f) topics
        then HErr s [] (Some 149) else HErrRead s (Some 129)
    | _ => HErr s [] (Some 149)
    end
  else handle_packet c k p s.

(* a packet on a socket that is not (or no longer) connected: only the read loop looks at it *)
Definition send_unconnected (c : N) (k : conn) (p : pkt) (s : st) : st * list out :=
  match k_phase k with
  | PhFresh =>
      (* before a successful CONNECT only CONNECT/AUTH are looked at: anything else is malformed;
         the client's version is still unknown, so the CONNACK is the 3.x form *)
      (upd_conn c (set_phase PhDead k) s, [OSend c (KConnack false 129 [])])
  | PhZombie =>
      (* the read loop still runs: receive quota is charged and can end the connection *)
      match p with
      | KPublish _ qos _ _ _ _ _ =>
          if (k_v k =? 5) && (0 <? qos) then
            if k_quota k =? 0 then conn_gone c s
            else (upd_conn c (set_quota (k_quota k - 1) k) s, [])
          else (s, [])
      | _ => (s, [])
      end
  | PhDead =>
      (* CONNECT was refused but the read loop still runs; the receive quota of a v5 connection was never set (0),
         so a QoS>0 PUBLISH ends the read loop and the socket is closed without a packet *)
      match p with
      | KPublish _ qos _ _ _ _ _ => if (k_v k =? 5) && (0 <? qos) then conn_gone c s else (s, [])
      | _ => (s, [])
      end
  | _ => (s, [])
  end.

Definition step_event (s : st) (e : event) : st * list out :=
  match e with
  | EConnect c cn =>
      let '(s0, o0) := conn_gone c s in
      let '(s1, o1) := handle_connect c cn s0 in
      (s1, filter (fun x => match x with OClose c' => negb (c' =? c) | _ => true end) o0 ++ o1)
  | EOpen c => let '(s0, o0) := conn_gone c s in (upd_conn c (fresh_conn [] 0) s0, o0)
  | ESend c p =>
      match nget c (b_conns s) with
      | Some k =>
          match k_phase k with
          | PhConnected =>
              match handle_packet c k p s with
              | HOk s' o => (s', o)
              | HErr s' o code => let '(s'', o') := fail_conn c code false s' in (s'', o ++ o')
              | HErrRead s' code => fail_conn c code true s'
              end
          | _ => send_unconnected c k p s
          end
      | None => (s, [])
      end
  | ESendSz c p n =>
      match nget c (b_conns s) with
      | Some k =>
          match k_phase k with
          | PhConnected =>
              match handle_packet_sz c k p n s with
              | HOk s' o => (s', o)
              | HErr s' o code => let '(s'', o') := fail_conn c code false s' in (s'', o ++ o')
              | HErrRead s' code => fail_conn c code true s'
              end
          | _ => send_unconnected c k p s
          end
      | None => (s, [])
      end
  | EClose c => let '(s', o) := conn_gone c s in (s', filter (fun x => match x with OClose _ => false | _ => true end) o)
  | EApiPublish m => let '(s', o, _) := deliver [] m s in (s', o)
  | ETerminate cid =>
      match aget cid (b_online s) with
      | Some c =>
          match nget c (b_conns s) with
          | Some k => conn_gone c (upd_conn c (set_force k) s)
          | None => (s, [])
          end
      | None => if ahas cid (b_offline s) then release_will cid (remove_session cid s) else (s, [])
      end
  | EAdvance ms => (set_time (b_now s + ms) (b_rt s) s, [])
  | EExpireCheck =>
      let expired := filter (fun cd => snd cd <? b_now s) (b_offline s) in
      let s1 := fold_left (fun s0 cd => remove_session (fst cd) s0) expired s in
      fold_left (fun acc cd => let '(s0, o0) := acc in
                               let '(s', o') := release_will (fst cd) s0 in (s', o0 ++ o'))
                expired (s1, [])
  | ESleep ms =>
      (* readLoop's deadline is keepAlive/2 + keepAlive seconds after the last packet; the harness pings every
         attached socket at the end of every step, so only the sleep itself can exceed it *)
      let s0 := set_time (b_now s + ms) (b_rt s + ms) s in
      let '(s1, o1) :=
        fold_left (fun acc ck => let '(sa, oa) := acc in
                                 let k := snd ck in
                                 match k_phase k with
                                 | PhConnected | PhZombie =>
                                     if (0 <? k_keepalive k) && ((k_keepalive k / 2 + k_keepalive k) * 1000 <? ms)
                                     then let '(sb, ob) := conn_gone (fst ck) sa in (sb, oa ++ ob) else (sa, oa)
                                 | _ => (sa, oa)
                                 end) (b_conns s0) (s0, []) in
      let '(s2, o2) := fire_wills s1 in (s2, o1 ++ o2)
  | EInspect => (s, [])
  end.

Definition step (s : st) (e : event) : st * list out :=
  let '(s1, o1) := step_event s e in
  let '(s2, o2) := poll_all s1 in
  (s2, o1 ++ o2).

Fixpoint run (s : st) (es : list event) : st * list (list out) :=
  match es with
  | [] => (s, [])
  | e :: r => let '(s', o) := step s e in
              let '(s'', os) := run s' r in (s'', o :: os)
  end.
