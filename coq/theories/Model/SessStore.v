(* The session store (persistence/session: Store interface; mem/store.go and redis/store.go) as the abstract
   machine both implementations have to be: a finite map client id -> session.  Executable definitions only
   (laws: Proofs/SessStoreP.v).  The correspondence check (suite rsess) drives the mem store and the redis store
   (over the RESP stand-in, with restarts of the store object) with generated histories and compares every answer
   with this machine; for the redis store the stored will travels through EncodeMessage / DecodeMessage
   (Model/PersistEnc.v) and the connect time is kept in whole seconds.

   A session: gmqtt.Session {ClientID, Will, WillDelayInterval, ConnectedAt, ExpiryInterval}. *)
From Coq Require Import List NArith Bool.
Import ListNotations.
From GM Require Import Base.Topic Base.Msg Model.SubTrie.
Open Scope N_scope.

Record sess := { ss_cid : str; ss_will : option msg; ss_delay : N; ss_at : N (* Unix seconds *); ss_expiry : N }.

Definition sstore := list (str * sess).      (* association list with distinct keys (SubTrie.aget/aset/adel) *)

Inductive ssop :=
| SsSet (s : sess)                  (* Set: insert or replace the session of s.ClientID *)
| SsGet (c : str)
| SsRemove (c : str)
| SsSetExpiry (c : str) (e : N)     (* SetSessionExpiry: changes the expiry of an existing session, nothing else *)
| SsIterate
| SsRestart.                        (* a new store object on the same backend (redis): nothing is lost; mem: not generated *)

Inductive ssout :=
| SoUnit
| SoGet (r : option sess)           (* None = no such session (a nil *Session, no error) *)
| SoIter (l : list sess).           (* every stored session once; order unspecified (compared sorted by client id) *)

Definition with_expiry_s (e : N) (s : sess) : sess :=
  {| ss_cid := ss_cid s; ss_will := ss_will s; ss_delay := ss_delay s; ss_at := ss_at s; ss_expiry := e |}.

Definition ss_step (st : sstore) (o : ssop) : sstore * ssout :=
  match o with
  | SsSet s => (aset (ss_cid s) s st, SoUnit)
  | SsGet c => (st, SoGet (aget c st))
  | SsRemove c => (adel c st, SoUnit)
  | SsSetExpiry c e =>
      (match aget c st with Some s => aset c (with_expiry_s e s) st | None => st end, SoUnit)
  | SsIterate => (st, SoIter (map snd st))
  | SsRestart => (st, SoUnit)
  end.

Fixpoint ss_run (st : sstore) (ops : list ssop) : sstore * list ssout :=
  match ops with
  | [] => (st, [])
  | o :: r => let '(st1, x) := ss_step st o in
              let '(st2, xs) := ss_run st1 r in (st2, x :: xs)
  end.

(* ---- comparison of answers (Iterate is a set) ---- *)
Definition optmsg_eqb (a b : option msg) : bool :=
  match a, b with Some x, Some y => msg_eqb x y | None, None => true | _, _ => false end.
Definition sess_eqb (a b : sess) : bool :=
  str_eqb (ss_cid a) (ss_cid b) && optmsg_eqb (ss_will a) (ss_will b) && N.eqb (ss_delay a) (ss_delay b) &&
  N.eqb (ss_at a) (ss_at b) && N.eqb (ss_expiry a) (ss_expiry b).

Definition iter_covers (want got : list sess) : bool :=
  forallb (fun w => existsb (sess_eqb w) got) want.
Definition ssout_eqb (m i : ssout) : bool :=
  match m, i with
  | SoUnit, SoUnit => true
  | SoGet None, SoGet None => true
  | SoGet (Some a), SoGet (Some b) => sess_eqb a b
  | SoIter a, SoIter b => Nat.eqb (length a) (length b) && iter_covers a b && iter_covers b a
  | _, _ => false
  end.

(* ---- the oracle of the store clauses, on the implementation's own answers: a Get answers the last session
   set for that id unless removed since (with the expiry last given), an id never set or removed since is
   answered `none`; Iterate lists exactly the ids that a Get would find.  It is the abstract machine again,
   kept separate so that the check reports `oracle` and `agree` independently. *)
Fixpoint ss_ok (st : sstore) (ops : list ssop) (outs : list ssout) : bool :=
  match ops, outs with
  | [], [] => true
  | o :: r, x :: xs => let '(st1, m) := ss_step st o in ssout_eqb m x && ss_ok st1 r xs
  | _, _ => false
  end.
