(* Model of persistence/queue/redis (redis.go): the per-session message queue kept in a redis
   list `queue:<client id>`.  The Go object holds only cursors (`len`, `current`), two flags and
   `readCache` (packet id -> stored bytes of the in-flight entry, used by Remove for LREM by
   value); everything else lives in the store (Model/Redis.v).  Every method returns the
   commands it issued, in order (reads are not listed).

   Differences from the memory queue that are part of this model: `len` and `current` are
   plain integers that are not re-validated against the list (they can disagree with it and
   `current` can go negative); Remove goes through `readCache`; pipelined commands are executed even when the method panics
   (redigo flushes pending commands when the connection is returned to the pool). *)
From Coq Require Import List NArith ZArith Bool Arith.
Import ListNotations.
From GM Require Import Base.Topic Base.Msg Model.SubTrie Model.Queue Model.Redis.
Open Scope N_scope.

Record rq := {
  rq_len : Z; rq_cur : Z; rq_drained : bool; rq_closed : bool;
  rq_max : Z; rq_limit : N; rq_v5 : bool; rq_ifexp : N;
  rq_cache : option (list (N * elem));      (* None = nil map (before the first Init) *)
  rq_key : str }.

Definition QUEUE_PREFIX : str := [113; 117; 101; 117; 101; 58].    (* "queue:" *)
Definition queue_key (c : str) : str := QUEUE_PREFIX ++ c.

Definition rq_new (max : nat) (ifexp : N) (c : str) : rq :=
  {| rq_len := 0; rq_cur := 0; rq_drained := false; rq_closed := false;
     rq_max := Z.of_nat max; rq_limit := 0; rq_v5 := false; rq_ifexp := ifexp;
     rq_cache := None; rq_key := queue_key c |}.

Definition rq_upd (q : rq) (len cur : Z) (drained : bool) (cache : option (list (N * elem))) : rq :=
  {| rq_len := len; rq_cur := cur; rq_drained := drained; rq_closed := rq_closed q;
     rq_max := rq_max q; rq_limit := rq_limit q; rq_v5 := rq_v5 q; rq_ifexp := rq_ifexp q;
     rq_cache := cache; rq_key := rq_key q |}.

Fixpoint elems_of (l : list blob) : list elem :=
  match l with
  | [] => []
  | BElem e :: r => e :: elems_of r
  | _ :: r => elems_of r
  end.

Fixpoint cache_get (p : N) (c : list (N * elem)) : option elem :=
  match c with [] => None | (k, v) :: r => if k =? p then Some v else cache_get p r end.
Fixpoint cache_del (p : N) (c : list (N * elem)) : list (N * elem) :=
  match c with [] => [] | (k, v) :: r => if k =? p then cache_del p r else (k, v) :: cache_del p r end.
Definition cache_set (p : N) (e : elem) (c : list (N * elem)) : list (N * elem) := (p, e) :: cache_del p c.

(* result of one method call *)
Record rqres := { r_store : rstore; r_q : rq; r_out : qout; r_cmds : list rcmd }.

Definition done (s : rstore) (q : rq) (o : qout) (cs : list rcmd) : rqres :=
  {| r_store := exec_all s cs; r_q := q; r_out := o; r_cmds := cs |}.

(* Init *)
Definition rq_init (clean v5 : bool) (limit : N) (s : rstore) (q : rq) : rqres :=
  let cs := if clean then [CDel (rq_key q)] else [] in
  let s' := exec_all s cs in
  {| r_store := s';
     r_q := {| rq_len := llen (rq_key q) s'; rq_cur := 0; rq_drained := false; rq_closed := false;
               rq_max := rq_max q; rq_limit := limit; rq_v5 := v5; rq_ifexp := rq_ifexp q;
               rq_cache := Some []; rq_key := rq_key q |};
     r_out := RUnit; r_cmds := cs |}.

Definition rq_close (s : rstore) (q : rq) : rqres :=
  {| r_store := s;
     r_q := {| rq_len := rq_len q; rq_cur := rq_cur q; rq_drained := rq_drained q; rq_closed := true;
               rq_max := rq_max q; rq_limit := rq_limit q; rq_v5 := rq_v5 q; rq_ifexp := rq_ifexp q;
               rq_cache := rq_cache q; rq_key := rq_key q |};
     r_out := RUnit; r_cmds := [] |}.

(* the loop of Add over LRANGE 0 len.  An entry is in flight iff it has a packet id (this
   also holds for the entries that await redelivery after Init, which are not in front of the
   read cursor, and for PUBREL entries).  State: index, the QoS0 candidate, the first queued
   element.  Result: how the loop ended. *)
Inductive addscan :=
| ASReturn (victim : elem) (r : dropreason) (back : bool)   (* return inside the loop; back: the victim is in front of the cursor *)
| ASPanic (cand : option elem)                       (* type assertion on a PUBREL entry without packet id *)
| ASEnd (cand : option elem) (front : option elem).

Fixpoint rq_add_scan (now : N) (cur : Z) (l : list elem) (i : Z) (cand front : option elem) : addscan :=
  match l with
  | [] => ASEnd cand front
  | e :: r =>
      if negb (e_id e =? 0) then
        if expired now e then ASReturn e DExpiredInflight (i <? cur)%Z
        else rq_add_scan now cur r (i + 1)%Z cand front
      else
        let front' := match front with None => Some e | Some _ => front end in
        match e_body e with
        | QRel _ => ASPanic cand
        | QPub m =>
            if expired now e then ASReturn e DExpired false
            else if (m_qos m =? 0) && (match cand with None => true | Some _ => false end)
                 then rq_add_scan now cur r (i + 1)%Z (Some e) front'
                 else rq_add_scan now cur r (i + 1)%Z cand front'
        end
  end.

(* the deferred part of Add: drop bookkeeping, LREM of the victim, RPUSH of the newcomer.
   The read cursor only moves when the dropped in-flight entry is in front of it *)
Definition cache_forget (d : elem) (cache : option (list (N * elem))) : option (list (N * elem)) :=
  match cache with
  | None => None
  | Some c => match cache_get (e_id d) c with
              | Some x => if elem_eqb x d then Some (cache_del (e_id d) c) else Some c
              | None => Some c
              end
  end.

Definition rq_add_finish (s : rstore) (q : rq) (e : elem) (victim : option elem) (r : dropreason) (back panic : bool) : rqres :=
  let cur' := if back then (rq_cur q - 1)%Z else rq_cur q in
  let pre := match r with DExpiredInflight => [EvInflight (-1)] | _ => [] end in
  match victim with
  | None =>
      done s (rq_upd q (rq_len q) cur' (rq_drained q) (rq_cache q))
           (if panic then RPanic else RAdd (pre ++ [EvDropped e r])) []
  | Some d =>
      (* a sacrificed in-flight entry also leaves the read cache (when the cache holds its very bytes) *)
      let cache' := match r with DExpiredInflight => cache_forget d (rq_cache q) | _ => rq_cache q end in
      done s (rq_upd q (rq_len q) cur' (rq_drained q) cache')
           (if panic then RPanic else RAdd (pre ++ [EvDropped d r]))
           [CLRem (rq_key q) (BElem d); CRPush (rq_key q) (BElem e)]
  end.

(* Add *)
Definition rq_add (now : N) (e : elem) (s : rstore) (q : rq) : rqres :=
  if (rq_max q <=? rq_len q)%Z then
    let l := elems_of (lrange (rq_key q) 0 (rq_len q) s) in
    match rq_add_scan now (rq_cur q) l 0 None None with
    | ASReturn d r back => rq_add_finish s q e (Some d) r back false
    | ASPanic cand => rq_add_finish s q e cand DFull false true
    | ASEnd cand front =>
        if rq_drained q && (rq_len q <=? rq_cur q)%Z then rq_add_finish s q e cand DFull false false
        else
          match cand with
          | Some d => rq_add_finish s q e (Some d) DFull false false
          | None =>
              match e_body e with
              | QRel _ => rq_add_finish s q e None DFull false true
              | QPub m =>
                  if m_qos m =? 0 then rq_add_finish s q e None DFull false false
                  else rq_add_finish s q e front DFull false false
              end
          end
    end
  else
    done s (rq_upd q (rq_len q + 1)%Z (rq_cur q) (rq_drained q) (rq_cache q)) (RAdd [EvQueue 1])
         [CRPush (rq_key q) (BElem e)].

(* Replace *)
Fixpoint find_id_z (pid : N) (l : list elem) (i : Z) : option Z :=
  match l with
  | [] => None
  | e :: r => if e_id e =? pid then Some i else find_id_z pid r (i + 1)%Z
  end.

Definition rq_replace (e : elem) (s : rstore) (q : rq) : rqres :=
  if (rq_cur q <=? 0)%Z then done s q (RReplace false) []      (* nothing delivered in this connection yet *)
  else
  let l := elems_of (lrange (rq_key q) 0 (rq_cur q - 1)%Z s) in
  match find_id_z (e_id e) l 0 with
  | Some k =>
      match rq_cache q with
      | None => done s q RPanic [CLSet (rq_key q) k (BElem e)]       (* assignment to entry in nil map *)
      | Some c => done s (rq_upd q (rq_len q) (rq_cur q) (rq_drained q) (Some (cache_set (e_id e) e c)))
                       (RReplace true) [CLSet (rq_key q) k (BElem e)]
      end
  | None => done s q (RReplace false) []
  end.

(* the loop of Read over the LRANGE result *)
Record readacc := {
  ra_len : Z; ra_cur : Z; ra_pids : list N; ra_dq : Z; ra_di : Z;
  ra_evs : list qev; ra_rs : list elem; ra_cmds : list rcmd; ra_cache : option (list (N * elem)) }.

Fixpoint rq_read_loop (now : N) (key : str) (limit : N) (v5 : bool) (ifexp : N) (l : list elem) (a : readacc)
  : readacc * bool (* panicked *) :=
  match l with
  | [] => (a, false)
  | v :: r =>
      if expired now v then
        rq_read_loop now key limit v5 ifexp r
          {| ra_len := (ra_len a - 1)%Z; ra_cur := ra_cur a; ra_pids := ra_pids a; ra_dq := (ra_dq a - 1)%Z; ra_di := ra_di a;
             ra_evs := ra_evs a ++ [EvDropped v DExpired]; ra_rs := ra_rs a;
             ra_cmds := ra_cmds a ++ [CLRem key (BElem v)]; ra_cache := ra_cache a |}
      else
        match e_body v with
        | QRel _ => (a, true)
        | QPub m =>
            if limit <? msg_total_bytes v5 m then
              rq_read_loop now key limit v5 ifexp r
                {| ra_len := (ra_len a - 1)%Z; ra_cur := ra_cur a; ra_pids := ra_pids a; ra_dq := (ra_dq a - 1)%Z; ra_di := ra_di a;
                   ra_evs := ra_evs a ++ [EvDropped v DExceedsMax]; ra_rs := ra_rs a;
                   ra_cmds := ra_cmds a ++ [CLRem key (BElem v)]; ra_cache := ra_cache a |}
            else if m_qos m =? 0 then
              rq_read_loop now key limit v5 ifexp r
                {| ra_len := (ra_len a - 1)%Z; ra_cur := ra_cur a; ra_pids := ra_pids a; ra_dq := (ra_dq a - 1)%Z; ra_di := ra_di a;
                   ra_evs := ra_evs a; ra_rs := ra_rs a ++ [v];
                   ra_cmds := ra_cmds a ++ [CLRem key (BElem v)]; ra_cache := ra_cache a |}
            else
              match ra_pids a with
              | [] => (a, true)                              (* pids[pflag]: index out of range *)
              | p :: pids' =>
                  let v' := with_body (QPub (set_pid p m)) v in
                  let v' := if ifexp =? 0 then v' else with_expiry (Some (now + ifexp)) v' in
                  let a' c :=
                    {| ra_len := ra_len a; ra_cur := (ra_cur a + 1)%Z; ra_pids := pids'; ra_dq := ra_dq a; ra_di := (ra_di a + 1)%Z;
                       ra_evs := ra_evs a; ra_rs := ra_rs a ++ [v'];
                       ra_cmds := ra_cmds a ++ [CLSet key (ra_cur a) (BElem v')]; ra_cache := c |} in
                  match ra_cache a with
                  | None => (a' None, true)                  (* assignment to entry in nil map *)
                  | Some c => rq_read_loop now key limit v5 ifexp r (a' (Some (cache_set p v' c)))
                  end
              end
        end
  end.

(* Read(pids) *)
Definition rq_read (now : N) (pids : list N) (s : rstore) (q : rq) : rqres :=
  if negb (rq_drained q) then done s q RPanic []
  else if rq_closed q then done s q RClosedErr []
  else if (rq_len q <=? rq_cur q)%Z then done s q RBlocked []
  else if (length pids =? 0)%nat then done s q (RRead [] [EvQueue 0; EvInflight 0]) []     (* no LRANGE cur cur-1 *)
  else
    let l := elems_of (lrange (rq_key q) (rq_cur q) (rq_cur q + Z.of_nat (length pids) - 1)%Z s) in
    let '(a, panicked) :=
      rq_read_loop now (rq_key q) (rq_limit q) (rq_v5 q) (rq_ifexp q) l
        {| ra_len := rq_len q; ra_cur := rq_cur q; ra_pids := pids; ra_dq := 0; ra_di := 0;
           ra_evs := []; ra_rs := []; ra_cmds := []; ra_cache := rq_cache q |} in
    let q' := rq_upd q (ra_len a) (ra_cur a) (rq_drained q) (ra_cache a) in
    if panicked then done s q' RPanic (ra_cmds a)
    else done s q' (RRead (ra_rs a) (ra_evs a ++ [EvQueue (ra_dq a); EvInflight (ra_di a)])) (ra_cmds a).

(* the loop of ReadInflight; each LSET is executed immediately *)
Fixpoint rq_rif_loop (now : N) (key : str) (ifexp : N) (l : list elem) (idx : Z) (cur : Z)
                     (cache : option (list (N * elem))) (rs : list elem) (cmds : list rcmd)
  : Z * option (list (N * elem)) * list elem * list rcmd * bool (* drained *) * bool (* panicked *) :=
  match l with
  | [] => (cur, cache, rs, cmds, false, false)
  | e :: r =>
      if e_id e =? 0 then (cur, cache, rs, cmds, true, false)
      else
        let e' := if ifexp =? 0 then e else with_expiry (Some (now + ifexp)) e in
        let cmds' := if ifexp =? 0 then cmds else cmds ++ [CLSet key idx (BElem e')] in
        match cache with
        | None => (cur, cache, rs ++ [e'], cmds', false, true)
        | Some c => rq_rif_loop now key ifexp r (idx + 1)%Z (cur + 1)%Z (Some (cache_set (e_id e) e' c)) (rs ++ [e']) cmds'
        end
  end.

(* ReadInflight(maxSize).  maxSize = 0 (repaired in /repo, 309d247): nothing is read and no command
   is issued - LRANGE cur cur-1 would be the whole list at cursor 0 and empty by construction at
   any other cursor; the in-flight entries count as drained only when the list is exhausted *)
Definition rq_read_inflight (now : N) (maxsize : nat) (s : rstore) (q : rq) : rqres :=
  match maxsize with
  | O => done s (rq_upd q (rq_len q) (rq_cur q) (rq_drained q || (rq_len q <=? rq_cur q)%Z) (rq_cache q)) (RReadInflight []) []
  | S _ =>
  let l := elems_of (lrange (rq_key q) (rq_cur q) (rq_cur q + Z.of_nat maxsize - 1)%Z s) in
  match l with
  | [] => done s (rq_upd q (rq_len q) (rq_cur q) true (rq_cache q)) (RReadInflight []) []
  | _ =>
      let '(cur, cache, rs, cmds, dr, panicked) := rq_rif_loop now (rq_key q) (rq_ifexp q) l (rq_cur q) (rq_cur q) (rq_cache q) [] [] in
      let q' := rq_upd q (rq_len q) cur (rq_drained q || dr) cache in
      if panicked then done s q' RPanic cmds else done s q' (RReadInflight rs) cmds
  end
  end.

(* Remove(pid): only through the read cache *)
Definition rq_remove (pid : N) (s : rstore) (q : rq) : rqres :=
  match rq_cache q with
  | None => done s q (RRemove []) []
  | Some c =>
      match cache_get pid c with
      | None => done s q (RRemove []) []
      | Some b =>
          done s (rq_upd q (rq_len q - 1)%Z (rq_cur q - 1)%Z (rq_drained q) (Some (cache_del pid c)))
               (RRemove [EvQueue (-1); EvInflight (-1)]) [CLRem (rq_key q) (BElem b)]
      end
  end.

(* a fresh object on the same store: what server.init creates for a stored session (New reads
   the length of the list) *)
Definition rq_restart (s : rstore) (q : rq) : rqres :=
  {| r_store := s;
     r_q := {| rq_len := llen (rq_key q) s; rq_cur := 0; rq_drained := false; rq_closed := false;
               rq_max := rq_max q; rq_limit := 0; rq_v5 := false; rq_ifexp := rq_ifexp q;
               rq_cache := None; rq_key := rq_key q |};
     r_out := RUnit; r_cmds := [] |}.

(* ---------- histories ---------- *)
Inductive rqop := ROp (o : qop) | ORestart.

Definition rq_step (s : rstore) (q : rq) (o : rqop) : rqres :=
  match o with
  | ROp (OAdd now e) => rq_add now e s q
  | ROp (ORead now pids) => rq_read now pids s q
  | ROp (OReadInflight now n) => rq_read_inflight now n s q
  | ROp (ORemove pid) => rq_remove pid s q
  | ROp (OReplace e) => rq_replace e s q
  | ROp (OInit c v l) => rq_init c v l s q
  | ROp OClose => rq_close s q
  | ORestart => rq_restart s q
  end.

(* outputs and issued commands; the run stops at a panic (the calling goroutine is gone) *)
Fixpoint rq_run (s : rstore) (q : rq) (ops : list rqop) : rstore * rq * list qout * list rcmd :=
  match ops with
  | [] => (s, q, [], [])
  | o :: r =>
      let x := rq_step s q o in
      match r_out x with
      | RPanic => (r_store x, r_q x, [RPanic], r_cmds x)
      | _ => let '(s', q', outs, cmds) := rq_run (r_store x) (r_q x) r in
             (s', q', r_out x :: outs, r_cmds x ++ cmds)
      end
  end.

Definition rq_model (max : nat) (ifexp : N) (ops : list rqop) : list qout * list rcmd :=
  let '(_, _, outs, cmds) := rq_run [] (rq_new max ifexp [99]) ops in (outs, cmds).

(* the same history for the abstract queue of the statement (Oracle/C10O.v): a restart of
   the broker is, for the session, a disconnection - Init(clean=false) with the parameters
   of the last Init *)
Fixpoint abstract_ops (v5 : bool) (limit : N) (ops : list rqop) : list qop :=
  match ops with
  | [] => []
  | ROp (OInit c v l) :: r => OInit c v l :: abstract_ops v l r
  | ROp o :: r => o :: abstract_ops v5 limit r
  | ORestart :: r => OInit false v5 limit :: abstract_ops v5 limit r
  end.
