(* Model of retained/trie: topicTrie (retain_trie.go) and trieDB (trie_db.go). *)
From Coq Require Import List NArith Bool.
Import ListNotations.
From GM Require Import Base.Topic Base.Msg Model.SubTrie.
Open Scope N_scope.

Inductive rnode := RNode (rmsg : option msg) (children : list (level * rnode)).

Definition r_msg (n : rnode) := let 'RNode m _ := n in m.
Definition r_children (n : rnode) := let 'RNode _ c := n in c.
Definition r_empty : rnode := RNode None [].
Definition r_child (lv : level) (n : rnode) : option rnode := aget lv (r_children n).

(* addRetainMsg *)
Fixpoint r_add (path : list level) (m : msg) (n : rnode) : rnode :=
  match path with
  | [] => RNode (Some m) (r_children n)
  | lv :: rest =>
      let ch := match r_child lv n with Some x => x | None => r_empty end in
      RNode (r_msg n) (aset lv (r_add rest m ch) (r_children n))
  end.

(* remove: clear the message; delete the node from its parent when it has no children *)
Fixpoint r_remove (path : list level) (n : rnode) : rnode :=
  match path with
  | [] => n
  | lv :: rest =>
      match r_child lv n with
      | None => n
      | Some ch =>
          match rest with
          | [] =>
              match r_children ch with
              | [] => RNode (r_msg n) (adel lv (r_children n))
              | _ => RNode (r_msg n) (aset lv (RNode None (r_children ch)) (r_children n))
              end
          | _ => RNode (r_msg n) (aset lv (r_remove rest ch) (r_children n))
          end
      end
  end.

Fixpoint r_get (path : list level) (n : rnode) : option rnode :=
  match path with
  | [] => Some n
  | lv :: rest => match r_child lv n with Some ch => r_get rest ch | None => None end
  end.

(* find(topicName).msg *)
Definition r_find (topic : str) (n : rnode) : option msg :=
  match r_get (split topic) n with Some x => r_msg x | None => None end.

(* preOrderTraverse with a callback that never stops *)
Fixpoint r_traverse (n : rnode) : list msg :=
  match n with
  | RNode m ch =>
      (match m with Some x => [x] | None => [] end) ++
      flat_map (fun p : level * rnode => let '(_, c) := p in r_traverse c) ch
  end.

Definition opt_list {A} (o : option A) : list A := match o with Some x => [x] | None => [] end.

(* matchTopic over the filter's levels *)
Fixpoint r_match (fs : list level) (n : rnode) : list msg :=
  match fs with
  | [] => []
  | f :: rest =>
      if is_hash f then r_traverse n
      else if is_plus f then
        flat_map (fun p : level * rnode =>
                    let '(_, v) := p in
                    match rest with [] => opt_list (r_msg v) | _ => r_match rest v end) (r_children n)
      else
        match r_child f n with
        | None => []
        | Some v => match rest with [] => opt_list (r_msg v) | _ => r_match rest v end
        end
  end.

Record rdb := { r_user : rnode; r_sys : rnode }.
Definition rdb_init : rdb := {| r_user := r_empty; r_sys := r_empty |}.

Definition rdb_trie (name : str) (d : rdb) : rnode := if starts_dollar name then r_sys d else r_user d.
Definition rdb_set (name : str) (t : rnode) (d : rdb) : rdb :=
  if starts_dollar name then {| r_user := r_user d; r_sys := t |} else {| r_user := t; r_sys := r_sys d |}.

Inductive rop := RAdd (m : msg) | RRemove (topic : str) | RClear.

Definition rdb_step (d : rdb) (o : rop) : rdb :=
  match o with
  | RAdd m => rdb_set (m_topic m) (r_add (split (m_topic m)) m (rdb_trie (m_topic m) d)) d
  | RRemove t => rdb_set t (r_remove (split t) (rdb_trie t d)) d
  | RClear => rdb_init
  end.
Definition rdb_run (ops : list rop) : rdb := fold_left rdb_step ops rdb_init.

Definition rdb_get (topic : str) (d : rdb) : option msg := r_find topic (rdb_trie topic d).
Definition rdb_matched (filter : str) (d : rdb) : list msg := r_match (split filter) (rdb_trie filter d).
Definition rdb_all (d : rdb) : list msg := r_traverse (r_user d) ++ r_traverse (r_sys d).

(* ---- the abstract specification: a flat map topic -> message ---- *)
Definition rspec := list (str * msg).
Definition rspec_step (sp : rspec) (o : rop) : rspec :=
  match o with
  | RAdd m => aset (m_topic m) m sp
  | RRemove t => adel t sp
  | RClear => []
  end.
Definition rspec_run (ops : list rop) : rspec := fold_left rspec_step ops [].

(* what the broker does with a PUBLISH that has RETAIN=1 (publishHandler) *)
Definition retain_op (m : msg) : rop :=
  match m_payload m with [] => RRemove (m_topic m) | _ => RAdd m end.
