(* Model of the federation event stream (plugin/federation: peer.go, federation.go,
   hooks.go, membership.go) between a sending node A and a receiving node B:

     client side (A)  eventQueue (add / fetchEvents <= 100 / ack / setReadPosition / clear /
                      close / open), localSubStore (reference-counted topic set) with the
                      OnSubscribed / OnUnsubscribed / OnSessionTerminated wrappers,
                      peer.initStream (Hello, clean start = clear + full resynchronisation,
                      resume = setReadPosition), nodeJoin / nodeFail for the peer B;
     server side (B)  sessionMgr.add / del, session (nextEventID, LRU of the last 100 ids),
                      Federation.Hello, eventStreamHandler, the EventStream loop
                      (apply, send ack, THEN nextEventID := id + 1), nodeJoin / nodeFail for A;
     the stream       explicit nondeterministic schedule events: the two in-flight buffers
                      (events A->B, acks B->A) are lists; a cut drops both.

   Executable definitions only.  Go maps are association lists; the two places where the
   order of a Go map iteration is observable (resynchronisation after a clean start,
   unsubscribeAll) are oracle-resolved: the step function takes the order the
   implementation used and accepts it iff it is a permutation of what the model expects.
   Event ids and nextEventID are uint64 in Go; the wrap at 2^64 is not modelled. *)
From Coq Require Import List NArith Bool.
Import ListNotations.
From GM Require Import Base.Topic Base.Msg Model.SubTrie Model.RetTrie.
Open Scope N_scope.

(* ---------- events (federation.proto: Event oneof) ---------- *)
Inductive fevent :=
| ESub (share filter : str)
| EUnsub (topic : str)
| EMsg (m : msg).

Definition fevent_eqb (a b : fevent) : bool :=
  match a, b with
  | ESub g f, ESub g' f' => str_eqb g g' && str_eqb f f'
  | EUnsub t, EUnsub t' => str_eqb t t'
  | EMsg m, EMsg m' => msg_eqb m m'
  | _, _ => false
  end.

(* messageToEvent followed by eventToMessage: Dup, PacketID and the subscription
   identifiers do not travel *)
Definition msg_event_form (m : msg) : msg :=
  {| m_dup := false; m_qos := m_qos m; m_retained := m_retained m; m_topic := m_topic m;
     m_payload := m_payload m; m_pid := 0; m_ctype := m_ctype m; m_corr := m_corr m;
     m_expiry := m_expiry m; m_pfmt := m_pfmt m; m_resp := m_resp m; m_subids := [];
     m_uprops := m_uprops m |}.

(* utf8.Valid: proto3 `string` fields must be valid UTF-8 or Marshal fails *)
Fixpoint utf8_go (s : str) (need : nat) (lo hi : N) : bool :=
  match s with
  | [] => match need with O => true | _ => false end
  | b :: r =>
      match need with
      | O =>
          if b <? 128 then utf8_go r 0 128 191
          else if (194 <=? b) && (b <=? 223) then utf8_go r 1 128 191
          else if b =? 224 then utf8_go r 2 160 191
          else if ((225 <=? b) && (b <=? 236)) || (b =? 238) || (b =? 239) then utf8_go r 2 128 191
          else if b =? 237 then utf8_go r 2 128 159
          else if b =? 240 then utf8_go r 3 144 191
          else if (241 <=? b) && (b <=? 243) then utf8_go r 3 128 191
          else if b =? 244 then utf8_go r 3 128 143
          else false
      | S n => (lo <=? b) && (b <=? hi) && utf8_go r n 128 191
      end
  end.
Definition utf8_valid (s : str) : bool := utf8_go s 0 128 191.

(* proto.Marshal succeeds: TopicName, ContentType, CorrelationData (!), ResponseTopic,
   ShareName, TopicFilter are proto3 strings; Payload and the user properties are bytes *)
Definition marshal_ok (e : fevent) : bool :=
  match e with
  | ESub g f => utf8_valid g && utf8_valid f
  | EUnsub t => utf8_valid t
  | EMsg m => utf8_valid (m_topic m) && utf8_valid (m_ctype m) && utf8_valid (m_corr m) && utf8_valid (m_resp m)
  end.

(* subscription.GetFullTopicName *)
Definition fed_full_topic (share filter : str) : str :=
  if is_empty share then filter else SHARE_PREFIX ++ share ++ SLASH :: filter.

(* ---------- eventQueue (peer.go) ---------- *)
Record equeue := {
  evq_next : N;
  evq_l : list (N * fevent);      (* container/list of events, front first, with their ids *)
  evq_read : option N;           (* nextRead: id of the element it points to, None = nil *)
  evq_closed : bool;
  evq_bad : bool }.              (* ack removed the element nextRead points to (dangling
                                  pointer: fetchEvents would resend a removed event and
                                  skip the rest); never happens - a theorem *)

Definition eq_new : equeue :=
  {| evq_next := 0; evq_l := []; evq_read := None; evq_closed := false; evq_bad := false |}.

Definition eq_clear (q : equeue) : equeue :=
  {| evq_next := 0; evq_l := []; evq_read := None; evq_closed := false; evq_bad := evq_bad q |}.

Definition eq_set_closed (b : bool) (q : equeue) : equeue :=
  {| evq_next := evq_next q; evq_l := evq_l q; evq_read := evq_read q; evq_closed := b; evq_bad := evq_bad q |}.

Definition has_id (id : N) (l : list (N * fevent)) : bool := existsb (fun p => fst p =? id) l.

(* setReadPosition: the first element whose id is `id`; unchanged when there is none *)
Definition eq_set_read (id : N) (q : equeue) : equeue :=
  {| evq_next := evq_next q; evq_l := evq_l q;
     evq_read := if has_id id (evq_l q) then Some id else evq_read q;
     evq_closed := evq_closed q; evq_bad := evq_bad q |}.

Definition eq_add (e : fevent) (q : equeue) : equeue :=
  {| evq_next := evq_next q + 1; evq_l := evq_l q ++ [(evq_next q, e)];
     evq_read := match evq_read q with None => Some (evq_next q) | r => r end;
     evq_closed := evq_closed q; evq_bad := evq_bad q |}.

Fixpoint drop_until (id : N) (l : list (N * fevent)) : list (N * fevent) :=
  match l with
  | [] => []
  | (i, e) :: r => if i =? id then l else drop_until id r
  end.

Definition FETCH_MAX : nat := 100.

Inductive fetch_res := FClosed | FBlocked | FEvents (l : list (N * fevent)).

(* fetchEvents; FBlocked = the call would wait on the condition variable *)
Definition eq_fetch (q : equeue) : fetch_res * equeue :=
  if evq_closed q then (FClosed, q)
  else
    match evq_l q, evq_read q with
    | [], _ | _, None => (FBlocked, q)
    | _ :: _, Some id =>
        let suffix := drop_until id (evq_l q) in
        let batch := firstn FETCH_MAX suffix in
        let rest := skipn FETCH_MAX suffix in
        (FEvents batch,
         {| evq_next := evq_next q; evq_l := evq_l q;
            evq_read := match rest with [] => None | (i, _) :: _ => Some i end;
            evq_closed := evq_closed q; evq_bad := evq_bad q |})
    end.

(* ack: from the front remove every element with Id <= id, stop after the one with Id = id *)
Fixpoint ack_list (id : N) (l : list (N * fevent)) : list (N * fevent) :=
  match l with
  | [] => []
  | (i, e) :: r =>
      if i =? id then r
      else if i <=? id then ack_list id r
      else (i, e) :: ack_list id r
  end.

Definition eq_ack (id : N) (q : equeue) : equeue :=
  let l' := ack_list id (evq_l q) in
  let dangling := match evq_read q with Some k => has_id k (evq_l q) && negb (has_id k l') | None => false end in
  {| evq_next := evq_next q; evq_l := l'; evq_read := evq_read q; evq_closed := evq_closed q;
     evq_bad := evq_bad q || dangling |}.

(* ---------- localSubStore (federation.go) ---------- *)
Definition lindex := list (cid * list str).     (* [clientID] -> set of full topic names *)
Definition ltopics := list (str * N).           (* full topic name -> reference count *)

Definition keys_of_client (c : cid) (ix : lindex) : list str :=
  match aget c ix with Some k => k | None => [] end.

(* subscribeLocked: returns whether the topic is new *)
Definition ls_subscribe (c : cid) (t : str) (ix : lindex) (tp : ltopics) : lindex * ltopics * bool :=
  let keys := keys_of_client c ix in
  if mem_str t keys then (ix, tp, false)
  else
    let n := match aget t tp with Some n => n | None => 0 end + 1 in
    (aset c (keys ++ [t]) ix, aset t n tp, n =? 1).

Definition ls_dec (t : str) (tp : ltopics) : ltopics :=
  match aget t tp with
  | Some n => if n <=? 1 then adel t tp else aset t (n - 1) tp
  | None => tp
  end.

Definition ls_unsubscribe (c : cid) (t : str) (ix : lindex) (tp : ltopics) : lindex * ltopics * bool :=
  match aget c ix with
  | Some keys =>
      if mem_str t keys then
        let keys' := del_str t keys in
        let ix' := match keys' with [] => adel c ix | _ => aset c keys' ix end in
        let tp' := ls_dec t tp in
        (ix', tp', negb (ahas t tp'))
      else (ix, tp, false)
  | None => (ix, tp, false)
  end.

(* unsubscribeAll: the topics whose counter reached zero (in the order the index is walked) *)
Fixpoint ls_dec_all (keys : list str) (tp : ltopics) : ltopics * list str :=
  match keys with
  | [] => (tp, [])
  | t :: r =>
      let tp' := ls_dec t tp in
      let '(tp'', rm) := ls_dec_all r tp' in
      (tp'', if ahas t tp' then rm else t :: rm)
  end.

Definition ls_unsubscribe_all (c : cid) (ix : lindex) (tp : ltopics) : lindex * ltopics * list str :=
  let '(tp', rm) := ls_dec_all (keys_of_client c ix) tp in
  (adel c ix, tp', rm).

(* ---------- server side: session, LRU, sessionMgr ---------- *)
Definition LRU_SIZE : nat := 100.

Record fsession := { fs_id : N; fs_next : N; fs_seen : list N }.   (* se_seen: oldest first *)

Definition mem_n (x : N) (l : list N) : bool := existsb (N.eqb x) l.

(* lruCache.set *)
Definition lru_set (id : N) (seen : list N) : bool * list N :=
  if mem_n id seen then (true, seen)
  else (false, (if Nat.eqb (length seen) LRU_SIZE then tl seen else seen) ++ [id]).

(* ---------- the two nodes and the stream ---------- *)
Record fpeer := { p_sid : N; p_q : equeue }.

Definition NODE_A : str := [65].
Definition NODE_B : str := [66].

Definition tagged := (N * N * fevent)%type.     (* (client epoch, id, event) *)

Record fstate := {
  (* node A *)
  a_index : lindex; a_topics : ltopics; a_ret : list msg;
  a_peer : option fpeer; a_sidctr : N;
  a_epoch : N;                 (* ghost: bumped whenever the queue for B starts from scratch *)
  (* the stream *)
  st_up : bool; c2s : list tagged; s2c : list N;
  (* node B *)
  fb_peer : bool; fb_sess : option fsession; fb_fed : db; fb_ret : rdb;
  fb_ops : list op;             (* ghost: the store operations performed on fb_fed *)
  (* ghost logs *)
  emitted : list tagged; applied : list tagged; published : list msg;
  handled : list (N * N * bool) }.   (* every event the stream loop handled: (epoch, id, suppressed) *)

Definition fq_init (ret : list msg) : fstate :=
  {| a_index := []; a_topics := []; a_ret := ret; a_peer := None; a_sidctr := 0; a_epoch := 0;
     st_up := false; c2s := []; s2c := [];
     fb_peer := false; fb_sess := None; fb_fed := db_init; fb_ret := rdb_init; fb_ops := [];
     emitted := []; applied := []; published := []; handled := [] |}.

(* field updates *)
Definition set_local (ix : lindex) (tp : ltopics) (s : fstate) : fstate :=
  {| a_index := ix; a_topics := tp; a_ret := a_ret s; a_peer := a_peer s; a_sidctr := a_sidctr s; a_epoch := a_epoch s;
     st_up := st_up s; c2s := c2s s; s2c := s2c s;
     fb_peer := fb_peer s; fb_sess := fb_sess s; fb_fed := fb_fed s; fb_ret := fb_ret s; fb_ops := fb_ops s;
     emitted := emitted s; applied := applied s; published := published s; handled := handled s |}.

Definition set_peer (p : option fpeer) (ctr ep : N) (em : list tagged) (s : fstate) : fstate :=
  {| a_index := a_index s; a_topics := a_topics s; a_ret := a_ret s; a_peer := p; a_sidctr := ctr; a_epoch := ep;
     st_up := st_up s; c2s := c2s s; s2c := s2c s;
     fb_peer := fb_peer s; fb_sess := fb_sess s; fb_fed := fb_fed s; fb_ret := fb_ret s; fb_ops := fb_ops s;
     emitted := em; applied := applied s; published := published s; handled := handled s |}.

Definition set_queue (q : equeue) (s : fstate) : fstate :=
  match a_peer s with
  | Some p => set_peer (Some {| p_sid := p_sid p; p_q := q |}) (a_sidctr s) (a_epoch s) (emitted s) s
  | None => s
  end.

Definition set_stream (up : bool) (cs : list tagged) (sc : list N) (s : fstate) : fstate :=
  {| a_index := a_index s; a_topics := a_topics s; a_ret := a_ret s; a_peer := a_peer s; a_sidctr := a_sidctr s; a_epoch := a_epoch s;
     st_up := up; c2s := cs; s2c := sc;
     fb_peer := fb_peer s; fb_sess := fb_sess s; fb_fed := fb_fed s; fb_ret := fb_ret s; fb_ops := fb_ops s;
     emitted := emitted s; applied := applied s; published := published s; handled := handled s |}.

Definition set_server (bp : bool) (se : option fsession) (fed : db) (ret : rdb) (ops : list op)
           (ap : list tagged) (pb : list msg) (s : fstate) : fstate :=
  {| a_index := a_index s; a_topics := a_topics s; a_ret := a_ret s; a_peer := a_peer s; a_sidctr := a_sidctr s; a_epoch := a_epoch s;
     st_up := st_up s; c2s := c2s s; s2c := s2c s;
     fb_peer := bp; fb_sess := se; fb_fed := fed; fb_ret := ret; fb_ops := ops;
     emitted := emitted s; applied := ap; published := pb; handled := handled s |}.

Definition add_handled (h : N * N * bool) (s : fstate) : fstate :=
  {| a_index := a_index s; a_topics := a_topics s; a_ret := a_ret s; a_peer := a_peer s; a_sidctr := a_sidctr s; a_epoch := a_epoch s;
     st_up := st_up s; c2s := c2s s; s2c := s2c s;
     fb_peer := fb_peer s; fb_sess := fb_sess s; fb_fed := fb_fed s; fb_ret := fb_ret s; fb_ops := fb_ops s;
     emitted := emitted s; applied := applied s; published := published s; handled := handled s ++ [h] |}.

(* queue.add for the peer B, if A has one (the hooks loop over f.peers) *)
Definition emit1 (e : fevent) (s : fstate) : fstate :=
  match a_peer s with
  | Some p =>
      set_peer (Some {| p_sid := p_sid p; p_q := eq_add e (p_q p) |}) (a_sidctr s) (a_epoch s)
               (emitted s ++ [(a_epoch s, evq_next (p_q p), e)]) s
  | None => s
  end.
Definition emit_list (es : list fevent) (s : fstate) : fstate := fold_left (fun s e => emit1 e s) es s.

(* ---------- oracle-resolved orders ---------- *)
Fixpoint ev_remove1 (x : fevent) (l : list fevent) : option (list fevent) :=
  match l with
  | [] => None
  | y :: r => if fevent_eqb x y then Some r
              else match ev_remove1 x r with Some r' => Some (y :: r') | None => None end
  end.
Fixpoint ev_perm (a b : list fevent) : bool :=
  match a with
  | [] => match b with [] => true | _ => false end
  | x :: a' => match ev_remove1 x b with Some b' => ev_perm a' b' | None => false end
  end.

(* take the order the implementation used when it is a permutation of the expected events *)
Definition fq_resolve (expected given : list fevent) : list fevent :=
  if ev_perm expected given then given else expected.

(* the events of a full resynchronisation: one Subscribe per local topic (map order), then
   every retained message (store iteration order) *)
Definition resync_subs (tp : ltopics) : list fevent :=
  map (fun kv => let '(g, f) := split_topic (fst kv) in ESub g f) tp.
Definition resync_msgs (ret : list msg) : list fevent := map (fun m => EMsg (msg_event_form m)) ret.
Definition resync_events (s : fstate) (given : list fevent) : list fevent :=
  let subs := resync_subs (a_topics s) in
  let n := length subs in
  fq_resolve subs (firstn n given) ++ fq_resolve (resync_msgs (a_ret s)) (skipn n given).

(* ---------- cutting the stream ---------- *)
(* client: readLoop / sendEvents fail -> stream.setError -> queue.close(); server: Recv
   fails, EventStream returns; whatever was in flight is gone *)
Definition fq_cut (s : fstate) : fstate :=
  if st_up s then
    let s1 := set_stream false [] [] s in
    match a_peer s1 with
    | Some p => set_queue (eq_set_closed true (p_q p)) s1
    | None => s1
    end
  else s.

(* ---------- server side ---------- *)
Definition plain_sub (g f : str) : sub :=
  {| s_share := g; s_filter := f; s_id := 0; s_qos := 0; s_nl := false; s_rap := false; s_rh := 0 |}.

Definition fed_op (s : fstate) (o : op) : fstate :=
  set_server (fb_peer s) (fb_sess s) (db_step (fb_fed s) o) (fb_ret s) (fb_ops s ++ [o]) (applied s) (published s) s.

(* sessionMgr.add + Federation.Hello; None = the RPC fails ("has not yet joined") *)
Definition server_hello (sid : N) (s : fstate) : option (bool * N * fstate) :=
  if fb_peer s then
    match fb_sess s with
    | Some se =>
        if fs_id se =? sid then Some (false, fs_next se, s)
        else
          let s1 := fed_op s (OUnsubAll NODE_A) in
          Some (true, 0, set_server (fb_peer s1) (Some {| fs_id := sid; fs_next := 0; fs_seen := [] |})
                                   (fb_fed s1) (fb_ret s1) (fb_ops s1) (applied s1) (published s1) s1)
    | None =>
        let s1 := fed_op s (OUnsubAll NODE_A) in
        Some (true, 0, set_server (fb_peer s1) (Some {| fs_id := sid; fs_next := 0; fs_seen := [] |})
                                 (fb_fed s1) (fb_ret s1) (fb_ops s1) (applied s1) (published s1) s1)
    end
  else None.

(* eventStreamHandler on an event that is not a duplicate *)
Definition apply_event (e : fevent) (s : fstate) : fstate :=
  match e with
  | ESub g f => fed_op s (OSub NODE_A (plain_sub g f))
  | EUnsub t => fed_op s (OUnsub NODE_A t)
  | EMsg m =>
      (* publisher.Publish(eventToMessage(msg)); retained -> as for a local PUBLISH: an empty
         payload removes the retained message of the topic, otherwise AddOrReplace *)
      let ret' := if m_retained m then rdb_step (fb_ret s) (retain_op m) else fb_ret s in
      set_server (fb_peer s) (fb_sess s) (fb_fed s) ret' (fb_ops s) (applied s) (published s ++ [m]) s
  end.

(* one iteration of the EventStream loop: Recv, eventStreamHandler, Send(ack), and only
   when the ack could be sent nextEventID := id + 1 *)
Definition fq_deliver (ack_ok : bool) (s : fstate) : fstate :=
  if st_up s then
    match c2s s, fb_sess s with
    | (ep, id, e) :: rest, Some se =>
        let '(dup, seen') := lru_set id (fs_seen se) in
        let s1 := add_handled (ep, id, dup) (set_stream true rest (s2c s) s) in
        let s2 := set_server (fb_peer s1) (Some {| fs_id := fs_id se; fs_next := fs_next se; fs_seen := seen' |})
                             (fb_fed s1) (fb_ret s1) (fb_ops s1)
                             (if dup then applied s1 else applied s1 ++ [(ep, id, e)]) (published s1) s1 in
        let s3 := if dup then s2 else apply_event e s2 in
        if ack_ok then
          let s4 := set_server (fb_peer s3) (Some {| fs_id := fs_id se; fs_next := id + 1; fs_seen := seen' |})
                               (fb_fed s3) (fb_ret s3) (fb_ops s3) (applied s3) (published s3) s3 in
          set_stream true (c2s s4) (s2c s4 ++ [id]) s4
        else fq_cut s3
    | _, _ => s
    end
  else s.

(* ---------- client side ---------- *)
(* one iteration of sendEvents: fetchEvents, then Send each; a Send that cannot marshal
   its event fails the stream *)
Definition fq_send (s : fstate) : fstate :=
  if st_up s then
    match a_peer s with
    | Some p =>
        match eq_fetch (p_q p) with
        | (FEvents batch, q') =>
            let s1 := set_queue q' s in
            if forallb (fun ie => marshal_ok (snd ie)) batch
            then set_stream true (c2s s1 ++ map (fun ie => (a_epoch s1, fst ie, snd ie)) batch) (s2c s1) s1
            else fq_cut s1
        | (_, _) => s
        end
    | None => s
    end
  else s.

(* readLoop: Recv an Ack, queue.ack *)
Definition fq_ack_deliver (s : fstate) : fstate :=
  if st_up s then
    match s2c s, a_peer s with
    | id :: rest, Some p => set_queue (eq_ack id (p_q p)) (set_stream true (c2s s) rest s)
    | _, _ => s
    end
  else s.

Inductive hmode :=
| HsOk          (* handshake and stream open succeed *)
| HsLostReq     (* the Hello request never reaches B *)
| HsLostResp    (* B processes the Hello, the reply is lost *)
| HsFailOpen.   (* the Hello round trip succeeds, opening the event stream fails *)

(* serveStream: Dial, initStream (Hello; clean start: clear + resync; setReadPosition;
   open the stream; queue.open) *)
Definition fq_reconnect (mode : hmode) (order : list fevent) (s0 : fstate) : fstate :=
  let s := fq_cut s0 in
  match a_peer s with
  | None => s
  | Some p =>
      match mode with
      | HsLostReq => s
      | _ =>
          match server_hello (p_sid p) s with
          | None => s
          | Some (clean, next, s1) =>
              match mode with
              | HsLostResp => s1
              | _ =>
                  let s2 :=
                    if clean then
                      let evs := resync_events s1 order in
                      emit_list evs (set_peer (Some {| p_sid := p_sid p; p_q := eq_clear (p_q p) |})
                                              (a_sidctr s1) (a_epoch s1 + 1) (emitted s1) s1)
                    else s1 in
                  let s3 := match a_peer s2 with
                            | Some p2 => set_queue (eq_set_read next (p_q p2)) s2
                            | None => s2
                            end in
                  match mode with
                  | HsFailOpen => s3
                  | _ =>
                      match a_peer s3 with
                      | Some p3 => set_stream true [] [] (set_queue (eq_set_closed false (p_q p3)) s3)
                      | None => s3
                      end
                  end
              end
          end
      end
  end.

(* ---------- both loops until idle ---------- *)
Definition fq_idle (s : fstate) : bool :=
  st_up s && is_nil (c2s s) && is_nil (s2c s) &&
  match a_peer s with Some p => match evq_read (p_q p) with None => true | Some _ => false end | None => false end.

Fixpoint fq_deliver_all (n : nat) (s : fstate) : fstate :=
  match n with
  | O => s
  | S n' => if st_up s && negb (is_nil (c2s s)) then fq_deliver_all n' (fq_deliver true s) else s
  end.
Fixpoint fq_ack_all (n : nat) (s : fstate) : fstate :=
  match n with
  | O => s
  | S n' => if st_up s && negb (is_nil (s2c s)) then fq_ack_all n' (fq_ack_deliver s) else s
  end.
Definition fq_drain_round (s : fstate) : fstate :=
  let s1 := fq_send s in
  let s2 := fq_deliver_all (length (c2s s1)) s1 in
  fq_ack_all (length (s2c s2)) s2.
Fixpoint fq_drain_loop (rounds : nat) (s : fstate) : fstate :=
  match rounds with
  | O => s
  | S r => if negb (st_up s) || fq_idle s then s else fq_drain_loop r (fq_drain_round s)
  end.
Definition fq_drain (s : fstate) : fstate :=
  match a_peer s with
  | Some p => fq_drain_loop (length (evq_l (p_q p)) + 2) s
  | None => s
  end.

(* ---------- the schedule ---------- *)
Inductive fqev :=
| QSub (c : cid) (share filter : str)    (* OnSubscribed on A *)
| QUnsub (c : cid) (topic : str)         (* OnUnsubscribed on A (full topic name) *)
| QTerm (c : cid)                        (* OnSessionTerminated on A *)
| QMsg (m : msg)                         (* a message event is emitted for B *)
| QSend                                  (* one sendEvents iteration *)
| QDeliver (ack_ok : bool)               (* one EventStream iteration; false: cut between apply and ack *)
| QAckDeliver                            (* one readLoop iteration *)
| QCut                                   (* the stream breaks, both directions *)
| QReconnect (mode : hmode)              (* serveStream is retried *)
| QDrain                                 (* both loops run until idle (no fault) *)
| QPeerLost                              (* B: nodeFail(A) - B forgets A's session and subscriptions *)
| QPeerJoin                              (* B: nodeJoin(A) *)
| QDropPeer                              (* A: nodeFail(B) - A forgets the peer and its queue *)
| QJoinPeer.                             (* A: nodeJoin(B) - a new peer, new session id, new queue *)

Definition fq_step (s : fstate) (ev : fqev) (order : list fevent) : fstate :=
  match ev with
  | QSub c g f =>
      let '(ix, tp, fresh) := ls_subscribe c (fed_full_topic g f) (a_index s) (a_topics s) in
      let s1 := set_local ix tp s in
      if fresh then emit1 (ESub g f) s1 else s1
  | QUnsub c t =>
      let '(ix, tp, gone) := ls_unsubscribe c t (a_index s) (a_topics s) in
      let s1 := set_local ix tp s in
      if gone then emit1 (EUnsub t) s1 else s1
  | QTerm c =>
      let '(ix, tp, rm) := ls_unsubscribe_all c (a_index s) (a_topics s) in
      emit_list (fq_resolve (map EUnsub rm) order) (set_local ix tp s)
  | QMsg m => emit1 (EMsg (msg_event_form m)) s
  | QSend => fq_send s
  | QDeliver b => fq_deliver b s
  | QAckDeliver => fq_ack_deliver s
  | QCut => fq_cut s
  | QReconnect mode => fq_reconnect mode order s
  | QDrain => fq_drain s
  | QPeerLost =>
      if fb_peer s then
        let s1 := fed_op s (OUnsubAll NODE_A) in
        fq_cut (set_server false None (fb_fed s1) (fb_ret s1) (fb_ops s1) (applied s1) (published s1) s1)
      else s
  | QPeerJoin => set_server true (fb_sess s) (fb_fed s) (fb_ret s) (fb_ops s) (applied s) (published s) s
  | QDropPeer =>
      match a_peer s with
      | Some _ => let s1 := fq_cut s in set_peer None (a_sidctr s1) (a_epoch s1) (emitted s1) s1
      | None => s
      end
  | QJoinPeer =>
      match a_peer s with
      | Some _ => s
      | None => set_peer (Some {| p_sid := a_sidctr s; p_q := eq_new |}) (a_sidctr s + 1) (a_epoch s + 1) (emitted s) s
      end
  end.

(* run a schedule; `orders` gives, step by step, the order the implementation used for
   the events it emitted at that step (missing entries: the model's own order) *)
Fixpoint fq_run (s : fstate) (evs : list fqev) (orders : list (list fevent)) : fstate :=
  match evs with
  | [] => s
  | e :: r => fq_run (fq_step s e (hd [] orders)) r (tl orders)
  end.

(* the states after every step (what the differential check compares) *)
Fixpoint fq_trace (s : fstate) (evs : list fqev) (orders : list (list fevent)) : list fstate :=
  match evs with
  | [] => []
  | e :: r => let s' := fq_step s e (hd [] orders) in s' :: fq_trace s' r (tl orders)
  end.

(* B's view of A's subscriptions: full topic names of the entries stored for client A *)
Definition view_query : iopts :=
  {| io_sys := true; io_shared := true; io_nonshared := true; io_client := NODE_A; io_topic := []; io_mt := MatchNone |}.
Definition view_of (d : db) : option (list str) :=
  match db_iterate view_query d with
  | IOk l => Some (map (fun e : ient => match snd e with Some s => fed_full_topic (s_share s) (s_filter s) | None => [] end) l)
  | IPanic => None
  end.
Definition local_of (s : fstate) : list str := map fst (a_topics s).
