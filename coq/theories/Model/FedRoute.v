(* Model of federation routing (plugin/federation/hooks.go: sendMessage, sendSharedMsg;
   federation.go: eventStreamHandler on a message event).

   One node with its local subscription store, the federation subscription tree (node
   name = client id), the round-robin counters of the shared topics and one event queue
   per peer (only what is appended matters here).  Go map iteration orders do not show in
   the observables: every queue gets at most one event per message, the node lists of the
   shared topics are sorted before the choice is made, and the drop flag / rewritten
   options do not depend on the order in which the shared topics are visited.
   Executable definitions only. *)
From Coq Require Import List NArith Bool.
Import ListNotations.
From GM Require Import Base.Topic Base.Msg Model.SubTrie Model.RetTrie Model.FedQueue.
Open Scope N_scope.

Record rstate := {
  r_node : str;                           (* f.nodeName *)
  r_local : db;                           (* f.localSubStore.localStore: the broker's subscription store *)
  r_fed : db;                             (* f.fedSubStore.TrieDB *)
  r_sent : list (str * N);                (* f.fedSubStore.sharedSent *)
  r_peers : list (str * list fevent) }.   (* f.peers: name -> events appended to the queue *)

(* ---------- helpers ---------- *)
(* strings compare bytewise (sort.Strings) *)
Fixpoint str_leb (a b : str) : bool :=
  match a, b with
  | [], _ => true
  | _ :: _, [] => false
  | x :: a', y :: b' => if x <? y then true else if y <? x then false else str_leb a' b'
  end.
Fixpoint ins_str (x : str) (l : list str) : list str :=
  match l with
  | [] => [x]
  | y :: r => if str_leb x y then x :: l else y :: ins_str x r
  end.
Definition sort_strs (l : list str) : list str := fold_right ins_str [] l.

(* m[k] = append(m[k], v) *)
Definition al_append (k v : str) (l : list (str * list str)) : list (str * list str) :=
  aset k (match aget k l with Some vs => vs | None => [] end ++ [v]) l.

Definition add_set (x : str) (l : list str) : list str := if mem_str x l then l else l ++ [x].

Definition ents (r : ires) : list (cid * sub) :=
  match r with
  | IOk l => flat_map (fun e : ient => match snd e with Some s => [(fst e, s)] | None => [] end) l
  | IPanic => []
  end.

Definition q_match (sys shared nonshared : bool) (t : str) : iopts :=
  {| io_sys := sys; io_shared := shared; io_nonshared := nonshared; io_client := []; io_topic := t; io_mt := MatchFilter |}.

Definition sub_full (s : sub) : str := fed_full_topic (s_share s) (s_filter s).

(* ---------- sendMessage ---------- *)

(* sharedList: full shared topic -> node names; the local node once per local member *)
Definition fr_shared_list (st : rstate) (t : str) : list (str * list str) :=
  let l1 := fold_left (fun acc cs => al_append (sub_full (snd cs)) (r_node st) acc)
                      (ents (db_iterate (q_match false true false t) (r_local st))) [] in
  fold_left (fun acc cs => if is_empty (s_share (snd cs)) then acc
                           else al_append (sub_full (snd cs)) (fst cs) acc)
            (ents (db_iterate (q_match true true true t) (r_fed st))) l1.

(* nonShared: the nodes with a matching non-shared entry in the federation tree *)
Definition fr_nonshared (st : rstate) (t : str) : list str :=
  fold_left (fun acc cs => if is_empty (s_share (snd cs)) then add_set (fst cs) acc else acc)
            (ents (db_iterate (q_match true true true t) (r_fed st))) [].

(* does the local store hold a matching non-shared subscription (TypeAll ^ TypeShared) *)
Definition fr_local_plain (st : rstate) (t : str) : bool :=
  negb (is_nil (ents (db_iterate (q_match true false true t) (r_local st)))).

Definition push_event (n : str) (e : fevent) (ps : list (str * list fevent)) : list (str * list fevent) :=
  match aget n ps with Some q => aset n (q ++ [e]) ps | None => ps end.

Record sacc := {
  sa_sent : list str;                  (* `sent` *)
  sa_peers : list (str * list fevent);
  sa_counters : list (str * N);
  sa_drop : bool;
  sa_opts : option iopts }.

(* sendSharedMsg: one shared topic *)
Definition fr_shared_step (st : rstate) (m : msg) (a : sacc) (tv : str * list str) : sacc :=
  let '(topic, v) := tv in
  let v' := sort_strs v in
  let cnt := match aget topic (sa_counters a) with Some c => c | None => 0 end in
  let chosen := nth (N.to_nat (cnt mod N.of_nat (length v'))) v' [] in
  let counters' := aset topic (u64_add cnt 1) (sa_counters a) in
  if str_eqb chosen (r_node st) then
    {| sa_sent := sa_sent a; sa_peers := sa_peers a; sa_counters := counters'; sa_drop := sa_drop a; sa_opts := sa_opts a |}
  else if mem_str chosen (sa_sent a) then
    {| sa_sent := sa_sent a; sa_peers := sa_peers a; sa_counters := counters'; sa_drop := sa_drop a; sa_opts := sa_opts a |}
  else
    let sent' := sa_sent a ++ [chosen] in
    if ahas chosen (sa_peers a) then
      let peers' := push_event chosen (EMsg (msg_event_form m)) (sa_peers a) in
      if fr_local_plain st (m_topic m)
      then {| sa_sent := sent'; sa_peers := peers'; sa_counters := counters'; sa_drop := false;
              sa_opts := Some (q_match true false true (m_topic m)) |}
      else {| sa_sent := sent'; sa_peers := peers'; sa_counters := counters'; sa_drop := true; sa_opts := sa_opts a |}
    else {| sa_sent := sent'; sa_peers := sa_peers a; sa_counters := counters'; sa_drop := sa_drop a; sa_opts := sa_opts a |}.

Definition fr_send_message (st : rstate) (m : msg) : rstate * bool * option iopts :=
  if m_retained m then
    ({| r_node := r_node st; r_local := r_local st; r_fed := r_fed st; r_sent := r_sent st;
        r_peers := map (fun p => (fst p, snd p ++ [EMsg (msg_event_form m)])) (r_peers st) |}, false, None)
  else
    let t := m_topic m in
    let a0 := {| sa_sent := []; sa_peers := r_peers st; sa_counters := r_sent st; sa_drop := false; sa_opts := None |} in
    let a1 := fold_left (fr_shared_step st m) (fr_shared_list st t) a0 in
    let peers' := fold_left (fun ps n => if mem_str n (sa_sent a1) then ps else push_event n (EMsg (msg_event_form m)) ps)
                            (fr_nonshared st t) (sa_peers a1) in
    ({| r_node := r_node st; r_local := r_local st; r_fed := r_fed st; r_sent := sa_counters a1; r_peers := peers' |},
     sa_drop a1, sa_opts a1).

(* ---------- a case: build the node, publish a list of messages ---------- *)
Definition fr_init (node : str) (local_ops fed_ops : list op) (peers : list str) : rstate :=
  {| r_node := node; r_local := db_run local_ops; r_fed := db_run fed_ops; r_sent := [];
     r_peers := map (fun n => (n, [])) peers |}.

(* what one publish shows: the events appended per peer, drop, options *)
Definition fr_new_events (st st' : rstate) : list (str * list fevent) :=
  map (fun p => (fst p, skipn (length (match aget (fst p) (r_peers st) with Some q => q | None => [] end)) (snd p))) (r_peers st').

Fixpoint fr_run (st : rstate) (ms : list msg) : list (list (str * list fevent) * bool * option iopts) :=
  match ms with
  | [] => []
  | m :: r =>
      let '(st', drop, opts) := fr_send_message st m in
      (fr_new_events st st', drop, opts) :: fr_run st' r
  end.

(* ---------- the receiving side: eventStreamHandler on a message event ---------- *)
(* returns what is handed to Publisher.Publish and the retained store afterwards (a retained
   message with an empty payload clears the topic, as publishHandler does for a local
   PUBLISH); nothing is appended to any peer queue (Publish does not run OnMsgArrived) *)
Definition fr_receive (m : msg) (ret : rdb) : msg * rdb :=
  (m, if m_retained m then rdb_step ret (retain_op m) else ret).

Fixpoint fr_receive_all (ms : list msg) (ret : rdb) : list (msg * list msg) :=
  match ms with
  | [] => []
  | m :: r =>
      let '(p, ret') := fr_receive (msg_event_form m) ret in
      (p, rdb_all ret') :: fr_receive_all r ret'
  end.
