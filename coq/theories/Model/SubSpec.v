(* The abstract specification of the subscription store: a flat finite map
   (client, share name, filter) -> subscription, updated by the obvious three operations. *)
From Coq Require Import List NArith Bool.
Import ListNotations.
From GM Require Import Base.Topic Model.SubTrie.

Definition skey := (cid * str * str)%type.

Definition skey_eqb (a b : skey) : bool :=
  let '(c1, g1, f1) := a in let '(c2, g2, f2) := b in
  str_eqb c1 c2 && str_eqb g1 g2 && str_eqb f1 f2.

Definition spec := list (skey * sub).

Fixpoint sp_get (k : skey) (sp : spec) : option sub :=
  match sp with
  | [] => None
  | (k', v) :: r => if skey_eqb k k' then Some v else sp_get k r
  end.
Fixpoint sp_set (k : skey) (v : sub) (sp : spec) : spec :=
  match sp with
  | [] => [(k, v)]
  | (k', v') :: r => if skey_eqb k k' then (k, v) :: r else (k', v') :: sp_set k v r
  end.
Fixpoint sp_del (k : skey) (sp : spec) : spec :=
  match sp with
  | [] => []
  | (k', v') :: r => if skey_eqb k k' then r else (k', v') :: sp_del k r
  end.
Definition sp_del_client (c : cid) (sp : spec) : spec :=
  filter (fun e => negb (str_eqb c (fst (fst (fst e))))) sp.

Definition spec_step (sp : spec) (o : op) : spec :=
  match o with
  | OSub c s => sp_set (c, s_share s, s_filter s) s sp
  | OUnsub c t => let '(g, f) := split_topic t in sp_del (c, g, f) sp
  | OUnsubAll c => sp_del_client c sp
  end.

Definition spec_run (ops : list op) : spec := fold_left spec_step ops [].

(* number of subscribes that created a new entry (SubscriptionsTotal), globally / per client *)
Fixpoint spec_total (sp : spec) (ops : list op) (who : option cid) : N :=
  match ops with
  | [] => 0
  | o :: r =>
      (match o with
       | OSub c s =>
           match sp_get (c, s_share s, s_filter s) sp with
           | Some _ => 0
           | None => match who with
                     | None => 1
                     | Some w => if str_eqb w c then 1 else 0
                     end
           end
       | _ => 0
       end + spec_total (spec_step sp o) r who)%N
  end.

Definition count_client (c : cid) (sp : spec) : nat :=
  length (filter (fun e => str_eqb c (fst (fst (fst e)))) sp).

(* operations the store is used with: share names never contain '/' (MQTT 4.8.2), and a
   client id is never the empty string *)
Definition wf_op (o : op) : bool :=
  match o with
  | OSub c s => negb (is_empty c) && no_slash (s_share s)
  | OUnsub c _ => negb (is_empty c)
  | OUnsubAll c => negb (is_empty c)
  end.
Definition wf_ops (ops : list op) : bool := forallb wf_op ops.
