(* C13 / C03 - from "the validator accepts the configuration" to the hypotheses of the broker theorems.
   `broker_cfg c rest` is the broker model's configuration record built from a validated config.MQTT (the six fields the
   validator reads) and anything for the other fields.  Proved: for every configuration that the validator regenerated
   from the source accepts (Props/C13v.v), the configured window is between 1 and 65535 and fits the queue, the receive
   maximum and the packet size limit are non-zero; hence the invariants of Props/C03g.v hold from the initial state of
   every accepted configuration (one instance shown: the global invariant GInv of the initial state). *)
From Coq Require Import ZArith NArith List Bool Lia.
Import ListNotations.
From GM Require Import Base.Topic Base.Msg Model.SubTrie Model.Queue Model.Limiter Model.Broker Gen.ValidateTable Model.ConfigV
  Proofs.BrokerPollGlobalP Props.C13v.
Open Scope N_scope.

Definition broker_cfg (c : mqttc) (rest : cfg) : cfg :=
  {| c_onlyonce := str_eqb (v_mode c) M_ONLYONCE; c_max_inflight := Z.to_N (v_max_inflight c);
     c_max_queued := Z.to_nat (v_max_queued c); c_queue_qos0 := c_queue_qos0 rest;
     c_session_expiry := c_session_expiry rest; c_message_expiry := c_message_expiry rest;
     c_recv_max := Z.to_N (v_recv_max c); c_alias_max := c_alias_max rest; c_max_packet := Z.to_N (v_max_packet c);
     c_max_qos := Z.to_N (v_max_qos c); c_retain_avail := c_retain_avail rest; c_wildcard := c_wildcard rest;
     c_subid := c_subid rest; c_shared := c_shared rest; c_max_keepalive := c_max_keepalive rest;
     c_allow_zero_len := c_allow_zero_len rest; c_inflight_expiry := c_inflight_expiry rest |}.

Theorem C13_accepted_config_is_sane : forall c rest, in_range c -> mqtt_validate (env_of c) = VOk ->
  let b := broker_cfg c rest in
  1 <= c_max_inflight b <= MAXPID /\ (N.to_nat (c_max_inflight b) <= c_max_queued b)%nat /\
  1 <= c_recv_max b <= 65535 /\ 1 <= c_max_packet b /\ c_max_qos b <= 2.
Proof.
  intros c rest Hr Hv. destruct (C13_accepted_config_facts c Hr Hv) as (A & B & C & D & E & F).
  unfold broker_cfg, MAXPID. cbn [c_max_inflight c_max_queued c_recv_max c_max_packet c_max_qos]. lia.
Qed.
Print Assumptions C13_accepted_config_is_sane.

(* the window / id invariants of C03 start from every accepted configuration *)
Theorem C13_accepted_config_global_invariant : forall c rest w h p, in_range c -> mqtt_validate (env_of c) = VOk ->
  GInv w (st_init (broker_cfg c rest) h p).
Proof.
  intros c rest w h p Hr Hv. apply GInv_init.
  destruct (C13_accepted_config_is_sane c rest Hr Hv) as ((_ & H) & _). exact H.
Qed.
Print Assumptions C13_accepted_config_global_invariant.
