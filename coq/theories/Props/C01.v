(* C01 - PUBLISH reaches exactly the matching subscribers, at the right QoS, in order; and the
   broker-level half of C11 (one member per share group).  Statements only; proofs in
   Proofs/DeliverP.v.  They are about `deliver` / `add_to_queue` / `handle_publish` of
   Model/Broker.v, for ALL states.

   Vocabulary (Proofs/DeliverP.v):
   - d_found m s            the entries the subscription store returns for the topic of m
   - d_ents src m s         the same after No Local (entries of `src` with the option are left out)
   - d_plain / d_shared     the non-shared / shared ones; d_groups: the shared ones grouped by full topic name
   - copy_of m sb ids       the message queued through subscription sb carrying the identifiers ids
   - call = (client, subscription, ids): one call of add_to_queue; run_calls: their sequential execution
   - nodrop_ok src m s      (boolean) every session with a matching subscription has a queue with room for as
                            many copies as it has matching subscriptions and the queue_qos0 rule does not skip it
   - q_extend app q         q with the elements app appended (cursor and flags unchanged)
   - stamped m s s' e       e carries a tag in [b_tag s, b_tag s'), the current time, and the expiry
                            add_to_queue computes for its body. *)
From Coq Require Import List NArith Bool Sorted.
Import ListNotations.
From GM Require Import Base.Topic Base.Msg Model.SubTrie Model.SubSpec Model.Queue Model.Broker
  Proofs.SubTrieP Proofs.QueueP Proofs.DeliverP.
Open Scope N_scope.

(* ---------- 1. add_to_queue ---------- *)

(* room in the queue and not skipped by queue_qos0: the copy is appended at the end; nothing is
   dropped; nothing else changes *)
Theorem C01_add_to_queue :
  forall (cid : str) (m : msg) (sb : sub) (ids : list N) (s : st) (q : queue),
    aget cid (b_queues s) = Some q -> aq_skip cid m s = false -> (length (q_l q) < q_max q)%nat ->
    exists e m' s',
      add_to_queue cid m sb ids s = (s', []) /\
      aget cid (b_queues s') = Some (q_set (q_l q ++ [e]) (q_cur q) (q_drained q) q) /\
      e_body e = QPub m' /\ e_tag e = b_tag s /\ e_at e = b_now s /\
      m_qos m' = N.min (m_qos m) (s_qos sb) /\
      m_retained m' = m_retained m && s_rap sb /\
      m_subids m' = m_subids m ++ filter (fun i => negb (i =? 0)) ids /\
      m_dup m' = false /\
      m_topic m' = m_topic m /\ m_payload m' = m_payload m /\ m_pid m' = m_pid m /\ m_ctype m' = m_ctype m /\
      m_corr m' = m_corr m /\ m_expiry m' = m_expiry m /\ m_pfmt m' = m_pfmt m /\ m_resp m' = m_resp m /\
      m_uprops m' = m_uprops m /\
      (forall c', c' <> cid -> aget c' (b_queues s') = aget c' (b_queues s)) /\
      b_subs s' = b_subs s /\ b_ret s' = b_ret s /\ b_online s' = b_online s /\ b_sessions s' = b_sessions s /\
      b_conns s' = b_conns s /\ b_tag s' = b_tag s + 1.
Proof. exact add_to_queue_room_full. Qed.
Print Assumptions C01_add_to_queue.

Theorem C01_add_to_queue_no_queue :
  forall (cid : str) (m : msg) (sb : sub) (ids : list N) (s : st),
    aget cid (b_queues s) = None -> add_to_queue cid m sb ids s = (s, []).
Proof. exact add_to_queue_noqueue. Qed.
Print Assumptions C01_add_to_queue_no_queue.

(* in every case (drops included): only the client's own queue, the tag counter and the limiter
   of its connection can change, and the outputs are ODropped of that client *)
Theorem C01_add_to_queue_frame :
  forall (cid : str) (m : msg) (sb : sub) (ids : list N) (s : st),
    let s' := fst (add_to_queue cid m sb ids s) in
    b_cfg s' = b_cfg s /\ b_hooks s' = b_hooks s /\ b_now s' = b_now s /\ b_rt s' = b_rt s /\
    b_sessions s' = b_sessions s /\ b_online s' = b_online s /\ b_offline s' = b_offline s /\
    b_wills s' = b_wills s /\ b_subs s' = b_subs s /\ b_ret s' = b_ret s /\
    b_unacks s' = b_unacks s /\ b_picks s' = b_picks s /\ b_auto s' = b_auto s /\ b_npick s' = b_npick s /\
    map fst (b_conns s') = map fst (b_conns s) /\
    (b_tag s <= b_tag s' <= b_tag s + 1) /\
    (forall c', c' <> cid -> aget c' (b_queues s') = aget c' (b_queues s)) /\
    (forall c', ahas c' (b_queues s') = ahas c' (b_queues s)) /\
    Forall (is_dropped_of cid) (snd (add_to_queue cid m sb ids s)).
Proof. exact add_to_queue_frame. Qed.
Print Assumptions C01_add_to_queue_frame.

(* ---------- 2. the `matched` result ---------- *)

Theorem C01_matched :
  forall (src : str) (m : msg) (s : st),
    snd (deliver src m s) = true <->
    exists c sb, In (c, sb) (d_found m s) /\ ~ (s_nl sb = true /\ c = src).
Proof. exact deliver_matched. Qed.
Print Assumptions C01_matched.

Theorem C01_matched_spec :
  forall (src : str) (m : msg) (s : st) (ops : list op),
    b_subs s = db_run ops -> wf_ops ops = true -> m_topic m <> [] -> no_wild_levels (split (m_topic m)) = true ->
    (snd (deliver src m s) = true <->
     exists c sb, sp_get (c, s_share sb, s_filter sb) (spec_run ops) = Some sb /\
                  sub_matches (m_topic m) sb = true /\ ~ (s_nl sb = true /\ c = src)).
Proof. exact deliver_matched_spec. Qed.
Print Assumptions C01_matched_spec.

(* the entries deliver works on, in terms of the flat specification of the store *)
Theorem C01_plain_entries :
  forall (src : str) (m : msg) (s : st) (ops : list op),
    b_subs s = db_run ops -> wf_ops ops = true -> m_topic m <> [] -> no_wild_levels (split (m_topic m)) = true ->
    NoDup (d_plain src m s) /\
    forall c sb, In (c, sb) (d_plain src m s) <->
      sp_get (c, [], s_filter sb) (spec_run ops) = Some sb /\ topic_match (m_topic m) (s_filter sb) = true /\
      ~ (s_nl sb = true /\ c = src).
Proof. exact plain_spec. Qed.
Print Assumptions C01_plain_entries.

Theorem C11_shared_entries :
  forall (src : str) (m : msg) (s : st) (ops : list op),
    b_subs s = db_run ops -> wf_ops ops = true -> m_topic m <> [] -> no_wild_levels (split (m_topic m)) = true ->
    NoDup (d_shared src m s) /\
    forall c sb, In (c, sb) (d_shared src m s) <->
      s_share sb <> [] /\ sp_get (c, s_share sb, s_filter sb) (spec_run ops) = Some sb /\
      topic_match (m_topic m) (s_filter sb) = true /\ ~ (s_nl sb = true /\ c = src).
Proof. exact shared_spec. Qed.
Print Assumptions C11_shared_entries.

(* ---------- 3. overlap mode ---------- *)

(* deliver is a sequence of add_to_queue calls: one per matching plain entry (overlap), one per
   share group, one per client with matching plain entries (onlyonce); for all pick values *)
Theorem C01_deliver_calls :
  forall (src : str) (m : msg) (s : st),
    exists cl1 cl2 cl3 p n,
      deliver_shape src m s cl1 cl2 cl3 /\
      deliver src m s =
      (set_pk p n (fst (run_calls m (cl1 ++ cl2 ++ cl3) (s, []))),
       snd (run_calls m (cl1 ++ cl2 ++ cl3) (s, [])), nonnil (d_ents src m s)).
Proof. exact deliver_calls. Qed.
Print Assumptions C01_deliver_calls.

(* the elements appended to c's queue are, in this order, one copy per matching plain entry of c
   (in store order), then one copy per share group in which c was picked *)
Theorem C01_overlap_copies :
  forall (src : str) (m : msg) (s : st) (c : cid) (q : queue),
    c_onlyonce (b_cfg s) = false -> nodrop_ok src m s = true -> aget c (b_queues s) = Some q ->
    exists (picked : list call) (app : list elem),
      Forall2 group_call (d_groups src m s) picked /\
      aget c (b_queues (fst (fst (deliver src m s)))) = Some (q_extend app q) /\
      snd (fst (deliver src m s)) = [] /\
      map e_body app = map (plain_copy m) (of_cl c (d_plain src m s)) ++ map (call_body m) (calls_for c picked) /\
      Forall (stamped m s (fst (fst (deliver src m s)))) app /\
      StronglySorted N.lt (map e_tag app).
Proof. exact C01_overlap_copies_l. Qed.
Print Assumptions C01_overlap_copies.

(* the same against the specification of the store: exactly one copy per subscription (c, filter) of
   the flat map whose filter matches the topic and that is not (No Local and c = src) *)
Theorem C01_overlap_copies_by_spec :
  forall (src : str) (m : msg) (s : st) (ops : list op) (c : cid) (q : queue),
    b_subs s = db_run ops -> wf_ops ops = true -> m_topic m <> [] -> no_wild_levels (split (m_topic m)) = true ->
    c_onlyonce (b_cfg s) = false -> nodrop_ok src m s = true -> aget c (b_queues s) = Some q ->
    exists (subs : list sub) (picked : list call) (app : list elem),
      NoDup subs /\ (forall sb, In sb subs <-> matching_plain ops src (m_topic m) c sb) /\
      Forall2 group_call (d_groups src m s) picked /\
      aget c (b_queues (fst (fst (deliver src m s)))) = Some (q_extend app q) /\
      snd (fst (deliver src m s)) = [] /\
      map e_body app = map (sub_copy m) subs ++ map (call_body m) (calls_for c picked) /\
      Forall (stamped m s (fst (fst (deliver src m s)))) app /\
      StronglySorted N.lt (map e_tag app).
Proof. exact C01_overlap_copies_spec. Qed.
Print Assumptions C01_overlap_copies_by_spec.

(* a client none of whose entries is returned for the topic gets nothing (no hypothesis on room) *)
Theorem C01_nothing_unmatched :
  forall (src : str) (m : msg) (s : st) (c : cid),
    of_cl c (d_ents src m s) = [] ->
    aget c (b_queues (fst (fst (deliver src m s)))) = aget c (b_queues s).
Proof. exact C01_nothing_unmatched_l. Qed.
Print Assumptions C01_nothing_unmatched.

(* CHANGED: needs `m_topic m <> []`; see C01_empty_topic_reaches_everyone below *)
Theorem C01_nothing_unmatched_by_spec :
  forall (src : str) (m : msg) (s : st) (ops : list op) (c : cid),
    b_subs s = db_run ops -> wf_ops ops = true -> m_topic m <> [] -> no_wild_levels (split (m_topic m)) = true ->
    (forall sb, sp_get (c, s_share sb, s_filter sb) (spec_run ops) = Some sb -> sub_matches (m_topic m) sb = false) ->
    aget c (b_queues (fst (fst (deliver src m s)))) = aget c (b_queues s).
Proof. exact C01_nothing_unmatched_spec. Qed.
Print Assumptions C01_nothing_unmatched_by_spec.

(* what deliver never touches, and that it only emits ODropped *)
Theorem C01_deliver_frame :
  forall (src : str) (m : msg) (s : st),
    dframe s (fst (fst (deliver src m s))) /\ Forall is_dropped (snd (fst (deliver src m s))) /\
    forall c, of_cl c (d_ents src m s) = [] ->
              aget c (b_queues (fst (fst (deliver src m s)))) = aget c (b_queues s).
Proof. exact deliver_frame. Qed.
Print Assumptions C01_deliver_frame.

(* ---------- 4. onlyonce mode ---------- *)

(* a client with matching plain entries gets, after the share-group copies, exactly one copy, through
   one of its matching subscriptions of highest granted QoS, carrying the identifiers of all of them *)
Theorem C01_onlyonce_copy :
  forall (src : str) (m : msg) (s : st) (c : cid) (q : queue),
    c_onlyonce (b_cfg s) = true -> nodrop_ok src m s = true -> aget c (b_queues s) = Some q ->
    let subs := map snd (of_cl c (d_plain src m s)) in
    exists (picked : list call) (app : list elem),
      Forall2 group_call (d_groups src m s) picked /\
      aget c (b_queues (fst (fst (deliver src m s)))) = Some (q_extend app q) /\
      snd (fst (deliver src m s)) = [] /\
      ((subs = [] /\ map e_body app = map (call_body m) (calls_for c picked)) \/
       (exists sb, In sb subs /\ s_qos sb = max_qos_of subs /\
                   map e_body app = map (call_body m) (calls_for c picked) ++ [QPub (copy_of m sb (map s_id subs))])) /\
      Forall (stamped m s (fst (fst (deliver src m s)))) app /\
      StronglySorted N.lt (map e_tag app).
Proof. exact C01_onlyonce_copy_l. Qed.
Print Assumptions C01_onlyonce_copy.

Theorem C01_onlyonce_copy_by_spec :
  forall (src : str) (m : msg) (s : st) (ops : list op) (c : cid) (q : queue),
    b_subs s = db_run ops -> wf_ops ops = true -> m_topic m <> [] -> no_wild_levels (split (m_topic m)) = true ->
    c_onlyonce (b_cfg s) = true -> nodrop_ok src m s = true -> aget c (b_queues s) = Some q ->
    exists (subs : list sub) (picked : list call) (app : list elem),
      NoDup subs /\ (forall sb, In sb subs <-> matching_plain ops src (m_topic m) c sb) /\
      Forall2 group_call (d_groups src m s) picked /\
      aget c (b_queues (fst (fst (deliver src m s)))) = Some (q_extend app q) /\
      snd (fst (deliver src m s)) = [] /\
      ((subs = [] /\ map e_body app = map (call_body m) (calls_for c picked)) \/
       (exists sb m', In sb subs /\ (forall x, In x subs -> s_qos x <= s_qos sb) /\
          map e_body app = map (call_body m) (calls_for c picked) ++ [QPub m'] /\
          m' = copy_of m sb (map s_id subs) /\
          m_qos m' = N.min (m_qos m) (max_qos_of subs) /\
          m_subids m' = m_subids m ++ filter (fun i => negb (i =? 0)) (map s_id subs))) /\
      Forall (stamped m s (fst (fst (deliver src m s)))) app /\
      StronglySorted N.lt (map e_tag app).
Proof. exact C01_onlyonce_copy_spec. Qed.
Print Assumptions C01_onlyonce_copy_by_spec.

(* ---------- 5. C11: one member per share group ---------- *)

(* the groups: all matching shared entries of one full topic name, in store order *)
Theorem C11_groups :
  forall (src : str) (m : msg) (s : st) (k : str) (members : list (cid * sub)),
    In (k, members) (d_groups src m s) <->
    members = filter (fun e : cid * sub => str_eqb (full_name (snd e)) k) (d_shared src m s) /\ members <> [].
Proof. exact d_groups_spec. Qed.
Print Assumptions C11_groups.

Theorem C11_groups_distinct :
  forall (src : str) (m : msg) (s : st), NoDup (map fst (d_groups src m s)).
Proof. exact d_groups_nodup. Qed.
Print Assumptions C11_groups_distinct.

(* whatever the state and the pick values: deliver makes exactly one add_to_queue call per group
   (`picked` is in one-to-one correspondence with the groups), for a member of that group, with that
   member's subscription and identifier; every such call is for a matching shared entry; no other call
   uses a shared subscription *)
Theorem C11_one_member_per_group :
  forall (src : str) (m : msg) (s : st),
    exists cl1 picked cl3 p n,
      deliver src m s = (set_pk p n (fst (run_calls m (cl1 ++ picked ++ cl3) (s, []))),
                         snd (run_calls m (cl1 ++ picked ++ cl3) (s, [])), nonnil (d_ents src m s)) /\
      Forall2 group_call (d_groups src m s) picked /\
      Forall (fun cl => In (call_cid cl, call_sub cl) (d_shared src m s)) picked /\
      Forall (fun cl => is_empty (s_share (call_sub cl)) = true) (cl1 ++ cl3).
Proof. exact C11_one_member_per_group_l. Qed.
Print Assumptions C11_one_member_per_group.

(* ---------- 6. acknowledgements ---------- *)

(* an accepted PUBLISH (the handler returns HOk) produces exactly the acknowledgement its QoS asks
   for, carrying its packet identifier, and no other packet *)
Theorem C01_ack :
  forall (c : N) (k : conn) (dup : bool) (qos : N) (retain : bool) (topic payload : str) (pid : N)
         (props : list prop) (s s' : st) (out : list Broker.out),
    handle_publish c k dup qos retain topic payload pid props s = HOk s' out ->
    exists code, filter is_send out = ack_of c qos pid code.
Proof. exact C01_ack_l. Qed.
Print Assumptions C01_ack.

Theorem C01_ack_of_event :
  forall (c : N) (k : conn) (dup : bool) (qos : N) (retain : bool) (topic payload : str) (pid : N)
         (props : list prop) (s s' : st) (out : list Broker.out),
    nget c (b_conns s) = Some k -> k_phase k = PhConnected ->
    handle_packet c k (KPublish dup qos retain topic payload pid props) s = HOk s' out ->
    step_event s (ESend c (KPublish dup qos retain topic payload pid props)) = (s', out) /\
    exists code, filter is_send out = ack_of c qos pid code.
Proof. exact C01_ack_event. Qed.
Print Assumptions C01_ack_of_event.

(* the whole step (handler, then all poll loops until quiescence): among everything the broker writes
   there is exactly one PUBACK/PUBREC - the one for this PUBLISH, to its sender, with its identifier *)
Theorem C01_ack_of_step :
  forall (c : N) (k : conn) (dup : bool) (qos : N) (retain : bool) (topic payload : str) (pid : N)
         (props : list prop) (s s' : st) (out : list Broker.out),
    nget c (b_conns s) = Some k -> k_phase k = PhConnected ->
    handle_packet c k (KPublish dup qos retain topic payload pid props) s = HOk s' out ->
    exists code,
      filter is_ack (snd (step s (ESend c (KPublish dup qos retain topic payload pid props)))) = ack_of c qos pid code.
Proof. exact C01_ack_step. Qed.
Print Assumptions C01_ack_of_step.

(* ---------- 7. order ---------- *)

(* deliver only appends: copies of m, stamped with increasing tags taken from the counter b_tag *)
Theorem C01_deliver_appends :
  forall (src : str) (m : msg) (s : st) (c : cid) (q : queue),
    nodrop_ok src m s = true -> aget c (b_queues s) = Some q ->
    exists app,
      aget c (b_queues (fst (fst (deliver src m s)))) = Some (q_extend app q) /\
      Forall (stamped m s (fst (fst (deliver src m s)))) app /\
      Forall (copy_elem m) app /\
      StronglySorted N.lt (map e_tag app).
Proof. exact deliver_appends. Qed.
Print Assumptions C01_deliver_appends.

Theorem C01_tag_counter_monotone :
  forall (src : str) (m : msg) (s : st), b_tag s <= b_tag (fst (fst (deliver src m s))).
Proof. exact deliver_tag_mono. Qed.
Print Assumptions C01_tag_counter_monotone.

(* p1 delivered before p2: in every queue all copies of p1 precede all copies of p2 *)
Theorem C01_fifo_per_publisher :
  forall (src1 : str) (m1 : msg) (src2 : str) (m2 : msg) (s : st) (c : cid) (q : queue),
    let s1 := fst (fst (deliver src1 m1 s)) in
    let s2 := fst (fst (deliver src2 m2 s1)) in
    nodrop_ok src1 m1 s = true -> nodrop_ok src2 m2 s1 = true -> aget c (b_queues s) = Some q ->
    exists app1 app2,
      aget c (b_queues s2) = Some (q_extend (app1 ++ app2) q) /\
      Forall (copy_elem m1) app1 /\ Forall (copy_elem m2) app2 /\
      Forall (stamped m1 s s1) app1 /\ Forall (stamped m2 s1 s2) app2 /\
      StronglySorted N.lt (map e_tag (app1 ++ app2)).
Proof. exact C01_fifo_two_l. Qed.
Print Assumptions C01_fifo_per_publisher.

(* deliver keeps the unread part of a queue in increasing tag order (tags below the counter) ... *)
Theorem C01_deliver_keeps_order :
  forall (src : str) (m : msg) (s : st) (c : cid) (q : queue),
    nodrop_ok src m s = true -> aget c (b_queues s) = Some q -> (q_cur q <= length (q_l q))%nat ->
    unread_sorted (b_tag s) q ->
    exists q', aget c (b_queues (fst (fst (deliver src m s)))) = Some q' /\
               q_cur q' = q_cur q /\ unread_sorted (b_tag (fst (fst (deliver src m s)))) q'.
Proof. exact deliver_keeps_order. Qed.
Print Assumptions C01_deliver_keeps_order.

(* ... and Read hands out a subsequence of the unread part in queue order: with the above, in
   publication order *)
Theorem C01_read_in_queue_order :
  forall (now : N) (pids : list N) (q q' : queue) (rs : list elem) (evs : list qev),
    q_read now pids q = QOk (q', rs, evs) ->
    subseq (map e_tag rs) (map e_tag (skipn (q_cur q) (q_l q))).
Proof. exact q_read_in_order. Qed.
Print Assumptions C01_read_in_queue_order.

Theorem C01_read_in_publication_order :
  forall (now : N) (pids : list N) (q q' : queue) (rs : list elem) (evs : list qev),
    StronglySorted N.lt (map e_tag (skipn (q_cur q) (q_l q))) ->
    q_read now pids q = QOk (q', rs, evs) -> StronglySorted N.lt (map e_tag rs).
Proof. exact q_read_sorted. Qed.
Print Assumptions C01_read_in_publication_order.

(* ---------- examples ---------- *)
(* ex_state once picks: three v5 clients a, b, c on sockets 1, 2, 3 after
   a: SUBSCRIBE "t/#" (QoS 1, id 7), "t/+" (QoS 0, No Local); b: "t/x" (QoS 2, RAP, id 9),
   "$share/g/t/x" (QoS 1, id 9); c: "$share/g/t/x" (QoS 0) *)

Example C01_ex_state_is_a_store_history :
  b_subs (ex_state false [1%nat]) = db_run ex_ops /\ wf_ops ex_ops = true /\
  b_subs (ex_state true [1%nat]) = db_run ex_ops.
Proof. vm_compute. repeat split. Qed.

(* 1: the hypotheses of C01_add_to_queue hold for client a *)
Example C01_add_to_queue_nonvacuous :
  let s := ex_state false [] in
  match aget ex_A (b_queues s) with
  | Some q => aq_skip ex_A (ex_pub ex_t_x 1 true) s = false /\ Nat.ltb (length (q_l q)) (q_max q) = true
  | None => False
  end.
Proof. vm_compute. split; reflexivity. Qed.

(* 2: matched / not matched *)
Example C01_matched_nonvacuous :
  let s := ex_state false [] in
  snd (deliver ex_A (ex_pub ex_t_x 1 true) s) = true /\ snd (deliver ex_A (ex_pub ex_u 1 true) s) = false.
Proof. vm_compute. split; reflexivity. Qed.

(* 3: overlap, published by a with QoS 1 and RETAIN: a gets one copy through "t/#" (its No Local
   subscription "t/+" is left out), b one through "t/x" with RETAIN kept, the group member picked is c *)
Example C01_overlap_nonvacuous :
  let s := ex_state false [1%nat] in
  let m := ex_pub ex_t_x 1 true in
  let s' := fst (fst (deliver ex_A m s)) in
  c_onlyonce (b_cfg s) = false /\ nodrop_ok ex_A m s = true /\
  m_topic m <> [] /\ no_wild_levels (split (m_topic m)) = true /\
  ex_queue_bodies ex_A s = [] /\
  ex_queue_bodies ex_A s' = [QPub (copy_of m (ex_sub [] ex_t_hash 7 1 false false) [7])] /\
  ex_queue_bodies ex_B s' = [QPub (copy_of m (ex_sub [] ex_t_x 9 2 false true) [9])] /\
  ex_queue_bodies ex_C s' = [QPub (copy_of m (ex_sub [103] ex_t_x 0 0 false false) [0])] /\
  (ex_queue_tags ex_A s', ex_queue_tags ex_B s', ex_queue_tags ex_C s') = ([1], [2], [3]).
Proof. vm_compute. repeat split; discriminate. Qed.

Example C01_nothing_unmatched_nonvacuous :
  let s := ex_state false [] in
  of_cl ex_C (d_ents ex_A (ex_pub ex_u 1 false) s) = [] /\ of_cl ex_A (d_ents ex_B (ex_pub ex_t_x 0 false) s) <> [].
Proof. vm_compute. split; [reflexivity|discriminate]. Qed.

(* 4: onlyonce, published by b: a has two matching subscriptions (QoS 1 id 7, QoS 0 no id) and gets one
   copy at QoS min(1, max(1, 0)) carrying identifier 7 *)
Example C01_onlyonce_nonvacuous :
  let s := ex_state true [1%nat] in
  let m := ex_pub ex_t_x 1 true in
  let s' := fst (fst (deliver ex_B m s)) in
  c_onlyonce (b_cfg s) = true /\ nodrop_ok ex_B m s = true /\
  map snd (of_cl ex_A (d_plain ex_B m s)) = [ex_sub [] ex_t_hash 7 1 false false; ex_sub [] ex_t_plus 0 0 true false] /\
  ex_queue_bodies ex_A s' = [QPub (copy_of m (ex_sub [] ex_t_hash 7 1 false false) [7; 0])] /\
  (ex_queue_tags ex_C s', ex_queue_tags ex_A s', ex_queue_tags ex_B s') = ([1], [2], [3]).
Proof. vm_compute. repeat split. Qed.

(* 5: one group with two members *)
Example C11_one_member_nonvacuous :
  let s := ex_state false [1%nat] in
  d_groups ex_A (ex_pub ex_t_x 1 true) s =
  [(ex_sh_x, [(ex_B, ex_sub [103] ex_t_x 9 1 false false); (ex_C, ex_sub [103] ex_t_x 0 0 false false)])].
Proof. vm_compute. reflexivity. Qed.

(* 6: QoS 1 -> PUBACK 5 (matched, code 0); QoS 2 on a topic nobody subscribes -> PUBREC 6 (code 16); QoS 0 -> nothing *)
Example C01_ack_nonvacuous :
  let s := ex_state false [] in
  match nget 2 (b_conns s) with
  | Some k =>
      k_phase k = PhConnected /\
      (match handle_packet 2 k (KPublish false 1 false ex_t_x [104] 5 []) s with
       | HOk _ out => filter is_send out = [OSend 2 (KPuback 5 0 [])] | _ => False end) /\
      (match handle_packet 2 k (KPublish false 2 false ex_u [104] 6 []) s with
       | HOk _ out => filter is_send out = [OSend 2 (KPubrec 6 16 [])] | _ => False end) /\
      (match handle_packet 2 k (KPublish false 0 false ex_t_x [104] 0 []) s with
       | HOk _ out => filter is_send out = [] | _ => False end)
  | None => False
  end.
Proof. vm_compute. repeat split. Qed.

Example C01_ack_of_step_nonvacuous :
  let s := ex_state false [] in
  filter is_ack (snd (step s (ESend 2 (KPublish false 1 false ex_t_x [104] 5 [])))) = [OSend 2 (KPuback 5 0 [])] /\
  length (snd (step s (ESend 2 (KPublish false 1 false ex_t_x [104] 5 [])))) = 5%nat.
Proof. vm_compute. split; reflexivity. Qed.

(* 7: two publications by b *)
Example C01_fifo_nonvacuous :
  let s := ex_state false [] in
  let m1 := ex_pub ex_t_x 1 false in let m2 := ex_pub ex_t_x 0 false in
  let s1 := fst (fst (deliver ex_B m1 s)) in
  let s2 := fst (fst (deliver ex_B m2 s1)) in
  nodrop_ok ex_B m1 s = true /\ nodrop_ok ex_B m2 s1 = true /\
  ex_queue_tags ex_A s2 = [1; 2; 5; 6] /\
  map (fun b => match b with QPub x => m_qos x | QRel _ => 9 end) (ex_queue_bodies ex_A s2) = [1; 0; 0; 0].
Proof. vm_compute. repeat split. Qed.

Example C01_keeps_order_nonvacuous :
  let s := fst (fst (deliver ex_B (ex_pub ex_t_x 1 false) (ex_state false []))) in
  match aget ex_A (b_queues s) with
  | Some q => Nat.leb (q_cur q) (length (q_l q)) = true /\ map e_tag (skipn (q_cur q) (q_l q)) = [1; 2] /\ b_tag s = 5
  | None => False
  end /\ nodrop_ok ex_B (ex_pub ex_t_x 0 false) s = true.
Proof. vm_compute. repeat split. Qed.

(* COUNTEREXAMPLE (the reason for `m_topic m <> []` above).  A message whose topic name is the empty
   string makes the store return EVERY subscription (Iterate treats TopicName "" as "no topic given"):
   "" is delivered and a, whose filters "t/#" and "t/+" do not match "", receives it twice on socket 1;
   b receives it through "t/x" and through the share group.  Since the repair of the read loop a client
   can no longer cause this: a PUBLISH with an empty topic name and no Topic Alias is refused
   (DISCONNECT 0x82, first equation); `deliver` itself still behaves this way (second equation: the
   same message handed to deliver by the API publisher), hence the hypothesis stays in the
   deliver-level statements.  Before the repair it was reproduced on the real broker (v3.1.1 client
   subscribed to "t/x" only receives 30 04 00 00 68 69). *)
Example C01_empty_topic_reaches_everyone :
  let s := ex_state false [] in
  forallb (fun o => match o with OSub _ sb => negb (sub_matches [] sb) | _ => true end) ex_ops = true /\
  snd (run s [ESend 2 (KPublish false 0 false [] [104] 0 [])]) = [[OSend 2 (KDisconnect 130 []); OClose 2]] /\
  snd (run s [EApiPublish (ex_pub [] 0 false)]) =
  [[OSend 1 (KPublish false 0 false [] [104; 105] 0 [PSubId 7]);
    OSend 1 (KPublish false 0 false [] [104; 105] 0 []);
    OSend 2 (KPublish false 0 false [] [104; 105] 0 [PSubId 9]);
    OSend 2 (KPublish false 0 false [] [104; 105] 0 [PSubId 9])]].
Proof. vm_compute. repeat split. Qed.

(* SECOND FINDING, REPAIRED (`sub_matches` used to be level matching only for shared subscriptions): the
   store applied MQTT-4.7.2-1 ("a filter starting with a wildcard does not match a topic starting with $")
   by choosing between the user and the system trie, i.e. to non-shared subscriptions only, and
   "$share/g/#" received "$SYS/x" (reproduced on the real broker before the repair: "$share/g/#" received
   30 09 00 06 "$SYS/x" 79).  getMatchedTopicFilter now follows only the literal first level for a topic
   name beginning with '$', in every trie, and `sub_matches` is topic_match for shared subscriptions too.
   Client a holds "#" and "$share/g/#"; b publishes "$SYS/x": neither matches and nothing is sent (first
   two equations).  When a also holds "$share/g/$SYS/#" (subscription identifier 5) the same publication
   reaches a, once, through that subscription (last two). *)
Example C11_shared_wildcard_skips_dollar_topic :
  topic_match ex_sys_x ex_hash = false /\
  snd (run ex_state2 [ESend 2 (KPublish false 0 false ex_sys_x [121] 0 [])]) = [[]] /\
  topic_match ex_sys_x ex_sys_hash = true /\
  snd (run ex_state3 [ESend 2 (KPublish false 0 false ex_sys_x [121] 0 [])]) =
  [[OSend 1 (KPublish false 0 false ex_sys_x [121] 0 [PSubId 5])]].
Proof. vm_compute. repeat split. Qed.
