(* C07 (broker half) - "Retained messages: last value per topic, replayed to new subscriptions per spec",
   proved of the broker model Model/Broker.v for all states (Proofs/BrokerRetainP.v).  The store itself
   (last value per topic, lookups by filter) is Props/C07.v; `R d sp` is its refinement relation between a
   retained database d and the flat map sp : topic -> message (Proofs/RetTrieP.v), `ret_inv d` says that d
   is related to a flat map all of whose messages were stored by a RETAIN=1 publication; both hold of the
   retained store of every reachable state (C07_reachable_history, C07_ret_inv_reachable).
   Changed with respect to the property text: "with RETAIN=1" is false of the model and of the code
   (C07_replay_retain_flag_refuted); the replayed copy carries RETAIN exactly under Retain-As-Published. *)
From Coq Require Import List NArith Bool.
Import ListNotations.
From GM Require Import Base.Topic Base.Msg Model.SubTrie Model.RetTrie Model.Queue Model.Limiter
  Model.TopicMatch Model.Broker Proofs.RetTrieP Proofs.BrokerRetainP.
Open Scope N_scope.

(* ---------------------------------------------------------------- *)
(* 1. retain_update                                                   *)
(* ---------------------------------------------------------------- *)
Theorem C07_retain_update : forall (m : msg) (s : st),
  let d := b_ret s in
  let d' := b_ret (retain_update m s) in
  (* only b_ret changes *)
  retain_update m s = set_ret d' s /\
  (* RETAIN=0: nothing; RETAIN=1: add-or-replace under the topic, or remove the topic *)
  (m_retained m = false -> d' = d) /\
  (m_retained m = true -> m_payload m <> [] -> d' = rdb_step d (RetTrie.RAdd m)) /\
  (m_retained m = true -> m_payload m = [] -> d' = rdb_step d (RetTrie.RRemove (m_topic m))) /\
  (* the flat view: that one topic updated *)
  (forall sp, R d sp ->
     R d' (flat_after m sp) /\
     forall t, rdb_get t d' =
               if m_retained m && str_eqb t (m_topic m)
               then match m_payload m with [] => None | _ => Some m end
               else rdb_get t d).
Proof. exact retain_update_spec. Qed.
Print Assumptions C07_retain_update.

Example C07_retain_update_nonvacuous :
  m_retained ex_m = true /\ m_payload ex_m <> [] /\
  rdb_get [116] (b_ret (retain_update ex_m ex_s0)) = Some ex_m /\
  rdb_get [116] (b_ret (retain_update (with_topic_payload_qos [116] [] 0 ex_m) (retain_update ex_m ex_s0))) = None.
Proof. vm_compute. repeat split. discriminate. Qed.
Example C07_retain_update_flat_view_nonvacuous : R (b_ret ex_s0) [].
Proof. exact ex_s0_R. Qed.

(* ---------------------------------------------------------------- *)
(* 2. PUBLISH                                                         *)
(* ---------------------------------------------------------------- *)
(* the stages named below compose to the publish handler, by computation *)
Theorem C07_publish_stages : forall c k dup qos retain topic payload pid props s,
  handle_publish c k dup qos retain topic payload pid props s =
  let v5 := k_v k =? 5 in
  if negb (k_retain_avail k) && retain then HErr s [] (Some 154)
  else
    match rp_alias v5 k topic props (msg_of_publish v5 dup qos retain topic payload pid props) with
    | inr code => HErr s [] (Some code)
    | inl None => HErr s [] None
    | inl (Some (k', m)) =>
        let '(s1, isdup) := rp_mark c k' v5 qos pid (upd_conn c k' s) in
        rp_finish c k' v5 qos pid (rp_fwd k' m isdup s1)
    end.
Proof. exact handle_publish_stages. Qed.
Print Assumptions C07_publish_stages.

(* the retained store after the publish handler: retain_update of the (alias-resolved, possibly hook-rewritten)
   message when the PUBLISH is accepted, unchanged when it is refused (retain not available, alias error,
   QoS 2 retransmission, rejecting or dropping hook) *)
Theorem C07_publish_updates_retained : forall c k dup qos retain topic payload pid props s,
  b_ret (hres_st (handle_publish c k dup qos retain topic payload pid props s)) =
  match pub_verdict_of k dup qos retain topic payload pid props s with
  | PubRefused => b_ret s
  | PubStored m => b_ret (retain_update m s)
  end.
Proof. exact publish_updates_retained. Qed.
Print Assumptions C07_publish_updates_retained.

Theorem C07_publish_accepted : forall c k dup qos retain topic payload pid props s k' m,
  let v5 := k_v k =? 5 in
  negb (k_retain_avail k) && retain = false ->
  rp_alias v5 k topic props (msg_of_publish v5 dup qos retain topic payload pid props) = inl (Some (k', m)) ->
  rp_isdup k' qos pid s = false ->
  (h_msg_on (b_hooks s) = false \/ rp_action m s = MAccept) ->
  b_ret (hres_st (handle_publish c k dup qos retain topic payload pid props s)) = b_ret (retain_update m s).
Proof. exact publish_accepted_updates. Qed.
Print Assumptions C07_publish_accepted.

Theorem C07_publish_rewritten : forall c k dup qos retain topic payload pid props s k' m t p q,
  let v5 := k_v k =? 5 in
  negb (k_retain_avail k) && retain = false ->
  rp_alias v5 k topic props (msg_of_publish v5 dup qos retain topic payload pid props) = inl (Some (k', m)) ->
  rp_isdup k' qos pid s = false ->
  rp_action m s = MRewrite t p q ->
  b_ret (hres_st (handle_publish c k dup qos retain topic payload pid props s)) =
    b_ret (retain_update (rewrite_msg t p q m) s).
Proof. exact publish_rewritten_updates. Qed.
Print Assumptions C07_publish_rewritten.

Theorem C07_publish_refused : forall c k dup qos retain topic payload pid props s,
  let v5 := k_v k =? 5 in
  (negb (k_retain_avail k) && retain = true \/
   (forall k' m, rp_alias v5 k topic props (msg_of_publish v5 dup qos retain topic payload pid props) <> inl (Some (k', m))) \/
   (exists k' m, rp_alias v5 k topic props (msg_of_publish v5 dup qos retain topic payload pid props) = inl (Some (k', m)) /\
                 (rp_isdup k' qos pid s = true \/ (exists code, rp_action m s = MReject code) \/ rp_action m s = MDrop))) ->
  b_ret (hres_st (handle_publish c k dup qos retain topic payload pid props s)) = b_ret s.
Proof. exact publish_refused_keeps. Qed.
Print Assumptions C07_publish_refused.

(* accepted on socket 1 (v3.1.1): stored; refused on socket 2 (v5, alias beyond the server's maximum): not stored;
   over the wire: the retained store after the PUBLISH, and after an empty-payload RETAIN=1 PUBLISH *)
Example C07_publish_nonvacuous :
  k_phase ex_k1 = PhConnected /\
  pub_verdict_of ex_k1 false 1 true [116] [120] 7 [] ex_s0 = PubStored ex_m /\
  pub_verdict_of ex_k2 false 1 true [116] [120] 7 [PAlias 5] ex_s1 = PubRefused /\
  rdb_get [116] (b_ret ex_s1) = Some ex_m /\
  b_ret (fst (run ex_s1 [ESend 1 (KPublish false 0 true [116] [] 0 [])])) = rdb_init.
Proof. vm_compute. repeat split. Qed.

(* ---------------------------------------------------------------- *)
(* 3. the gate of the replay in the SUBSCRIBE handler                 *)
(* ---------------------------------------------------------------- *)
(* handle_subscribe is the fold of sub_entry_step over the entries, by computation *)
Theorem C07_subscribe_unfold : forall c k pid props topics s,
  handle_subscribe c k pid props topics s =
  let v5 := k_v k =? 5 in
  let subid := sub_subid k props in
  if v5 && negb (c_subid (b_cfg s)) && negb (subid =? 0) then HErr s [] (Some 161)
  else
    match h_sub_all (b_hooks s) with
    | Some code => HOk s [OSend c (KSuback pid (map (fun _ => if v5 then code else 128) topics) [])]
    | None =>
        let '(s', o, codes) := fold_left (sub_entry_step c k subid topics) topics (s, [], []) in
        HOk s' (o ++ [OSend c (KSuback pid codes [])])
    end.
Proof. exact handle_subscribe_unfold. Qed.
Print Assumptions C07_subscribe_unfold.

(* one entry t: refused (code >= 128): nothing; granted: subscribed, and the retained replay happens iff the
   subscription is not shared and ((it did not exist before and Retain Handling <> 2) or Retain Handling = 0).
   Retain Handling (tq_rh t) is an input of the model; the decoder gives 0 to every entry of a v3 SUBSCRIBE
   (Model/CodecPackets.v), for which the gate is therefore open iff the filter is not a shared one. *)
Theorem C07_replay_gate : forall c k subid topics s0 o0 cs t,
  let sb := entry_sub k subid topics t s0 in
  let code := entry_code k subid topics t s0 in
  let shared := negb (is_empty (s_share sb)) in
  let d' := fst (db_subscribe (k_cid k) sb (b_subs s0)) in
  let existed := snd (db_subscribe (k_cid k) sb (b_subs s0)) in
  (128 <= code -> sub_entry_step c k subid topics (s0, o0, cs) t = (s0, o0, cs ++ [code])) /\
  (code < 128 -> replay_gate shared existed (tq_rh t) = true ->
     sub_entry_step c k subid topics (s0, o0, cs) t =
       (fst (replay_retained c k sb (set_subs d' s0)), o0 ++ snd (replay_retained c k sb (set_subs d' s0)), cs ++ [code])) /\
  (code < 128 -> replay_gate shared existed (tq_rh t) = false ->
     sub_entry_step c k subid topics (s0, o0, cs) t = (set_subs d' s0, o0, cs ++ [code])) /\
  (replay_gate shared existed (tq_rh t) = true <->
     (shared = false /\ ((existed = false /\ tq_rh t <> 2) \/ tq_rh t = 0))).
Proof. exact replay_gate_entry. Qed.
Print Assumptions C07_replay_gate.

Theorem C07_replay_gate_clauses : forall shared existed rh,
  (* never for a shared subscription *)
  (shared = true -> replay_gate shared existed rh = false) /\
  (* Retain Handling 0 (all a v3 client can ask for): always *)
  (shared = false -> rh = 0 -> replay_gate shared existed rh = true) /\
  (* Retain Handling 1: only if the subscription is new *)
  (shared = false -> rh = 1 -> replay_gate shared existed rh = negb existed) /\
  (* Retain Handling 2: never *)
  (rh = 2 -> replay_gate shared existed rh = false).
Proof. exact replay_gate_clauses. Qed.
Print Assumptions C07_replay_gate_clauses.

(* a SUBSCRIBE with one entry: the whole handler *)
Theorem C07_subscribe_single : forall c k pid props t s,
  let v5 := k_v k =? 5 in
  let subid := sub_subid k props in
  let sb := entry_sub k subid [t] t s in
  let code := entry_code k subid [t] t s in
  let shared := negb (is_empty (s_share sb)) in
  let d' := fst (db_subscribe (k_cid k) sb (b_subs s)) in
  let existed := snd (db_subscribe (k_cid k) sb (b_subs s)) in
  v5 && negb (c_subid (b_cfg s)) && negb (subid =? 0) = false ->
  h_sub_all (b_hooks s) = None ->
  code < 128 ->
  handle_subscribe c k pid props [t] s =
  if replay_gate shared existed (tq_rh t)
  then HOk (fst (replay_retained c k sb (set_subs d' s)))
           (snd (replay_retained c k sb (set_subs d' s)) ++ [OSend c (KSuback pid [code] [])])
  else HOk (set_subs d' s) [OSend c (KSuback pid [code] [])].
Proof. exact subscribe_single. Qed.
Print Assumptions C07_subscribe_single.

(* "b" (v5) subscribes to "t", for which "x" is kept.  Over the wire: Retain Handling 0: replayed; 2: not;
   1 twice: replayed the first time only; shared: not.  (RAP=1 in all of them.) *)
Example C07_replay_gate_nonvacuous :
  let t := ex_tq [116] true 0 in
  entry_code ex_k2 0 [t] t ex_s1 = 1 /\
  snd (db_subscribe (k_cid ex_k2) (entry_sub ex_k2 0 [t] t ex_s1) (b_subs ex_s1)) = false /\
  snd (run ex_s1 [ESend 2 (KSubscribe 1 [] [ex_tq [116] true 0])]) =
    [[OSend 2 (KSuback 1 [1] []); OSend 2 (KPublish false 1 true [116] [120] 1 [])]] /\
  snd (run ex_s1 [ESend 2 (KSubscribe 1 [] [ex_tq [116] true 2])]) = [[OSend 2 (KSuback 1 [1] [])]] /\
  snd (run ex_s1 [ESend 2 (KSubscribe 1 [] [ex_tq [116] true 1]); ESend 2 (KSubscribe 2 [] [ex_tq [116] true 1])]) =
    [[OSend 2 (KSuback 1 [1] []); OSend 2 (KPublish false 1 true [116] [120] 1 [])]; [OSend 2 (KSuback 2 [1] [])]] /\
  snd (run ex_s1 [ESend 2 (KSubscribe 1 [] [ex_tq ex_shared_name true 0])]) = [[OSend 2 (KSuback 1 [1] [])]].
Proof. vm_compute. repeat split. Qed.

(* ---------------------------------------------------------------- *)
(* 4. the contents of the replay                                      *)
(* ---------------------------------------------------------------- *)
(* replay_room: the client's queue can take one more element per stored match (nothing is dropped);
   replay_elem sb now tag m: the queue element with body QPub (replay_copy sb m), ghost tag `tag`, queued at `now`,
   expiring with the stored Message Expiry Interval *)
Theorem C07_replay_contents : forall c k sb s q,
  aget (k_cid k) (b_queues s) = Some q -> replay_room k sb s = true ->
  let cid := k_cid k in
  let msgs := rdb_matched (s_filter sb) (b_ret s) in
  let s' := fst (replay_retained c k sb s) in
  exists els,
    (* one element per stored match, in the order of the lookup, appended to the client's queue *)
    aget cid (b_queues s') = Some (q_extend els q) /\
    map e_body els = map (fun m => QPub (replay_copy sb m)) msgs /\
    (forall i m, nth_error msgs i = Some m ->
       nth_error els i = Some (replay_elem sb (b_now s) (b_tag s + N.of_nat i) m)) /\
    (* nothing is dropped, nothing is written *)
    snd (replay_retained c k sb s) = [] /\
    (* nothing else changes *)
    (forall c', c' <> cid -> aget c' (b_queues s') = aget c' (b_queues s)) /\
    b_subs s' = b_subs s /\ b_ret s' = b_ret s /\ b_sessions s' = b_sessions s /\ b_online s' = b_online s /\
    b_offline s' = b_offline s /\ b_wills s' = b_wills s /\ b_unacks s' = b_unacks s /\ b_conns s' = b_conns s /\
    b_cfg s' = b_cfg s /\ b_hooks s' = b_hooks s /\ b_now s' = b_now s /\ b_rt s' = b_rt s /\
    b_picks s' = b_picks s /\ b_auto s' = b_auto s /\ b_npick s' = b_npick s /\
    b_tag s' = b_tag s + N.of_nat (length msgs).
Proof. exact replay_contents. Qed.
Print Assumptions C07_replay_contents.

(* the replayed copy: min(stored QoS, granted QoS), DUP=0, RETAIN = stored flag && Retain-As-Published, the
   identifier of the subscription when it has one (else the stored ones), everything else as stored *)
Theorem C07_replay_copy : forall sb m,
  m_qos (replay_copy sb m) = N.min (m_qos m) (s_qos sb) /\
  m_dup (replay_copy sb m) = false /\
  m_retained (replay_copy sb m) = m_retained m && s_rap sb /\
  m_subids (replay_copy sb m) = (if s_id sb =? 0 then m_subids m else [s_id sb]) /\
  m_topic (replay_copy sb m) = m_topic m /\ m_payload (replay_copy sb m) = m_payload m /\
  m_pid (replay_copy sb m) = m_pid m /\ m_ctype (replay_copy sb m) = m_ctype m /\
  m_corr (replay_copy sb m) = m_corr m /\ m_expiry (replay_copy sb m) = m_expiry m /\
  m_pfmt (replay_copy sb m) = m_pfmt m /\ m_resp (replay_copy sb m) = m_resp m /\
  m_uprops (replay_copy sb m) = m_uprops m.
Proof. exact replay_copy_fields. Qed.
Print Assumptions C07_replay_copy.

(* no queue (no session): nothing *)
Theorem C07_replay_noqueue : forall c k sb s,
  aget (k_cid k) (b_queues s) = None -> replay_retained c k sb s = (s, []).
Proof. exact replay_retained_noqueue. Qed.
Print Assumptions C07_replay_noqueue.

(* with the store theorem: exactly the kept messages whose topic matches the filter, each once *)
Theorem C07_replay_exact : forall c k sb s q sp,
  aget (k_cid k) (b_queues s) = Some q -> replay_room k sb s = true ->
  R (b_ret s) sp -> valid_filter_spec (s_filter sb) = true ->
  exists msgs,
    aget (k_cid k) (b_queues (fst (replay_retained c k sb s))) =
      Some (q_extend (replay_elems sb (b_now s) (b_tag s) msgs) q) /\
    (forall m, In m msgs <-> (aget (m_topic m) sp = Some m /\ topic_match (m_topic m) (s_filter sb) = true)) /\
    NoDup (map m_topic msgs).
Proof. exact replay_exact. Qed.
Print Assumptions C07_replay_exact.

(* in a reachable state, against the history of RETAIN=1 publications: one copy per matching topic whose last
   publication has a non-empty payload - the copy of that publication *)
Theorem C07_replay_exact_reachable : forall cf h picks es c k sb q,
  let s := fst (run (st_init cf h picks) es) in
  aget (k_cid k) (b_queues s) = Some q -> replay_room k sb s = true ->
  valid_filter_spec (s_filter sb) = true ->
  exists hist msgs,
    Forall (fun m => m_retained m = true) hist /\
    aget (k_cid k) (b_queues (fst (replay_retained c k sb s))) =
      Some (q_extend (replay_elems sb (b_now s) (b_tag s) msgs) q) /\
    (forall m, In m msgs <->
               (last_retained (m_topic m) hist None = Some m /\ topic_match (m_topic m) (s_filter sb) = true)) /\
    NoDup (map m_topic msgs).
Proof. exact replay_exact_reachable. Qed.
Print Assumptions C07_replay_exact_reachable.

(* the hypotheses hold of "b" subscribing to "t" in ex_s1 (one stored match); the queue after the replay *)
Example C07_replay_contents_nonvacuous :
  aget (k_cid ex_k2) (b_queues ex_s1) = Some ex_q2 /\ replay_room ex_k2 (ex_sb true) ex_s1 = true /\
  valid_filter_spec (s_filter (ex_sb true)) = true /\
  rdb_matched (s_filter (ex_sb true)) (b_ret ex_s1) = [ex_m] /\
  map e_body (q_l (opt_or (aget [98] (b_queues (fst (replay_retained 2 ex_k2 (ex_sb true) ex_s1)))) ex_q2)) =
    [QPub ex_m].
Proof. vm_compute. repeat split. Qed.
Example C07_replay_exact_reachable_nonvacuous :
  ex_s1 = fst (run (st_init ex_cfg no_hooks []) [EConnect 1 (ex_cn 4 [112]); ESend 1 ex_pub; EConnect 2 (ex_cn 5 [98])]).
Proof. exact ex_s1_reachable. Qed.

(* ---------------------------------------------------------------- *)
(* 5. the RETAIN flag of a replayed copy                              *)
(* ---------------------------------------------------------------- *)
(* "with RETAIN=1" is false of the model, as of the code, whose own tests pin it (known finding
   kf_retained_replay_rap0): over the wire, a subscription without Retain-As-Published is sent RETAIN=0 *)
Example C07_replay_retain_flag_refuted_wire :
  snd (run ex_s1 [ESend 2 (KSubscribe 1 [] [ex_tq [116] false 0])]) =
    [[OSend 2 (KSuback 1 [1] []); OSend 2 (KPublish false 1 false [116] [120] 1 [])]].
Proof. vm_compute. reflexivity. Qed.

Theorem C07_replay_retain_flag_refuted :
  ~ (forall c k sb s q,
       aget (k_cid k) (b_queues s) = Some q -> replay_room k sb s = true ->
       ret_inv (b_ret s) -> valid_filter_spec (s_filter sb) = true ->
       forall q', aget (k_cid k) (b_queues (fst (replay_retained c k sb s))) = Some q' ->
       Forall (fun e => match e_body e with QPub m' => m_retained m' = true | QRel _ => True end)
              (skipn (length (q_l q)) (q_l q'))).
Proof. exact replay_retain_flag_refuted. Qed.
Print Assumptions C07_replay_retain_flag_refuted.

(* what is true: RETAIN of every replayed copy = Retain-As-Published of the subscription *)
Theorem C07_replay_retain_flag : forall c k sb s q,
  aget (k_cid k) (b_queues s) = Some q -> replay_room k sb s = true ->
  ret_inv (b_ret s) -> valid_filter_spec (s_filter sb) = true ->
  exists els,
    aget (k_cid k) (b_queues (fst (replay_retained c k sb s))) = Some (q_extend els q) /\
    length els = length (rdb_matched (s_filter sb) (b_ret s)) /\
    Forall (fun e => exists m', e_body e = QPub m' /\ m_retained m' = s_rap sb) els.
Proof. exact replay_retain_flag. Qed.
Print Assumptions C07_replay_retain_flag.

Theorem C07_replay_retain_flag_partial : forall c k sb s q,
  aget (k_cid k) (b_queues s) = Some q -> replay_room k sb s = true ->
  ret_inv (b_ret s) -> valid_filter_spec (s_filter sb) = true ->
  s_rap sb = true ->
  exists els,
    aget (k_cid k) (b_queues (fst (replay_retained c k sb s))) = Some (q_extend els q) /\
    length els = length (rdb_matched (s_filter sb) (b_ret s)) /\
    Forall (fun e => exists m', e_body e = QPub m' /\ m_retained m' = true) els.
Proof. exact replay_retain_flag_partial. Qed.
Print Assumptions C07_replay_retain_flag_partial.

Example C07_replay_retain_flag_nonvacuous : forall rap,
  aget (k_cid ex_k2) (b_queues ex_s1) = Some ex_q2 /\ replay_room ex_k2 (ex_sb rap) ex_s1 = true /\
  ret_inv (b_ret ex_s1) /\ valid_filter_spec (s_filter (ex_sb rap)) = true /\ s_rap (ex_sb rap) = rap /\
  length (rdb_matched (s_filter (ex_sb rap)) (b_ret ex_s1)) = 1%nat.
Proof. exact ex_replay_hyps. Qed.
Example C07_replay_retain_flag_partial_wire :
  snd (run ex_s1 [ESend 2 (KSubscribe 1 [] [ex_tq [116] true 0])]) =
    [[OSend 2 (KSuback 1 [1] []); OSend 2 (KPublish false 1 true [116] [120] 1 [])]].
Proof. vm_compute. reflexivity. Qed.

(* ---------------------------------------------------------------- *)
(* 6. the RETAIN flag of a live copy                                  *)
(* ---------------------------------------------------------------- *)
(* a copy queued by add_to_queue (room in the queue, not skipped by the queue_qos0 rule) carries RETAIN iff the
   published message had it and the subscription has Retain-As-Published *)
Theorem C07_live_retain_flag : forall cid m sb ids s q,
  aget cid (b_queues s) = Some q ->
  negb (c_queue_qos0 (b_cfg s)) && negb (ahas cid (b_online s)) && (m_qos m =? 0) = false ->
  (length (q_l q) < q_max q)%nat ->
  exists e,
    aget cid (b_queues (fst (add_to_queue cid m sb ids s))) = Some (q_extend [e] q) /\
    snd (add_to_queue cid m sb ids s) = [] /\
    e_body e = QPub (live_copy m sb ids) /\
    (m_retained (live_copy m sb ids) = true <-> (m_retained m = true /\ s_rap sb = true)).
Proof. exact live_retain_flag. Qed.
Print Assumptions C07_live_retain_flag.

(* in every case the element offered to the queue is that copy *)
Theorem C07_live_copy_offered : forall cid m sb ids s,
  add_to_queue cid m sb ids s = (s, []) \/
  exists q e q' evs,
    aget cid (b_queues s) = Some q /\ e_body e = QPub (live_copy m sb ids) /\
    q_add (b_now s) e q = QOk (q', evs) /\
    add_to_queue cid m sb ids s =
      (release_dropped cid evs (set_picks_tag (b_picks s) (b_tag s + 1) (set_queues (aset cid q' (b_queues s)) s)),
       drops_of cid evs).
Proof. exact add_to_queue_offers. Qed.
Print Assumptions C07_live_copy_offered.

(* "b" subscribed to "t": a RETAIN=1 publication reaches it with RETAIN=1 under Retain-As-Published, RETAIN=0 without *)
Example C07_live_retain_flag_nonvacuous :
  aget [98] (b_queues ex_s1) = Some ex_q2 /\
  negb (c_queue_qos0 (b_cfg ex_s1)) && negb (ahas [98] (b_online ex_s1)) && (m_qos ex_m =? 0) = false /\
  (length (q_l ex_q2) < q_max ex_q2)%nat /\
  snd (run ex_s1 [ESend 2 (KSubscribe 1 [] [ex_tq [116] true 2]); ESend 1 ex_pub]) =
    [[OSend 2 (KSuback 1 [1] [])]; [OSend 1 (KPuback 7 0 []); OSend 2 (KPublish false 1 true [116] [120] 1 [])]] /\
  snd (run ex_s1 [ESend 2 (KSubscribe 1 [] [ex_tq [116] false 2]); ESend 1 ex_pub]) =
    [[OSend 2 (KSuback 1 [1] [])]; [OSend 1 (KPuback 7 0 []); OSend 2 (KPublish false 1 false [116] [120] 1 [])]].
Proof. vm_compute. repeat split. repeat constructor. Qed.

(* ---------------------------------------------------------------- *)
(* 7. all reachable states                                            *)
(* ---------------------------------------------------------------- *)
(* the retained store of a reachable state is the store after the RETAIN=1 publications made so far *)
Theorem C07_reachable_history : forall cf h picks es,
  exists msgs, Forall (fun m => m_retained m = true) msgs /\
               b_ret (fst (run (st_init cf h picks) es)) = rdb_run (map retain_op msgs).
Proof. exact reachable_ret_history. Qed.
Print Assumptions C07_reachable_history.

Theorem C07_ret_inv_reachable : forall cf h picks es, ret_inv (b_ret (fst (run (st_init cf h picks) es))).
Proof. exact ret_inv_run. Qed.
Print Assumptions C07_ret_inv_reachable.

Theorem C07_ret_inv_step : forall s e, ret_inv (b_ret s) -> ret_inv (b_ret (fst (step s e))).
Proof. exact ret_inv_step. Qed.
Print Assumptions C07_ret_inv_step.

(* ---------------------------------------------------------------- *)
(* 8. observations (witnesses, by computation)                        *)
(* ---------------------------------------------------------------- *)
(* The retained store keeps no time: a message retained with Message Expiry Interval 10 s is still replayed
   20 s later, and with the full interval 10 again (replay_elem takes the stored interval from the time of
   the replay) - MQTT 5 [MQTT-3.3.2-5], [MQTT-3.3.2-6] ask for expiry and for the remaining interval.
   As coded (client.go subscribeHandler: expiry = now + v.MessageExpiry; retained/trie has no timestamps). *)
Example C07_obs_retained_expiry_restarts :
  snd (run ex_s1 [ESend 2 (KPublish false 0 true [117] [121] 0 [PMsgExpiry 10]); EAdvance 20000; EExpireCheck;
                  ESend 2 (KSubscribe 1 [] [ex_tq [117] true 0])]) =
  [[]; []; []; [OSend 2 (KSuback 1 [1] []); OSend 2 (KPublish false 0 true [117] [121] 0 [PMsgExpiry 10])]].
Proof. vm_compute. reflexivity. Qed.

(* a SUBSCRIBE listing the same filter twice with Retain Handling 0 replays the kept message twice, both times
   with the options of the last entry (known finding kf_same_filter_twice_last_wins) *)
Example C07_obs_same_filter_twice_replays_twice :
  snd (run ex_s1 [ESend 2 (KSubscribe 1 [] [ex_tq [116] true 0; ex_tq [116] false 0])]) =
  [[OSend 2 (KSuback 1 [1; 1] []); OSend 2 (KPublish false 1 false [116] [120] 1 []);
    OSend 2 (KPublish false 1 false [116] [120] 2 [])]].
Proof. vm_compute. reflexivity. Qed.
