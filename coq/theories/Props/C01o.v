(* C01, the order clause - "messages from one publisher reach a given subscriber in publication order" - over WHOLE
   RUNS of the broker model (Model/Broker.v).  Proofs: Proofs/BrokerOrderP.v.  (Props/C01.v has the local facts about
   one `deliver` and one `q_read`.)

   Ghost tags: every entry that `deliver` (accepted PUBLISH, API publish, will) or the retained replay of a SUBSCRIBE
   appends to a session queue is stamped with the broker's counter b_tag, which then moves on.  So the tag of an
   entry is the time at which it was queued; for the copies of a live publication that is the publication time, for a
   retained message replayed at SUBSCRIBE time it is the time of the subscription (retained replays are ordered among
   themselves by the lookup order of the retained store, not by their original publication; they take part in the
   theorems below with their subscribe-time tags and cannot disturb the relative order of live publications).

   1. C01_tags_sorted_all_runs: in EVERY state reachable by ANY run (no side condition: acknowledgements of any id,
      API messages with packet ids, hooks, take-overs, expiry ... are all allowed) every stored queue holds its PUBLISH
      entries in strictly increasing tag order, all tags non-zero and below b_tag; PUBREL entries carry tag 0.
   2. C01_queue_order_is_publication_order / C01_queue_order_steps / C01_api_publish_order: copies of an earlier
      publication precede copies of a later one in every queue, at any later time; the tags of a publication are never
      reused for anything else (C01_copies_are_copies); an entry either was stamped meanwhile or is a later form of an
      entry that the same client's queue held before (C01_old_or_new).
   3. C01_first_transmissions_sorted / _lex / _output_order: over a well-behaved run (run_wb false of
      Props/C03g.v: acknowledgements never name a packet id that the poll loop merely holds; API messages carry no
      packet id - needed because the proof uses the queue shape invariant GInv of C03, which these two behaviours
      break; and c_max_inflight <= 65535) the poll loops hand the entries of ONE SESSION (client id) to the writer -
      first transmissions, DUP=0 - in strictly increasing tag order; the DUP=0 PUBLISH packets in the output of the
      run are exactly these first transmissions, in the same order.  The statement is per client id, not per socket
      number: a socket number can be reused by another client (ox_socket_reuse below).
      Retransmissions (DUP=1) are excluded here: after a resume they come first (C03_replay_first), in queue order,
      which is tag order too (C01_inflight_before_queued). *)
From Coq Require Import List NArith ZArith Bool Sorted.
Import ListNotations.
From GM Require Import Base.Topic Base.Msg Model.SubTrie Model.Queue Model.Limiter Model.Broker
                       Proofs.LimiterP Proofs.QueueP Proofs.BrokerInvP Proofs.BrokerPollP Proofs.BrokerPollGlobalP
                       Proofs.BrokerOrderP.
Open Scope N_scope.

(* ================================================================== *)
(* 1. the tags of every stored queue are sorted, in all runs           *)
(* ================================================================== *)

Theorem C01_tags_sorted_all_runs :
  forall c h p es cid q,
    let s := fst (run (st_init c h p) es) in
    In (cid, q) (b_queues s) ->
    StronglySorted N.lt (pub_tags (q_l q)) /\ Forall (fun t => 0 < t < b_tag s) (pub_tags (q_l q)) /\
    Forall (fun e => is_pub e = false -> e_tag e = 0) (q_l q).
Proof. exact tags_sorted_reachable. Qed.
Print Assumptions C01_tags_sorted_all_runs.

(* the invariant (TS s: 1 <= b_tag s and every stored queue is `tags_sorted`) and its preservation *)
Theorem C01_tags_sorted_init : forall c h p, TS (st_init c h p).
Proof. exact TS_init. Qed.
Print Assumptions C01_tags_sorted_init.

Theorem C01_tags_sorted_deliver : forall src m s, TS s -> TS (fst (fst (deliver src m s))).
Proof. exact TS_deliver. Qed.
Print Assumptions C01_tags_sorted_deliver.

Theorem C01_tags_sorted_step_event : forall s e, TS s -> TS (fst (step_event s e)).
Proof. exact TS_step_event. Qed.
Print Assumptions C01_tags_sorted_step_event.

Theorem C01_tags_sorted_step : forall s e, TS s -> TS (fst (step s e)).
Proof. exact TS_step. Qed.
Print Assumptions C01_tags_sorted_step.

Theorem C01_tags_sorted_run : forall es s, TS s -> TS (fst (run s es)).
Proof. exact TS_run. Qed.
Print Assumptions C01_tags_sorted_run.

Theorem C01_tag_counter_never_decreases : forall es s, b_tag s <= b_tag (fst (run s es)).
Proof. exact run_tag_mono. Qed.
Print Assumptions C01_tag_counter_never_decreases.

(* everything the broker does is a composition of: element-wise evolution/removal inside a queue, append with the
   current tag, a new empty queue, removal of a queue (the relation QR; g = false: no side condition) *)
Theorem C01_run_is_qstep : forall es s, QR false anym s (fst (run s es)).
Proof. exact run_QR. Qed.
Print Assumptions C01_run_is_qstep.

Theorem C01_step_event_is_qstep : forall g s e, QR g anym s (fst (step_event s e)).
Proof. exact step_event_QR. Qed.
Print Assumptions C01_step_event_is_qstep.

Theorem C01_deliver_is_qstep : forall g src m s, QR g (same_msg m) s (fst (fst (deliver src m s))).
Proof. exact deliver_QR. Qed.
Print Assumptions C01_deliver_is_qstep.

Theorem C01_tags_sorted_qstep : forall g P s s', QR g P s s' -> TS s -> TS s'.
Proof. exact TS_QR. Qed.
Print Assumptions C01_tags_sorted_qstep.

(* non-vacuity: the queue of "s" after two publishers have interleaved four messages behind a window of 1:
   (tag, PUBLISH?, packet id, payload) *)
Example ox_queue_tags :
  let s := fst (run wx_init (firstn 8 ox_run)) in
  option_map (fun q => map (fun e => (e_tag e, is_pub e, e_id e)) (q_l q)) (aget wx_S (b_queues s)) =
    Some [(1, true, 1); (2, true, 0); (3, true, 0); (4, true, 0)] /\
  b_tag s = 5.
Proof. vm_compute. split; reflexivity. Qed.

(* a PUBREL entry (tag 0) in front of PUBLISH entries: after PUBACK 1 and PUBREC 3 of the C03 example run *)
Example ox_pubrel_tag0 :
  let s := fst (run wx_init (firstn 8 gx_run)) in
  option_map (fun q => map (fun e => (e_tag e, is_pub e, e_id e)) (q_l q)) (aget wx_S (b_queues s)) =
    Some [(0, false, 3); (3, true, 4)].
Proof. vm_compute. reflexivity. Qed.

(* ================================================================== *)
(* 2. the order in a queue is the publication order                    *)
(* ================================================================== *)

Theorem C01_queue_order_by_tag :
  forall s cid q e1 e2,
    TS s -> In (cid, q) (b_queues s) -> In e1 (q_l q) -> In e2 (q_l q) -> is_pub e1 = true -> is_pub e2 = true ->
    e_tag e1 < e_tag e2 -> exists l1 l2 l3, q_l q = l1 ++ e1 :: l2 ++ e2 :: l3.
Proof. exact order_by_tag. Qed.
Print Assumptions C01_queue_order_by_tag.

(* publication 1 is delivered in state s1, anything (QR) happens, publication 2 is delivered in state s2, anything
   happens: every copy of publication 1 still present sits before every copy of publication 2 *)
Theorem C01_queue_order_is_publication_order :
  forall s1 src1 m1 s2 src2 m2 s3 cid q e1 e2,
    TS s1 ->
    QR false anym (fst (fst (deliver src1 m1 s1))) s2 ->
    QR false anym (fst (fst (deliver src2 m2 s2))) s3 ->
    In (cid, q) (b_queues s3) -> In e1 (q_l q) -> In e2 (q_l q) ->
    (is_pub e1 = true /\ b_tag s1 <= e_tag e1 < b_tag (fst (fst (deliver src1 m1 s1)))) ->
    (is_pub e2 = true /\ b_tag s2 <= e_tag e2 < b_tag (fst (fst (deliver src2 m2 s2)))) ->
    e_tag e1 < e_tag e2 /\ exists l1 l2 l3, q_l q = l1 ++ e1 :: l2 ++ e2 :: l3.
Proof. exact queue_order_is_publication_order. Qed.
Print Assumptions C01_queue_order_is_publication_order.

(* the same for two API publishes of a run, without mention of QR *)
Theorem C01_api_publish_order :
  forall s m1 es2 m2 es3 cid q e1 e2,
    TS s ->
    let s2 := fst (run (fst (step s (EApiPublish m1))) es2) in
    let s3 := fst (run (fst (step s2 (EApiPublish m2))) es3) in
    In (cid, q) (b_queues s3) -> In e1 (q_l q) -> In e2 (q_l q) ->
    copy_of_pub s [] m1 e1 -> copy_of_pub s2 [] m2 e2 ->
    e_tag e1 < e_tag e2 /\ precedes e1 e2 (q_l q).
Proof. exact api_publish_order. Qed.
Print Assumptions C01_api_publish_order.

(* ... and at the granularity of steps: what is queued during an earlier step precedes what is queued during a later one *)
Theorem C01_queue_order_steps :
  forall sa ev1 es2 ev2 es3 cid q e1 e2,
    TS sa ->
    let sb := fst (step sa ev1) in
    let sc := fst (run sb es2) in
    let sd := fst (step sc ev2) in
    let sf := fst (run sd es3) in
    In (cid, q) (b_queues sf) -> In e1 (q_l q) -> In e2 (q_l q) -> is_pub e1 = true -> is_pub e2 = true ->
    b_tag sa <= e_tag e1 < b_tag sb -> b_tag sc <= e_tag e2 < b_tag sd ->
    e_tag e1 < e_tag e2 /\ precedes e1 e2 (q_l q).
Proof. exact queue_order_steps. Qed.
Print Assumptions C01_queue_order_steps.

(* the tags of a publication identify it for ever: whatever carries one of them later has its topic and payload *)
Theorem C01_copies_are_copies :
  forall s src m s2 cid q e m',
    TS s -> QR false anym (fst (fst (deliver src m s))) s2 ->
    In (cid, q) (b_queues s2) -> In e (q_l q) -> e_body e = QPub m' ->
    b_tag s <= e_tag e < b_tag (fst (fst (deliver src m s))) ->
    m_topic m' = m_topic m /\ m_payload m' = m_payload m.
Proof. exact copies_are_copies. Qed.
Print Assumptions C01_copies_are_copies.

Theorem C01_old_or_new :
  forall g P s s' cid q' e',
    QR g P s s' -> In (cid, q') (b_queues s') -> In e' (q_l q') -> is_pub e' = true ->
    b_tag s <= e_tag e' < b_tag s' \/
    exists q e, In (cid, q) (b_queues s) /\ In e (q_l q) /\ evo g e e'.
Proof. exact old_or_new. Qed.
Print Assumptions C01_old_or_new.

(* non-vacuity: API publishes 7 and 8 interleaved with client publishes 1 and 2 (ox_s4, ox_a2, ox_a3 of
   Proofs/BrokerOrderP.v); the copies in the queue of "s" carry the tags drawn by the four publications, in
   publication order *)
Example ox_api_order :
  TS ox_s4 /\
  option_map (fun q => map (fun e => (e_tag e, match e_body e with QPub m => m_payload m | QRel _ => [] end)) (q_l q))
             (aget wx_S (b_queues ox_a3)) = Some [(1, [7]); (2, [1]); (3, [8]); (4, [2])] /\
  (b_tag ox_s4, b_tag (fst (fst (deliver [] (ox_api [7]) ox_s4)))) = (1, 2) /\
  (b_tag ox_a2, b_tag (fst (fst (deliver [] (ox_api [8]) ox_a2)))) = (3, 4).
Proof. split; [apply TS_run, TS_init|]. vm_compute. repeat split. Qed.

(* ================================================================== *)
(* 3. first transmissions leave in tag order                           *)
(* ================================================================== *)

(* the ghost trace rd_run lists, step by step, the entries that Read (q_read) hands to the poll loops: socket, client
   id, whether the connection is live (a zombie's packets are dropped by client.write), and the entry *)
Theorem C01_first_transmissions_sorted :
  forall cid0 c h p pre post,
    c_max_inflight c <= MAXPID -> run_wb false (st_init c h p) (pre ++ post) = true ->
    StronglySorted N.lt
      (map (fun r => e_tag (r_elem r))
           (filter (fun r => str_eqb (r_cid r) cid0) (concat (rd_run (fst (run (st_init c h p) pre)) post)))).
Proof. exact first_transmissions_sorted. Qed.
Print Assumptions C01_first_transmissions_sorted.

Theorem C01_first_transmissions_lex :
  forall cid0 c h p pre post i j a b tri trj r1 r2,
    c_max_inflight c <= MAXPID -> run_wb false (st_init c h p) (pre ++ post) = true ->
    let tr := live_run (fst (run (st_init c h p) pre)) post in
    nth_error tr i = Some tri -> nth_error tri a = Some r1 ->
    nth_error tr j = Some trj -> nth_error trj b = Some r2 ->
    r_cid r1 = cid0 -> r_cid r2 = cid0 -> e_tag (r_elem r1) < e_tag (r_elem r2) ->
    (i < j)%nat \/ (i = j /\ (a < b)%nat).
Proof. exact first_transmissions_lex. Qed.
Print Assumptions C01_first_transmissions_lex.

(* only the poll loops write PUBLISH packets ... *)
Theorem C01_only_poll_loops_publish :
  forall s e, filter is_first_pub (snd (step s e)) = filter is_first_pub (snd (poll_all (fst (step_event s e)))).
Proof. exact step_first_pubs. Qed.
Print Assumptions C01_only_poll_loops_publish.

(* ... and their DUP=0 PUBLISH packets are, one for one and in order, the first transmissions of the live entries of
   the ghost trace *)
Theorem C01_trace_is_the_wire :
  forall w es s, GInv w s -> run_wb w s es = true ->
    Forall2 (fun tr o => Forall2 (fun r x => wire_of (r_sock r) (r_elem r) x) (filter r_live tr) (filter is_first_pub o))
            (rd_run s es) (polled_run s es).
Proof. exact run_wire. Qed.
Print Assumptions C01_trace_is_the_wire.

(* the order clause on the observable output: of two DUP=0 PUBLISH packets in the output of a run that transmit
   entries e1, e2 of one session with e_tag e1 < e_tag e2, the first is written in an earlier step, or earlier in
   the output of the same step *)
Theorem C01_first_transmissions_in_order :
  forall c h p pre post i j a b oi oj x1 x2,
    c_max_inflight c <= MAXPID -> run_wb false (st_init c h p) (pre ++ post) = true ->
    let s := fst (run (st_init c h p) pre) in
    nth_error (snd (run s post)) i = Some oi -> nth_error (filter is_first_pub oi) a = Some x1 ->
    nth_error (snd (run s post)) j = Some oj -> nth_error (filter is_first_pub oj) b = Some x2 ->
    exists r1 r2,
      wire_of (r_sock r1) (r_elem r1) x1 /\ wire_of (r_sock r2) (r_elem r2) x2 /\
      (exists tri, nth_error (live_run s post) i = Some tri /\ nth_error tri a = Some r1) /\
      (exists trj, nth_error (live_run s post) j = Some trj /\ nth_error trj b = Some r2) /\
      (r_cid r1 = r_cid r2 -> e_tag (r_elem r1) < e_tag (r_elem r2) -> (i < j)%nat \/ (i = j /\ (a < b)%nat)).
Proof. exact first_transmissions_output_order. Qed.
Print Assumptions C01_first_transmissions_in_order.

(* retransmissions: the in-flight part is tag-sorted and lies below everything still to be sent for the first time *)
Theorem C01_inflight_before_queued :
  forall s cid q inf que,
    TS s -> In (cid, q) (b_queues s) -> QInv q (b_tag s) inf que ->
    StronglySorted N.lt (pub_tags inf) /\ StronglySorted N.lt (map e_tag que) /\
    forall t u, In t (pub_tags inf) -> In u (map e_tag que) -> t < u.
Proof. exact inflight_before_queued. Qed.
Print Assumptions C01_inflight_before_queued.

(* Target 4 / non-vacuity: subscriber "s" (socket 1, Receive Maximum 1, QoS 1 on "t"); publishers "p" (socket 2) and
   "r" (socket 3) interleave p:[1] r:[2] p:[3](QoS 0) r:[4]; "s" acknowledges one packet at a time.  The run is
   well-behaved; the PUBLISH packets reach socket 1 in publication order 1, 2, 3, 4, and the ghost trace carries the
   tags 1, 2, 3, 4 *)
Example ox_two_publishers :
  c_max_inflight (wx_cfg 0 100) <= MAXPID /\ run_wb false wx_init ox_run = true /\
  map (pubs_to 1) (snd (run wx_init ox_run)) =
    [[]; []; []; []; [OSend 1 (KPublish false 1 false wx_T [1] 1 [])]; []; []; [];
     [OSend 1 (KPublish false 1 false wx_T [2] 2 [])];
     [OSend 1 (KPublish false 0 false wx_T [3] 0 []); OSend 1 (KPublish false 1 false wx_T [4] 4 [])]; []] /\
  rd_view (rd_run wx_init ox_run) =
    [[]; []; []; []; [(1, wx_S, true, 1)]; []; []; []; [(1, wx_S, true, 2)]; [(1, wx_S, true, 3); (1, wx_S, true, 4)]; []] /\
  map (filter is_first_pub) (snd (run wx_init ox_run)) = map (pubs_to 1) (snd (run wx_init ox_run)).
Proof. vm_compute. repeat split; discriminate. Qed.

(* why the statement is per client id and not per socket number: "b" resumes its session on socket 1 after "s" has
   left it; socket 1 carries the first transmissions with tags 1, 3, 5 (for "s") and then 4 (for "b"); per client id
   the tags increase: "s" 1, 3, 5; "b" 2 (on socket 3), 4 (on socket 1) *)
Example ox_socket_reuse :
  run_wb false wx_init ox_reuse = true /\
  map (fun r => (r_cid r, e_tag (r_elem r))) (filter (fun r => r_sock r =? 1) (concat (rd_run wx_init ox_reuse))) =
    [(wx_S, 1); (wx_S, 3); (wx_S, 5); (ox_B, 4)] /\
  tg wx_S (concat (rd_run wx_init ox_reuse)) = [1; 3; 5] /\
  tg ox_B (concat (rd_run wx_init ox_reuse)) = [2; 4] /\
  map (pubs_to 1) (skipn 12 (snd (run wx_init ox_reuse))) =
    [[OSend 1 (KPublish true 1 false wx_T [1] 1 [])]; [OSend 1 (KPublish false 1 false wx_T [2] 1 [])]].
Proof. vm_compute. repeat split. Qed.
