(* C03, the at-least-once clause, over whole steps and runs of the broker model (Model/Broker.v):
   "A QoS 1/2 message queued for a client whose session persists is retransmitted after every reconnect - before
    any new message, in original order, with the same packet identifier and DUP=1 (or as PUBREL once PUBREC was
    received) - until the client completes the acknowledgement."
   1. C03_inflight_leaves_only_by: in a step of a well-behaved run (GInv false, wb false: Props/C03g.v) every
      in-flight entry of a session queue is still in flight afterwards (a PUBREC turns it into the PUBREL entry with
      the same id), unless (a) the client's final acknowledgement for its id arrives on the attached socket,
      (b) it has expired in flight and a delivery into the full queue drops it (reported as
      ODropped .. DExpiredInflight for a PUBLISH entry, silently for a PUBREL entry), (c) the session ends
      (no queue afterwards, or a CONNECT of the client answered with Session Present = 0).
   2. C03_retransmitted_until_acked: along a well-behaved run, an entry that none of (a), (b), (c) hits is
      retransmitted in the step of every CONNECT that resumes the session, before any first transmission
      (DUP = 0 PUBLISH) to the new socket; C03_resume_replays_in_order: the retransmissions come in queue order.
   The proofs are in Proofs/BrokerUntilAckedP.v. *)
From Coq Require Import List NArith ZArith Bool.
Import ListNotations.
From GM Require Import Base.Topic Base.Msg Model.SubTrie Model.Queue Model.Limiter Model.Broker
                       Proofs.BrokerInvP Proofs.BrokerPollP Proofs.BrokerPollGlobalP Proofs.BrokerUntilAckedP.
Open Scope N_scope.

(* ---- the vocabulary, spelled out ---- *)

(* (b): the entry had expired and was dropped; a PUBLISH entry is reported, a PUBREL entry is not *)
Theorem C03u_expired_drop_def :
  forall cid now o d,
    xdrop cid now o d <->
    expired now d = true /\ match e_body d with QPub m => In (ODropped cid m DExpiredInflight) o | QRel _ => True end.
Proof. exact xdrop_unfold. Qed.
Print Assumptions C03u_expired_drop_def.

(* (a): PUBACK / PUBCOMP / (v5) PUBREC with a code >= 128 for packet id pid, on the socket cid is attached to *)
Theorem C03u_acked_by_def :
  forall s e cid pid,
    acked_by s e cid pid <->
    exists c p k, (e = ESend c p \/ exists n, e = ESendSz c p n) /\
      nget c (b_conns s) = Some k /\ k_phase k = PhConnected /\ k_cid k = cid /\ aget cid (b_online s) = Some c /\
      match p with
      | KPuback pid' _ _ | KPubcomp pid' _ _ => pid' = pid
      | KPubrec pid' code _ => pid' = pid /\ k_v k = 5 /\ 128 <= code
      | _ => False
      end.
Proof. exact acked_by_unfold. Qed.
Print Assumptions C03u_acked_by_def.

(* a PUBREC that continues the exchange *)
Theorem C03u_pubrec_by_def :
  forall s e cid pid,
    pubrec_by s e cid pid <->
    exists c code props k, (e = ESend c (KPubrec pid code props) \/ exists n, e = ESendSz c (KPubrec pid code props) n) /\
      nget c (b_conns s) = Some k /\ k_phase k = PhConnected /\ k_cid k = cid /\ aget cid (b_online s) = Some c /\
      (k_v k =? 5) && (128 <=? code) = false.
Proof. exact pubrec_by_unfold. Qed.
Print Assumptions C03u_pubrec_by_def.

(* (c), when there is a queue again after the step: a CONNECT of cid answered with Session Present = 0 *)
Theorem C03u_sess_restart_def :
  forall cid e s' o,
    sess_restart cid e s' o <->
    exists c cn props, e = EConnect c cn /\ aget cid (b_online s') = Some c /\ In (OSend c (KConnack false 0 props)) o.
Proof. exact sess_restart_unfold. Qed.
Print Assumptions C03u_sess_restart_def.

(* still in flight: what a retransmission shows of the entry (rkey: QoS, RETAIN, topic, payload, packet id; or
   PUBREL id) is unchanged, or a PUBREC has turned the PUBLISH entry into the PUBREL entry with its id *)
Theorem C03u_still_inflight_def :
  forall s e cid d d',
    still_inflight s e cid d d' <-> rkey d' = rkey d \/ (rkey d' = inr (e_id d) /\ pubrec_by s e cid (e_id d)).
Proof. exact still_inflight_unfold. Qed.
Print Assumptions C03u_still_inflight_def.

Theorem C03u_disturbed_def :
  forall cid pid s e,
    disturbed cid pid s e <->
    acked_by s e cid pid \/
    (exists q d, aget cid (b_queues s) = Some q /\ In d (q_inf q) /\ e_id d = pid /\
                 xdrop cid (b_now (fst (step s e))) (snd (step s e)) d) \/
    aget cid (b_queues (fst (step s e))) = None \/
    sess_restart cid e (fst (step s e)) (snd (step s e)).
Proof. exact disturbed_unfold. Qed.
Print Assumptions C03u_disturbed_def.

Theorem C03u_undisturbed_def :
  forall cid pid s es,
    undisturbed cid pid s es <->
    match es with [] => True | e :: r => ~ disturbed cid pid s e /\ undisturbed cid pid (fst (step s e)) r end.
Proof. exact undisturbed_unfold. Qed.
Print Assumptions C03u_undisturbed_def.

Theorem C03u_all_dup1_to_def :
  forall c o,
    all_dup1_to c o <-> forall dup qos ret t pl pid ps, In (OSend c (KPublish dup qos ret t pl pid ps)) o -> dup = true.
Proof. exact all_dup1_to_unfold. Qed.
Print Assumptions C03u_all_dup1_to_def.

(* ---- 1. an in-flight entry leaves the in-flight part only by (a), (b), (c) ---- *)
Theorem C03_inflight_leaves_only_by :
  forall s e s' o cid q d,
    GInv false s -> wb false s e = true -> step s e = (s', o) ->
    aget cid (b_queues s) = Some q -> In d (q_inf q) ->
    (exists q' d', aget cid (b_queues s') = Some q' /\ In d' (q_inf q') /\ still_inflight s e cid d d') \/
    acked_by s e cid (e_id d) \/
    xdrop cid (b_now s') o d \/
    aget cid (b_queues s') = None \/
    sess_restart cid e s' o.
Proof. exact inflight_leaves_only_by. Qed.
Print Assumptions C03_inflight_leaves_only_by.

(* the same for a client id with a queue before and after the step *)
Theorem C03_inflight_leaves_only_by_both :
  forall s e s' o cid q q' d,
    GInv false s -> wb false s e = true -> step s e = (s', o) ->
    aget cid (b_queues s) = Some q -> aget cid (b_queues s') = Some q' -> In d (q_inf q) ->
    (exists d', In d' (q_inf q') /\ still_inflight s e cid d d') \/
    acked_by s e cid (e_id d) \/ xdrop cid (b_now s') o d \/ sess_restart cid e s' o.
Proof. exact inflight_leaves_only_by_both. Qed.
Print Assumptions C03_inflight_leaves_only_by_both.

(* along a run: an entry that none of (a), (b), (c) hits stays in flight, as itself or as its PUBREL entry *)
Theorem C03_undisturbed_stays_inflight :
  forall cid es s q d,
    GInv false s -> run_wb false s es = true -> aget cid (b_queues s) = Some q -> In d (q_inf q) ->
    undisturbed cid (e_id d) s es ->
    exists q' d', aget cid (b_queues (fst (run s es))) = Some q' /\ In d' (q_inf q') /\
                  (rkey d' = rkey d \/ rkey d' = inr (e_id d)).
Proof. exact undisturbed_stays_inflight. Qed.
Print Assumptions C03_undisturbed_stays_inflight.

(* ---- 2. retransmitted after every resuming CONNECT until acknowledged ---- *)
(* d is in flight for cid in state s; the run es ++ [EConnect c cn] leaves it alone; the CONNECT attaches socket c to
   cid (window >= 1; fewer than 400 entries in flight, the fuel of the model's poll loop): the outputs of its step
   contain the retransmission of d - PUBLISH with DUP = 1 and the QoS, RETAIN, payload, packet id and topic (or
   alias) of d, or PUBREL with its id - and no first transmission to socket c precedes it *)
Theorem C03_retransmitted_until_acked :
  forall s es c cn cid q d s' o k',
    GInv false s -> run_wb false s (es ++ [EConnect c cn]) = true ->
    aget cid (b_queues s) = Some q -> In d (q_inf q) ->
    undisturbed cid (e_id d) s (es ++ [EConnect c cn]) ->
    step (fst (run s es)) (EConnect c cn) = (s', o) ->
    nget c (b_conns s') = Some k' -> k_phase k' = PhConnected -> k_cid k' = cid -> 1 <= k_max_inflight k' ->
    (forall q', aget cid (b_queues s') = Some q' -> (length (q_inf q') < 400)%nat) ->
    exists key pre x post,
      (key = rkey d \/ key = inr (e_id d)) /\
      o = pre ++ x :: post /\ retrans_of_key c key x /\ all_dup1_to c pre.
Proof. exact retransmitted_until_acked. Qed.
Print Assumptions C03_retransmitted_until_acked.

(* the same with the Session Present flag of the CONNACK spelled out *)
Theorem C03_retransmitted_at_session_present :
  forall s es c cn cid q d s' o k' props,
    GInv false s -> run_wb false s (es ++ [EConnect c cn]) = true ->
    aget cid (b_queues s) = Some q -> In d (q_inf q) ->
    undisturbed cid (e_id d) s es ->
    step (fst (run s es)) (EConnect c cn) = (s', o) ->
    In (OSend c (KConnack true 0 props)) o ->
    (forall q0 d0, aget cid (b_queues (fst (run s es))) = Some q0 -> In d0 (q_inf q0) -> e_id d0 = e_id d ->
                   ~ xdrop cid (b_now s') o d0) ->
    nget c (b_conns s') = Some k' -> k_phase k' = PhConnected -> k_cid k' = cid -> 1 <= k_max_inflight k' ->
    (forall q', aget cid (b_queues s') = Some q' -> (length (q_inf q') < 400)%nat) ->
    exists key pre x post,
      (key = rkey d \/ key = inr (e_id d)) /\
      o = pre ++ x :: post /\ retrans_of_key c key x /\ all_dup1_to c pre.
Proof. exact retransmitted_at_session_present. Qed.
Print Assumptions C03_retransmitted_at_session_present.

(* the CONNACK of a CONNECT step is unique: its Session Present flag is well defined *)
Theorem C03_connack_unique :
  forall s c cn c1 sp1 code1 props1 c2 sp2 code2 props2,
    In (OSend c1 (KConnack sp1 code1 props1)) (snd (step s (EConnect c cn))) ->
    In (OSend c2 (KConnack sp2 code2 props2)) (snd (step s (EConnect c cn))) -> sp1 = sp2.
Proof. exact step_connect_connack_unique. Qed.
Print Assumptions C03_connack_unique.

(* "in original order": the retransmissions are those of the first n in-flight entries of the queue after the
   step (n = what was in flight when the CONNECT had been handled), in queue order *)
Theorem C03_resume_replays_in_order :
  forall s c cn s' o k' q',
    GInv false s -> wb false s (EConnect c cn) = true -> step s (EConnect c cn) = (s', o) ->
    nget c (b_conns s') = Some k' -> k_phase k' = PhConnected -> 1 <= k_max_inflight k' ->
    aget (k_cid k') (b_queues s') = Some q' -> (length (q_inf q') < 400)%nat ->
    exists n pre rs post,
      o = pre ++ rs ++ post /\ Forall2 (retrans_of_key c) (firstn n (map rkey (q_inf q'))) rs /\ all_dup1_to c pre /\
      exists q1, aget (k_cid k') (b_queues (fst (step_event s (EConnect c cn)))) = Some q1 /\ n = length (q_inf q1).
Proof. exact resume_replays_in_order. Qed.
Print Assumptions C03_resume_replays_in_order.

(* the computable checks used by the witnesses are sound *)
Theorem C03u_undisturbed_check :
  forall cid pid es s, undisturbed_b cid pid s es = true -> undisturbed cid pid s es.
Proof. exact undisturbed_b_sound. Qed.
Print Assumptions C03u_undisturbed_check.

Theorem C03u_disturbed_check :
  forall cid pid s e, disturbed cid pid s e -> disturbed_b cid pid s e = true.
Proof. exact disturbed_b_complete. Qed.
Print Assumptions C03u_disturbed_check.

(* ---- witnesses ---- *)
(* "s" (persistent session, window 2) has one QoS 1 message in flight, packet id 1 *)
Example C03u_state :
  GInv false ux_s /\ option_map q_inf (aget wx_S (b_queues ux_s)) = Some [ux_d] /\ e_id ux_d = 1 /\
  rkey ux_d = inl (1, false, wx_T, [1], 1).
Proof. exact ux_state. Qed.

(* theorem 1, first alternative: another message is delivered, the entry stays *)
Example C03u_step_kept :
  wb false ux_s (wx_pub 1 12 [2]) = true /\ disturbed_b wx_S 1 ux_s (wx_pub 1 12 [2]) = false /\
  option_map (fun q => map rkey (q_inf q)) (aget wx_S (b_queues (fst (step ux_s (wx_pub 1 12 [2]))))) =
    Some [inl (1, false, wx_T, [1], 1); inl (1, false, wx_T, [2], 3)].
Proof. exact ux_step_kept. Qed.

(* (a) *)
Example C03u_step_acked :
  wb false ux_s (ESend 1 (KPuback 1 0 [])) = true /\ acked_by_b ux_s (ESend 1 (KPuback 1 0 [])) wx_S 1 = true /\
  option_map q_inf (aget wx_S (b_queues (fst (step ux_s (ESend 1 (KPuback 1 0 [])))))) = Some [].
Proof. exact ux_step_acked. Qed.

(* PUBREC: still in flight, as PUBREL *)
Example C03u_step_pubrec :
  let s := fst (run wx_init (wx_pre ++ [wx_pub 2 11 [1]])) in
  let e := ESend 1 (KPubrec 1 0 []) in
  wb false s e = true /\ disturbed_b wx_S 1 s e = false /\
  option_map (fun q => map rkey (q_inf q)) (aget wx_S (b_queues s)) = Some [inl (2, false, wx_T, [1], 1)] /\
  option_map (fun q => map rkey (q_inf q)) (aget wx_S (b_queues (fst (step s e)))) = Some [inr 1].
Proof. exact ux_step_pubrec. Qed.

(* (b), reported *)
Example C03u_step_expired_reported :
  let e := wx_pub 1 13 [3] in
  run_wb false (st_init (wx_cfg 1 2) no_hooks []) (wx_pre ++ [wx_pub 1 11 [1]; wx_pub 1 12 [2]; EAdvance 5000; e]) = true /\
  expired_b wx_S 1 wx_e0 (b_now (fst (step wx_e0 e))) = true /\
  map (fun x => match x with ODropped cid m r => Some (cid, m_pid m, r) | _ => None end) (snd (step wx_e0 e)) =
    [Some (wx_S, 1, DExpiredInflight); None; None] /\
  option_map (fun q => map e_id (q_inf q)) (aget wx_S (b_queues wx_e0)) = Some [1; 3] /\
  option_map (fun q => map e_id (q_inf q)) (aget wx_S (b_queues (fst (step wx_e0 e)))) = Some [3; 4].
Proof. exact ux_step_expired_reported. Qed.

(* (b), silent: an expired PUBREL entry is dropped by a delivery into the full queue; nothing is reported *)
Example C03u_step_expired_silent :
  let e := wx_pub 1 13 [3] in
  run_wb false (st_init (wx_cfg 1 2) no_hooks []) (ux_silent_run ++ [e]) = true /\
  option_map (fun q => map rkey (q_inf q)) (aget wx_S (b_queues ux_silent)) = Some [inr 1; inl (1, false, wx_T, [2], 2)] /\
  expired_b wx_S 1 ux_silent (b_now (fst (step ux_silent e))) = true /\
  snd (step ux_silent e) = [OSend 2 (KPuback 13 0 []); OSend 1 (KPublish false 1 false wx_T [3] 3 [])] /\
  option_map (fun q => map rkey (q_inf q)) (aget wx_S (b_queues (fst (step ux_silent e)))) =
    Some [inl (1, false, wx_T, [2], 2); inl (1, false, wx_T, [3], 3)].
Proof. exact ux_step_expired_silent. Qed.

(* (c): Clean Start *)
Example C03u_step_clean_start :
  let e := EConnect 1 (wx_connect 5 wx_S true [PSei 100; PRecvMax 2]) in
  wb false ux_s e = true /\ restart_b e (snd (step ux_s e)) = true /\
  option_map q_inf (aget wx_S (b_queues (fst (step ux_s e)))) = Some [].
Proof. exact ux_step_clean_start. Qed.

(* (c): the session ends with the connection *)
Example C03u_step_session_gone :
  let s := fst (run wx_init [EConnect 1 (wx_connect 4 wx_S true []); wx_sub 1; EConnect 2 (wx_connect 4 wx_P true []);
                             wx_pub 1 11 [1]]) in
  wb false s (EClose 1) = true /\ option_map (fun q => map e_id (q_inf q)) (aget wx_S (b_queues s)) = Some [1] /\
  aget wx_S (b_queues (fst (step s (EClose 1)))) = None.
Proof. exact ux_step_session_gone. Qed.

(* theorem 2: two reconnects and a late PUBACK; the message is sent again (DUP = 1, id 1) after each of the two
   reconnects, the PUBACK ends it, the third reconnect retransmits nothing *)
Example C03u_two_reconnects :
  run_wb false ux_s (ux_round ++ ux_round ++ [ESend 1 (KPuback 1 0 [])] ++ ux_round) = true /\
  undisturbed_b wx_S 1 ux_s (ux_round ++ ux_round) = true /\
  disturbed_b wx_S 1 (fst (run ux_s (ux_round ++ ux_round))) (ESend 1 (KPuback 1 0 [])) = true /\
  map (filter (fun x => match x with OSend 1 (KConnack _ _ _) => false | _ => true end))
      (snd (run ux_s (ux_round ++ ux_round ++ [ESend 1 (KPuback 1 0 [])] ++ ux_round))) =
    [[]; [ux_retrans]; []; [ux_retrans]; []; []; []].
Proof. exact ux_two_reconnects. Qed.

(* ... and the hypotheses of theorem 2 hold at both reconnects *)
Example C03u_theorem2_applies :
  forall es, es = [EClose 1] \/ es = ux_round ++ [EClose 1] ->
  exists key pre x post,
    (key = rkey ux_d \/ key = inr (e_id ux_d)) /\
    snd (step (fst (run ux_s es)) (EConnect 1 ux_cn)) = pre ++ x :: post /\
    retrans_of_key 1 key x /\ all_dup1_to 1 pre.
Proof. exact ux_theorem2_applies. Qed.

(* the window hypothesis of theorem 2 is needed in the model: Receive Maximum 0 (refused by the broker's decoder,
   not by the model's CONNECT) replays nothing *)
Example C03u_window_zero_no_replay :
  let cn0 := wx_connect 5 wx_S false [PSei 100; PRecvMax 0] in
  run_wb false ux_s [EClose 1; EConnect 1 cn0] = true /\ undisturbed_b wx_S 1 ux_s [EClose 1; EConnect 1 cn0] = true /\
  filter (fun x => match x with OSend 1 (KConnack _ _ _) => false | _ => true end)
         (snd (step (fst (run ux_s [EClose 1])) (EConnect 1 cn0))) = [] /\
  option_map k_max_inflight (nget 1 (b_conns (fst (run ux_s [EClose 1; EConnect 1 cn0])))) = Some 0.
Proof. exact ux_window_zero_no_replay. Qed.
