(* C12 - message expiry is honoured and the remaining lifetime is forwarded.
   The "never delivered once expired" half rests on the queue: C10_refines_abstract_queue
   (read_walk of the abstract queue hands out no expired entry); the wire-level behaviour is
   checked on every run by the C12 oracle.  Here: the forwarded interval. *)
From Coq Require Import NArith.
From GM Require Import Base.Msg Model.Queue Model.Broker Proofs.BrokerBasicP.
Open Scope N_scope.

(* a v5 subscriber receiving a message published with an expiry interval is given the
   original interval minus the whole seconds waited: never more than the original, never absent *)
Theorem C12_forwarded_interval_bounds :
  forall now e m, 0 < m_expiry m -> 1 <= m_expiry (aged true now e m) <= m_expiry m.
Proof. exact aged_v5_bounds. Qed.
Print Assumptions C12_forwarded_interval_bounds.

Theorem C12_forwarded_interval_value :
  forall now e m, 0 < m_expiry m -> (now - e_at e) / 1000 < m_expiry m ->
    m_expiry (aged true now e m) = m_expiry m - (now - e_at e) / 1000.
Proof. exact aged_v5_value. Qed.
Print Assumptions C12_forwarded_interval_value.

Theorem C12_no_interval_stays_absent :
  forall v5 now e m, m_expiry m = 0 -> aged v5 now e m = m.
Proof. exact aged_no_expiry. Qed.
Print Assumptions C12_no_interval_stays_absent.

Example C12_nonvacuous : remaining 60 40 = 20 /\ remaining 60 60 = 1 /\ remaining 60 0 = 60.
Proof. vm_compute. repeat split. Qed.
