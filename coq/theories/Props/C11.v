(* placeholder until the refinement proofs land: statements are added with their proofs *)
From GM Require Import Base.Topic Model.SubTrie Model.SubSpec Proofs.TopicP.
Theorem C11_split_join : forall s : str, join (split s) = s.
Proof. exact join_split. Qed.
Print Assumptions C11_split_join.
