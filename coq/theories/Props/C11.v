(* C11 - shared subscriptions (store level): the members of every (group, filter) are
   exactly what the flat map says, and leaving changes only the leaver's own entries. *)
From Coq Require Import List NArith.
Import ListNotations.
From GM Require Import Base.Topic Model.SubTrie Model.SubSpec Proofs.SubTrieP.

(* a publish on topic t finds, for every share group, exactly the current members whose
   filter matches under MQTT 4.7 (incl. the '$' rule [MQTT-4.7.2-1], which the store now
   applies to the shared trie too), each once: this is the candidate list flush() picks one
   member from *)
Theorem C11_members_by_topic :
  forall (ops : list op) (t : str) (c : cid),
    wf_ops ops = true -> t <> [] -> no_wild_levels (split t) = true ->
    exists l, db_iterate (q_sh_topic t c) (db_run ops) = IOk (some_ents l) /\ NoDup l /\
      forall c' s, In (c', s) l <->
        (s_share s <> [] /\ sp_get (c', s_share s, s_filter s) (spec_run ops) = Some s /\
         topic_match t (s_filter s) = true /\ want_client c c').
Proof. exact sh_lookup_topic_exact. Qed.
Print Assumptions C11_members_by_topic.

Theorem C11_members_by_name :
  forall (ops : list op) (g f : str) (c : cid),
    wf_ops ops = true -> g <> [] -> no_slash g = true -> f <> [] ->
    exists l, db_iterate (q_sh_name (SHARE_PREFIX ++ g ++ SLASH :: f) c) (db_run ops) = IOk (some_ents l) /\ NoDup l /\
      forall c' s, In (c', s) l <-> (sp_get (c', g, f) (spec_run ops) = Some s /\ want_client c c').
Proof. exact sh_lookup_name_exact. Qed.
Print Assumptions C11_members_by_name.

Theorem C11_memberships_of_client :
  forall (ops : list op) (c : cid),
    wf_ops ops = true -> c <> [] ->
    exists l, db_iterate (q_sh_client c) (db_run ops) = IOk (some_ents l) /\ NoDup l /\
      forall c' s, In (c', s) l <-> (c' = c /\ s_share s <> [] /\ sp_get (c, s_share s, s_filter s) (spec_run ops) = Some s).
Proof. exact sh_lookup_client_exact. Qed.
Print Assumptions C11_memberships_of_client.

(* leaving (session end, clean take-over, expiry all call UnsubscribeAll; UNSUBSCRIBE calls
   Unsubscribe) affects neither other members nor other groups, and removes the leaver;
   together with the three theorems above (which hold after ANY history) the store's
   answers change only at the leaver's keys *)
Theorem C11_leave_isolated :
  forall (sp : spec) (c : cid),
    (forall c' g f, c' <> c -> sp_get (c', g, f) (spec_step sp (OUnsubAll c)) = sp_get (c', g, f) sp) /\
    (forall g f, sp_get (c, g, f) (spec_step sp (OUnsubAll c)) = None).
Proof. exact leave_frame. Qed.
Print Assumptions C11_leave_isolated.

Theorem C11_unsubscribe_isolated :
  forall (sp : spec) (c : cid) (topic : str) (k : skey),
    k <> (c, fst (split_topic topic), snd (split_topic topic)) ->
    sp_get k (spec_step sp (OUnsub c topic)) = sp_get k sp.
Proof. exact unsub_frame. Qed.
Print Assumptions C11_unsubscribe_isolated.

Definition mk_sh (g f : str) (q : N) : sub :=
  {| s_share := g; s_filter := f; s_id := 0; s_qos := q; s_nl := false; s_rap := false; s_rh := 0 |}.
Example C11_nonvacuous :
  let c1 := [99; 49]%N in let c2 := [99; 50]%N in let g := [103]%N in let f := [97]%N in
  let ops := [OSub c1 (mk_sh g f 1); OSub c2 (mk_sh g f 2); OSub c1 (mk_sh [104]%N f 0); OUnsubAll c1] in
  wf_ops ops = true /\
  db_iterate (q_sh_topic f []) (db_run ops) = IOk (some_ents [(c2, mk_sh g f 2)]).
Proof. vm_compute. split; reflexivity. Qed.

(* the '$' rule on the shared trie: "$share/g/#" is not a candidate for "$SYS/x", "$share/g/$SYS/#" is;
   for "x" it is the other way round *)
Example C11_dollar_rule_nonvacuous :
  let c1 := [99; 49]%N in let c2 := [99; 50]%N in let g := [103]%N in
  let hash := [35]%N in let sys_hash := [36; 83; 89; 83; 47; 35]%N in let sys_x := [36; 83; 89; 83; 47; 120]%N in
  let ops := [OSub c1 (mk_sh g hash 0); OSub c2 (mk_sh g sys_hash 1)] in
  wf_ops ops = true /\
  db_iterate (q_sh_topic sys_x []) (db_run ops) = IOk (some_ents [(c2, mk_sh g sys_hash 1)]) /\
  db_iterate (q_sh_topic [120]%N []) (db_run ops) = IOk (some_ents [(c1, mk_sh g hash 0)]).
Proof. vm_compute. repeat split. Qed.
