(* C19 - no broker state is reachable without passing authentication (the plugin half).
   Statements only; proofs in Proofs/AuthP.v.  Model: Model/Auth.v (plugin/auth: validate,
   OnBasicAuthWrapper, Update/Delete/List/Get, Load, saveFileHandler; server/client.go:
   connectHandler, sendErrConnack).  Oracle written from the statement: Oracle/C19O.v.

   Every theorem is quantified over the digest functions: [H] (hex md5 / sha256) and
   [bverify] (bcrypt.CompareHashAndPassword) are arbitrary functions.

   Open known finding (the full statement is refuted for the faithful model, and proved
   outside the class):
     kf_authmethod_present  a v5 CONNECT with an Authentication Method is refused whatever
                            its credentials (fails closed; the "if" direction of accept-iff)
   Repaired (the witnesses stay below as passing Examples and in corpus/C19/fixed.sx):
     54a09b0  a relative password_file was saved relative to the working directory but
              loaded relative to the configuration directory
     bb4907e  the hook returned nil for a client version other than 3, 4, 5 *)
From Coq Require Import List NArith Bool.
Import ListNotations.
From GM Require Import Base.Topic Model.Auth Oracle.C19O Proofs.AuthP.
Open Scope N_scope.

(* ---- accept iff ---- *)

(* soundness, with no exclusion: whatever the protocol version (3, 4, 5), the flags, the
   client id, AuthMethod/AuthData - an accepted CONNECT carries the user name of a stored
   account and a password matching that account's stored hash *)
Theorem C19_accept_only_if :
  forall (H : halg -> str -> str) (bverify : str -> str -> bool)
         (allow0 : bool) (a : halg) (t : acctab) (c : aconnect),
    known_version (ac_version c) = true ->
    broker_connect H bverify allow0 a t c = None ->
    valid_creds H bverify a t (ac_username c) (ac_password c).
Proof. exact broker_accept_sound. Qed.
Print Assumptions C19_accept_only_if.

(* accept iff, outside kf_authmethod_present, for every CONNECT the broker can serve *)
Theorem C19_accept_iff :
  forall (H : halg -> str -> str) (bverify : str -> str -> bool)
         (allow0 : bool) (a : halg) (t : acctab) (c : aconnect),
    connect_servable allow0 c = true ->
    kf_authmethod_present c = false ->
    (broker_connect H bverify allow0 a t c = None <->
     valid_creds H bverify a t (ac_username c) (ac_password c)).
Proof. exact broker_accept_iff. Qed.
Print Assumptions C19_accept_iff.

(* the full statement ("whatever the authentication-method properties") is false of the model *)
Theorem C19_accept_iff_full_refuted :
  forall (H : halg -> str -> str) (bverify : str -> str -> bool),
  exists (t : acctab) (c : aconnect),
    connect_servable false c = true /\
    au_validate H bverify Plain t (ac_username c) (ac_password c) = true /\
    broker_connect H bverify false Plain t c = Some UNSPECIFIED_ERROR.
Proof. exact accept_iff_full_refuted. Qed.
Print Assumptions C19_accept_iff_full_refuted.

(* enhanced authentication fails closed: no OnEnhancedAuth hook, an Authentication Method in
   the CONNECT - refused, whatever the basic hook, the accounts and the credentials; and the
   basic hook (this plugin) is not consulted at all *)
Theorem C19_enhanced_fail_closed :
  forall (allow0 : bool) (basic : option (N -> aconnect -> authres)) (c : aconnect) (am : str),
    ac_version c = 5 -> ac_authmethod c = Some am ->
    allow0 || negb (is_empty (ac_cid c)) = true ->
    connect_handler allow0 basic None c = HkErr UNSPECIFIED_ERROR.
Proof. exact enhanced_fail_closed. Qed.
Print Assumptions C19_enhanced_fail_closed.

Theorem C19_enhanced_never_accepted :
  forall (allow0 : bool) (basic : option (N -> aconnect -> authres)) (c : aconnect),
    kf_authmethod_present c = true -> connect_handler allow0 basic None c <> HkOk.
Proof. exact enhanced_never_accepted. Qed.
Print Assumptions C19_enhanced_never_accepted.

(* composition with the previous hook, for every client version: accepted iff the previous
   hook accepts and the credentials are those of an account *)
Theorem C19_hook_composition :
  forall (H : halg -> str -> str) (bverify : str -> str -> bool)
         (a : halg) (t : acctab) (pre : aconnect -> authres) (v : N) (c : aconnect),
    au_wrapper H bverify a t pre v c = HkOk <->
    pre c = HkOk /\ valid_creds H bverify a t (ac_username c) (ac_password c).
Proof. exact wrapper_accept_iff. Qed.
Print Assumptions C19_hook_composition.

(* a CONNECT without user name (flag clear, or empty) is refused on every reachable table *)
Theorem C19_no_username_rejected :
  forall (H : halg -> str -> str) (bverify : str -> str -> bool)
         (allow0 : bool) (a : halg) (t : acctab) (c : aconnect),
    wf_tab t -> known_version (ac_version c) = true -> ac_username c = [] ->
    broker_connect H bverify allow0 a t c <> None.
Proof. exact no_username_rejected. Qed.
Print Assumptions C19_no_username_rejected.

(* ---- accounts: table = file = what a restarted plugin loads ---- *)

(* after any history whatsoever - updates, deletions, saves that fail because the directory of
   the password file is unavailable (with their roll-backs), changes of the working directory:
   the table and the file hold the same accounts, and a fresh Load returns exactly the file *)
Theorem C19_accounts :
  forall (H : halg -> str -> str) (bverify : str -> str -> bool)
         (cfg : acfg) (init : option pwfile) (cwd : N) (ops : list aop) (s0 : austate),
    au_start cfg init cwd = Some s0 ->
    let s := fst (au_run H bverify cfg s0 ops) in
    exists d, fs_get (load_path cfg) (s_fs s) = Some d
              /\ lookup_eq (s_tab s) d
              /\ snd (au_load cfg (s_fs s)) = Some d
              /\ wf_tab (s_tab s).
Proof. exact accounts_consistent. Qed.
Print Assumptions C19_accounts.

(* an account created or changed through the API is accepted by the next validation ... *)
Theorem C19_update_effective :
  forall (H : halg -> str -> str) (bverify : str -> str -> bool)
         (cfg : acfg) (u p : str) (g : option str) (s s' : austate),
    au_update H cfg u p g s = (s', XOk) ->
    (forall h, a_alg cfg = Bcrypt -> g = Some h -> bverify h p = true) ->
    au_validate H bverify (a_alg cfg) (s_tab s') u p = true.
Proof. exact update_effective. Qed.
Print Assumptions C19_update_effective.

(* ... a deleted one is refused with every password ... *)
Theorem C19_delete_effective :
  forall (H : halg -> str -> str) (bverify : str -> str -> bool)
         (cfg : acfg) (u : str) (s s' : austate),
    wf_tab (s_tab s) -> au_delete cfg u s = (s', XOk) ->
    forall p, au_validate H bverify (a_alg cfg) (s_tab s') u p = false.
Proof. exact delete_effective. Qed.
Print Assumptions C19_delete_effective.

(* ... and the other accounts are untouched, whether the save succeeded or was rolled back *)
Theorem C19_update_frame :
  forall (H : halg -> str -> str) (bverify : str -> str -> bool)
         (cfg : acfg) (u p u' p' : str) (g : option str) (s : austate),
    u <> u' -> wf_tab (s_tab s) ->
    au_validate H bverify (a_alg cfg) (s_tab (fst (au_update H cfg u p g s))) u' p' =
    au_validate H bverify (a_alg cfg) (s_tab s) u' p'.
Proof. exact update_frame. Qed.
Print Assumptions C19_update_frame.

(* ---- refinement: every answer of the model, at every step of every history, is one the
   oracle of the statement accepts (the same oracle is evaluated on the implementation's
   answers by the check).  The only hypothesis is about the oracle-resolved choice: the
   hashes bcrypt generated verify the passwords they were generated from ---- *)
Theorem C19_refines_statement :
  forall (H : halg -> str -> str) (bverify : str -> str -> bool)
         (cfg : acfg) (init : option pwfile) (cwd : N) (ops : list aop),
    gen_sound bverify (a_alg cfg) ops = true ->
    c19_ok H bverify cfg init ops (au_model_outs H bverify cfg init cwd ops) = true.
Proof. exact model_refines_oracle. Qed.
Print Assumptions C19_refines_statement.

(* ---- non-vacuity ---- *)
(* toy digests: the examples compute, they do not depend on what a digest is *)
Definition ex_H (a : halg) (p : str) : str := 7 :: p.
Definition ex_bv (h p : str) : bool := str_eqb h (9 :: p).

Definition ex_conn (v : N) (u p : str) (am : option str) : aconnect :=
  {| ac_version := v; ac_cid := [99]; ac_uflag := true; ac_pflag := true; ac_user := u; ac_pass := p;
     ac_authmethod := am; ac_authdata := None |}.

(* md5, relative password file, started in the configuration directory: create, accept,
   refuse a near miss, failing saves while the directory of the password file is away (rolled
   back; no restart possible), change, delete, list, and a restart *)
Definition ex_cfg : acfg := {| a_alg := MD5; a_pf := [112]; a_pfdir := None; a_cfgdir := 0 |}.
Definition ex_ops : list aop :=
  [OUpdate [117] [112] None; OValidate [117] [112]; OValidate [117] [112; 120];
   OAuth HkOk 4 (ex_conn 4 [117] [112] None); OAuth HkOk 5 (ex_conn 5 [117] [113] None);
   OAuth (HkErr 135) 5 (ex_conn 5 [117] [112] None);
   OChdir 3; OBreak true; OUpdate [118] [112] None; OUpdate [117] [113] None; ODelete [117]; OReload;
   OBreak false; OUpdate [118] [113] None; ODelete [117]; OValidate [117] [112];
   OList 1 100; OGet [118]; OFile; OReload].

Example C19_nonvacuous_hyps : gen_sound ex_bv (a_alg ex_cfg) ex_ops = true.
Proof. reflexivity. Qed.

Example C19_nonvacuous_run :
  au_model_outs ex_H ex_bv ex_cfg None 0 ex_ops =
  Some [XOk; XBool true; XBool false; XAuth HkOk; XAuth (HkErr 135); XAuth (HkErr 135);
        XOk; XOk; XErr; XErr; XErr; XLoaded None; XOk; XOk; XOk; XBool false;
        XList [([118], [7; 113])] 1; XAccount [7; 113]; XFile (Some [([118], [7; 113])]);
        XLoaded (Some [([118], [7; 113])])].
Proof. vm_compute. reflexivity. Qed.

(* bcrypt: the generated hash is an argument of the operation *)
Definition ex_cfg_b : acfg := {| a_alg := Bcrypt; a_pf := [112]; a_pfdir := Some 2; a_cfgdir := 0 |}.
Example C19_nonvacuous_bcrypt :
  gen_sound ex_bv Bcrypt [OUpdate [117] [112] (Some [9; 112]); OValidate [117] [112]] = true /\
  au_model_outs ex_H ex_bv ex_cfg_b None 1 [OUpdate [117] [112] (Some [9; 112]); OValidate [117] [112]; OReload] =
  Some [XOk; XBool true; XLoaded (Some [([117], [9; 112])])].
Proof. split; vm_compute; reflexivity. Qed.

(* accept-iff is not vacuous: a servable CONNECT outside the finding class, accepted *)
Example C19_nonvacuous_accept :
  let c := ex_conn 4 [117] [112] None in
  connect_servable false c = true /\ kf_authmethod_present c = false /\
  broker_connect ex_H ex_bv false MD5 [([117], [7; 112])] c = None /\
  broker_connect ex_H ex_bv false MD5 [([117], [7; 112])] (ex_conn 3 [117] [113] None) = Some 5 /\
  broker_connect ex_H ex_bv false MD5 [([117], [7; 112])] (ex_conn 5 [117] [113] None) = Some 135.
Proof. repeat split; reflexivity. Qed.

(* ---- witnesses of the repaired defects (they were C19_accounts_full_refuted and
   C19_hook_unknown_version_refuted before 54a09b0 / bb4907e) ---- *)
Example C19_fixed_pwfile_cwd :
  forall (H : halg -> str -> str) (bverify : str -> str -> bool),
  exists s0, au_start f16_cfg None 1 = Some s0 /\
    let s := fst (au_run H bverify f16_cfg s0 [OUpdate [117] [112] None]) in
    snd (au_step H bverify f16_cfg s0 (OUpdate [117] [112] None)) = XOk /\
    t_get [117] (s_tab s) = Some [112] /\
    snd (au_load f16_cfg (s_fs s)) = Some [([117], [112])].
Proof. exact f16_repaired. Qed.

Example C19_fixed_unknown_version :
  forall (H : halg -> str -> str) (bverify : str -> str -> bool),
  exists v c, known_version v = false /\
    au_wrapper H bverify Plain [] (fun _ => HkOk) v c = HkErr NOT_AUTHORIZED /\
    au_validate H bverify Plain [] (ac_username c) (ac_password c) = false.
Proof. exact unknown_version_repaired. Qed.
