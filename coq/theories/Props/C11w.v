(* C11 at the wire level (Model/Broker.v): what LEAVING a share group does, for all reachable states;
   no retained message on a shared subscribe; the copy of the picked member.  Statements only; proofs in
   Proofs/BrokerSharedP.v.  The store level is Props/C11.v, the `deliver` level Props/C01.v (C11_groups,
   C11_one_member_per_group).

   Vocabulary (Proofs/BrokerSharedP.v, Proofs/DeliverP.v, Proofs/BrokerInvP.v):
   - sub_hist s ops          the subscription store of s is `db_run ops` for the well-formed history ops, so that the
                             flat specification `spec_run ops` (Model/SubSpec.v) describes it (Proofs/SubTrieP.v);
                             every reachable state has one (`reachable_subsinv`); BInv is the broker invariant
                             (`reachable_inv`)
   - hist_ext s s' extra     the store of s' is the store of s after the operations extra
   - removes extra key       some operation of extra removes the key (client, group, filter): OUnsub c "$share/g/f"
                             removes (c, g, f), OUnsubAll c removes every key of c
   - leaving s e rm          in state s the event e is one of the leaving steps; rm = the keys it removes
                             (UNSUBSCRIBE; end of the connection with expiry 0 - after a DISCONNECT too; accepted CONNECT
                             with Clean Start of an id that has a session, take-over included; ETerminate; EExpireCheck)
   - d_found / d_shared / d_plain / d_groups, call, group_call, run_calls, set_pk, nodrop_ok: Props/C01.v
   - call_through cid g f cl the add_to_queue call cl is for client cid through its shared subscription (g, f)
   - key_of e                the key (client, share name, filter) of a store entry *)
From Coq Require Import List NArith ZArith Bool.
Import ListNotations.
From GM Require Import Base.Topic Base.Msg Model.SubTrie Model.SubSpec Model.RetTrie Model.Queue Model.Limiter Model.Broker.
From GM Require Import Proofs.SubTrieP Proofs.BrokerRetainP Proofs.DeliverP Proofs.BrokerInvP Proofs.BrokerSharedP.
Open Scope N_scope.

(* ---------------- 0. the leaving steps extend the history by leaving operations only ---------------- *)

Theorem C11_leaving_history :
  forall (s : st) (e : event) (rm : skey -> bool),
    BInv s -> leaving s e rm ->
    exists extra, hist_ext s (fst (step s e)) extra /\ leave_only extra = true /\
                  forall key, removes extra key = rm key.
Proof. exact leaving_hist. Qed.
Print Assumptions C11_leaving_history.

(* the mechanisms one by one: the operations appended by the step *)
Theorem C11_leave_by_unsubscribe :
  forall (s : st) (c : N) (k : conn) (pid : N) (props : list prop) (topics : list str),
    BInv s -> nget c (b_conns s) = Some k -> k_phase k = PhConnected ->
    hist_ext s (fst (step s (ESend c (KUnsubscribe pid props topics)))) (map (OUnsub (k_cid k)) topics).
Proof. exact unsubscribe_step_hist. Qed.
Print Assumptions C11_leave_by_unsubscribe.

(* the connection ends: the session - and with it every subscription of the client - ends iff the Session
   Expiry Interval in force (`ur_expiry`: the stored one, or what a v5 DISCONNECT asked for) is 0 *)
Theorem C11_leave_by_close :
  forall (s : st) (c : N) (k : conn) (se : session),
    BInv s -> nget c (b_conns s) = Some k -> attached (k_phase k) = true ->
    aget (k_cid k) (b_sessions s) = Some se ->
    hist_ext s (fst (step s (EClose c))) (if ur_expiry k se (b_cfg s) =? 0 then [OUnsubAll (k_cid k)] else []).
Proof. exact close_step_hist. Qed.
Print Assumptions C11_leave_by_close.

(* "DISCONNECT then close with expiry 0": a v5 DISCONNECT asking for Session Expiry Interval 0 changes nothing in the
   store; the close of the socket that follows is a leaving step of that client *)
Theorem C11_leave_by_disconnect_then_close :
  forall (s : st) (c : N) (k : conn) (code : N) (props : list prop) (se : session),
    BInv s -> nget c (b_conns s) = Some k -> k_phase k = PhConnected -> k_v k = 5 ->
    aget (k_cid k) (b_sessions s) = Some se -> p_sei props = Some 0 ->
    let s1 := fst (step s (ESend c (KDisconnect code props))) in
    b_subs s1 = b_subs s /\ leaving s1 (EClose c) (client_key (k_cid k)).
Proof. exact disconnect_then_close. Qed.
Print Assumptions C11_leave_by_disconnect_then_close.

Theorem C11_leave_by_clean_connect :
  forall (s : st) (c : N) (cn : connect),
    BInv s -> (forall cid' f, cv s c = Some (cid', f) -> cid' = cn_cid cn) ->
    hc_rejected cn s = false -> cn_cid cn <> [] -> cn_clean cn = true ->
    ahas (cn_cid cn) (b_sessions s) = true ->
    exists n, hist_ext s (fst (step s (EConnect c cn))) (repeat (OUnsubAll (cn_cid cn)) (S n)).
Proof. exact clean_connect_step_hist. Qed.
Print Assumptions C11_leave_by_clean_connect.

Theorem C11_leave_by_terminate :
  forall (s : st) (cid : str),
    BInv s -> ahas cid (b_sessions s) = true -> hist_ext s (fst (step s (ETerminate cid))) [OUnsubAll cid].
Proof. exact terminate_step_hist. Qed.
Print Assumptions C11_leave_by_terminate.

Theorem C11_leave_by_expiry :
  forall (s : st),
    BInv s -> hist_ext s (fst (step s EExpireCheck)) (map (fun cd => OUnsubAll (fst cd)) (expired_now s)).
Proof. exact expire_step_hist. Qed.
Print Assumptions C11_leave_by_expiry.

(* ---------------- 1. the leaver is not selected any more ---------------- *)

(* after a leaving step that removes (cid, g, f): in the resulting state - and in every state with the same store,
   whatever its pick values, queues and connections - `deliver` of any message from any source is a sequence of
   add_to_queue calls (one per share group among them) none of which is for cid through (g, f) *)
Theorem C11_leaver_not_selected :
  forall (s : st) (e : event) (rm : skey -> bool) (ops : list op) (cid g f : str),
    BInv s -> sub_hist s ops -> leaving s e rm -> rm (cid, g, f) = true -> g <> [] ->
    forall (s'' : st) (src : str) (m : msg), b_subs s'' = b_subs (fst (step s e)) ->
    exists cl1 picked cl3 p n,
      deliver src m s'' = (set_pk p n (fst (run_calls m (cl1 ++ picked ++ cl3) (s'', []))),
                           snd (run_calls m (cl1 ++ picked ++ cl3) (s'', [])), nonnil (d_ents src m s'')) /\
      Forall2 group_call (d_groups src m s'') picked /\
      Forall (fun cl => ~ call_through cid g f cl) (cl1 ++ picked ++ cl3).
Proof. exact leaver_not_selected. Qed.
Print Assumptions C11_leaver_not_selected.

Theorem C11_leaver_not_selected_reachable :
  forall (cf : cfg) (h : hooks) (pk : list nat) (es : list event) (e : event) (rm : skey -> bool) (cid g f : str),
    let s := fst (run (st_init cf h pk) es) in
    leaving s e rm -> rm (cid, g, f) = true -> g <> [] ->
    forall (s'' : st) (src : str) (m : msg), b_subs s'' = b_subs (fst (step s e)) ->
    exists cl1 picked cl3 p n,
      deliver src m s'' = (set_pk p n (fst (run_calls m (cl1 ++ picked ++ cl3) (s'', []))),
                           snd (run_calls m (cl1 ++ picked ++ cl3) (s'', [])), nonnil (d_ents src m s'')) /\
      Forall2 group_call (d_groups src m s'') picked /\
      Forall (fun cl => ~ call_through cid g f cl) (cl1 ++ picked ++ cl3).
Proof. exact reachable_leaver_not_selected. Qed.
Print Assumptions C11_leaver_not_selected_reachable.

(* it is in no member list (the lists the picks index into) *)
Theorem C11_leaver_not_member :
  forall (s : st) (e : event) (rm : skey -> bool) (ops : list op) (cid g f : str),
    BInv s -> sub_hist s ops -> leaving s e rm -> rm (cid, g, f) = true ->
    forall (s'' : st) (src : str) (m : msg), b_subs s'' = b_subs (fst (step s e)) ->
    forall k members, In (k, members) (d_groups src m s'') ->
    forall sb, In (cid, sb) members -> ~ (s_share sb = g /\ s_filter sb = f).
Proof. exact leaver_not_member. Qed.
Print Assumptions C11_leaver_not_member.

(* the store-level core: whoever has no entry (cid, g, f) in the specification is not selected through (g, f);
   every entry `deliver` finds - for any topic, also one the codec would refuse - is the specification's entry *)
Theorem C11_not_member_not_selected :
  forall (src : str) (m : msg) (s : st) (ops : list op) (cid g f : str),
    sub_hist s ops -> g <> [] -> sp_get (cid, g, f) (spec_run ops) = None ->
    exists cl1 picked cl3 p n,
      deliver src m s = (set_pk p n (fst (run_calls m (cl1 ++ picked ++ cl3) (s, []))),
                         snd (run_calls m (cl1 ++ picked ++ cl3) (s, [])), nonnil (d_ents src m s)) /\
      Forall2 group_call (d_groups src m s) picked /\
      Forall (fun cl => ~ call_through cid g f cl) (cl1 ++ picked ++ cl3).
Proof. exact not_member_not_selected. Qed.
Print Assumptions C11_not_member_not_selected.

Theorem C11_found_in_spec :
  forall (m : msg) (s : st) (ops : list op) (c : str) (sb : sub),
    sub_hist s ops -> In (c, sb) (d_found m s) -> sp_get (c, s_share sb, s_filter sb) (spec_run ops) = Some sb.
Proof. exact found_sound. Qed.
Print Assumptions C11_found_in_spec.

(* a client without any entry (its session ended): in no group, and its queue - if it has a new one - is not touched *)
Theorem C11_no_entry_not_selected :
  forall (src : str) (m : msg) (s : st) (ops : list op) (cid : str),
    sub_hist s ops -> (forall g f, sp_get (cid, g, f) (spec_run ops) = None) ->
    (forall k members, In (k, members) (d_groups src m s) -> forall sb, ~ In (cid, sb) members) /\
    aget cid (b_queues (fst (fst (deliver src m s)))) = aget cid (b_queues s).
Proof. exact no_entry_not_selected. Qed.
Print Assumptions C11_no_entry_not_selected.

(* ---------------- 2. nobody else is affected ---------------- *)

(* after a leaving step the specification is the old one without the removed keys: every other key - the other
   members of the group, the leaver's other groups (UNSUBSCRIBE), other groups and filters, plain subscriptions -
   has the entry it had *)
Theorem C11_others_unaffected :
  forall (s : st) (e : event) (rm : skey -> bool) (ops : list op),
    BInv s -> sub_hist s ops -> leaving s e rm ->
    exists ops', sub_hist (fst (step s e)) ops' /\
      forall key, sp_get key (spec_run ops') = if rm key then None else sp_get key (spec_run ops).
Proof. exact leaving_spec. Qed.
Print Assumptions C11_others_unaffected.

Theorem C11_others_unaffected_reachable :
  forall (cf : cfg) (h : hooks) (pk : list nat) (es : list event) (e : event) (rm : skey -> bool),
    let s := fst (run (st_init cf h pk) es) in
    leaving s e rm ->
    exists ops ops', sub_hist s ops /\ sub_hist (fst (step s e)) ops' /\
      forall key, sp_get key (spec_run ops') = if rm key then None else sp_get key (spec_run ops).
Proof. exact reachable_leaving_spec. Qed.
Print Assumptions C11_others_unaffected_reachable.

(* the specification after leaving operations, whatever step appended them *)
Theorem C11_leave_spec :
  forall (ops extra : list op) (key : skey),
    wf_ops (ops ++ extra) = true -> leave_only extra = true ->
    sp_get key (spec_run (ops ++ extra)) = if removes extra key then None else sp_get key (spec_run ops).
Proof. exact leave_spec. Qed.
Print Assumptions C11_leave_spec.

(* corollary, as LISTS: for any message with a topic, what `deliver` finds after the step - the matching entries,
   the shared ones, the plain ones, the member list of every share group - is what it found before with the removed
   entries taken out, in the same order: every group keeps its name and its remaining members (the pick of a
   given value among them may of course be another member now); a group without a remaining member is gone;
   no group is new *)
Theorem C11_groups_after_leave :
  forall (s : st) (e : event) (rm : skey -> bool) (ops : list op) (src : str) (m : msg),
    BInv s -> sub_hist s ops -> leaving s e rm -> m_topic m <> [] ->
    let s' := fst (step s e) in
    let keep := fun en : cid * sub => negb (rm (key_of en)) in
    d_found m s' = filter keep (d_found m s) /\
    d_shared src m s' = filter keep (d_shared src m s) /\
    d_plain src m s' = filter keep (d_plain src m s) /\
    (forall k members, In (k, members) (d_groups src m s) -> filter keep members <> [] ->
       In (k, filter keep members) (d_groups src m s')) /\
    (forall k members', In (k, members') (d_groups src m s') ->
       exists members, In (k, members) (d_groups src m s) /\ members' = filter keep members).
Proof. exact leaving_groups. Qed.
Print Assumptions C11_groups_after_leave.

Theorem C11_groups_after_leave_reachable :
  forall (cf : cfg) (h : hooks) (pk : list nat) (es : list event) (e : event) (rm : skey -> bool) (src : str) (m : msg),
    let s := fst (run (st_init cf h pk) es) in
    leaving s e rm -> m_topic m <> [] ->
    let s' := fst (step s e) in
    let keep := fun en : cid * sub => negb (rm (key_of en)) in
    d_found m s' = filter keep (d_found m s) /\
    d_shared src m s' = filter keep (d_shared src m s) /\
    d_plain src m s' = filter keep (d_plain src m s) /\
    (forall k members, In (k, members) (d_groups src m s) -> filter keep members <> [] ->
       In (k, filter keep members) (d_groups src m s')) /\
    (forall k members', In (k, members') (d_groups src m s') ->
       exists members, In (k, members) (d_groups src m s) /\ members' = filter keep members).
Proof. exact reachable_leaving_groups. Qed.
Print Assumptions C11_groups_after_leave_reachable.

Theorem C11_found_after_leave :
  forall (s s' : st) (extra ops : list op) (m : msg),
    sub_hist s ops -> hist_ext s s' extra -> leave_only extra = true -> m_topic m <> [] ->
    d_found m s' = filter (fun e => negb (removes extra (key_of e))) (d_found m s).
Proof. exact found_after_leave. Qed.
Print Assumptions C11_found_after_leave.

(* ---------------- 3. an offline member is still a member ---------------- *)

(* the connection ends while the Session Expiry Interval in force is not 0: the store - hence every group list, for
   every message - is what it was; the client is offline and keeps its session and its queue, into which the copy
   of a message it is picked for is put (C01_add_to_queue; subject to the queue_qos0 rule and the queue's room) *)
Theorem C11_offline_member_still_selected :
  forall (s : st) (c : N) (k : conn) (se : session),
    BInv s -> nget c (b_conns s) = Some k -> attached (k_phase k) = true ->
    aget (k_cid k) (b_sessions s) = Some se -> ur_expiry k se (b_cfg s) <> 0 ->
    let s' := fst (step s (EClose c)) in
    b_subs s' = b_subs s /\
    (forall src m, d_groups src m s' = d_groups src m s) /\
    ahas (k_cid k) (b_sessions s') = true /\ ahas (k_cid k) (b_online s') = false /\
    ahas (k_cid k) (b_offline s') = true /\ ahas (k_cid k) (b_queues s') = true.
Proof. exact close_step_stored. Qed.
Print Assumptions C11_offline_member_still_selected.

(* the functions: conn_gone / unregister with a session that is kept leave b_subs alone *)
Theorem C11_conn_gone_stored :
  forall (c : N) (k : conn) (s : st) (se : session),
    nget c (b_conns s) = Some k -> attached (k_phase k) = true ->
    aget (k_cid k) (b_sessions s) = Some se -> ends_session k se (b_cfg s) = false ->
    let s' := fst (conn_gone c s) in
    b_subs s' = b_subs s /\
    (forall src m, d_groups src m s' = d_groups src m s) /\
    aget (k_cid k) (b_sessions s') = Some (stored_session se (ur_expiry k se (b_cfg s))) /\
    ahas (k_cid k) (b_offline s') = true /\
    (ahas (k_cid k) (b_queues s) = true -> ahas (k_cid k) (b_queues s') = true).
Proof. exact conn_gone_stored. Qed.
Print Assumptions C11_conn_gone_stored.

Theorem C11_unregister_stored :
  forall (c : N) (k : conn) (s : st) (se : session),
    aget (k_cid k) (b_sessions s) = Some se -> ends_session k se (b_cfg s) = false ->
    let s' := fst (unregister c k s) in
    b_subs s' = b_subs s /\
    aget (k_cid k) (b_sessions s') = Some (stored_session se (ur_expiry k se (b_cfg s))) /\
    ahas (k_cid k) (b_offline s') = true /\
    (ahas (k_cid k) (b_queues s) = true -> ahas (k_cid k) (b_queues s') = true).
Proof. exact unregister_stored. Qed.
Print Assumptions C11_unregister_stored.

(* ---------------- 4. no retained message on a shared subscribe ---------------- *)

(* one SUBSCRIBE entry whose name is "$share/<group>/<filter>" (shared_name): refused, or subscribed - and that is
   all: `replay_retained` is not called.  The connection k is arbitrary: v3 and v5 alike (Retain Handling is an input
   of the model; it plays no role here) *)
Theorem C11_no_retained_on_shared_entry :
  forall (c : N) (k : conn) (subid : N) (topics : list topic_req) (s0 : st) (o0 : list out) (cs : list N) (t : topic_req),
    shared_name (tq_name t) = true ->
    let sb := entry_sub k subid topics t s0 in
    let code := entry_code k subid topics t s0 in
    sub_entry_step c k subid topics (s0, o0, cs) t =
    if code <? 128 then (set_subs (fst (db_subscribe (k_cid k) sb (b_subs s0))) s0, o0, cs ++ [code])
    else (s0, o0, cs ++ [code]).
Proof. exact shared_entry_no_replay. Qed.
Print Assumptions C11_no_retained_on_shared_entry.

(* a SUBSCRIBE all of whose entries are shared: the only output is the SUBACK and only the subscription store
   changes - nothing is queued, whatever the retained store holds *)
Theorem C11_no_retained_on_shared_subscribe :
  forall (c : N) (k : conn) (pid : N) (props : list prop) (topics : list topic_req) (s : st),
    forallb (fun t => shared_name (tq_name t)) topics = true ->
    handle_subscribe c k pid props topics s = HErr s [] (Some 161) \/
    exists d codes, handle_subscribe c k pid props topics s = HOk (set_subs d s) [OSend c (KSuback pid codes [])].
Proof. exact shared_subscribe_no_replay. Qed.
Print Assumptions C11_no_retained_on_shared_subscribe.

(* ---------------- 5. the copy of the picked member ---------------- *)

(* when nothing is dropped: one member is picked per share group with a matching member; it is an entry of the
   specification; the element appended to ITS queue carries QoS min(published, that member's granted QoS), that
   member's subscription identifier (if it has one), RETAIN only under its Retain-As-Published, DUP = 0 *)
Theorem C11_member_qos :
  forall (src : str) (m : msg) (s : st) (ops : list op),
    sub_hist s ops -> nodrop_ok src m s = true ->
    exists picked,
      Forall2 group_call (d_groups src m s) picked /\
      Forall (fun cl =>
        let c := call_cid cl in let sb := call_sub cl in
        s_share sb <> [] /\ sp_get (c, s_share sb, s_filter sb) (spec_run ops) = Some sb /\
        forall q, aget c (b_queues s) = Some q ->
          exists app e m',
            aget c (b_queues (fst (fst (deliver src m s)))) = Some (q_extend app q) /\
            In e app /\ e_body e = QPub m' /\
            m_qos m' = N.min (m_qos m) (s_qos sb) /\
            m_subids m' = m_subids m ++ (if s_id sb =? 0 then [] else [s_id sb]) /\
            m_retained m' = m_retained m && s_rap sb /\ m_dup m' = false /\
            m_topic m' = m_topic m /\ m_payload m' = m_payload m) picked.
Proof. exact picked_member_copy. Qed.
Print Assumptions C11_member_qos.

(* ================================================================== *)
(* Non-vacuity: a (v5, expiry 0, subscription identifier 7, QoS 1), b (v5, expiry 50, QoS 2) and c (v3, session
   kept, QoS 0) are the members of "$share/g1/t"; c (QoS 1) is the member of "$share/g2/t"; p publishes "t" at
   QoS 2.  Sockets 1, 2, 3, 4.  grp_names: the share groups `deliver` forms for that message, with their members in order;
   sx_pubs: the PUBLISH packets written, (socket, QoS, properties). *)
(* ================================================================== *)

Example C11w_start :
  let s := sx_state 0 [] in
  BInv s /\ (exists ops, sub_hist s ops) /\
  grp_names s = [(sx_g1_t, [sx_A; sx_B; sx_C]); (sx_g2_t, [sx_C])] /\
  (* pick 0: a gets it at QoS 1 with its identifier; pick 2: c at QoS 0; g2/t: always c at QoS 1 *)
  sx_pubs (snd (run (sx_state 0 [0%nat]) [ESend 4 sx_pub])) = [(1, 1, [PSubId 7]); (3, 1, [])] /\
  sx_pubs (snd (run (sx_state 0 [2%nat]) [ESend 4 sx_pub])) = [(3, 0, []); (3, 1, [])] /\
  nodrop_ok sx_P sx_msg s = true.
Proof.
  cbv zeta. split; [apply reachable_inv|]. split; [apply reachable_hist|]. vm_compute. repeat split.
Qed.

(* (a) UNSUBSCRIBE: a leaves g1/t; b and c stay, g2/t is untouched; whatever the pick, a gets nothing *)
Example C11w_unsubscribe :
  let s := sx_state 0 [] in
  let e := ESend 1 (KUnsubscribe 2 [] [sx_g1_t]) in
  (exists rm, leaving s e rm /\ rm (sx_A, sx_g1, sx_t) = true /\ rm (sx_B, sx_g1, sx_t) = false /\
              rm (sx_C, sx_g1, sx_t) = false /\ rm (sx_C, sx_g2, sx_t) = false) /\
  grp_names (fst (step s e)) = [(sx_g1_t, [sx_B; sx_C]); (sx_g2_t, [sx_C])] /\
  sx_pubs (snd (run (sx_state 0 [0%nat]) [e; ESend 4 sx_pub])) = [(2, 2, []); (3, 1, [])] /\
  sx_pubs (snd (run (sx_state 0 [1%nat]) [e; ESend 4 sx_pub])) = [(3, 0, []); (3, 1, [])].
Proof.
  cbv zeta. split.
  - eexists. split; [apply (L_unsubscribe _ 1 (sx_conn 1 (sx_state 0 []))); vm_compute; reflexivity|].
    vm_compute. repeat split.
  - vm_compute. repeat split.
Qed.

(* (b) the peer closes a's connection: its Session Expiry Interval is 0 *)
Example C11w_close_expiry_0 :
  let s := sx_state 0 [] in
  (exists rm, leaving s (EClose 1) rm /\ rm (sx_A, sx_g1, sx_t) = true /\ rm (sx_B, sx_g1, sx_t) = false /\
              rm (sx_C, sx_g2, sx_t) = false) /\
  grp_names (fst (step s (EClose 1))) = [(sx_g1_t, [sx_B; sx_C]); (sx_g2_t, [sx_C])] /\
  sx_pubs (snd (run (sx_state 0 [0%nat]) [EClose 1; ESend 4 sx_pub])) = [(2, 2, []); (3, 1, [])].
Proof.
  cbv zeta. split.
  - eexists. split; [apply (L_close _ 1 (sx_conn 1 (sx_state 0 [])) (sx_sess sx_A (sx_state 0 []))); vm_compute; reflexivity|].
    vm_compute. repeat split.
  - vm_compute. repeat split.
Qed.

(* (c) b (expiry 50) sends DISCONNECT with Session Expiry Interval 0, then the socket is closed *)
Example C11w_disconnect_then_close :
  let s := fst (run (sx_state 0 []) [ESend 2 (KDisconnect 0 [PSei 0])]) in
  (let s0 := sx_state 0 [] in
   nget 2 (b_conns s0) = Some (sx_conn 2 s0) /\ k_phase (sx_conn 2 s0) = PhConnected /\ k_v (sx_conn 2 s0) = 5 /\
   aget (k_cid (sx_conn 2 s0)) (b_sessions s0) = Some (sx_sess sx_B s0)) /\
  b_subs s = b_subs (sx_state 0 []) /\
  (exists rm, leaving s (EClose 2) rm /\ rm (sx_B, sx_g1, sx_t) = true /\ rm (sx_A, sx_g1, sx_t) = false) /\
  grp_names (fst (step s (EClose 2))) = [(sx_g1_t, [sx_A; sx_C]); (sx_g2_t, [sx_C])] /\
  sx_pubs (snd (run (sx_state 0 [1%nat]) [ESend 2 (KDisconnect 0 [PSei 0]); EClose 2; ESend 4 sx_pub])) = [(3, 0, []); (3, 1, [])].
Proof.
  cbv zeta. split; [vm_compute; repeat split|]. split; [vm_compute; reflexivity|]. split.
  - set (s := fst (run (sx_state 0 []) [ESend 2 (KDisconnect 0 [PSei 0])])).
    eexists. split; [apply (L_close _ 2 (sx_conn 2 s) (sx_sess sx_B s)); vm_compute; reflexivity|].
    vm_compute. repeat split.
  - vm_compute. repeat split.
Qed.

(* (d) take-over with Clean Start: b connects again on socket 5 while it is online on socket 2 *)
Example C11w_takeover_clean :
  let s := sx_state 0 [] in
  let e := EConnect 5 (sx_cn5 sx_B true 50) in
  (exists rm, leaving s e rm /\ rm (sx_B, sx_g1, sx_t) = true /\ rm (sx_A, sx_g1, sx_t) = false) /\
  grp_names (fst (step s e)) = [(sx_g1_t, [sx_A; sx_C]); (sx_g2_t, [sx_C])] /\
  sx_pubs (snd (run (sx_state 0 [1%nat]) [e; ESend 4 sx_pub])) = [(3, 0, []); (3, 1, [])].
Proof.
  cbv zeta. split.
  - eexists. split.
    + apply L_clean_connect; try (vm_compute; reflexivity); [|discriminate].
      intros cid' f H. vm_compute in H. discriminate.
    + vm_compute. repeat split.
  - vm_compute. repeat split.
Qed.

(* (e) Clean Start of an offline session: c (v3, session kept) goes away and comes back clean: it has left both
   groups, g2/t is gone, and the message goes to a or b only *)
Example C11w_clean_start_offline :
  let s := fst (run (sx_state 0 []) [EClose 3]) in
  let e := EConnect 3 (sx_cn3 sx_C true) in
  grp_names s = [(sx_g1_t, [sx_A; sx_B; sx_C]); (sx_g2_t, [sx_C])] /\
  (exists rm, leaving s e rm /\ rm (sx_C, sx_g1, sx_t) = true /\ rm (sx_C, sx_g2, sx_t) = true /\
              rm (sx_A, sx_g1, sx_t) = false) /\
  grp_names (fst (step s e)) = [(sx_g1_t, [sx_A; sx_B])] /\
  sx_pubs (snd (run (sx_state 0 [2%nat]) [EClose 3; e; ESend 4 sx_pub])) = [(1, 1, [PSubId 7])].
Proof.
  cbv zeta. split; [vm_compute; reflexivity|]. split.
  - eexists. split.
    + apply L_clean_connect; try (vm_compute; reflexivity); [|discriminate].
      intros cid' f H. vm_compute in H. discriminate.
    + vm_compute. repeat split.
  - vm_compute. repeat split.
Qed.

(* (f) ETerminate of c *)
Example C11w_terminate :
  let s := sx_state 0 [] in
  (exists rm, leaving s (ETerminate sx_C) rm /\ rm (sx_C, sx_g1, sx_t) = true /\ rm (sx_C, sx_g2, sx_t) = true /\
              rm (sx_B, sx_g1, sx_t) = false) /\
  grp_names (fst (step s (ETerminate sx_C))) = [(sx_g1_t, [sx_A; sx_B])] /\
  sx_pubs (snd (run (sx_state 0 [2%nat]) [ETerminate sx_C; ESend 4 sx_pub])) = [(1, 1, [PSubId 7])].
Proof.
  cbv zeta. split.
  - eexists. split; [apply L_terminate; vm_compute; reflexivity|]. vm_compute. repeat split.
  - vm_compute. repeat split.
Qed.

(* (g) expiry: b (expiry 50 s) is closed, 60 s pass, the expiry check runs *)
Example C11w_expire :
  let s := fst (run (sx_state 0 []) [EClose 2; EAdvance 60000]) in
  grp_names s = [(sx_g1_t, [sx_A; sx_B; sx_C]); (sx_g2_t, [sx_C])] /\
  map fst (expired_now s) = [sx_B] /\
  (exists rm, leaving s EExpireCheck rm /\ rm (sx_B, sx_g1, sx_t) = true /\ rm (sx_A, sx_g1, sx_t) = false /\
              rm (sx_C, sx_g2, sx_t) = false) /\
  grp_names (fst (step s EExpireCheck)) = [(sx_g1_t, [sx_A; sx_C]); (sx_g2_t, [sx_C])] /\
  sx_pubs (snd (run (sx_state 0 [1%nat]) [EClose 2; EAdvance 60000; EExpireCheck; ESend 4 sx_pub])) = [(3, 0, []); (3, 1, [])].
Proof.
  cbv zeta. split; [vm_compute; reflexivity|]. split; [vm_compute; reflexivity|]. split.
  - eexists. split; [apply L_expire|]. vm_compute. repeat split.
  - vm_compute. repeat split.
Qed.

(* 3: b (expiry 50) is closed: it stays a member; pick 1 selects it, the copy waits in its stored queue and is sent
   (QoS 2 = min(2, 2)) when b resumes its session on socket 6 *)
Example C11w_offline_member :
  let s := sx_state 0 [] in
  (nget 2 (b_conns s) = Some (sx_conn 2 s) /\ attached (k_phase (sx_conn 2 s)) = true /\
   aget (k_cid (sx_conn 2 s)) (b_sessions s) = Some (sx_sess sx_B s) /\
   ur_expiry (sx_conn 2 s) (sx_sess sx_B s) (b_cfg s) = 50) /\
  grp_names (fst (step s (EClose 2))) = [(sx_g1_t, [sx_A; sx_B; sx_C]); (sx_g2_t, [sx_C])] /\
  sx_pubs (snd (run (sx_state 0 [1%nat]) [EClose 2; ESend 4 sx_pub])) = [(3, 1, [])] /\
  sx_pubs (snd (run (sx_state 0 [1%nat]) [EClose 2; ESend 4 sx_pub; EConnect 6 (sx_cn5 sx_B false 50)])) = [(3, 1, []); (6, 2, [])].
Proof. vm_compute. repeat split. Qed.

(* 4: with a retained message on "t": a plain subscribe replays it, a shared subscribe (v5 and v3) does not *)
Example C11w_no_retained :
  let s := fst (run (sx_state 0 []) [ESend 4 (KPublish false 1 true sx_t [114] 3 [])]) in
  shared_name sx_g1_t = true /\ shared_name sx_t = false /\
  sx_pubs (snd (run s [ESend 1 (KSubscribe 5 [] [sx_tq sx_t 1])])) = [(1, 1, [])] /\
  sx_pubs (snd (run s [ESend 1 (KSubscribe 5 [] [sx_tq (SHARE_PREFIX ++ [104; 47; 116]) 1])])) = [] /\
  sx_pubs (snd (run s [ESend 3 (KSubscribe 5 [] [sx_tq (SHARE_PREFIX ++ [104; 47; 116]) 1])])) = [].
Proof. vm_compute. repeat split. Qed.

(* OBSERVATION (not a theorem of "exactly one LIVE member"): the pick is among ALL members, offline ones included.
   With queue_qos0 = false a QoS 0 message whose pick falls on the offline member b is queued for nobody in g1/t,
   although a and c are online (pick 1); with pick 0 it goes to a.  What holds in general is C11_one_member_per_group
   (one add_to_queue CALL per group) + C01_add_to_queue (the call queues the copy iff the session has a queue with room
   and the queue_qos0 rule does not skip it). *)
Example C11w_offline_pick_loses_qos0 :
  grp_names (fst (run (sx_state0 []) [EClose 2])) = [(sx_g1_t, [sx_A; sx_B; sx_C]); (sx_g2_t, [sx_C])] /\
  sx_pubs (snd (run (sx_state0 [1%nat]) [EClose 2; ESend 4 sx_pub0; EConnect 6 (sx_cn5 sx_B false 50)])) = [(3, 0, [])] /\
  sx_pubs (snd (run (sx_state0 [0%nat]) [EClose 2; ESend 4 sx_pub0; EConnect 6 (sx_cn5 sx_B false 50)])) = [(1, 0, [PSubId 7]); (3, 0, [])].
Proof. vm_compute. repeat split. Qed.
