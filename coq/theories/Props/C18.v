(* C18 - WebSocket transport delivers the exact byte stream of the binary messages.
   Only statements, each closed by `exact <lemma>`; proofs are in Proofs/WsConnP.v. *)
From Coq Require Import List NArith.
Import ListNotations.
From GM Require Import Model.WsConn Proofs.WsConnP.

(* For all binary message lists and all sequences of read sizes (bufio or anything else
   in front): bytes handed out ++ bytes buffered ++ payloads not yet fetched = the
   concatenation of all payloads; the only error is end-of-stream, and then everything
   has been handed out. *)
Theorem C18_read_stream :
  forall (msgs : list wsmsg) (ps : list nat) cs e s' msgs',
    all_binary msgs = true ->
    ws_reads ws_init ps msgs = (cs, e, s', msgs') ->
    concat cs ++ pending s' ++ payloads msgs' = payloads msgs /\
    (e = None \/ e = Some RErrEOF) /\
    (e = Some RErrEOF -> concat cs = payloads msgs).
Proof. exact read_stream_binary. Qed.
Print Assumptions C18_read_stream.

(* Text messages are rejected; what was handed out before is exactly the payloads of the
   binary messages that precede the first text message. *)
Theorem C18_text_rejected :
  forall (msgs : list wsmsg) (ps : list nat) cs e s' msgs',
    ws_reads ws_init ps msgs = (cs, e, s', msgs') ->
    (exists rest, payloads (upto_text msgs) = concat cs ++ rest) /\
    (e = Some RErrType -> concat cs = payloads (upto_text msgs)).
Proof. exact read_stream_text. Qed.
Print Assumptions C18_text_rejected.

Theorem C18_text_first_read_fails :
  forall s p x rest, buf s = None -> ws_read s p ((Text, x) :: rest) = (RErrType, s, rest).
Proof. exact first_text_rejected. Qed.
Print Assumptions C18_text_first_read_fails.

(* Everything written arrives as binary messages whose concatenation is the written stream. *)
Theorem C18_write_stream :
  forall ps : list (list N),
    payloads (ws_writes ps) = concat ps /\ all_binary (ws_writes ps) = true /\
    forall p, snd (ws_write p) = length p.
Proof. exact write_stream. Qed.
Print Assumptions C18_write_stream.

(* non-vacuity: a run that straddles message boundaries and ends at EOF *)
Example C18_nonvacuous :
  let msgs := [(Binary, [1;2;3]%N); (Binary, []); (Binary, [4;5]%N)] in
  all_binary msgs = true /\
  ws_reads ws_init [2;2;1;0;5;1] msgs =
    ([[1;2]%N; [3]%N; []; []; [4;5]%N], Some RErrEOF, ws_init, []).
Proof. vm_compute. split; reflexivity. Qed.
