(* C04 - inbound QoS 2 exactly-once (component level: the unack store is a set).
   The wire-level half (deliveries counted at an independent subscriber, acks) is checked
   on the broker model by the C04 check. *)
From Coq Require Import List NArith.
Import ListNotations.
From GM Require Import Model.Limiter Oracle.C03O Proofs.LimiterP.

(* for every history of Init/Set/Remove the store answers "already present" exactly as a set does *)
Theorem C04_unack_is_a_set : forall ops : list uop, unack_ok ops (unack_run [] ops) = true.
Proof. exact unack_refines_set. Qed.
Print Assumptions C04_unack_is_a_set.

(* Set reports a duplicate iff the id was set before and not removed since *)
Theorem C04_duplicate_iff : forall (id : N) (u : unack), snd (unack_set id u) = true <-> In id u.
Proof. exact unack_set_true_iff. Qed.
Print Assumptions C04_duplicate_iff.

Example C04_nonvacuous :
  unack_run [] [USet 5; USet 5; URemove 5; USet 5; UInit false; USet 5; UInit true; USet 5]%N =
  [Some false; Some true; None; Some false; None; Some true; None; Some false].
Proof. vm_compute. reflexivity. Qed.
