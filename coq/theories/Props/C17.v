(* C17 - federation routing: forwarded to exactly the nodes that need it, delivered once.
   Statements only; model in Model/FedRoute.v (sendMessage / sendSharedMsg, the receiver's
   eventStreamHandler on a message event), proofs in Proofs/FedRouteP.v.  The federation
   subscription tree is the real store model (Model/SubTrie.v) after ANY history of
   subscribe / unsubscribe operations `fed_ops` applied for the peers' node names; its
   content is spoken about through the flat specification `spec_run fed_ops`
   (refinement: Proofs/SubTrieP.v). *)
From Coq Require Import List NArith.
Import ListNotations.
From GM Require Import Base.Topic Base.Msg Model.SubTrie Model.SubSpec Model.RetTrie Model.FedQueue Model.FedRoute
  Oracle.C17O Proofs.FedRouteP Proofs.FedSharedP Proofs.FedPlainP.

(* a lookup by topic with all subscription types on a store returns exactly the stored
   matching subscriptions: the shared ones followed by the non-shared ones (both matched by
   MQTT 4.7 incl. the '$' rule, the shared ones since the repair 8c233d3), each once *)
Theorem C17_fed_lookup_exact :
  forall (ops : list op) (t : str),
    wf_ops ops = true -> t <> [] -> no_wild_levels (split t) = true ->
    exists lsh lpl,
      ents (db_iterate (q_match true true true t) (db_run ops)) = lsh ++ lpl /\
      ents (db_iterate (q_match false true false t) (db_run ops)) = lsh /\
      ents (db_iterate (q_match true false true t) (db_run ops)) = lpl /\
      NoDup lsh /\ NoDup lpl /\
      (forall c s, In (c, s) lsh <->
         (s_share s <> [] /\ sp_get (c, s_share s, s_filter s) (spec_run ops) = Some s /\
          topic_match t (s_filter s) = true)) /\
      (forall c s, In (c, s) lpl <->
         (s_share s = [] /\ sp_get (c, [], s_filter s) (spec_run ops) = Some s /\ topic_match t (s_filter s) = true)).
Proof. exact lookup_all_exact. Qed.
Print Assumptions C17_fed_lookup_exact.

(* nodes with no matching subscription receive nothing - whatever shared groups, counters
   and queues there are *)
Theorem C17_none_unmatched :
  forall (st : rstate) (fed_ops : list op) (m : msg) (n : str),
    r_fed st = db_run fed_ops -> wf_ops fed_ops = true ->
    m_retained m = false -> m_topic m <> [] -> no_wild_levels (split (m_topic m)) = true ->
    ~ node_matches (spec_run fed_ops) n (m_topic m) ->
    aget n (r_peers (fst (fst (fr_send_message st m)))) = aget n (r_peers st).
Proof. exact fr_none_unmatched. Qed.
Print Assumptions C17_none_unmatched.

(* a non-retained message, no matching shared subscription anywhere: the peers that get an
   event are exactly those with a matching non-shared subscription, one event each (the
   message in event form), the local delivery is neither dropped nor restricted *)
Theorem C17_plain_exact :
  forall (st : rstate) (local_ops fed_ops : list op) (m : msg),
    r_local st = db_run local_ops -> r_fed st = db_run fed_ops ->
    wf_ops local_ops = true -> wf_ops fed_ops = true ->
    m_retained m = false -> m_topic m <> [] -> no_wild_levels (split (m_topic m)) = true ->
    (forall c g f s, g <> [] -> sp_get (c, g, f) (spec_run local_ops) = Some s -> topic_match (m_topic m) f = false) ->
    (forall c g f s, g <> [] -> sp_get (c, g, f) (spec_run fed_ops) = Some s -> topic_match (m_topic m) f = false) ->
    snd (fst (fr_send_message st m)) = false /\ snd (fr_send_message st m) = None /\
    forall n q, aget n (r_peers st) = Some q ->
      (node_plain_matches (spec_run fed_ops) n (m_topic m) ->
         aget n (r_peers (fst (fst (fr_send_message st m)))) = Some (q ++ [EMsg (msg_event_form m)])) /\
      (~ node_plain_matches (spec_run fed_ops) n (m_topic m) ->
         aget n (r_peers (fst (fst (fr_send_message st m)))) = Some q).
Proof. exact fr_plain_exact. Qed.
Print Assumptions C17_plain_exact.

(* a retained message goes to every peer, once; never dropped, options untouched *)
Theorem C17_retained_broadcast :
  forall (st : rstate) (m : msg),
    m_retained m = true ->
    snd (fst (fr_send_message st m)) = false /\ snd (fr_send_message st m) = None /\
    r_peers (fst (fst (fr_send_message st m))) = map (fun p => (fst p, snd p ++ [EMsg (msg_event_form m)])) (r_peers st).
Proof. exact fr_retained_broadcast. Qed.
Print Assumptions C17_retained_broadcast.

(* the receiver's retained store after ANY sequence of received message events equals what
   the broker's own rule gives (publishHandler: RETAIN with an empty payload clears the topic,
   otherwise the message replaces the retained one) - with C07_last_value: per topic the last
   retained value.  (Unconditional since the repair 50cdceb; before it an empty payload was
   stored instead of clearing.) *)
Theorem C17_receiver_retained :
  forall (ms : list msg) (t : str),
    rdb_get t (fr_store_after ms) = aget t (rspec_run (recv_ops_spec ms)).
Proof. exact fr_receiver_retained. Qed.
Print Assumptions C17_receiver_retained.

(* the witness of the repaired finding now passes: a retained message, then a retained
   message with an empty payload on the same topic - the store ends up empty *)
Example C17_receiver_clear_witness :
  rdb_get [97]%N (fr_store_after [ex_set]) = Some ex_set /\ rdb_get [97]%N (fr_store_after [ex_set; ex_clear]) = None /\
  rdb_all (fr_store_after [ex_set; ex_clear]) = [].
Proof. exact fr_receiver_clear_witness. Qed.

(* A share group that spans nodes is NOT served exactly once in general (known finding
   kf_shared_span, design level): on a federation in its stable state (`case_state`: the
   federation tree holds every peer's local topic set) the model - which the differential
   check ties to sendMessage - yields two deliveries to a group in one case and none in
   another, while the plain part of the statement holds in both. *)
Theorem C17_shared_one_refuted :
  (exists c counters m, kf_shared_span c m = true /\ plain_ok c m (case_obs c counters m) = true /\
     exists G, In G (groups (m_topic m) c) /\ group_deliveries c (m_topic m) G (case_obs c counters m) = 2%N) /\
  (exists c counters m, kf_shared_span c m = true /\ plain_ok c m (case_obs c counters m) = true /\
     exists G, In G (groups (m_topic m) c) /\ group_deliveries c (m_topic m) G (case_obs c counters m) = 0%N).
Proof. exact fr_shared_one_refuted. Qed.
Print Assumptions C17_shared_one_refuted.

(* ... and it IS served exactly once outside the known-finding class: for every federation
   in its stable state (well-formed description, distinct peers), every value of the
   round-robin counters and every non-retained message such that at most one share group
   matches and no peer holds both a matching plain subscriber and a member of it, the
   deliveries to the group over the whole federation - the origin's own broker under the
   drop flag / rewritten options, every receiving node with all subscription types - are
   exactly one. *)
Theorem C17_shared_one_partial :
  forall (c : rcase) (counters : list (str * N)) (m : msg),
    wf_case c = true -> NoDup (rc_peers c) ->
    m_retained m = false -> m_topic m <> [] -> no_wild_levels (split (m_topic m)) = true ->
    kf_shared_span c m = false ->
    shared_ok c m (case_obs c counters m) = true.
Proof. exact fr_shared_one_partial. Qed.
Print Assumptions C17_shared_one_partial.

(* The plain part of the statement for EVERY federation in its stable state, with share
   groups present and for all round-robin counters: every event carries the message, goes
   to a peer, at most one per peer; a peer without any matching subscription gets none; a
   peer with a matching non-shared subscription gets exactly one (whether it was picked for
   a share group or not: `sent` de-duplicates); and whenever the origin itself has a
   matching non-shared subscriber its own delivery is neither dropped nor restricted to
   types that would exclude it. *)
Theorem C17_plain_ok_general :
  forall (c : rcase) (counters : list (str * N)) (m : msg),
    wf_case c = true -> NoDup (rc_peers c) ->
    m_retained m = false -> m_topic m <> [] -> no_wild_levels (split (m_topic m)) = true ->
    plain_ok c m (case_obs c counters m) = true.
Proof. exact fr_plain_ok_general. Qed.
Print Assumptions C17_plain_ok_general.

(* non-vacuity: three peers, one with a wildcard subscription, one with a '$' filter, one
   without a match; the message goes to the first only *)
Example C17_nonvacuous :
  let n1 := [110; 49]%N in let n2 := [110; 50]%N in let n3 := [110; 51]%N in
  let fed_ops := [OSub n1 (plain_sub [] [97; 47; 35]); OSub n2 (plain_sub [] [36; 115; 47; 35]);
                  OSub n3 (plain_sub [] [98]); OSub n3 (plain_sub [] [97]); OUnsub n3 [97]]%N in
  let st := fr_init [110; 48]%N [] fed_ops [n1; n2; n3] in
  wf_ops fed_ops = true /\
  map (fun p => length (snd p)) (r_peers (fst (fst (fr_send_message st ex_pub)))) = [1; 0; 0]%nat.
Proof. vm_compute. split; reflexivity. Qed.

(* non-vacuity of the partial statement: a group with a member on the origin and one on n1,
   a plain subscriber on n2; whichever node's turn it is, one delivery *)
Example C17_shared_nonvacuous :
  let c := {| rc_node := [110; 48];
              rc_nodes := [([110; 48], [([99], [103], [97])]);
                           ([110; 49], [([99], [103], [97])]);
                           ([110; 50], [([99], [], [97])])];
              rc_peers := [[110; 49]; [110; 50]] |}%N in
  let G := [36; 115; 104; 97; 114; 101; 47; 103; 47; 97]%N in
  wf_case c = true /\ kf_shared_span c ex_pub = false /\ groups [97]%N c = [G] /\
  group_deliveries c [97]%N G (case_obs c [] ex_pub) = 1%N /\
  group_deliveries c [97]%N G (case_obs c [(G, 1%N)] ex_pub) = 1%N /\
  map fst (po_sent (case_obs c [] ex_pub)) = [[110; 50]]%N /\
  map fst (po_sent (case_obs c [(G, 1%N)] ex_pub)) = [[110; 49]; [110; 50]]%N.
Proof. vm_compute. repeat split. Qed.
