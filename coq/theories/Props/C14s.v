(* C14 (static half) - every hook wrapper a plugin exposes is installed, wrappers nest with the
   first plugin in plugin_order outermost.  Statements over Gen/HookKinds.v (regenerated from
   server/plugin.go, hook.go, server.go on every run); proofs in Proofs/HooksP.v.
   The dynamic half (hook decisions enforced, each hook fires once per event) is in Props/C14.v. *)
From Coq Require Import List Arith Bool String.
Import ListNotations.
From GM Require Import Gen.HookKinds Model.Hooks Proofs.HooksP.

(* FULL statement: every HookWrapper field is collected AND applied (true since repair 00ceffb:
   before it, OnReAuthWrapper was collected and never applied) *)
Theorem C14_installed :
  forall row, In row hook_rows -> hr_collected row && hr_applied row = true.
Proof. exact installed_all. Qed.
Print Assumptions C14_installed.

(* the row that used to fail *)
Theorem C14_reauth_installed :
  exists row, In row hook_rows /\ hr_field row = reauth /\ hr_collected row = true /\ hr_applied row = true.
Proof. exact reauth_row_installed. Qed.
Print Assumptions C14_reauth_installed.

(* every apply loop folds right-to-left over the field's own slice (the loop is bounded by the
   length of, and indexes, the slice the field's wrappers were collected into), from the hook of
   its own kind, and stores to it: what is installed is compose [w_1; ...; w_n] base, the wrapper
   of the first plugin outermost *)
Theorem C14_order :
  forall row, In row hook_rows -> hr_applied row = true ->
    hr_base row = hr_kind row /\ hr_store row = hr_kind row /\
    hr_bound row = hr_slice row /\ hr_indexed row = hr_slice row /\
    forall (H : Type) (sl : string -> list (H -> H)) (base : H),
      installed row sl base = compose (sl (hr_slice row)) base.
Proof. exact order_installed. Qed.
Print Assumptions C14_order.

Theorem C14_first_outermost :
  forall (H : Type) (w : H -> H) (ws : list (H -> H)) (base : H),
    compose (w :: ws) base = w (compose ws base).
Proof. exact first_outermost. Qed.
Print Assumptions C14_first_outermost.

(* the descending loop of the source computes compose; an ascending loop would not *)
Theorem C14_loop_shape :
  forall (H : Type) (ws : list (H -> H)) (base : H),
    loop_desc ws (List.length ws) base = compose ws base /\ loop_asc ws base = compose (rev ws) base.
Proof. exact loop_shape. Qed.
Print Assumptions C14_loop_shape.

(* the table has one row per HookWrapper field, and its kinds are exactly the fields of Hooks *)
Theorem C14_table_covers : table_covers = true.
Proof. exact table_covers_ok. Qed.
Print Assumptions C14_table_covers.

(* no two HookWrapper fields are collected into the same slice *)
Theorem C14_slices_distinct : nodup_strs (map hr_slice hook_rows) = true.
Proof. exact slices_distinct. Qed.
Print Assumptions C14_slices_distinct.

(* non-vacuity *)
Example C14_wrong_bound_differs :
  loop_desc [tag 1; tag 2; tag 3] 1 [] = [1] /\ compose [tag 1; tag 2; tag 3] [] = [1; 2; 3].
Proof. exact wrong_bound_differs. Qed.

Example C14_some_row_applied : exists row, In row hook_rows /\ hr_applied row = true.
Proof. exact some_row_applied. Qed.

Example C14_nesting_matters :
  compose [tag 1; tag 2; tag 3] [] = [1; 2; 3] /\ loop_desc [tag 1; tag 2; tag 3] 3 [] = [1; 2; 3]
  /\ loop_asc [tag 1; tag 2; tag 3] [] = [3; 2; 1].
Proof. exact nesting_matters. Qed.
