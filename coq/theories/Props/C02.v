(* C02 - subscription index answers match MQTT topic-matching rules after any history.
   Statements only. *)
From Coq Require Import List NArith.
Import ListNotations.
From GM Require Import Base.Topic Model.TopicMatch Proofs.TopicP Proofs.TopicMatchP.

(* The exported TopicMatch helper (two-cursor byte loop) decides the MQTT 4.7 relation on
   every well-formed (topic name, topic filter) pair, and never runs out of fuel. *)
Theorem C02_topicmatch_equiv :
  forall t f : str,
    valid_name_spec t = true -> valid_filter_spec f = true ->
    tm_impl t f = Some (topic_match t f).
Proof. exact tm_impl_equiv. Qed.
Print Assumptions C02_topicmatch_equiv.

Theorem C02_topicmatch_total :
  forall t f : str, exists b, tm_impl t f = Some b.
Proof. exact tm_impl_terminates. Qed.
Print Assumptions C02_topicmatch_total.

(* the finite list of filter paths visited by the trie walk is exactly the set of
   filters matching the topic, each once *)
Theorem C02_candidates_exact :
  forall (ts f : list level),
    ts <> [] -> no_wild_levels ts = true ->
    (In f (cands ts) <-> lm ts f = true) /\ NoDup (cands ts).
Proof. intros ts f H1 H2. split; [exact (cands_lm_nowild ts f H1 H2)|exact (cands_nodup ts H2)]. Qed.
Print Assumptions C02_candidates_exact.
