(* C02 - subscription index answers match MQTT topic-matching rules after any history.
   Statements only. *)
From Coq Require Import List NArith.
Import ListNotations.
From GM Require Import Base.Topic Model.TopicMatch Proofs.TopicP Proofs.TopicMatchP.

(* The exported TopicMatch helper (two-cursor byte loop) decides the MQTT 4.7 relation on
   every well-formed (topic name, topic filter) pair, and never runs out of fuel. *)
Theorem C02_topicmatch_equiv :
  forall t f : str,
    valid_name_spec t = true -> valid_filter_spec f = true ->
    tm_impl t f = Some (topic_match t f).
Proof. exact tm_impl_equiv. Qed.
Print Assumptions C02_topicmatch_equiv.

Theorem C02_topicmatch_total :
  forall t f : str, exists b, tm_impl t f = Some b.
Proof. exact tm_impl_terminates. Qed.
Print Assumptions C02_topicmatch_total.

(* the finite list of filter paths visited by the trie walk is exactly the set of
   filters matching the topic, each once *)
Theorem C02_candidates_exact :
  forall (ts f : list level),
    ts <> [] -> no_wild_levels ts = true ->
    (In f (cands ts) <-> lm ts f = true) /\ NoDup (cands ts).
Proof. intros ts f H1 H2. split; [exact (cands_lm_nowild ts f H1 H2)|exact (cands_nodup ts H2)]. Qed.
Print Assumptions C02_candidates_exact.

(* ---- the store: refinement of the three tries + indexes + counters to a flat map ---- *)
From GM Require Import Model.SubTrie Model.SubSpec Oracle.C02O Proofs.SubTrieP.

(* After ANY history of subscribe / unsubscribe / unsubscribe-all by any clients, a lookup
   for a topic name returns exactly the stored non-shared subscriptions whose filter
   matches it under MQTT 4.7 (incl. the '$' rule), each once. *)
Theorem C02_lookup_topic :
  forall (ops : list op) (t : str) (c : cid),
    wf_ops ops = true -> t <> [] -> no_wild_levels (split t) = true ->
    exists l, db_iterate (q_topic t c) (db_run ops) = IOk (some_ents l) /\ NoDup l /\
      forall c' s, In (c', s) l <->
        (sp_get (c', [], s_filter s) (spec_run ops) = Some s /\ topic_match t (s_filter s) = true /\ want_client c c').
Proof. exact lookup_topic_exact. Qed.
Print Assumptions C02_lookup_topic.

(* lookups by exact filter and by client return exactly what is stored, with the latest options *)
Theorem C02_lookup_name :
  forall (ops : list op) (f : str) (c : cid),
    wf_ops ops = true -> f <> [] ->
    exists l, db_iterate (q_name f c) (db_run ops) = IOk (some_ents l) /\ NoDup l /\
      forall c' s, In (c', s) l <-> (sp_get (c', [], f) (spec_run ops) = Some s /\ want_client c c').
Proof. exact lookup_name_exact. Qed.
Print Assumptions C02_lookup_name.

Theorem C02_lookup_client :
  forall (ops : list op) (c : cid),
    wf_ops ops = true -> c <> [] ->
    exists l, db_iterate (q_client c) (db_run ops) = IOk (some_ents l) /\ NoDup l /\
      forall c' s, In (c', s) l <-> (c' = c /\ sp_get (c, [], s_filter s) (spec_run ops) = Some s).
Proof. exact lookup_client_exact. Qed.
Print Assumptions C02_lookup_client.

(* the reported counts equal the number of live subscriptions (mod 2^64), the totals the
   number of first-time subscribes, AlreadyExisted is exact *)
Theorem C02_counts :
  forall (ops : list op),
    wf_ops ops = true ->
    (st_total (gstats (db_run ops)), st_cur (gstats (db_run ops))) = expect_gstats ops /\
    (forall c, db_client_stats c (db_run ops) =
               match expect_cstats ops c with Some (a, b) => Some {| st_total := a; st_cur := b |} | None => None end) /\
    model_already db_init ops = expect_already [] ops.
Proof. exact counts_exact. Qed.
Print Assumptions C02_counts.

Theorem C02_no_panic : forall ops, wf_ops ops = true -> panicked (db_run ops) = false.
Proof. exact never_panics. Qed.
Print Assumptions C02_no_panic.

(* non-vacuity: a history with prefix-related filters, a '$' filter, re-subscription and removal *)
Definition mk_sub (f : str) (q : N) : sub :=
  {| s_share := []; s_filter := f; s_id := 0; s_qos := q; s_nl := false; s_rap := false; s_rh := 0 |}.
Example C02_nonvacuous :
  let c1 := [99; 49]%N in let c2 := [99; 50]%N in
  let ops := [OSub c1 (mk_sub [97; 47; 35] 1); OSub c2 (mk_sub [97; 47; 43] 0); OSub c1 (mk_sub [97; 47; 35] 2);
              OSub c2 (mk_sub [36; 115; 47; 35] 1); OUnsub c2 [97; 47; 43]; OSub c2 (mk_sub [97] 1)]%N in
  wf_ops ops = true /\
  db_iterate (q_topic [97]%N []) (db_run ops) = IOk (some_ents [(c2, mk_sub [97]%N 1); (c1, mk_sub [97; 47; 35]%N 2)]).
Proof. vm_compute. split; reflexivity. Qed.
