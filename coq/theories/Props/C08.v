(* C08 - "Will message is published exactly when, and only when, it should be", proved of the broker
   model Model/Broker.v (Proofs/BrokerWillP.v).  A will can only be published through send_will, which is
   applied by unregister (the connection ends), fire_wills (the delay timer), release_will (the session ends)
   and handle_connect (the old session is discarded).  Sections 1-5 characterise every call site, section 6
   is the ghost-state theorem on the instrumented run run_w, whose erasure is Broker.run. *)
From Coq Require Import List NArith Bool.
Import ListNotations.
From GM Require Import Base.Topic Base.Msg Model.SubTrie Model.RetTrie Model.Limiter Model.Broker
  Proofs.BrokerQos2P Proofs.BrokerWillP.
Open Scope N_scope.

(* the stages used in the statements below compose to unregister, by computation *)
Theorem C08_unregister_stages : forall c k s,
  unregister c k s =
  let cid := k_cid k in
  match aget cid (b_sessions s) with
  | None => (remove_session cid s, [])
  | Some se =>
      let '(s1, o1) :=
        match se_will se with
        | Some w =>
            if k_clean_will k then (s, [])
            else if negb (ur_delay k se s =? 0) && ur_store k se s
                 then (ur_arm cid w (b_rt s + ur_delay k se s * 1000) s, [])
                 else send_will cid w s
        | None => (s, [])
        end in
      ur_finish cid se (ur_expiry k se s) (ur_store k se s) s1 o1
  end.
Proof. exact unregister_stages. Qed.
Print Assumptions C08_unregister_stages.

(* 1. a DISCONNECT that suppresses the will *)
Theorem C08_will_suppressed_by_disconnect : forall c k s se,
  aget (k_cid k) (b_sessions s) = Some se ->
  k_clean_will k = true ->
  unregister c k s = ur_finish (k_cid k) se (ur_expiry k se s) (ur_store k se s) s [] /\
  snd (unregister c k s) = [] /\ b_wills (fst (unregister c k s)) = b_wills s.
Proof. exact will_suppressed_by_disconnect. Qed.
Print Assumptions C08_will_suppressed_by_disconnect.

Theorem C08_will_suppressed_same_as_no_will : forall c k s,
  k_clean_will k = true ->
  snd (unregister c k s) = snd (unregister c k (erase_will (k_cid k) s)) /\
  erase_will (k_cid k) (fst (unregister c k s)) = erase_will (k_cid k) (fst (unregister c k (erase_will (k_cid k) s))).
Proof. exact will_suppressed_same_as_no_will. Qed.
Print Assumptions C08_will_suppressed_same_as_no_will.

Theorem C08_disconnect_sets_clean_will : forall c k code props s,
  disc_recorded k props s = true ->
  exists s' k',
    handle_packet c k (KDisconnect code props) s = HErr s' [] None /\
    nget c (b_conns s') = Some k' /\
    k_clean_will k' = negb ((k_v k =? 5) && (code =? 4)) /\
    k_got_disconnect k' = true /\ k_cid k' = k_cid k /\ k_phase k' = k_phase k /\ k_v k' = k_v k /\
    k_force_remove k' = k_force_remove k /\
    b_wills s' = b_wills s /\ b_online s' = b_online s /\
    (forall cid, option_map se_will (aget cid (b_sessions s')) = option_map se_will (aget cid (b_sessions s))).
Proof. exact disconnect_sets_clean_will. Qed.
Print Assumptions C08_disconnect_sets_clean_will.

Theorem C08_disconnect_not_recorded : forall c k code props s,
  disc_recorded k props s = false ->
  handle_packet c k (KDisconnect code props) s = HErr s [] None.
Proof. exact disconnect_not_recorded. Qed.
Print Assumptions C08_disconnect_not_recorded.

Theorem C08_normal_disconnect_then_close_no_will : forall c k code props s s1 o1 s1',
  nget c (b_conns s) = Some k -> k_phase k = PhConnected ->
  disc_recorded k props s = true -> (k_v k =? 5) && (code =? 4) = false ->
  step_event s (ESend c (KDisconnect code props)) = (s1, o1) ->
  dframe s1 s1' ->
  o1 = [] /\ snd (conn_gone c s1') = [OClose c] /\ b_wills (fst (conn_gone c s1')) = b_wills s.
Proof. exact normal_disconnect_then_close_no_will. Qed.
Print Assumptions C08_normal_disconnect_then_close_no_will.

(* 2. immediate or pending *)
Theorem C08_will_immediate : forall c k s se w,
  aget (k_cid k) (b_sessions s) = Some se -> se_will se = Some w -> k_clean_will k = false ->
  ur_delay k se s = 0 \/ ur_store k se s = false ->
  unregister c k s =
    (let '(s1, o1) := send_will (k_cid k) w s in
     ur_finish (k_cid k) se (ur_expiry k se s) (ur_store k se s) s1 o1) /\
  b_wills (fst (unregister c k s)) = b_wills s.
Proof. exact will_immediate. Qed.
Print Assumptions C08_will_immediate.

Theorem C08_will_pending : forall c k s se w,
  aget (k_cid k) (b_sessions s) = Some se -> se_will se = Some w -> k_clean_will k = false ->
  ur_delay k se s <> 0 -> ur_store k se s = true ->
  unregister c k s =
    ur_finish (k_cid k) se (ur_expiry k se s) true (ur_arm (k_cid k) w (b_rt s + ur_delay k se s * 1000) s) [] /\
  snd (unregister c k s) = [] /\
  b_wills (fst (unregister c k s)) = aset (k_cid k) (w, b_rt s + ur_delay k se s * 1000) (b_wills s).
Proof. exact will_pending. Qed.
Print Assumptions C08_will_pending.

Theorem C08_delay_is_min : forall k se s, ur_delay k se s = N.min (se_will_delay se) (ur_expiry k se s).
Proof. exact ur_delay_min. Qed.
Print Assumptions C08_delay_is_min.

(* 3. CONNECT and a pending will *)
Theorem C08_pending_will_cancelled_by_resume : forall c cn s se q u,
  connect_accepted cn s = true ->
  let cid := hc_cid cn s in
  aget cid (b_online s) = None ->
  aget cid (b_sessions s) = Some se -> hc_resume0 cid cn s = true ->
  aget cid (b_queues s) = Some q -> aget cid (b_unacks s) = Some u ->
  exists props s', handle_connect c cn s = (s', [OSend c (KConnack true 0 props)]) /\
                   b_wills s' = adel cid (b_wills s).
Proof. exact pending_will_cancelled_by_resume. Qed.
Print Assumptions C08_pending_will_cancelled_by_resume.

Theorem C08_pending_will_sent_when_session_discarded : forall c cn s se w t,
  connect_accepted cn s = true ->
  let cid := hc_cid cn s in
  aget cid (b_online s) = None ->
  aget cid (b_sessions s) = Some se -> hc_resume0 cid cn s = false ->
  aget cid (b_wills s) = Some (w, t) ->
  exists props s4,
    handle_connect c cn s = (let '(s5, o5) := send_will cid w s4 in (s5, [OSend c (KConnack false 0 props)] ++ o5)) /\
    b_wills s4 = adel cid (b_wills s) /\ b_subs s4 = db_unsubscribe_all cid (b_subs s) /\ b_ret s4 = b_ret s /\
    b_hooks s4 = b_hooks s /\
    b_wills (fst (handle_connect c cn s)) = adel cid (b_wills s).
Proof. exact pending_will_sent_when_session_discarded. Qed.
Print Assumptions C08_pending_will_sent_when_session_discarded.

(* 4. the timer, the end of the session *)
Theorem C08_pending_will_fires_once : forall s,
  NoDup (map fst (b_wills s)) ->
  fire_wills s = fire_seq (filter (due (b_rt s)) (b_wills s)) s [] /\
  b_wills (fst (fire_wills s)) = filter (fun e => negb (due (b_rt s) e)) (b_wills s).
Proof. exact pending_will_fires_once. Qed.
Print Assumptions C08_pending_will_fires_once.

Theorem C08_no_will_before_its_time : forall s,
  NoDup (map fst (b_wills s)) -> forallb (fun e => negb (due (b_rt s) e)) (b_wills s) = true ->
  fire_wills s = (s, []).
Proof. exact no_will_before_its_time. Qed.
Print Assumptions C08_no_will_before_its_time.

Theorem C08_release_will : forall cid s,
  release_will cid s =
    match aget cid (b_wills s) with
    | Some (w, _) => send_will cid w (del_will cid s)
    | None => (s, [])
    end /\
  b_wills (fst (release_will cid s)) = adel cid (b_wills s).
Proof. exact release_will_spec. Qed.
Print Assumptions C08_release_will.

(* 5. what is published *)
Theorem C08_connect_registers_will : forall c cn s s' o,
  connect_accepted cn s = true -> handle_connect c cn s = (s', o) ->
  exists se, aget (hc_cid cn s) (b_sessions s') = Some se /\
             se_will se = match cn_will cn with Some w => Some (will_msg w) | None => None end /\
             (cn_ver cn = 5 -> se_will_delay se = match cn_will cn with Some w => opt_or (p_willdelay (w_props w)) 0 | None => 0 end) /\
             (cn_ver cn <> 5 -> se_will_delay se = 0).
Proof. exact connect_registers_will. Qed.
Print Assumptions C08_connect_registers_will.

Theorem C08_will_msg_fields : forall w,
  m_topic (will_msg w) = w_topic w /\ m_payload (will_msg w) = w_payload w /\ m_qos (will_msg w) = w_qos w /\
  m_retained (will_msg w) = w_retain w /\
  m_ctype (will_msg w) = opt_or (p_ctype (w_props w)) [] /\ m_corr (will_msg w) = opt_or (p_corr (w_props w)) [] /\
  m_expiry (will_msg w) = opt_or (p_msgexpiry (w_props w)) 0 /\ m_pfmt (will_msg w) = opt_or (p_pfmt (w_props w)) 0 /\
  m_resp (will_msg w) = opt_or (p_resp (w_props w)) [] /\ m_uprops (will_msg w) = p_users (w_props w) /\
  m_dup (will_msg w) = false /\ m_subids (will_msg w) = [].
Proof. exact will_msg_fields. Qed.
Print Assumptions C08_will_msg_fields.

Theorem C08_will_message_fields : forall cid m s,
  match will_effective cid m s with
  | Some m' =>
      send_will cid m s = (let '(s', o, _) := deliver cid m' (retain_update m' s) in (s', o)) /\
      b_ret (fst (send_will cid m s)) = b_ret (retain_update m' s) /\
      (m' = m \/ exists t p q, m' = with_topic_payload_qos t p q m) /\
      m_retained m' = (match will_action cid s with MRewrite _ _ q => rw_retain q (m_retained m) | _ => m_retained m end) /\
      m_ctype m' = m_ctype m /\ m_corr m' = m_corr m /\ m_expiry m' = m_expiry m /\
      m_pfmt m' = m_pfmt m /\ m_resp m' = m_resp m /\ m_uprops m' = m_uprops m
  | None => send_will cid m s = (s, [])
  end.
Proof. exact will_message_fields. Qed.
Print Assumptions C08_will_message_fields.

Theorem C08_will_delivered_as_registered : forall cid m s,
  h_will_on (b_hooks s) = false ->
  send_will cid m s = (let '(s', o, _) := deliver cid m (retain_update m s) in (s', o)).
Proof. exact will_delivered_as_registered. Qed.
Print Assumptions C08_will_delivered_as_registered.

Theorem C08_retained_will_like_publish : forall m s,
  b_ret (retain_update m s) = if m_retained m then rdb_step (b_ret s) (retain_op m) else b_ret s.
Proof. exact retain_update_ret. Qed.
Print Assumptions C08_retained_will_like_publish.

(* send_will never writes a packet itself and leaves the session, will and connection tables alone *)
Theorem C08_send_will_frame : forall cid m s,
  wframe s (fst (send_will cid m s)) /\ only_drops (snd (send_will cid m s)).
Proof. exact send_will_frame. Qed.
Print Assumptions C08_send_will_frame.

(* 6. the ghost-state theorem *)
Theorem C08_instrumentation_erases : forall es s, fst (run_w s es) = run s es.
Proof. exact run_w_erase. Qed.
Print Assumptions C08_instrumentation_erases.

Theorem C08_invariants_hold : forall es s,
  winv s ->
  winv (fst (fst (run_w s es))) /\
  forall w n, le1 w s (n + reg_count w es) -> le1 w (fst (fst (run_w s es))) (n + cnt w (snd (run_w s es))).
Proof. exact run_w_inv. Qed.
Print Assumptions C08_invariants_hold.

Theorem C08_at_most_once : forall es s w,
  winv s -> NoH w s -> (reg_count w es <= 1)%nat -> (cnt w (snd (run_w s es)) <= 1)%nat.
Proof. exact BrokerWillP.C08_at_most_once. Qed.
Print Assumptions C08_at_most_once.

Theorem C08_never_unregistered : forall es s w,
  winv s -> NoH w s -> reg_count w es = 0%nat -> cnt w (snd (run_w s es)) = 0%nat.
Proof. exact BrokerWillP.C08_never_unregistered. Qed.
Print Assumptions C08_never_unregistered.

Theorem C08_at_most_once_from_start : forall cfg h picks es w,
  (reg_count w es <= 1)%nat -> (cnt w (snd (run_w (st_init cfg h picks) es)) <= 1)%nat.
Proof. exact BrokerWillP.C08_at_most_once_from_start. Qed.
Print Assumptions C08_at_most_once_from_start.

(* non-vacuity (scenario of Proofs/BrokerWillP.v sec. 7: subscriber "s" on socket 1, client "w" with a will on socket 2) *)
Example C08_pending_nonvacuous :
  exists k se, nget 2 (b_conns ex_wstate) = Some k /\ aget (k_cid k) (b_sessions ex_wstate) = Some se /\
               se_will se = Some ex_wmsg /\ k_clean_will k = false /\ ur_delay k se ex_wstate = 5 /\ ur_store k se ex_wstate = true.
Proof. exact ex_will_pending_hyps. Qed.

Example C08_immediate_nonvacuous :
  exists k se, nget 2 (b_conns ex_wstate3) = Some k /\ aget (k_cid k) (b_sessions ex_wstate3) = Some se /\
               se_will se = Some ex_wmsg3 /\ k_clean_will k = false /\ ur_store k se ex_wstate3 = false.
Proof. exact ex_will_immediate_hyps. Qed.

Example C08_delayed_will :
  map count_to_sub [snd (run ex_wstate [EClose 2]); snd (run ex_wstate [EClose 2; ESleep 4000]);
                    snd (run ex_wstate [EClose 2; ESleep 4000; ESleep 2000]);
                    snd (run ex_wstate [EClose 2; ESleep 4000; ESleep 2000; ESleep 10000])] = [0; 0; 1; 1]%nat.
Proof. vm_compute. reflexivity. Qed.

Example C08_resume_cancels :
  count_to_sub (snd (run ex_wstate [EClose 2; ESleep 4000; EConnect 3 (ex_connect 5 ex_W false None [PSei 100]);
                                    ESleep 10000; ESleep 10000])) = 0%nat /\
  aget ex_W (b_wills (fst (run ex_wstate [EClose 2]))) <> None /\
  aget ex_W (b_wills (fst (run ex_wstate [EClose 2; ESleep 4000; EConnect 3 (ex_connect 5 ex_W false None [PSei 100])]))) = None.
Proof. exact ex_resume_cancels. Qed.

Example C08_clean_start_sends :
  count_to_sub (snd (run ex_wstate [EClose 2; ESleep 1000; EConnect 3 (ex_connect 5 ex_W true None []);
                                    ESleep 10000])) = 1%nat.
Proof. vm_compute. reflexivity. Qed.

Example C08_disconnect :
  count_to_sub (snd (run ex_wstate [ESend 2 (KDisconnect 0 []); EClose 2; ESleep 10000])) = 0%nat /\
  count_to_sub (snd (run ex_wstate [ESend 2 (KDisconnect 4 []); EClose 2; ESleep 10000])) = 1%nat /\
  count_to_sub (snd (run ex_wstate3 [ESend 2 (KDisconnect 0 []); EClose 2])) = 0%nat /\
  count_to_sub (snd (run ex_wstate3 [EClose 2])) = 1%nat.
Proof. exact ex_disconnect. Qed.

Example C08_ghost_nonvacuous :
  reg_count ex_wmsg ex_whist = 1%nat /\ cnt ex_wmsg (snd (run_w (st_init ex_cfg no_hooks []) ex_whist)) = 1%nat.
Proof. exact ex_ghost. Qed.

(* the target "k_clean_will is set iff not (v5 and code 4)" needs disc_recorded: counterexample without it *)
Example C08_disconnect_not_recorded_counterexample :
  (exists k, nget 2 (b_conns ex_wstate0) = Some k /\ disc_recorded k [PSei 10] ex_wstate0 = false) /\
  count_to_sub (snd (run ex_wstate0 [ESend 2 (KDisconnect 0 [PSei 10]); EClose 2])) = 1%nat.
Proof. exact ex_disconnect_not_recorded. Qed.
