(* C12 on the broker model (Model/Broker.v + Model/Queue.v), for all states: the deadline a message is queued with,
   the check made by the first transmission, the interval forwarded to the subscriber - and the two places where
   the lifetime is NOT honoured (known findings), plus the retained store, which keeps no time at all.
   The arithmetic of `remaining`/`aged` is in Props/C12.v. *)
From Coq Require Import List NArith ZArith Bool.
Import ListNotations.
From GM Require Import Base.Topic Base.Msg Model.SubTrie Model.RetTrie Model.Queue Model.Limiter Model.Broker.
From GM Require Import Proofs.QueueP Proofs.BrokerBasicP Proofs.BrokerExpiryP.
Open Scope N_scope.

(* ---------------- 1. the deadline ---------------- *)

(* The element add_to_queue builds for message m is atq_elem: stamped with the broker's clock, deadline
   clock + L seconds where L = eff_lifetime (configured maximum) (publisher's interval), none when L = 0.
   Either nothing happens (no queue, QoS 0 for an offline session when those are not queued, or Add fails), or Add
   ran on the session's queue: the element is the last of the new queue, or it is the one that was sacrificed
   (queue full) and the drop is reported. *)
Theorem C12_deadline :
  forall cid m s_ ids s s' o q,
  aget cid (b_queues s) = Some q ->
  add_to_queue cid m s_ ids s = (s', o) ->
  let e := atq_elem m s_ ids s in
  e_at e = b_now s /\ e_tag e = b_tag s /\
  e_expiry e = deadline_of (b_now s) (eff_lifetime (c_message_expiry (b_cfg s)) (m_expiry m)) /\
  (exists m', e_body e = QPub m' /\ m_expiry m' = m_expiry m /\ m_dup m' = false /\ m_payload m' = m_payload m /\ m_topic m' = m_topic m) /\
  ((s' = s /\ o = []) \/
   exists q' evs, q_add (b_now s) e q = QOk (q', evs) /\ aget cid (b_queues s') = Some q' /\ o = drops_of cid evs /\
                  b_now s' = b_now s /\ b_cfg s' = b_cfg s /\
                  ((exists r, q' = q /\ evs = [EvDropped e r]) \/
                   (exists l0, q_l q' = l0 ++ [e] /\ subseq l0 (q_l q) /\ forall d r, In (EvDropped d r) evs -> In d (q_l q)))).
Proof. exact add_to_queue_deadline. Qed.
Print Assumptions C12_deadline.

(* the publisher's interval, when it does not exceed the configured maximum (or none is configured) *)
Theorem C12_deadline_publisher_interval :
  forall m s_ ids s,
  0 < m_expiry m -> c_message_expiry (b_cfg s) = 0 \/ m_expiry m <= c_message_expiry (b_cfg s) ->
  e_expiry (atq_elem m s_ ids s) = Some (b_now s + m_expiry m * 1000).
Proof. exact atq_deadline_publisher. Qed.
Print Assumptions C12_deadline_publisher_interval.

(* capped by the configured maximum *)
Theorem C12_deadline_capped :
  forall m s_ ids s,
  0 < c_message_expiry (b_cfg s) -> c_message_expiry (b_cfg s) < m_expiry m ->
  e_expiry (atq_elem m s_ ids s) = Some (b_now s + c_message_expiry (b_cfg s) * 1000).
Proof. exact atq_deadline_capped. Qed.
Print Assumptions C12_deadline_capped.

(* the configured maximum when the publisher gave none (an interval of 0 counts as none) *)
Theorem C12_deadline_default :
  forall m s_ ids s,
  m_expiry m = 0 -> 0 < c_message_expiry (b_cfg s) ->
  e_expiry (atq_elem m s_ ids s) = Some (b_now s + c_message_expiry (b_cfg s) * 1000).
Proof. exact atq_deadline_default. Qed.
Print Assumptions C12_deadline_default.

(* no deadline exactly when both are 0 *)
Theorem C12_deadline_none :
  forall m s_ ids s,
  e_expiry (atq_elem m s_ ids s) = None <-> (m_expiry m = 0 /\ c_message_expiry (b_cfg s) = 0).
Proof. exact atq_deadline_none. Qed.
Print Assumptions C12_deadline_none.

(* the retained messages replayed to a new subscription: replay_retained is a fold of rr_step, whose element is
   stamped with the time of the SUBSCRIBE and gets the stored interval in full - the configured maximum is not applied *)
Theorem C12_replay_retained_fold :
  forall c k sb s,
  replay_retained c k sb s = fold_left (rr_step (k_cid k) sb) (rdb_matched (s_filter sb) (b_ret s)) (s, []).
Proof. exact replay_retained_eq. Qed.
Print Assumptions C12_replay_retained_fold.

Theorem C12_deadline_retained :
  forall cid sb m s0 o0 s' o q,
  aget cid (b_queues s0) = Some q ->
  rr_step cid sb (s0, o0) m = (s', o) ->
  let e := rr_elem sb m s0 in
  e_at e = b_now s0 /\ e_tag e = b_tag s0 /\
  e_expiry e = (if m_expiry m =? 0 then None else Some (b_now s0 + m_expiry m * 1000)) /\
  (exists m', e_body e = QPub m' /\ m_expiry m' = m_expiry m /\ m_dup m' = false /\ m_payload m' = m_payload m /\ m_topic m' = m_topic m) /\
  ((s' = s0 /\ o = o0) \/
   exists q' evs, q_add (b_now s0) e q = QOk (q', evs) /\ aget cid (b_queues s') = Some q' /\ o = o0 ++ drops_of cid evs /\
                  b_now s' = b_now s0 /\ b_cfg s' = b_cfg s0 /\
                  ((exists r, q' = q /\ evs = [EvDropped e r]) \/
                   (exists l0, q_l q' = l0 ++ [e] /\ subseq l0 (q_l q) /\ forall d r, In (EvDropped d r) evs -> In d (q_l q)))).
Proof. exact replay_step_deadline. Qed.
Print Assumptions C12_deadline_retained.

Theorem C12_replay_retained_clock : forall c k sb s, b_now (fst (replay_retained c k sb s)) = b_now s.
Proof. exact replay_retained_now. Qed.
Print Assumptions C12_replay_retained_clock.

Example C12_deadline_nonvacuous :
  (exists q, aget x_S (b_queues (x_s0 0)) = Some q) /\
  x_deadlines 0 10 = Some [Some 10000] /\ x_deadlines 7200 10 = Some [Some 10000] /\
  x_deadlines 4 10 = Some [Some 4000] /\ x_deadlines 4 0 = Some [Some 4000] /\ x_deadlines 0 0 = Some [None].
Proof. exact x_add_to_queue. Qed.

Example C12_deadline_retained_nonvacuous :
  (exists q, aget x_R (b_queues x_s_ret) = Some q) /\ rdb_matched x_T (b_ret x_s_ret) = [x_m_ret] /\ m_expiry x_m_ret = 5 /\
  option_map (fun q => map (fun e => (e_at e, e_expiry e)) (q_l q))
             (aget x_R (b_queues (fst (rr_step x_R x_subn (x_s_ret, []) x_m_ret)))) =
    Some [(b_now x_s_ret, Some (b_now x_s_ret + 5000))].
Proof. exact x_replay_step. Qed.

(* ---------------- 2. Read ---------------- *)

(* `expired now e` is `deadline < now` (strict): an element is handed out as long as now <= deadline - the very
   millisecond of the deadline included - and from deadline + 1 ms on it is dropped and reported.
   q_queued q = the elements from the cursor on; sent_as v r: r is v (QoS 0) or v with a packet id (and the in-flight
   deadline in place of its own, when one is configured). *)
Theorem C12_never_first_sent_after_deadline :
  forall now ids q q' rs evs,
  q_read now ids q = QOk (q', rs, evs) ->
  (forall r, In r rs ->
     (e_expiry r = None \/ exists d, e_expiry r = Some d /\ now <= d) /\
     exists v, In v (q_queued q) /\ sent_as now (q_ifexp q) v r /\
               (e_expiry v = None \/ exists d, e_expiry v = Some d /\ now <= d)) /\
  (forall v d, In v (q_queued q) -> e_expiry v = Some d -> d < now ->
     In (EvDropped v DExpired) evs \/ In v (q_queued q')) /\
  ((length (q_queued q) <= length ids)%nat ->
   forall v d, In v (q_queued q) -> e_expiry v = Some d -> d < now -> In (EvDropped v DExpired) evs) /\
  (forall v, In (EvDropped v DExpired) evs -> In v (q_queued q) /\ exists d, e_expiry v = Some d /\ d < now).
Proof. exact q_read_never_after_deadline. Qed.
Print Assumptions C12_never_first_sent_after_deadline.

(* the complete account of one Read *)
Theorem C12_read_account :
  forall now ids q q' rs evs,
  q_read now ids q = QOk (q', rs, evs) ->
  (forall r, In r rs -> exists v, In v (q_queued q) /\ expired now v = false /\ sent_as now (q_ifexp q) v r) /\
  (forall d rsn, In (EvDropped d rsn) evs ->
     In d (q_queued q) /\ ((rsn = DExpired /\ expired now d = true) \/ (rsn = DExceedsMax /\ expired now d = false))) /\
  (forall v, In v (q_queued q) ->
     In v (q_queued q') \/ (expired now v = true /\ In (EvDropped v DExpired) evs) \/
     (expired now v = false /\ (In (EvDropped v DExceedsMax) evs \/ exists r, In r rs /\ sent_as now (q_ifexp q) v r))) /\
  ((length (q_queued q) <= length ids)%nat -> q_queued q' = []).
Proof. exact q_read_expiry. Qed.
Print Assumptions C12_read_account.

Example C12_read_at_deadline :
  q_read 5000 [1] (xq_queue 5000) = QOk (q_set [] 0 true (xq_queue 5000), [xq_elem 5000], [EvQueue (-1); EvInflight 0]) /\
  q_read 5001 [1] (xq_queue 5000) = QOk (q_set [] 0 true (xq_queue 5000), [], [EvDropped (xq_elem 5000) DExpired; EvQueue (-1); EvInflight 0]).
Proof. exact q_read_at_deadline. Qed.

(* ---------------- 3. the poll loop ---------------- *)

(* the turn of the poll loop that reads the queue (replay over, ids held), at time b_now s: every PUBLISH it writes
   is the copy of a queued element that has not expired; a v5 subscriber gets - for a message with an interval - the
   interval minus the whole seconds waited, at least 1 (`remaining`); otherwise the property is absent *)
Theorem C12_poll_first_send :
  forall c s k q ids s' o,
  nget c (b_conns s) = Some k -> aget (k_cid k) (b_queues s) = Some q ->
  k_drained k = true -> k_held k = Some ids ->
  poll_once c s = Some (s', o) ->
  forall c' dup qos ret t pl pid props, In (OSend c' (KPublish dup qos ret t pl pid props)) o ->
  exists v mv, In v (q_queued q) /\ e_body v = QPub mv /\
    expired (b_now s) v = false /\ (e_expiry v = None \/ exists d, e_expiry v = Some d /\ b_now s <= d) /\
    c' = c /\ dup = m_dup mv /\ qos = m_qos mv /\ ret = m_retained mv /\ pl = m_payload mv /\ (t = m_topic mv \/ t = []) /\
    p_msgexpiry props =
      if (k_v k =? 5) && negb (m_expiry mv =? 0)
      then Some (remaining (m_expiry mv) ((b_now s - e_at v) / 1000)) else None.
Proof. exact poll_first_send. Qed.
Print Assumptions C12_poll_first_send.

(* with aged_v5_value / aged_v5_bounds of BrokerBasicP *)
Theorem C12_poll_first_send_v5 :
  forall c s k q ids s' o,
  nget c (b_conns s) = Some k -> aget (k_cid k) (b_queues s) = Some q ->
  k_drained k = true -> k_held k = Some ids -> k_v k = 5 ->
  poll_once c s = Some (s', o) ->
  forall c' dup qos ret t pl pid props, In (OSend c' (KPublish dup qos ret t pl pid props)) o ->
  exists v mv, In v (q_queued q) /\ e_body v = QPub mv /\ expired (b_now s) v = false /\ pl = m_payload mv /\
    (m_expiry mv = 0 -> p_msgexpiry props = None) /\
    (0 < m_expiry mv -> p_msgexpiry props = Some (m_expiry (aged true (b_now s) v mv)) /\
                        1 <= m_expiry (aged true (b_now s) v mv) <= m_expiry mv) /\
    (0 < m_expiry mv -> (b_now s - e_at v) / 1000 < m_expiry mv ->
       p_msgexpiry props = Some (m_expiry mv - (b_now s - e_at v) / 1000)).
Proof. exact poll_first_send_v5_value. Qed.
Print Assumptions C12_poll_first_send_v5.

Theorem C12_poll_first_send_v3 :
  forall c s k q ids s' o,
  nget c (b_conns s) = Some k -> aget (k_cid k) (b_queues s) = Some q ->
  k_drained k = true -> k_held k = Some ids -> k_v k <> 5 ->
  poll_once c s = Some (s', o) ->
  forall c' dup qos ret t pl pid props, In (OSend c' (KPublish dup qos ret t pl pid props)) o -> p_msgexpiry props = None.
Proof. exact poll_first_send_v3. Qed.
Print Assumptions C12_poll_first_send_v3.

(* dropped and reported *)
Theorem C12_poll_expired_reported :
  forall c s k q ids s' o,
  nget c (b_conns s) = Some k -> aget (k_cid k) (b_queues s) = Some q ->
  k_drained k = true -> k_held k = Some ids ->
  poll_once c s = Some (s', o) ->
  exists q', aget (k_cid k) (b_queues s') = Some q' /\
  (forall v d m, In v (q_queued q) -> e_expiry v = Some d -> d < b_now s -> e_body v = QPub m ->
     In (ODropped (k_cid k) m DExpired) o \/ In v (q_queued q')) /\
  ((length (q_queued q) <= length ids)%nat ->
   forall v d m, In v (q_queued q) -> e_expiry v = Some d -> d < b_now s -> e_body v = QPub m ->
     In (ODropped (k_cid k) m DExpired) o) /\
  (forall cid m, In (ODropped cid m DExpired) o ->
     cid = k_cid k /\ exists v d, In v (q_queued q) /\ e_body v = QPub m /\ e_expiry v = Some d /\ d < b_now s).
Proof. exact poll_expired_reported. Qed.
Print Assumptions C12_poll_expired_reported.

(* the interval forwarded for an element made by add_to_queue (deadline = e_at + eff_lifetime ce p): exactly p - waited
   before the deadline; under a smaller configured maximum the subscriber is still told p - waited, i.e. more than the
   broker itself grants the message *)
Theorem C12_forwarded_interval_of_queued :
  forall now v ce p,
  0 < p -> e_expiry v = deadline_of (e_at v) (eff_lifetime ce p) -> expired now v = false ->
  let waited := (now - e_at v) / 1000 in
  waited <= eff_lifetime ce p <= p /\
  (now < e_at v + eff_lifetime ce p * 1000 -> remaining p waited = p - waited /\ 1 <= p - waited) /\
  (0 < ce -> ce < p -> remaining p waited = p - waited /\ p - ce <= p - waited).
Proof. exact atq_forwarded_interval. Qed.
Print Assumptions C12_forwarded_interval_of_queued.

(* any turn of the poll loop, any state: a PUBLISH with DUP=0 is such a first transmission (the replay writes DUP=1) *)
Theorem C12_poll_once_dup0 :
  forall c s s' o,
  poll_once c s = Some (s', o) ->
  forall c' qos ret t pl pid props, In (OSend c' (KPublish false qos ret t pl pid props)) o ->
  exists k q, nget c (b_conns s) = Some k /\ aget (k_cid k) (b_queues s) = Some q /\
              first_send_ok (b_now s) c k q c' false qos ret t pl props.
Proof. exact poll_once_first_send. Qed.
Print Assumptions C12_poll_once_dup0.

(* ... the poll loop of a connection until it parks, all connections, the polling part of a step *)
Theorem C12_poll_conn_dup0 :
  forall c fuel s s' o,
  poll_conn fuel c s = (s', o) ->
  b_now s' = b_now s /\
  forall c' qos ret t pl pid props, In (OSend c' (KPublish false qos ret t pl pid props)) o ->
  exists si k q, b_now si = b_now s /\ nget c (b_conns si) = Some k /\ aget (k_cid k) (b_queues si) = Some q /\
                 first_send_ok (b_now s) c k q c' false qos ret t pl props.
Proof. exact poll_conn_first_send. Qed.
Print Assumptions C12_poll_conn_dup0.

Theorem C12_poll_all_dup0 :
  forall s s' o,
  poll_all s = (s', o) ->
  b_now s' = b_now s /\
  forall c' qos ret t pl pid props, In (OSend c' (KPublish false qos ret t pl pid props)) o ->
  exists si c k q, b_now si = b_now s /\ nget c (b_conns si) = Some k /\ aget (k_cid k) (b_queues si) = Some q /\
                   first_send_ok (b_now s) c k q c' false qos ret t pl props.
Proof. exact poll_all_first_send. Qed.
Print Assumptions C12_poll_all_dup0.

Theorem C12_step_dup0 :
  forall s e s2 o,
  step s e = (s2, o) ->
  exists s1 o1 o2, step_event s e = (s1, o1) /\ o = o1 ++ o2 /\ b_now s2 = b_now s1 /\
  forall c' qos ret t pl pid props, In (OSend c' (KPublish false qos ret t pl pid props)) o2 ->
  exists si c k q, b_now si = b_now s1 /\ nget c (b_conns si) = Some k /\ aget (k_cid k) (b_queues si) = Some q /\
                   first_send_ok (b_now s1) c k q c' false qos ret t pl props.
Proof. exact step_first_send. Qed.
Print Assumptions C12_step_dup0.

(* the hypotheses hold in a reachable state: "s" (v5) is back after 3.5 s, interval 10 -> 7 *)
Example C12_poll_nonvacuous_v5 :
  x_hyps (x_s2 5 (Some 10) 3500 0) /\
  option_map snd (poll_once 1 (x_s2 5 (Some 10) 3500 0)) = Some [OSend 1 (KPublish false 1 false x_T [1] 1 [PMsgExpiry 7])].
Proof. exact x_poll_v5. Qed.

Example C12_poll_nonvacuous_v3 :
  x_hyps (x_s2 4 (Some 10) 3500 0) /\
  option_map snd (poll_once 1 (x_s2 4 (Some 10) 3500 0)) = Some [OSend 1 (KPublish false 1 false x_T [1] 1 [])].
Proof. exact x_poll_v3. Qed.

Example C12_poll_nonvacuous_no_interval :
  x_hyps (x_s2 5 None 3500 0) /\
  option_map snd (poll_once 1 (x_s2 5 None 3500 0)) = Some [OSend 1 (KPublish false 1 false x_T [1] 1 [])].
Proof. exact x_poll_no_interval. Qed.

(* configured maximum 4 s, interval 10 s: after 3.5 s the subscriber is told 7 s; after 4.5 s the message is dropped *)
Example C12_poll_capped :
  x_hyps (x_s2 5 (Some 10) 3500 4) /\
  option_map snd (poll_once 1 (x_s2 5 (Some 10) 3500 4)) = Some [OSend 1 (KPublish false 1 false x_T [1] 1 [PMsgExpiry 7])] /\
  (exists m, option_map snd (poll_once 1 (x_s2 5 (Some 10) 4500 4)) = Some [ODropped x_S m DExpired]).
Proof. exact x_poll_v5_capped. Qed.

(* <= : sent at the millisecond of the deadline (interval 1), dropped one millisecond later *)
Example C12_poll_at_deadline :
  x_hyps (x_s2 5 (Some 10) 10000 0) /\
  option_map snd (poll_once 1 (x_s2 5 (Some 10) 10000 0)) = Some [OSend 1 (KPublish false 1 false x_T [1] 1 [PMsgExpiry 1])] /\
  x_hyps (x_s2 5 (Some 10) 10001 0) /\
  (exists m, option_map snd (poll_once 1 (x_s2 5 (Some 10) 10001 0)) = Some [ODropped x_S m DExpired] /\ m_payload m = [1]).
Proof. exact x_poll_at_deadline. Qed.

Example C12_run_offline :
  x_last (snd (run (x_init 0 0) (x_off 5 (Some 10) 3500))) = [x_connack; OSend 1 (KPublish false 1 false x_T [1] 1 [PMsgExpiry 7])] /\
  (exists m, x_last (snd (run (x_init 0 0) (x_off 5 (Some 10) 10001))) = [x_connack; ODropped x_S m DExpired]).
Proof. exact x_run_offline. Qed.

(* ---------------- 4. what is not honoured ---------------- *)

(* kf_redelivery_after_expiry: interval 5 s, sent, not acknowledged; the session comes back after 61.2 s and the replay
   (ReadInflight: no expiry check) retransmits the message, DUP=1, interval 1 *)
Example C12_redelivery_after_expiry_refuted :
  nth 3 (snd (run (x_init 0 0) x_redeliv)) [] = [OSend 2 (KPuback 11 0 []); OSend 1 (KPublish false 1 false x_T [1] 1 [PMsgExpiry 5])] /\
  x_last (snd (run (x_init 0 0) x_redeliv)) = [x_connack; OSend 1 (KPublish true 1 false x_T [1] 1 [PMsgExpiry 1])] /\
  x_last (snd (run (x_init 7200 30) x_redeliv)) = [x_connack; OSend 1 (KPublish true 1 false x_T [1] 1 [PMsgExpiry 1])].
Proof. exact x_redelivery_after_expiry. Qed.

(* the turn of the poll loop that does it: k_drained = false, the only element of the queue is in flight (id 1), its
   deadline passed 56.2 s ago *)
Example C12_redelivery_after_expiry_poll :
  option_map (fun k => (k_cid k, k_drained k)) (nget 1 (b_conns x_s_redeliv)) = Some (x_S, false) /\
  option_map (fun q => map (fun e => (e_id e, e_expiry e, expired (b_now x_s_redeliv) e)) (q_l q)) (aget x_S (b_queues x_s_redeliv))
    = Some [(1, Some (b_now x_s_redeliv - 56200), true)] /\
  option_map snd (poll_once 1 x_s_redeliv) = Some [OSend 1 (KPublish true 1 false x_T [1] 1 [PMsgExpiry 1])].
Proof. exact x_redelivery_poll. Qed.

Example C12_read_inflight_ignores_expiry :
  let e := {| e_tag := 1; e_at := 0; e_expiry := Some 5000; e_body := QPub (set_pid 1 (xm 1)) |} in
  let q := q_set [e] 0 false (q_init false true 1000 (q_new 10 0)) in
  expired 61200 e = true /\ snd (q_read_inflight 61200 10 q) = [e].
Proof. exact x_read_inflight_expired. Qed.

(* kf_expiry_zero_treated_as_absent: interval 0 and no configured maximum: no deadline, never expired, whatever the time *)
Theorem C12_expiry_zero_is_absent :
  forall m s_ ids s,
  m_expiry m = 0 -> c_message_expiry (b_cfg s) = 0 ->
  e_expiry (atq_elem m s_ ids s) = None /\ forall now, expired now (atq_elem m s_ ids s) = false.
Proof. exact expiry_zero_is_absent. Qed.
Print Assumptions C12_expiry_zero_is_absent.

Theorem C12_expiry_zero_same_message :
  forall v5 dup qos retain topic payload pid,
  msg_of_publish v5 dup qos retain topic payload pid [PMsgExpiry 0] = msg_of_publish v5 dup qos retain topic payload pid [].
Proof. exact msg_of_publish_expiry_zero. Qed.
Print Assumptions C12_expiry_zero_same_message.

(* delivered - without the property - after 50 000 000 s of waiting, like the message without the property *)
Example C12_expiry_zero_witness :
  x_last (snd (run (x_init 0 0) (x_off 5 (Some 0) 50000000000))) = [x_connack; OSend 1 (KPublish false 1 false x_T [1] 1 [])] /\
  x_last (snd (run (x_init 0 0) (x_off 5 None 50000000000))) = [x_connack; OSend 1 (KPublish false 1 false x_T [1] 1 [])] /\
  x_last (snd (run (x_init 4 0) (x_off 5 (Some 0) 3500))) = [x_connack; OSend 1 (KPublish false 1 false x_T [1] 1 [])] /\
  x_deadlines 4 0 = Some [Some 4000].
Proof. exact x_expiry_zero. Qed.

(* NEW: the retained store keeps no time.  A retained message published with interval 5 s is given to a subscriber that
   arrives one hour later, with interval 5; a configured maximum of 2 s changes nothing *)
Example C12_retained_never_expires :
  x_last (snd (run (x_init 0 0) (x_retained 0 3600000))) =
    [OSend 3 (KSuback 1 [1] []); OSend 3 (KPublish false 0 false x_T [1] 0 [PMsgExpiry 5])] /\
  x_last (snd (run (x_init 2 0) (x_retained 2 3600000))) =
    [OSend 3 (KSuback 1 [1] []); OSend 3 (KPublish false 0 false x_T [1] 0 [PMsgExpiry 5])].
Proof. exact x_retained_never_expires. Qed.
