(* C06 - the packet codec is total, bounded and round-trips.  Statements only; proofs in
   Proofs/Codec*.v.  `read_packet`, `pack`, `total_bytes` are the model of pkg/packets
   (Model/CodecPackets.v); `spec_*` is the independent transcription of the MQTT 3.1.1 / 5.0
   wire format (Model/CodecSpec.v).  Every statement below is the FULL statement: the former
   *_refuted / *_partial pairs (allocation, topic names, topic filters) have become theorems about
   every input since the code was repaired.  The two deviations that remain (kf_auth_v3,
   kf_pubrel_v3 of Oracle/C06O.v: lenient acceptance pinned by tests of pkg/packets) do not
   touch any statement here; their witnesses are in C06_nonvacuous_findings. *)
From Coq Require Import List NArith Bool.
Import ListNotations.
From GM Require Import Base.Topic Base.Msg Model.TopicMatch Model.CodecBase Model.CodecProps Model.CodecPackets
  Model.CodecSpec Oracle.C06O
  Proofs.CodecBaseP Proofs.CodecStrP Proofs.CodecTotalP Proofs.CodecSizeP Proofs.CodecPropsP Proofs.CodecPropsInvP
  Proofs.CodecWillP Proofs.CodecRoundP Proofs.CodecReencP Proofs.CodecRound2P Proofs.CodecConnectP Proofs.CodecReencAllP
  Proofs.CodecUtf8P Proofs.CodecTopicP Proofs.CodecFilterP Proofs.CodecMsgP Proofs.CodecSpecP.
Open Scope N_scope.

(* ---- totality: for every version and every byte sequence ReadPacket returns a packet or an
   error; it does not panic (no slice/index out of range) and no loop of the decoder runs on
   (every fuelled loop of the model terminates within its fuel). *)
Theorem C06_total :
  forall (v : N) (bs : list N),
    (exists p rest, read_packet v bs = Ok (p, rest)) \/ (exists e, read_packet v bs = Err e).
Proof. exact read_packet_total. Qed.
Print Assumptions C06_total.

(* Pack returns bytes or an error for every packet value, never a panic *)
Theorem C06_pack_total : forall (b : body), safe (pack_full b).
Proof. exact pack_full_safe. Qed.
Print Assumptions C06_pack_total.

(* the four validity predicates are total as well *)
Theorem C06_predicates_total :
  forall (s : str),
    (exists b, valid_utf8_impl s = Ok b) /\ (forall m, exists b, valid_topic_name_impl m s = Ok b) /\
    (forall m, exists b, valid_topic_filter_impl m s = Ok b) /\ (exists b, valid_v5_topic_impl s = Ok b).
Proof.
  exact (fun s => conj (valid_utf8_impl_total s) (conj (fun m => valid_topic_name_impl_total m s)
                 (conj (fun m => valid_topic_filter_impl_total m s) (valid_v5_topic_impl_total s)))).
Qed.
Print Assumptions C06_predicates_total.

(* ---- never reads past the declared packet length: an accepted packet is a prefix of the
   input made of the first byte, the Remaining Length field and at most the declared
   Remaining Length; what follows is left for the next ReadPacket. *)
Theorem C06_consumes :
  forall (v : N) (bs : list N) (p : packet) (rest : list N),
    read_packet v bs = Ok (p, rest) ->
    exists h pre, p_fh p = Some h /\ bs = pre ++ rest
      /\ len pre <= 1 + varint_span (tl bs) + fh_rl h /\ fh_rl h <= len bs.
Proof. exact read_packet_consumes. Qed.
Print Assumptions C06_consumes.

(* ---- allocation: memory in proportion to the bytes supplied.  Unpack allocates the declared
   Remaining Length up front only up to 4096 bytes; a longer body is read into a buffer that
   grows with the bytes that actually arrive.  (5 bytes declaring 256 MiB allocate nothing.) *)
Theorem C06_alloc :
  forall (v : N) (bs : list N),
    read_alloc v bs <= 64 * len bs + 4096 /\
    (read_alloc v bs <= 4096 \/ read_alloc v bs <= len bs) /\
    (forall p rest, read_packet v bs = Ok (p, rest) -> read_alloc v bs <= len bs).
Proof.
  exact (fun v bs => conj (alloc_proportional_all v bs)
                     (conj (read_alloc_bounded v bs) (read_alloc_accepted v bs))).
Qed.
Print Assumptions C06_alloc.

(* ---- variable byte integers: DecodeRemainLength writes the canonical (shortest) encoding and
   EncodeRemainLength reads it back, leaving what follows untouched *)
Theorem C06_varint :
  forall (n : N) (rest : list N), n < 268435456 ->
    encode_varint n = Ok (varint_bytes n) /\
    read_varint (varint_bytes n ++ rest) = Ok (n, rest) /\
    len (varint_bytes n) = (if n <? 128 then 1 else if n <? 16384 then 2 else if n <? 2097152 then 3 else 4).
Proof.
  exact (fun n rest H => conj (encode_varint_bytes n H) (conj (varint_roundtrip n rest H) (varint_bytes_len n H))).
Qed.
Print Assumptions C06_varint.

(* a variable byte integer is read from at most four bytes [MQTT-1.5.5-1], its value is below 2^28,
   and the input ending inside it is an error *)
Theorem C06_varint_bounded :
  forall (b : list N) (v : N) (r : list N),
    read_varint b = Ok (v, r) -> len r <= len b /\ len b - len r <= 4 /\ v <= 268435455.
Proof. exact (fun b v r H => conj (proj1 (read_varint_four b v r H)) (conj (proj2 (read_varint_four b v r H)) (read_varint_bound b v r H))). Qed.
Print Assumptions C06_varint_bounded.

(* ---- strings: readUTF8String reads back what writeBinary / EncodeUTF8String wrote *)
Theorem C06_string :
  forall (must : bool) (s : str) (rest : list N),
    len s <= 65535 -> (must = true -> valid_utf8_impl s = Ok true) ->
    read_utf8_string must (put_bin s ++ rest) = Ok (s, rest) /\ encode_utf8_string s = Ok (put_bin s).
Proof.
  exact (fun must s rest H1 H2 => conj (read_utf8_string_put_bin must s rest H1 H2) (encode_utf8_string_ok s H1)).
Qed.
Print Assumptions C06_string.

(* ---- properties: Unpack establishes props_inv (sorted, whitelisted, well-typed, valid values,
   no duplicates); Pack followed by Unpack is the identity on such values *)
Theorem C06_props :
  forall (pt : N) (b : list N) (p : props) (r : list N),
    bytes_ok b -> props_unpack pt b = Ok (p, r) ->
    props_inv pt p /\
    (forall rest, len (props_body p) < 268435456 -> props_unpack pt (props_pack (Some p) ++ rest) = Ok (p, rest)).
Proof.
  exact (fun pt b p r Hb H =>
           conj (proj1 (props_unpack_inv pt b p r H Hb))
                (fun rest Hl => props_unpack_pack pt p rest (proj1 (props_unpack_inv pt b p r H Hb)) Hl)).
Qed.
Print Assumptions C06_props.

(* ---- re-encoding.  reencodes v bs: if ReadPacket accepts a packet p from bs, then whatever Pack
   writes for p, ReadPacket decodes completely, to a packet p' equal to p in every field
   (p' == p is equality of p_body: everything but the cached FixHeader).
   For all fifteen packet types under v3.1, v3.1.1 and v5, on every input (bytes < 256): *)
Theorem C06_reencode :
  forall (v : N) (bs : list N),
    (v = 3 \/ v = 4 \/ v = 5) -> bytes_ok bs -> reencodes v bs.
Proof. exact reencode_all. Qed.
Print Assumptions C06_reencode.
(* what the decoder guarantees about every packet it returns (field ranges, valid strings and
   topics, sorted duplicate-free whitelisted properties): the invariant the round trip rests on *)
Theorem C06_decoded_invariant :
  forall (v : N) (bs : list N) (p : packet) (rest : list N),
    read_packet v bs = Ok (p, rest) -> bytes_ok bs -> dec_inv_all v (p_body p).
Proof. exact read_packet_inv. Qed.
Print Assumptions C06_decoded_invariant.

(* ---- the independent codec, for PUBLISH under MQTT 3.1 / 3.1.1: for every well-formed value
   (wf_packet: QoS, DUP, packet identifier, topic name per MQTT 4.7, lengths)
   Pack and the specification encoder write the same bytes, the specification decoder
   reads them back to the value, and so does ReadPacket.  (All other packet types and v5: checked
   on every run by the suites `codec` and `cenc`, not proved.) *)
Theorem C06_spec_agree_publish3 :
  forall (v : N) (dup : bool) (qos : N) (retain : bool) (topic : str) (pid : N) (payload : str),
    (v = 3 \/ v = 4) ->
    let b := BPublish v dup qos retain topic pid payload None in
    wf_packet b = true ->
    pack b = Ok (spec_encode b)
    /\ spec_decode v (spec_encode b) = SOk (b, [])
    /\ exists p', read_packet v (spec_encode b) = Ok (p', []) /\ p_body p' = b.
Proof. exact spec_agree_publish3. Qed.
Print Assumptions C06_spec_agree_publish3.

(* ---- sizes: after Pack, TotalBytes is the number of bytes written *)
Theorem C06_size :
  forall (b : body) (bs : list N) (fh : fixhdr),
    pack_full b = Ok (bs, fh) -> total_bytes {| p_fh := Some fh; p_body := b |} = len bs.
Proof. exact total_bytes_pack. Qed.
Print Assumptions C06_size.

(* Message.TotalBytes(version) is the number of bytes Pack writes for MessageToPublish(msg, version),
   whenever Pack succeeds (QoS 0..2) *)
Theorem C06_msg_size :
  forall (v : N) (m : msg) (bs : list N) (fh : fixhdr),
    m_qos m <= 2 -> pack_full (message_to_publish m v) = Ok (bs, fh) -> msg_total_bytes (v =? 5) m = len bs.
Proof. exact msg_total_bytes_pack. Qed.
Print Assumptions C06_msg_size.

(* ---- topic names and filters.  Without the UTF-8 requirement ValidTopicName and ValidTopicFilter
   ARE the predicates of MQTT 4.7 on every byte string: non-empty [MQTT-4.7.3-1], no U+0000
   [MQTT-4.7.3-2]; a name has no wildcard; in a filter every '+' occupies a whole level and '#' is a
   whole last level (4.7.1) *)
Theorem C06_topic_name_exact :
  forall (s : str), valid_topic_name_impl false s = Ok (valid_name_spec s && no_nul s).
Proof. exact name_bytes_exact. Qed.
Print Assumptions C06_topic_name_exact.
Theorem C06_topic_filter_exact :
  forall (s : str), valid_topic_filter_impl false s = Ok (valid_filter_spec s && no_nul s).
Proof. exact filter_bytes_exact. Qed.
Print Assumptions C06_topic_filter_exact.

(* ValidUTF8 on EVERY byte string: well-formed UTF-8 (Unicode table 3-7: no surrogates, no
   overlong forms, nothing above U+10FFFF), no U+0000, no control characters *)
Theorem C06_utf8_exact :
  forall (s : str), valid_utf8_impl s = Ok (spec_utf8 s && negb (has_ctl s)).
Proof. exact valid_utf8_impl_spec. Qed.
Print Assumptions C06_utf8_exact.
(* hence the verdict MQTT 1.5.4 asks for (accept what must be accepted; control characters may be
   refused), on every byte string *)
Theorem C06_utf8_verdict :
  forall (s : str), utf8_verdict_ok s (tb_of (valid_utf8_impl s)) = true.
Proof. exact utf8_verdict. Qed.
Print Assumptions C06_utf8_verdict.
(* ValidTopicName(true, s) and ValidTopicFilter(true, s), as the decoder uses them (after
   readUTF8String(true, ..) accepted s): the specification's verdict on every such s *)
Theorem C06_topic_name_decoder :
  forall (s : str), valid_utf8_impl s = Ok true ->
    valid_topic_name_impl true s = Ok (spec_topic_name s).
Proof. exact name_decoder_exact. Qed.
Print Assumptions C06_topic_name_decoder.
Theorem C06_topic_filter_decoder :
  forall (s : str), valid_utf8_impl s = Ok true ->
    valid_topic_filter_impl true s = Ok (spec_topic_filter s).
Proof. exact filter_decoder_exact. Qed.
Print Assumptions C06_topic_filter_decoder.
(* the same for ValidV5Topic: MQTT 4.7.1 filters and 4.8.2 shared subscriptions
   ($share/{ShareName}/{filter}, ShareName non-empty without "/", "+", "#") *)
Theorem C06_topic_v5_decoder :
  forall (s : str), valid_utf8_impl s = Ok true ->
    valid_v5_topic_impl s = Ok (spec_v5_filter s).
Proof. exact v5_decoder_exact. Qed.
Print Assumptions C06_topic_v5_decoder.

(* ---- non-vacuity *)
(* a v5 PUBLISH (QoS 1, topic "a/b", pid 10, content type "t", one user property, payload "hi")
   decodes, re-encodes to the same bytes and both sizes are its length; the spec decoder agrees *)
Example C06_nonvacuous_publish :
  let bs := [50; 23; 0; 3; 97; 47; 98; 0; 10; 11; 3; 0; 1; 116; 38; 0; 1; 107; 0; 1; 118; 104; 105; 104; 105] in
  match read_packet 5 bs with
  | Ok (p, rest) =>
      rest = [] /\ pack (p_body p) = Ok bs /\ total_bytes p = len bs /\ simple_body (p_body p) = true
      /\ spec_decode 5 bs = SOk (p_body p, []) /\ wf_packet (p_body p) = true
      /\ match p_body p with BPublish 5 false 1 false [97; 47; 98] 10 [104; 105; 104; 105] (Some pr) =>
                               pr_user pr = [([107], [118])] | _ => False end
  | _ => False
  end.
Proof. vm_compute. repeat split. Qed.

(* the two open deviations are real: each witness is accepted by the model of the code, refused by
   the specification, and named by its known-finding predicate *)
Example C06_nonvacuous_findings :
  (* AUTH on a 3.1.1 connection *)
  (exists p, read_packet 4 [240; 0] = Ok (p, [])) /\ spec_decode 4 [240; 0] = SBad SReservedType /\
  kf_auth_v3 4 [240; 0] = true /\
  (* a 3.1.1 PUBREL with remaining length 3 is read in the v5 form *)
  (exists p, read_packet 4 [98; 3; 0; 1; 0] = Ok (p, [])) /\ spec_decode 4 [98; 3; 0; 1; 0] = SBad STrailing /\
  kf_pubrel_v3 4 [98; 3; 0; 1; 0] = true.
Proof. vm_compute. repeat split; eexists; reflexivity. Qed.

(* the witnesses of the repaired defects now behave as the specification says *)
Example C06_repaired :
  (* a lone 0xC0, a remaining length cut short, a six-byte remaining length *)
  read_packet 4 [192] = Err EEOF /\ read_packet 4 [48; 128] = Err EEOF /\
  read_packet 4 [192; 128; 128; 128; 128; 0] = Err MALFORMED /\
  (* the 3.1 CONNECT re-encodes to itself; Will QoS 3 is refused *)
  match read_packet 4 connect31 with Ok (p, []) => pack (p_body p) = Ok connect31 | _ => False end /\
  read_packet 4 connect_wq3 = Err MALFORMED /\
  (* a 3.1.1 CONNACK decodes as 3.1.1 and re-encodes to itself *)
  match read_packet 4 [32; 2; 0; 0] with Ok (p, []) => p_body p = BConnack 4 0 false None /\ pack (p_body p) = Ok [32; 2; 0; 0] | _ => False end /\
  (* U+FFFD is valid UTF-8; "+a" and "$share/g/+a" are not filters *)
  valid_utf8_impl [239; 191; 189] = Ok true /\ valid_topic_filter_impl true [43; 97] = Ok false /\
  valid_v5_topic_impl [36; 115; 104; 97; 114; 101; 47; 103; 47; 43; 97] = Ok false /\
  (* U+FFFD in a topic name, a filter, a share name *)
  valid_topic_name_impl true [239; 191; 189] = Ok true /\ valid_topic_filter_impl true [239; 191; 189; 47; 35] = Ok true /\
  valid_v5_topic_impl [36; 115; 104; 97; 114; 101; 47; 239; 191; 189; 47; 239; 191; 189] = Ok true /\
  (exists p, read_packet 4 [48; 5; 0; 3; 239; 191; 189] = Ok (p, [])) /\
  (* a PUBLISH with an empty topic name is refused (0x82), unless a v5 Topic Alias stands in for it *)
  read_packet 4 [48; 3; 0; 0; 97] = Err PROTOCOL /\ read_packet 5 [48; 3; 0; 0; 0] = Err PROTOCOL /\
  (exists p, read_packet 5 [48; 6; 0; 0; 3; 35; 0; 7] = Ok (p, [])) /\
  (* binary password (v3.1.1 CONNECT, password FF) and binary AuthData (v5 AUTH) are accepted *)
  (exists p, read_packet 4 [16; 19; 0; 4; 77; 81; 84; 84; 4; 194; 0; 60; 0; 1; 99; 0; 1; 117; 0; 1; 255] = Ok (p, [])) /\
  (exists p, read_packet 5 [240; 10; 24; 8; 21; 0; 1; 109; 22; 0; 1; 255] = Ok (p, [])).
Proof. vm_compute. repeat split; eexists; reflexivity. Qed.

(* the witnesses of the findings repaired in the third round *)
Example C06_repaired3 :
  (* PUBACK with flags 1111, PUBREL with flags 0000 *)
  read_packet 4 [79; 2; 0; 1] = Err MALFORMED /\ read_packet 4 [96; 2; 0; 1] = Err MALFORMED /\
  (* v5 SUBSCRIBE: Retain Handling 3; No Local on $share/g/a *)
  read_packet 5 [130; 7; 0; 1; 0; 0; 1; 97; 48] = Err PROTOCOL /\
  read_packet 5 [130; 16; 0; 1; 0; 0; 10; 36; 115; 104; 97; 114; 101; 47; 103; 47; 97; 4] = Err PROTOCOL /\
  (* packet identifier 0: PUBLISH QoS 1, SUBSCRIBE, UNSUBSCRIBE *)
  read_packet 4 [50; 5; 0; 1; 97; 0; 0] = Err PROTOCOL /\ read_packet 4 [130; 6; 0; 0; 0; 1; 97; 0] = Err PROTOCOL /\
  read_packet 4 [162; 5; 0; 0; 0; 1; 97] = Err PROTOCOL /\
  (* 3.1.1 CONNECT with the password flag and no user name flag *)
  read_packet 4 [16; 16; 0; 4; 77; 81; 84; 84; 4; 66; 0; 60; 0; 1; 99; 0; 1; 112] = Err MALFORMED /\
  (* v5 UNSUBSCRIBE "$share//a" *)
  read_packet 5 [162; 14; 0; 1; 0; 0; 9; 36; 115; 104; 97; 114; 101; 47; 47; 97] = Err PROTOCOL /\
  (* Will Delay Interval among the CONNECT properties *)
  read_packet 5 [16; 19; 0; 4; 77; 81; 84; 84; 5; 2; 0; 60; 5; 24; 0; 0; 0; 1; 0; 1; 99] = Err PROTOCOL /\
  (* a Property Length beyond the packet; a v5 PUBLISH without Property Length *)
  read_packet 5 [48; 6; 0; 1; 97; 5; 1; 1] = Err MALFORMED /\ read_packet 5 [48; 3; 0; 1; 97] = Err MALFORMED /\
  (* bytes left inside the remaining length: 3.1.1 PUBACK, CONNACK, DISCONNECT, v5 AUTH *)
  read_packet 4 [64; 3; 0; 1; 0] = Err MALFORMED /\ read_packet 4 [32; 3; 0; 0; 0] = Err MALFORMED /\
  read_packet 4 [224; 1; 0] = Err MALFORMED /\ read_packet 5 [240; 3; 0; 0; 0] = Err MALFORMED /\
  (* remaining length 0 written as 80 00 *)
  read_packet 4 [192; 128; 0] = Err MALFORMED /\
  (* an empty Response Topic; the empty topic name; U+0000 in a name, a filter, a share name *)
  read_packet 5 [48; 7; 0; 1; 97; 3; 8; 0; 0] = Err PROTOCOL /\
  valid_topic_name_impl false [] = Ok false /\ valid_topic_name_impl false [97; 0] = Ok false /\
  valid_topic_filter_impl false [97; 0] = Ok false /\
  valid_v5_topic_impl [36; 115; 104; 97; 114; 101; 47; 103; 0; 47; 97] = Ok false /\
  (* five bytes that declare 256 MiB allocate nothing *)
  read_alloc 4 [48; 255; 255; 255; 127] = 0.
Proof. vm_compute. repeat split. Qed.
