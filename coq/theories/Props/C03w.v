(* C03 - outbound QoS 1/2 on the broker model (Model/Broker.v): the window installed at CONNECT, the
   invariant relating packet id limiter and session queue, unique ids, bounded window, retransmissions
   first, DUP=0 on first transmissions, entries stay until acknowledged.
   C13 (outbound half): Maximum Packet Size of first transmissions, topic aliases.
   All statements are about ALL states of the model; the proofs are in Proofs/BrokerPollP.v. *)
From Coq Require Import List NArith ZArith Bool.
Import ListNotations.
From GM Require Import Base.Topic Base.Msg Model.SubTrie Model.Queue Model.Limiter Model.Broker Oracle.C03O
                       Proofs.LimiterP Proofs.QueueP Proofs.BrokerPollP.
Open Scope N_scope.

(* ---- 1. the window at CONNECT ---- *)
Theorem window_at_connect :
  forall c cn s s' o k,
    handle_connect c cn s = (s', o) -> nget c (b_conns s') = Some k -> k_phase k = PhConnected ->
    k_max_inflight k <= c_max_inflight (b_cfg s) /\
    (cn_ver cn = 5 -> forall r, p_recvmax (cn_props cn) = Some r -> k_max_inflight k <= r) /\
    (k_max_inflight k = N.min (c_max_inflight (b_cfg s))
                              (if cn_ver cn =? 5 then opt_or (p_recvmax (cn_props cn)) (c_max_inflight (b_cfg s))
                               else c_max_inflight (b_cfg s))) /\
    l_limit (k_lim k) = k_max_inflight k /\ l_used (k_lim k) = 0 /\ l_locked (k_lim k) = [] /\
    k_held k = None /\ k_drained k = false.
Proof. exact BrokerPollP.window_at_connect. Qed.
Print Assumptions window_at_connect.

(* ---- 2. the invariant PollInv: established, preserved ---- *)
(* what PollInv says, spelled out *)
Theorem PollInv_meaning :
  forall w s c, PollInv w s c <->
    exists k q inf que,
      nget c (b_conns s) = Some k /\ aget (k_cid k) (b_queues s) = Some q /\
      aget (k_cid k) (b_online s) = Some c /\ (forall cid', aget cid' (b_online s) = Some c -> cid' = k_cid k) /\
      b_tag s <> 0 /\ CQ w k q (b_tag s) inf que.
Proof. exact PollInv_unfold. Qed.
Print Assumptions PollInv_meaning.

Theorem PollInv_limiter_is_queue :
  forall w k q b inf que, CQ w k q b inf que ->
    LimInv (k_lim k) /\ l_limit (k_lim k) = k_max_inflight k /\
    (forall i, In i (l_locked (k_lim k)) <-> In i (map e_id (firstn (q_cur q) inf) ++ held_ids k)) /\
    NoDup (map e_id inf ++ held_ids k) /\
    l_used (k_lim k) = N.of_nat (q_cur q + length (held_ids k)) /\
    (w = true -> k_drained k = true -> l_used (k_lim k) <= l_limit (k_lim k)).
Proof. exact CQ_limiter_is_queue. Qed.
Print Assumptions PollInv_limiter_is_queue.

Theorem C03_inv_at_connect :
  forall w c cn s s' o k,
    handle_connect c cn s = (s', o) -> nget c (b_conns s') = Some k -> k_phase k = PhConnected ->
    aget (k_cid k) (b_online s) = None -> aget (k_cid k) (b_wills s) = None ->
    (forall cid', ~ In (cid', c) (b_online s)) ->
    (forall q, aget (k_cid k) (b_queues s) = Some q ->
               exists inf que, QInv q (b_tag s) inf que /\ (w = true -> N.of_nat (length inf) <= k_max_inflight k)) ->
    c_max_inflight (b_cfg s) <= MAXPID -> b_tag s <> 0 ->
    PollInv w s' c.
Proof. exact connect_establishes. Qed.
Print Assumptions C03_inv_at_connect.

Theorem C03_inv_poll_once :
  forall w c s s' o, PollInv w s c -> poll_once c s = Some (s', o) -> PollInv w s' c.
Proof. exact poll_once_inv. Qed.
Print Assumptions C03_inv_poll_once.

Theorem C03_inv_poll_once_others :
  forall w w2 c c2 s s' o,
    PollInv w s c -> PollInv w2 s c2 -> c2 <> c -> poll_once c s = Some (s', o) -> PollInv w2 s' c2.
Proof. exact poll_once_frame. Qed.
Print Assumptions C03_inv_poll_once_others.

Theorem C03_inv_poll_all :
  forall w s, AllPoll w s -> AllPoll w (fst (poll_all s)).
Proof. exact poll_all_AllPoll. Qed.
Print Assumptions C03_inv_poll_all.

Theorem C03_inv_ack :
  forall w c s k p pid s' o,
    PollInv w s c -> nget c (b_conns s) = Some k -> is_ack p = Some pid -> ~ In pid (held_ids k) ->
    handle_packet c k p s = HOk s' o -> PollInv w s' c.
Proof. exact handle_ack_inv. Qed.
Print Assumptions C03_inv_ack.

Theorem C03_inv_add_to_queue :
  forall w c s cid m sb ids s' o,
    PollInv w s c -> m_pid m = 0 -> add_to_queue cid m sb ids s = (s', o) -> PollInv w s' c.
Proof. exact add_to_queue_inv. Qed.
Print Assumptions C03_inv_add_to_queue.

Theorem C03_inv_deliver :
  forall w c src m s, PollInv w s c -> m_pid m = 0 -> PollInv w (fst (fst (deliver src m s))) c.
Proof. exact deliver_PollInv. Qed.
Print Assumptions C03_inv_deliver.

(* ---- 3. ids ---- *)
Theorem C03_ids_distinct_nonzero :
  forall w s c k q,
    PollInv w s c -> nget c (b_conns s) = Some k -> aget (k_cid k) (b_queues s) = Some q ->
    NoDup (inflight_ids q) /\ (forall i, In i (inflight_ids q) -> 1 <= i <= MAXPID) /\ ~ In 0 (inflight_ids q) /\
    (forall i, In i (inflight_ids q) -> In i (l_locked (k_lim k))).
Proof. exact BrokerPollP.C03_ids_distinct_nonzero. Qed.
Print Assumptions C03_ids_distinct_nonzero.

Theorem C03_new_ids :
  forall w s c k q s' o,
    PollInv w s c -> nget c (b_conns s) = Some k -> aget (k_cid k) (b_queues s) = Some q -> k_drained k = true ->
    poll_once c s = Some (s', o) ->
    exists q', aget (k_cid k) (b_queues s') = Some q' /\ inflight_ids q' = inflight_ids q ++ out_pids c o /\
               NoDup (inflight_ids q ++ out_pids c o) /\ (forall i, In i (out_pids c o) -> 1 <= i <= MAXPID).
Proof. exact BrokerPollP.C03_new_ids. Qed.
Print Assumptions C03_new_ids.

(* ---- 4. window ---- *)
Theorem C03_window :
  forall s c k q,
    PollInv true s c -> nget c (b_conns s) = Some k -> aget (k_cid k) (b_queues s) = Some q ->
    N.of_nat (length (inflight_ids q)) <= k_max_inflight k /\
    N.of_nat (length (filter is_pub (firstn (q_cur q) (q_l q)))) <= k_max_inflight k /\
    (k_drained k = true -> N.of_nat (length (inflight_ids q) + length (held_ids k)) <= k_max_inflight k) /\
    l_used (k_lim k) <= l_limit (k_lim k).
Proof. exact BrokerPollP.C03_window. Qed.
Print Assumptions C03_window.

(* kf_replay_exceeds_smaller_recvmax: without the hypothesis that the replay fits the window the bound is false *)
Example C03_window_refuted :
  let s := fst (poll_conn 400 1 (wx_s4 1)) in
  snd (poll_conn 400 1 (wx_s4 1)) = [OSend 1 (KPublish true 1 false wx_T [1] 1 []); OSend 1 (KPublish true 2 false wx_T [2] 3 [])] /\
  option_map k_max_inflight (nget 1 (b_conns s)) = Some 1 /\
  option_map inflight_ids (aget wx_S (b_queues s)) = Some [1; 3] /\
  pollinv_b false (wx_s4 1) 1 = true /\ pollinv_b false s 1 = true /\ pollinv_b true s 1 = false.
Proof. exact BrokerPollP.C03_window_refuted. Qed.

(* ---- 5. retransmissions first, DUP=0 afterwards ---- *)
Theorem C03_replay_first :
  forall w s c k q fuel,
    PollInv w s c -> nget c (b_conns s) = Some k -> aget (k_cid k) (b_queues s) = Some q ->
    k_phase k = PhConnected -> k_drained k = false -> 1 <= k_max_inflight k ->
    (length (q_inf q) - q_cur q < fuel)%nat ->
    exists o1 o2, snd (poll_conn fuel c s) = o1 ++ o2 /\
      Forall2 (is_retrans c) (skipn (q_cur q) (q_inf q)) o1 /\ all_dup0 o2.
Proof. exact BrokerPollP.C03_replay_first. Qed.
Print Assumptions C03_replay_first.

Theorem C03_replay_after_connect :
  forall w c cn s s' o k q' fuel,
    handle_connect c cn s = (s', o) -> nget c (b_conns s') = Some k -> k_phase k = PhConnected ->
    aget (k_cid k) (b_online s) = None -> aget (k_cid k) (b_wills s) = None ->
    (forall cid', ~ In (cid', c) (b_online s)) ->
    (forall q, aget (k_cid k) (b_queues s) = Some q ->
               exists inf que, QInv q (b_tag s) inf que /\ (w = true -> N.of_nat (length inf) <= k_max_inflight k)) ->
    c_max_inflight (b_cfg s) <= MAXPID -> b_tag s <> 0 ->
    aget (k_cid k) (b_queues s') = Some q' -> 1 <= k_max_inflight k -> (length (q_inf q') - q_cur q' < fuel)%nat ->
    exists o1 o2, snd (poll_conn fuel c s') = o1 ++ o2 /\
      Forall2 (is_retrans c) (skipn (q_cur q') (q_inf q')) o1 /\ all_dup0 o2.
Proof. exact BrokerPollP.C03_replay_after_connect. Qed.
Print Assumptions C03_replay_after_connect.

Theorem C03_first_dup0 :
  forall w s c k s' o dup qos ret topic payload pid props c',
    PollInv w s c -> nget c (b_conns s) = Some k -> k_drained k = true -> poll_once c s = Some (s', o) ->
    In (OSend c' (KPublish dup qos ret topic payload pid props)) o -> dup = false.
Proof. exact BrokerPollP.C03_first_dup0. Qed.
Print Assumptions C03_first_dup0.

(* ---- 6. until acknowledged ---- *)
Theorem C03_until_acked_poll :
  forall w s c k q s' o,
    PollInv w s c -> nget c (b_conns s) = Some k -> aget (k_cid k) (b_queues s) = Some q ->
    poll_once c s = Some (s', o) ->
    exists q' l, aget (k_cid k) (b_queues s') = Some q' /\ map rkey (q_inf q') = map rkey (q_inf q) ++ l.
Proof. exact BrokerPollP.C03_until_acked_poll. Qed.
Print Assumptions C03_until_acked_poll.

Theorem C03_until_acked_ack :
  forall w s c k q p pid s' o,
    PollInv w s c -> nget c (b_conns s) = Some k -> aget (k_cid k) (b_queues s) = Some q ->
    is_ack p = Some pid -> handle_packet c k p s = HOk s' o ->
    exists q', aget (k_cid k) (b_queues s') = Some q' /\
      (q_inf q' = q_inf q \/
       exists i d, (i < q_cur q)%nat /\ nth_error (q_inf q) i = Some d /\ e_id d = pid /\
         ((q_inf q' = remove_nth i (q_inf q) /\
           match p with KPubrec _ code _ => (k_v k =? 5) && (128 <=? code) = true | _ => True end) \/
          (exists e, q_inf q' = replace_nth i e (q_inf q) /\ e_body e = QRel pid /\
           match p with KPubrec _ code _ => (k_v k =? 5) && (128 <=? code) = false | _ => False end))).
Proof. exact BrokerPollP.C03_until_acked_ack. Qed.
Print Assumptions C03_until_acked_ack.

Theorem C03_until_acked_add :
  forall w s c k q cid m sb ids s' o,
    PollInv w s c -> nget c (b_conns s) = Some k -> aget (k_cid k) (b_queues s) = Some q -> m_pid m = 0 ->
    add_to_queue cid m sb ids s = (s', o) ->
    exists q', aget (k_cid k) (b_queues s') = Some q' /\
      (q_inf q' = q_inf q \/
       exists i d, nth_error (q_inf q) i = Some d /\ q_inf q' = remove_nth i (q_inf q) /\ expired (b_now s) d = true /\
                   o = match e_body d with QPub m0 => [ODropped (k_cid k) m0 DExpiredInflight] | QRel _ => [] end).
Proof. exact BrokerPollP.C03_until_acked_add. Qed.
Print Assumptions C03_until_acked_add.

(* ---- 7. C13: Maximum Packet Size ---- *)
Theorem C13_out_size :
  forall w s c k s' o x,
    PollInv w s c -> nget c (b_conns s) = Some k -> k_drained k = true -> poll_once c s = Some (s', o) ->
    In x o -> (forall cid m r, x <> ODropped cid m r) ->
    exists m, is_pub_of c m x /\ msg_total_bytes (k_v k =? 5) m <= k_client_max_packet k.
Proof. exact BrokerPollP.C13_out_size. Qed.
Print Assumptions C13_out_size.

(* the Topic Alias property is added only when it cannot push the packet over the client's maximum: the packet
   written for a queued message carries no alias and the message measures at most the maximum, or it carries one
   and the message as a v5 packet plus the margin of the property (5 bytes) measures at most the maximum *)
Theorem C13_out_size_with_alias :
  forall w s c k s' o x,
    PollInv w s c -> nget c (b_conns s) = Some k -> k_drained k = true -> poll_once c s = Some (s', o) ->
    In x o -> (forall cid m r, x <> ODropped cid m r) ->
    exists m, is_pub_of c m x /\
      (out_alias x = None /\ msg_total_bytes (k_v k =? 5) m <= k_client_max_packet k \/
       (exists a, out_alias x = Some a) /\ msg_total_bytes true m + 5 <= k_client_max_packet k).
Proof. exact BrokerPollP.C13_out_size_with_alias. Qed.
Print Assumptions C13_out_size_with_alias.

(* ... and on the wire.  wire_len o is the number of bytes of the v5 PUBLISH o as the codec model
   (Model/CodecPackets.v, `pack`) encodes it, Topic Alias property included.  Whatever write_publish writes for a
   message that measures at most the client's maximum is encoded in at most that many bytes *)
Theorem C13_wire_size :
  forall c k m o n,
    k_v k = 5 -> m_qos m <= 2 -> len (m_topic m) <= 65535 ->
    msg_total_bytes true m <= k_client_max_packet k ->
    In o (snd (write_publish c k m)) -> wire_len o = Some n -> n <= k_client_max_packet k.
Proof. exact BrokerPollP.C13_wire_size. Qed.
Print Assumptions C13_wire_size.

(* the same for a turn of the poll loop: every PUBLISH written for a queued message (first transmission) of a v5
   connection; queued_wf q: the queued messages have QoS <= 2 and a topic of at most 65535 bytes *)
Theorem C13_out_wire_size :
  forall w s c k q s' o x n,
    PollInv w s c -> nget c (b_conns s) = Some k -> k_v k = 5 -> k_drained k = true ->
    aget (k_cid k) (b_queues s) = Some q -> queued_wf q ->
    poll_once c s = Some (s', o) -> In x o -> wire_len x = Some n -> n <= k_client_max_packet k.
Proof. exact BrokerPollP.C13_out_wire_size. Qed.
Print Assumptions C13_out_wire_size.

Theorem C13_oversize_dropped :
  forall w s c k q s' o cid m r,
    PollInv w s c -> nget c (b_conns s) = Some k -> aget (k_cid k) (b_queues s) = Some q ->
    poll_once c s = Some (s', o) -> In (ODropped cid m r) o ->
    cid = k_cid k /\ (r = DExpired \/ r = DExceedsMax) /\
    exists d, In d (skipn (length (q_inf q)) (q_l q)) /\ e_body d = QPub m.
Proof. exact BrokerPollP.C13_oversize_dropped. Qed.
Print Assumptions C13_oversize_dropped.

Theorem C13_conn_stays_up :
  forall w c s s' o k,
    PollInv w s c -> nget c (b_conns s) = Some k -> poll_once c s = Some (s', o) ->
    exists k', nget c (b_conns s') = Some k' /\ same_static k k'.
Proof. exact poll_once_conn_stays. Qed.
Print Assumptions C13_conn_stays_up.

(* kf_alias_pushes_over_max_size after the repair: an 11-byte message to a client that declared 11 is sent plain
   (11 bytes on the wire, formerly 14 and 13 with the Topic Alias property); with a declared maximum of 16 = 11 + 5
   the alias is used (14 and 13 bytes); with 15 it is not (the margin is the worst case of the property) *)
Example C13_alias_margin_examples :
  wx_a1 11 = wx_a0 /\ option_map k_client_max_packet (nget 1 (b_conns wx_a0)) = Some 11 /\
  wx_sent1 wx_a0 = [OSend 1 (KPublish false 1 false wx_T [1; 2; 3] 1 []); OSend 1 (KPublish false 1 false wx_T [1; 2; 3] 11 [])] /\
  map wire_len (wx_sent1 wx_a0) = [Some 11; Some 11] /\
  wx_sent1 (wx_a1 16) =
    [OSend 1 (KPublish false 1 false wx_T [1; 2; 3] 1 [PAlias 1]); OSend 1 (KPublish false 1 false [] [1; 2; 3] 11 [PAlias 1])] /\
  map wire_len (wx_sent1 (wx_a1 16)) = [Some 14; Some 13] /\
  map wire_len (wx_sent1 (wx_a1 15)) = [Some 11; Some 11].
Proof. exact BrokerPollP.C13_alias_margin_examples. Qed.

(* retransmissions are not size-checked at all: 28 bytes to a client that declared 12 *)
Example C13_replay_oversize_refuted :
  let o := concat (snd (run wx_o0 [EConnect 1 (wx_connect 5 wx_S false [PSei 100; PMaxPkt 12]); wx_pub 1 12 wx_big])) in
  map (fun x => match x with
                | OSend 1 (KPublish dup _ _ _ _ _ _) => Some (inl (dup, wire_len x))
                | ODropped _ _ r => Some (inr r)
                | _ => None
                end) o =
  [None; Some (inl (true, Some 28)); None; Some (inr DExceedsMax)].
Proof. exact BrokerPollP.C13_replay_oversize_refuted. Qed.

(* ---- 8. C13: topic aliases ---- *)
(* alias_used k m o: the packet o written for m carries an alias in 1..Topic Alias Maximum when
   msg_total_bytes true m + 5 <= the client's Maximum Packet Size, and none otherwise (it is then sent plain, with
   its topic, and the client's alias table is not touched) *)
Theorem C13_out_alias :
  forall c ms k,
    k_v k = 5 -> 1 <= k_client_alias_max k <= 65535 -> k_alias_out k = am_new (k_client_alias_max k) ->
    Forall (fun m => m_topic m <> []) ms ->
    client_resolve (k_client_alias_max k) [] (snd (wp_run c k ms)) = Some (map m_topic ms) /\
    Forall2 (alias_used k) ms (snd (wp_run c k ms)).
Proof. exact C13_out_alias_conn. Qed.
Print Assumptions C13_out_alias.

Theorem C13_out_alias_any_point :
  forall c ms k tb,
    k_v k = 5 -> 1 <= k_client_alias_max k <= MAXPID -> am_max (k_alias_out k) = k_client_alias_max k ->
    AliasInv (k_alias_out k) -> AliasSim (k_alias_out k) tb -> Forall (fun m => m_topic m <> []) ms ->
    client_resolve (k_client_alias_max k) tb (snd (wp_run c k ms)) = Some (map m_topic ms) /\
    Forall2 (alias_used k) ms (snd (wp_run c k ms)).
Proof. exact C13_out_alias_gen. Qed.
Print Assumptions C13_out_alias_any_point.

(* ---- non-vacuity: concrete reachable states satisfy the hypotheses ---- *)
Example C03w_window_at_connect_nonvacuous :
  exists s' o k, handle_connect 1 (wx_connect 5 wx_S false [PSei 100; PRecvMax 2]) wx_init = (s', o) /\
                 nget 1 (b_conns s') = Some k /\ k_phase k = PhConnected /\ k_max_inflight k = 2.
Proof. exact wx_window_at_connect. Qed.

Example C03w_invariant_reachable :
  PollInv true wx_s0 1 /\ PollInv true wx_s1 1 /\ PollInv true wx_s2 1 /\ PollInv true (wx_s4 2) 1 /\ PollInv false (wx_s4 1) 1.
Proof. exact wx_invariant_reachable. Qed.

Example C03w_connect_hypotheses :
  aget wx_S (b_online wx_s3) = None /\ aget wx_S (b_wills wx_s3) = None /\
  forallb (fun kv => negb (snd kv =? 1)) (b_online wx_s3) = true /\
  option_map (fun q => (qinv_b q (b_tag wx_s3), length (q_inf q))) (aget wx_S (b_queues wx_s3)) = Some (true, 2%nat) /\
  pollinv_b true (wx_s4 2) 1 = true.
Proof. exact wx_connect_establishes. Qed.

Example C03w_poll_turn_nonvacuous :
  exists k, nget 1 (b_conns wx_s1) = Some k /\ k_drained k = true /\
  option_map snd (poll_once 1 wx_s1) = Some [OSend 1 (KPublish false 1 false wx_T [1] 1 [])].
Proof. exact wx_poll_turns. Qed.

Example C03w_ack_nonvacuous :
  exists k s' o, nget 1 (b_conns wx_s2) = Some k /\ ~ In 3 (held_ids k) /\
    handle_packet 1 k (KPubrec 3 0 []) wx_s2 = HOk s' o /\ o = [OSend 1 (KPubrel 3 0 [])] /\
    option_map (fun q => map rkey (q_inf q)) (aget wx_S (b_queues s')) = Some [inl (1, false, wx_T, [1], 1); inr 3].
Proof. exact wx_ack. Qed.

Example C03w_window_tight :
  pollinv_b true wx_s2 1 = true /\
  option_map (fun q => (inflight_ids q, length (q_l q))) (aget wx_S (b_queues wx_s2)) = Some ([1; 3], 3%nat) /\
  option_map k_max_inflight (nget 1 (b_conns wx_s2)) = Some 2.
Proof. exact wx_window. Qed.

Example C03w_replay_first_nonvacuous :
  pollinv_b true (wx_s4 2) 1 = true /\
  (exists k q, nget 1 (b_conns (wx_s4 2)) = Some k /\ aget (k_cid k) (b_queues (wx_s4 2)) = Some q /\
               k_phase k = PhConnected /\ k_drained k = false /\ k_max_inflight k = 2 /\
               (length (q_inf q) - q_cur q = 2)%nat) /\
  snd (poll_conn 400 1 (wx_s4 2)) = [OSend 1 (KPublish true 1 false wx_T [1] 1 []); OSend 1 (KPublish true 2 false wx_T [2] 3 [])].
Proof. exact wx_replay_first. Qed.

Example C03w_expired_inflight_drop :
  pollinv_b true wx_e0 1 = true /\ option_map inflight_ids (aget wx_S (b_queues wx_e0)) = Some [1; 3] /\
  let '(s', o) := add_to_queue wx_S (msg_of_publish false false 1 false wx_T [3] 13 []) wx_sub1 [0] wx_e0 in
  map (fun x => match x with ODropped cid m r => Some (cid, m_pid m, r) | _ => None end) o = [Some (wx_S, 1, DExpiredInflight)] /\
  option_map inflight_ids (aget wx_S (b_queues s')) = Some [3] /\
  option_map (fun k => l_locked (k_lim k)) (nget 1 (b_conns s')) = Some [3] /\ pollinv_b true s' 1 = true.
Proof. exact wx_expired_inflight. Qed.

Example C13w_alias_run :
  exists k, nget 1 (b_conns wx_a0) = Some k /\ k_v k = 5 /\ k_client_alias_max k = 2 /\ k_alias_out k = am_new 2 /\
  let ms := map (fun t => msg_of_publish true false 0 false t [] 0 []) [[97]; [98]; [97]; [99]; [98]] in
  map (fun o => match o with OSend _ (KPublish _ _ _ t _ _ ps) => (t, p_alias ps) | _ => ([], None) end) (snd (wp_run 1 k ms)) =
    [([97], Some 1); ([98], Some 2); ([], Some 1); ([99], Some 1); ([], Some 2)] /\
  client_resolve 2 [] (snd (wp_run 1 k ms)) = Some [[97]; [98]; [97]; [99]; [98]].
Proof. exact wx_alias_run. Qed.

(* ---- the extra hypotheses cannot be dropped ---- *)
Example C03w_held_ack_breaks_inv :
  option_map held_ids (nget 1 (b_conns wx_s0)) = Some [1; 2] /\ pollinv_b true wx_s0 1 = true /\
  let s := fst (run wx_s0 [ESend 1 (KPuback 1 0 []); ESend 1 (KPuback 2 0 []);
                           wx_pub 1 11 [1]; wx_pub 1 12 [2]; wx_pub 1 13 [3]; wx_pub 1 14 [4]]) in
  pollinv_b false (fst (run wx_s0 [ESend 1 (KPuback 1 0 [])])) 1 = false /\
  option_map k_max_inflight (nget 1 (b_conns s)) = Some 2 /\
  option_map inflight_ids (aget wx_S (b_queues s)) = Some [1; 3; 5] /\
  option_map (fun k => l_used (k_lim k)) (nget 1 (b_conns s)) = Some 2.
Proof. exact held_ack_breaks_inv. Qed.

Example C03w_api_pid_breaks_shape :
  let m := set_pid 7 (msg_of_publish false false 1 false wx_T [9] 0 []) in
  let s := fst (run wx_s0 [wx_pub 1 11 [1]; wx_pub 1 12 [2]; wx_pub 1 13 [3]; EApiPublish m]) in
  option_map (fun q => map e_id (q_l q)) (aget wx_S (b_queues s)) = Some [1; 3; 0; 7] /\ pollinv_b false s 1 = false.
Proof. exact api_pid_breaks_shape. Qed.
