(* C10 - session message queue: bounded, FIFO, conserving, drops by documented priority.
   Statements only; proofs in Proofs/QueueP.v.  The abstract queue of the statement is
   Oracle/C10O.v (queued list + in-flight table; `step_ok` accepts exactly the outputs the
   statement allows: drop ladder, FIFO, id assignment, expiry/size filtering, replay after
   Init(clean=false), Remove/Replace on delivered entries; `inv_ok`: counters = contents,
   length <= max).  The same checker is run on the implementation's outputs by the check. *)
From Coq Require Import List NArith.
Import ListNotations.
From GM Require Import Base.Topic Base.Msg Model.Queue Oracle.C10O Proofs.QueueP.

(* the length never exceeds the configured maximum, for every history whatsoever *)
Theorem C10_bounded :
  forall (max : nat) (ifexp : N) (ops : list qop), (1 <= max)%nat ->
    (length (q_l (fst (q_run (q_new max ifexp) ops))) <= max)%nat.
Proof. exact q_bounded. Qed.
Print Assumptions C10_bounded.

(* no operation panics under the calling discipline of the broker (wf_run: Add gets a
   PUBLISH without id and a fresh tag; Read only after the in-flight entries were drained,
   with non-zero ids; Replace gets a PUBREL) *)
Theorem C10_no_panic :
  forall (max : nat) (ifexp : N) (ops : list qop), (1 <= max)%nat ->
    wf_run (q_new max ifexp) [] ops = true -> ~ In RPanic (snd (q_run (q_new max ifexp) ops)).
Proof. exact q_no_panic. Qed.
Print Assumptions C10_no_panic.

(* refinement: every output of the queue model, at every step of every well-formed
   history, is accepted by the abstract queue of the statement, and the abstract
   invariant (bounded, counters equal contents) holds after every step *)
Theorem C10_refines_abstract_queue :
  forall (max : nat) (ifexp : N) (ops : list qop), (1 <= max)%nat ->
    wf_run (q_new max ifexp) [] ops = true ->
    c10_ok max ifexp ops (map oout_of (model_outs max ifexp ops)) = true.
Proof. exact q_refines_abstract. Qed.
Print Assumptions C10_refines_abstract_queue.

Theorem C10_cursor_in_range :
  forall (max : nat) (ifexp : N) (ops : list qop),
    (q_cur (fst (q_run (q_new max ifexp) ops)) <= length (q_l (fst (q_run (q_new max ifexp) ops))))%nat.
Proof. exact q_cursor_in_range. Qed.
Print Assumptions C10_cursor_in_range.

(* non-vacuity: a 17-operation history through every kind of operation satisfies wf_run *)
Example C10_nonvacuous : wf_run (q_new 3 10) [] ex_hist = true.
Proof. exact ex_hist_wf. Qed.
