(* C10 - placeholder until Proofs/QueueP.v lands *)
From GM Require Import Model.Queue.
Theorem C10_init_empty : forall max ifexp, q_l (q_new max ifexp) = nil.
Proof. reflexivity. Qed.
Print Assumptions C10_init_empty.
