(* C09 / C05 - the session store (persistence/session): "every session whose creation was acknowledged reappears
   under the same client id", "a session exists iff ...".  Statements only; proofs in Proofs/SessStoreP.v; the
   abstract machine is Model/SessStore.v.  Both implementations (mem, redis over the RESP stand-in incl. restarts of
   the store object) are compared with this machine answer by answer on generated histories (suite rsess); the laws
   below are what a caller may rely on for ALL histories of Set / Get / Remove / SetSessionExpiry / Iterate. *)
From Coq Require Import List NArith Bool.
Import ListNotations.
From GM Require Import Base.Topic Base.Msg Model.SubTrie Model.SessStore Proofs.SessStoreP.
Open Scope N_scope.

(* one entry per client id, stored under its own id, after any history *)
Theorem C09_sess_store_invariant : forall ops, ss_inv (fst (ss_run [] ops)).
Proof. intros ops. apply ss_run_inv. exact ss_inv_nil. Qed.
Print Assumptions C09_sess_store_invariant.

(* Get answers the last Set of that id unless removed since, with the expiry last given; an operation on one id
   leaves what Get answers for every other id unchanged *)
Theorem C09_sess_get_after : forall st o c, ss_inv st ->
  aget c (fst (ss_step st o)) =
  match o with
  | SsSet s => if str_eqb c (ss_cid s) then Some s else aget c st
  | SsRemove c' => if str_eqb c c' then None else aget c st
  | SsSetExpiry c' e => if str_eqb c c' then option_map (with_expiry_s e) (aget c st) else aget c st
  | _ => aget c st
  end.
Proof. exact ss_get_after. Qed.
Print Assumptions C09_sess_get_after.

(* an id without a session is answered `none` - never an empty session *)
Theorem C09_sess_missing_is_none : forall ops c,
  (forall s, In (SsSet s) ops -> ss_cid s <> c) -> aget c (fst (ss_run [] ops)) = None.
Proof.
  intros ops c. assert (G : forall st, ss_inv st -> aget c st = None ->
                            (forall s, In (SsSet s) ops -> ss_cid s <> c) -> aget c (fst (ss_run st ops)) = None).
  { induction ops as [|o r IH]; intros st Hi Hn Hs; cbn [ss_run]; [exact Hn|].
    pose proof (ss_get_after st o c Hi) as Hg. pose proof (ss_step_inv st o Hi) as Hi1.
    destruct (ss_step st o) as [st1 x]. cbn [fst] in *.
    specialize (IH st1 Hi1). destruct (ss_run st1 r) as [st2 xs]. cbn [fst] in *. apply IH.
    - rewrite Hg. destruct o as [s|c'|c'|c' e| |]; try exact Hn.
      + destruct (str_eqb c (ss_cid s)) eqn:E; [|exact Hn]. apply TopicP.str_eqb_eq in E.
        exfalso. apply (Hs s); [now left|now symmetry].
      + destruct (str_eqb c c'); [reflexivity|exact Hn].
      + destruct (str_eqb c c'); [|exact Hn]. now rewrite Hn.
    - intros s H. apply Hs. now right. }
  apply G; [exact ss_inv_nil|reflexivity].
Qed.
Print Assumptions C09_sess_missing_is_none.

(* Iterate lists exactly the sessions Get finds, each client id once *)
Theorem C09_sess_iterate_exact : forall st, ss_inv st ->
  NoDup (map ss_cid (map snd st)) /\ forall s, In s (map snd st) <-> aget (ss_cid s) st = Some s.
Proof. exact ss_iterate_exact. Qed.
Print Assumptions C09_sess_iterate_exact.

(* the answer oracle of the correspondence check accepts exactly what the machine answers *)
Theorem C09_sess_oracle_sound : forall ops st, ss_ok st ops (snd (ss_run st ops)) = true.
Proof. exact ss_ok_run. Qed.
Print Assumptions C09_sess_oracle_sound.

Definition ex_s1 : sess := {| ss_cid := [99; 49]; ss_will := None; ss_delay := 0; ss_at := 1790000000; ss_expiry := 3600 |}.
Definition ex_s2 : sess := {| ss_cid := [99; 50]; ss_will := None; ss_delay := 5; ss_at := 1790000001; ss_expiry := 0 |}.
Example C09s_nonvacuous :
  snd (ss_run [] [SsGet [99; 49]; SsSet ex_s1; SsSet ex_s2; SsSetExpiry [99; 49] 7; SsSetExpiry [120] 9; SsRemove [99; 50]; SsGet [99; 49]; SsGet [120]; SsIterate])
  = [SoGet None; SoUnit; SoUnit; SoUnit; SoUnit; SoUnit; SoGet (Some (with_expiry_s 7 ex_s1)); SoGet None; SoIter [with_expiry_s 7 ex_s1]].
Proof. vm_compute. reflexivity. Qed.
