(* C15 - concurrent use is race-free, deadlock-free and Stop terminates cleanly.
   Level: proof, PARTIAL.  What is logic is stated here; data races and real blocking live in
   the Go runtime and are exercised by /verif/stress (see bin/static_c15.py).

   Statements only; proofs in Proofs/LockOrderP.v (general lock-order theorem),
   Proofs/LockTableP.v (over Gen/LockOrder.v, regenerated from /repo on every run),
   Proofs/ConnLifeP.v (connection life cycle, Model/ConnLife.v) and Proofs/StopLifeP.v
   (Stop, Model/StopLife.v).  The finite systems are explored inside Coq; the bounds are part
   of the statements (ConnLifeP: rx0 = 3 packets, msgs0 = 2 queue messages, channel capacity 1,
   fuel0 = 400 levels; StopLifeP: two callers, two connections, sfuel = 100 levels).

   Repaired findings (their `_refuted`/`_partial` pairs have become the full statements):
     lock-order cycle through the subscription-trie read lock (66369ae), packet-id limiter lock
     held across client.write (b236378), readLoop blocked in `client.in <- packet` (6670bb6),
     errOnce body blocked in client.write(DISCONNECT) (b002260); seen only by the stress harness:
     lockDuplicatedID's unlock/relock window (ae69d2a).
     Stop ignored connections that had not registered (1d02d65).
     a connection between Accept and addConnecting when Stop listed the connections survived (9fa9d46).
   No open finding.  Honest remainder (Example C15_stop_does_not_wait_for_late_recorded): Stop does
   not wait for the goroutines of a connection that addConnecting closes after Stop's locked block. *)
From Coq Require Import List Arith Bool String Relations.
Import ListNotations.
From GM Require Import Gen.LockOrder Gen.StopOrder Model.LockOrder Model.ConnLife Model.StopLife
  Proofs.FiniteSys Proofs.LockOrderP Proofs.LockTableP Proofs.ConnLifeP Proofs.StopLifeP.

(* ---------------------------------------------------------------- lock order *)

(* general: if every request respects a strict partial order on lock classes, no reachable
   state of the lock semantics has a cycle in the wait-for graph *)
Theorem C15_lock_order_sound :
  forall (L C : Type) (cls : L -> C) (lt : C -> C -> Prop),
    (forall c, ~ lt c c) -> (forall a b c, lt a b -> lt b c -> lt a c) ->
    forall s : lstate L, lreach cls lt s -> ~ deadlocked s.
Proof. exact (@lock_order_sound). Qed.
Print Assumptions C15_lock_order_sound.

(* the executable check is sound: a relation that passes it has no cycle, and no run whose
   (held class, requested class) pairs all lie in the relation deadlocks on locks *)
Theorem C15_acyclic_check_sound :
  forall (r : list (string * string)), acyclicb seqb r = true ->
    (forall x, ~ clos_trans string (edge r) x x) /\
    (forall (L : Type) (cls : L -> string) (s : lstate L), lreach cls (in_relation r) s -> ~ deadlocked s).
Proof. exact acyclic_check_sound. Qed.
Print Assumptions C15_acyclic_check_sound.

(* the relation extracted from the source is acyclic: a compatible ranking exists, there is no
   cycle, and no run whose lock requests all lie in the relation deadlocks on locks *)
Theorem C15_lock_order_acyclic :
  (exists f : string -> nat, forall a b, In (a, b) lock_edges -> f a < f b) /\
  (forall x, ~ clos_trans string (edge lock_edges) x x) /\
  (forall (L : Type) (cls : L -> string) (s : lstate L),
      lreach cls (in_relation lock_edges) s -> ~ deadlocked s).
Proof. exact lock_order_acyclic. Qed.
Print Assumptions C15_lock_order_acyclic.

(* no lock class is requested while an instance of it is held; in particular the read lock of
   the subscription trie is not re-acquired while it is held *)
Theorem C15_no_relock : (forall c, ~ In (c, c) lock_edges) /\ ~ In (trie_mu, trie_mu) lock_edges.
Proof. exact no_relock_both. Qed.
Print Assumptions C15_no_relock.

(* every call site of deliverMessage and of the *Locked helpers is inside the critical section
   of its lock, on every path and in every calling context the translator sees *)
Theorem C15_deliver_under_lock : forall g, In g guarded_calls -> gc_status g = GMust.
Proof. exact deliver_under_lock. Qed.
Print Assumptions C15_deliver_under_lock.

(* no blocking operation (channel send/receive, select without default, cond.Wait on another
   lock, WaitGroup.Wait, Sleep) is executed while srv.mu is held ... *)
Theorem C15_no_blocking_under_srv_mu : forall p, In p blocking_under_lock -> fst p <> srv_mu.
Proof. exact no_blocking_under_srv_mu. Qed.
Print Assumptions C15_no_blocking_under_srv_mu.

(* ... nor while any lock is held that is requested, directly or transitively, under srv.mu *)
Theorem C15_no_blocking_behind_srv_mu :
  forall p, In p blocking_under_lock -> ~ clos_refl_trans string (edge lock_edges) srv_mu (fst p).
Proof. exact no_blocking_behind_srv_mu. Qed.
Print Assumptions C15_no_blocking_behind_srv_mu.

(* ---------------------------------------------------------------- connection life cycle *)

(* from EVERY reachable state (in particular from every state in which `close` has been closed)
   every maximal run is finite - at most 84 steps - and ends in the final state: all goroutines
   of the connection have exited and `closed` is closed.  There is no stuck non-final state. *)
Theorem C15_conn_no_stuck :
  forall s, ConnLifeP.reachable s ->
    ends_in next (fun s => final s = true) s /\ measure s <= measure init0.
Proof. exact conn_no_stuck. Qed.
Print Assumptions C15_conn_no_stuck.

(* setError's once-semantics: `close` is closed exactly when the Once has completed; and
   `closed` is closed only after all other goroutines have exited and the socket is closed *)
Theorem C15_conn_once_and_order :
  forall s, ConnLifeP.reachable s -> chClose s = Nat.eqb (latch s) 2 /\ closed_inv s = true.
Proof. exact conn_once_and_order. Qed.
Print Assumptions C15_conn_once_and_order.

(* ---------------------------------------------------------------- Stop *)

(* Unload and OnStop run at most once in any run, and exactly once as soon as a Stop call has
   returned without context expiry (then also the listeners and exitedChan are closed) *)
Theorem C15_stop_once :
  forall expire s, sreachable expire s ->
    (unl s <= 1 /\ ons s <= 1) /\
    (returned s = true -> ctx s = false -> unl s = 1 /\ ons s = 1 /\ exited s = true /\ lst s = false).
Proof. exact stop_once. Qed.
Print Assumptions C15_stop_once.

(* every maximal run is finite and ends with every Stop call returned; when the caller's context
   does not expire, Stop returns nil: no timeout, Unload and OnStop exactly once, listeners and
   exitedChan closed *)
Theorem C15_stop_terminates :
  (forall expire s, sreachable expire s -> ends_in snext (fun s => both_returned s = true) s) /\
  (forall s, sreachable false s -> ends_in snext (fun s => nil_end s = true) s).
Proof. exact stop_terminates_both. Qed.
Print Assumptions C15_stop_terminates.

(* the ORDER of the operations inside Stop, over Gen/StopOrder.v (the body of stopOnce.Do in source
   order, regenerated on every run): every operation occurs exactly once; exit(), the closing of
   all TCP listeners and the shutdown of all websocket servers precede the snapshot-and-Close of
   srv.clients and of srv.connecting, which are taken under srv.mu; the wait is outside srv.mu; Unload and then OnStop come
   after the wait.  And the order is the one of the model: mapping the operations to the program
   counters of Model/StopLife.v gives owner_phases = [O1; O2; O3; O4; O5], so the Stop theorems above
   are about the order the source has. *)
Theorem C15_stop_order :
  ((forall o, count_op o stop_ops = 1) /\ (forall a b, In (a, b) required_order -> before a b stop_ops)) /\
  phases stop_ops = owner_phases.
Proof. exact stop_order_all. Qed.
Print Assumptions C15_stop_order.

Theorem C15_stop_order_core :
  before SExit SSnapshotCloseClients stop_ops /\ before SCloseListeners SSnapshotCloseClients stop_ops /\
  before SShutdownWebsockets SSnapshotCloseClients stop_ops /\
  before SLock SSnapshotCloseClients stop_ops /\ before SSnapshotCloseClients SUnlock stop_ops /\
  before SExit SSnapshotCloseConnecting stop_ops /\ before SCloseListeners SSnapshotCloseConnecting stop_ops /\
  before SShutdownWebsockets SSnapshotCloseConnecting stop_ops /\
  before SLock SSnapshotCloseConnecting stop_ops /\ before SSnapshotCloseConnecting SUnlock stop_ops /\
  before SUnlock SWait stop_ops /\ before SWait SUnload stop_ops /\ before SUnload SOnStop stop_ops.
Proof. exact stop_order_core. Qed.
Print Assumptions C15_stop_order_core.

(* the owner of the Once in the model goes through these program counters in this order *)
Theorem C15_stop_model_follows_order : forall a s s', In s' (step_caller a s) ->
  (caller a s = O1 -> caller a s' = O2) /\
  (caller a s = O2 -> caller a s' = O3) /\
  (caller a s = O3 -> caller a s' = O4 \/ caller a s' = O7) /\
  (caller a s = O4 -> caller a s' = O5 /\ unl s' = S (unl s)) /\
  (caller a s = O5 -> caller a s' = O6 /\ ons s' = S (ons s)).
Proof. exact owner_follows_phases. Qed.
Print Assumptions C15_stop_model_follows_order.

(* FULL: the connections Stop is responsible for.  When a Stop call has returned without timeout,
   every connection that was in srv.clients or in srv.connecting when Stop listed them - registered
   or not - is closed, and Unload / OnStop came after that; after the locked block every registered
   connection is a listed one and none is registered once Stop has returned; no transition registers
   a connection after exit() (registerClient refuses it) *)
Theorem C15_stop_closes_all :
  forall expire s, sreachable expire s ->
    listed_closed_on_return s = true /\ order_ok s = true /\
    registered_is_listed s = true /\ none_registered_on_return s = true /\
    (forall s', In s' (snext s) -> no_late_registration s s' = true).
Proof. exact stop_closes_all. Qed.
Print Assumptions C15_stop_closes_all.

(* the strongest true form of "Stop leaves no connection behind": when a Stop call has returned
   without timeout every LISTED connection is closed and was waited for, and every other connection
   is gone, not yet recorded (addConnecting will close it: 9fa9d46) or closed by addConnecting and
   winding down; once the locked block has run NO connection is served, and no transition starts
   serving a connection after exit() *)
Theorem C15_stop_all_closed :
  forall expire s, sreachable expire s ->
    listed_closed_on_return s = true /\ all_closed_or_unserved s = true /\
    none_served_after_snapshot s = true /\
    (forall s', In s' (snext s) -> no_late_service s s' = true).
Proof. exact stop_all_closed. Qed.
Print Assumptions C15_stop_all_closed.

(* no connection stays open for ever: every maximal run is finite and ends with every Stop call
   returned and every accepted connection closed *)
Theorem C15_stop_no_connection_left :
  forall expire s, sreachable expire s -> ends_in snext (fun s => all_over s = true) s.
Proof. exact stop_all_over. Qed.
Print Assumptions C15_stop_no_connection_left.

(* ---------------------------------------------------------------- non-vacuity *)

Example C15_table_wellformed : table_wf = true.
Proof. exact table_wf_ok. Qed.

Example C15_deliver_family_listed :
  callee_listed "server.server.deliverMessage" && callee_listed "server.server.addMsgToQueueLocked"
  && callee_listed "server.server.sendWillLocked" && callee_listed "server.server.sessionTerminatedLocked" = true.
Proof. exact deliver_family_listed. Qed.

(* locks ARE requested under srv.mu (the limiter lock and the trie lock among them) *)
Example C15_locks_behind_srv_mu : memb seqb limiter_l behind_srv_mu && memb seqb trie_mu behind_srv_mu = true.
Proof. exact limiter_behind. Qed.

Example C15_search_complete : is_some explored = true /\ all2 (fun b => is_some (sexplored b)) = true.
Proof. exact search_complete. Qed.

Example C15_final_reachable : exists s, ConnLifeP.reachable s /\ final s = true /\ okc s = true.
Proof. exact final_reachable. Qed.

(* the situations of the two repaired blocked states still arise, and are not blocked any more *)
Example C15_former_blocked_states_reachable :
  (exists s, ConnLifeP.reachable s /\ reader_waits_on_full_in s = true /\ chClose s = true /\ next s <> []) /\
  (exists s, ConnLifeP.reachable s /\ pH s = H3q /\ outN s = cap /\ latch s = 0 /\ pW s = W2 /\ next s <> []).
Proof. exact former_blocked_states_reachable. Qed.

(* honest remainder: Stop does not WAIT for a connection recorded after its locked block (it is closed
   by addConnecting and never served; its goroutines end on their own right after Stop) *)
Example C15_stop_does_not_wait_for_late_recorded :
  exists s, sreachable false s /\ returned s = true /\ ctx s = false /\ all_closed_on_return s = false
            /\ late_recorded_not_waited_for s = true.
Proof. exact stop_does_not_wait_for_late_recorded. Qed.

Example C15_stop_clean_run :
  exists s, sreachable false s /\ both_returned s = true /\ unl s = 1 /\ ons s = 1 /\ k1 s = KD /\ k2 s = KD.
Proof. exact stop_clean_run_exists. Qed.

(* the documented force exit: with an expiring context Stop may return ctx.Err() without Unload / OnStop *)
Example C15_stop_timeout_skips_unload :
  exists s, sreachable true s /\ returned s = true /\ ctx s = true /\ unl s = 0 /\ ons s = 0.
Proof. exact stop_timeout_skips_unload. Qed.

Example C15_unknown_code_under_srv_mu : exists p, In p dyncalls_under_lock /\ fst p = srv_mu.
Proof. exact unknown_code_under_srv_mu. Qed.
