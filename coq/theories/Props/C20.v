(* C20 - Statistics are conserved: counters equal what actually happened.

   Model/Stats.v is server/stats.go + queue_notifier.go as the code is at /repo af01428 (events = the statsManager calls);
   Oracle/C20O.v is the ground truth computed from a log of what happened (c20_truth), the broker's reporting discipline
   (c20_calls) and the view a reader gets (sts_view_of).  Every statement below is for ALL event lists / ALL logs.
   The five deviations found by this slice (per-client QoS 1/2 counters under QoS 0, global in-flight +1 per batch, Auth
   fields read as 0, global gauges keeping the share of terminated sessions, over-quota PUBLISH not counted as packet)
   were repaired in /repo (8f7d148 0565bc2 340ed8d 0045008 af01428): their former `_refuted` / `_partial` pairs are
   replaced by the full statements; the former witnesses are the Examples C20_fixed_* (and corpus/C20/fixed.sx). *)
From Coq Require Import List NArith ZArith Bool.
Import ListNotations.
From GM Require Import Model.Stats Oracle.C20O Proofs.StatsP.
Open Scope N_scope.

(* ---- every global counter = sum of the per-client counters (live entries + final values of the deleted ones):
        packets and bytes per type and direction, totals, messages received / sent per QoS, dropped per QoS and reason ---- *)
Theorem C20_global_sum_counters :
  forall (evs : list sts_event) (k : sts_ctr), sts_exact k = true ->
    sts_glob (sts_run evs) k = sts_sum (sts_clients (sts_run evs)) k + sts_gone (sts_run evs) k.
Proof. exact sts_global_is_sum. Qed.
Print Assumptions C20_global_sum_counters.

(* ---- gauges ---- *)
(* QueuedCurrent / InflightCurrent: global = sum over the LIVE sessions' entries (uint64 arithmetic), for all histories *)
Theorem C20_gauge_live_sum :
  forall evs k, sts_is_gauge k = true ->
    sts_glob (sts_run evs) k = sts_sum (sts_clients (sts_run evs)) k mod sts_M64.
Proof. exact sts_gauge_live_sum. Qed.
Print Assumptions C20_gauge_live_sum.
(* per client: a gauge is exactly adds - decs (since the entry was created), hence >= 0 and never wrapped, whenever the
   history is well-formed (no decrement below zero: each dec preceded by its add) *)
Theorem C20_client_gauge_is_adds_minus_decs :
  forall gk evs, (gk = StsQueued \/ gk = StsInflight) -> sts_ideal_wf gk (fun _ => 0%Z) evs ->
    forall c, Z.of_N (sts_val c (sts_clients (sts_run evs)) gk) = sts_ideal_run gk (fun _ => 0%Z) evs c /\
              (0 <= sts_ideal_run gk (fun _ => 0%Z) evs c)%Z.
Proof. exact sts_client_gauge_exact. Qed.
Print Assumptions C20_client_gauge_is_adds_minus_decs.
(* no gauge wraps below zero: on a well-formed history (client balances never negative, total below 2^63 at every
   prefix) the global gauge IS the ideal total adds - decs - shares of terminated sessions, a number below 2^63 *)
Theorem C20_global_gauge_no_wrap :
  forall gk evs, (gk = StsQueued \/ gk = StsInflight) -> sts_gauge_wf gk (fun _ => 0%Z) 0%Z evs ->
    Z.of_N (sts_glob (sts_run evs) gk) = sts_total_run gk (fun _ => 0%Z) 0%Z evs /\
    (Z.of_N (sts_glob (sts_run evs) gk) < sts_H63)%Z.
Proof. exact sts_global_gauge_no_wrap. Qed.
Print Assumptions C20_global_gauge_no_wrap.

(* ---- the view (GetGlobalStats / GetClientStats) = the internal value, for every field incl. Auth ---- *)
Theorem C20_view_exact :
  forall evs k, stv_glob (sts_view_of (sts_run evs)) k = sts_glob (sts_run evs) k.
Proof. exact sts_view_exact. Qed.
Print Assumptions C20_view_exact.
Theorem C20_view_client_exact :
  forall evs c k, sts_val c (stv_clients (sts_view_of (sts_run evs))) k = sts_val c (sts_clients (sts_run evs)) k.
Proof. exact sts_view_client_exact. Qed.
Print Assumptions C20_view_client_exact.

(* ---- the statistics a reader sees against the ground truth, when the broker reports as c20_calls says ---- *)
(* global, for ALL logs (over-quota publishes included): packets / bytes per type, totals, messages per QoS, dropped *)
Theorem C20_packets_messages_global :
  forall log k, sts_exact k = true -> stv_glob (c20_model log) k = stv_glob (c20_truth log) k.
Proof. exact c20_counters_global. Qed.
Print Assumptions C20_packets_messages_global.
(* per client (current session), for ALL logs: the same fields *)
Theorem C20_packets_messages_client :
  forall log c k, sts_exact k = true ->
    sts_val c (stv_clients (c20_model log)) k = sts_val c (stv_clients (c20_truth log)) k.
Proof. exact c20_counters_client. Qed.
Print Assumptions C20_packets_messages_client.
(* queued / in-flight gauges = contents of the session's queue (per client), of all live sessions' queues (global) *)
Theorem C20_gauges_client :
  forall gk log c, (gk = StsQueued \/ gk = StsInflight) -> c20_gauge_ok gk log ->
    sts_val c (stv_clients (c20_model log)) gk = sts_val c (stv_clients (c20_truth log)) gk.
Proof. exact c20_client_gauges. Qed.
Print Assumptions C20_gauges_client.
Theorem C20_gauges_global :
  forall gk log, (gk = StsQueued \/ gk = StsInflight) -> c20_gauge_ok gk log ->
    stv_glob (c20_model log) gk = stv_glob (c20_truth log) gk mod sts_M64.
Proof. exact c20_global_gauges. Qed.
Print Assumptions C20_gauges_global.
(* connection counters = the events; ActiveCurrent / InactiveCurrent = number of online / offline sessions (as uint64) *)
Theorem C20_sessions :
  forall log k, c20_life_ok log ->
    stv_conn (c20_model log) k = if c20_conn_gauge k then stv_conn (c20_truth log) k mod sts_M64 else stv_conn (c20_truth log) k.
Proof. exact c20_connection_stats. Qed.
Print Assumptions C20_sessions.

(* ---- non-vacuity ---- *)
Definition c20_demo : list c20_gevent :=
  [C20Connected 1 true; C20Recv 1 StsConnect StsQ0 17; C20Sent 1 StsConnack StsQ0 4;
   C20Recv 1 StsSubscribe StsQ0 9; C20Sent 1 StsSuback StsQ0 5;
   C20Connected 2 true; C20Recv 2 StsConnect StsQ0 14; C20Sent 2 StsConnack StsQ0 4;
   C20Recv 2 StsPublish StsQ1 10; C20Queue 1 1; C20Sent 2 StsPuback StsQ0 4;
   C20Sent 1 StsPublish StsQ1 10; C20Inflight 1 1;
   C20Disconnected 1 true; C20Recv 2 StsPublish StsQ0 8; C20Queue 1 1; C20Dropped 1 StsQ0 StsDkFull;
   C20RecvOverQuota 2 StsQ2 11; C20Recv 2 StsAuth StsQ0 8;
   C20Ended 1 StsRExpired; C20Disconnected 2 false].
(* the hypotheses of the log-level theorems hold of a log with traffic, a drop, an offline session and its expiry *)
Example C20_demo_wellformed :
  c20_life_ok c20_demo /\ c20_gauge_ok StsQueued c20_demo /\ c20_gauge_ok StsInflight c20_demo.
Proof. split; [|split]; vm_compute; intuition (try discriminate; try congruence). Qed.
Example C20_demo_values :
  stv_glob (c20_truth c20_demo) (StsCountTotal StsRx) = 7 /\ stv_glob (c20_model c20_demo) (StsCountTotal StsRx) = 7 /\
  stv_glob (c20_truth c20_demo) (StsBytesTotal StsTx) = 27 /\ stv_glob (c20_model c20_demo) (StsBytesTotal StsTx) = 27 /\
  stv_glob (c20_model c20_demo) (StsDropped StsQ0 StsDkFull) = 1 /\
  stv_glob (c20_model c20_demo) (StsMsgRecv StsQ2) = 1 /\ stv_glob (c20_model c20_demo) (StsCount StsRx StsPublish) = 3 /\
  stv_glob (c20_model c20_demo) (StsCount StsRx StsAuth) = 1 /\ stv_glob (c20_model c20_demo) (StsBytes StsRx StsAuth) = 8 /\
  stv_conn (c20_truth c20_demo) StsTermExpired = 1 /\ stv_conn (c20_model c20_demo) StsTermNormal = 1 /\
  stv_conn (c20_model c20_demo) StsActive = 0 /\ stv_conn (c20_model c20_demo) StsInactive = 0 /\
  (* the expired session held two queued messages, one of them in flight: its share left the global gauges *)
  stv_glob (c20_truth c20_demo) StsQueued = 0 /\ stv_glob (c20_model c20_demo) StsQueued = 0 /\
  stv_glob (c20_truth c20_demo) StsInflight = 0 /\ stv_glob (c20_model c20_demo) StsInflight = 0 /\
  c20_ok [1; 2] (c20_model c20_demo) (c20_truth c20_demo) = true.
Proof. vm_compute. repeat split; reflexivity. Qed.
(* the boolean oracle is not vacuous: it rejects a view that is off by one in a single per-client field *)
Example C20_ok_rejects :
  let log := [C20Connected 2 true; C20Recv 2 StsPublish StsQ1 10] in
  c20_ok [2] (c20_model log) (c20_truth log) = true /\
  c20_ok [2] (c20_model log) (c20_truth (log ++ [C20Recv 2 StsPublish StsQ1 10])) = false /\
  c20_ok [2] (c20_model log) (c20_truth [C20Connected 2 true; C20Recv 2 StsPublish StsQ0 10]) = false.
Proof. vm_compute. repeat split; reflexivity. Qed.

(* the witnesses of the five former deviations, on the repaired code *)
Example C20_fixed_client_qos_counters :
  sts_val 7 (sts_clients (sts_run [StsMessageReceived StsQ1 7])) (StsMsgRecv StsQ1) = 1 /\
  sts_val 7 (sts_clients (sts_run [StsMessageReceived StsQ1 7])) (StsMsgRecv StsQ0) = 0.
Proof. vm_compute. split; reflexivity. Qed.
Example C20_fixed_global_inflight_add1 :
  sts_glob (sts_run [StsAddInflight 7 2]) StsInflight = 2 /\
  sts_glob (sts_run [StsAddInflight 7 2; StsDecInflight 7 1; StsDecInflight 7 1]) StsInflight = 0.
Proof. vm_compute. split; reflexivity. Qed.
Example C20_fixed_bytes_auth_copy :
  stv_glob (sts_view_of (sts_run [StsPacketReceived StsAuth 8 7])) (StsCount StsRx StsAuth) = 1 /\
  stv_glob (sts_view_of (sts_run [StsPacketReceived StsAuth 8 7])) (StsBytes StsRx StsAuth) = 8.
Proof. vm_compute. split; reflexivity. Qed.
Example C20_fixed_gauge_leak_on_terminate :
  sts_glob (sts_run [StsAddQueueLen 7 3; StsAddInflight 7 1; StsSessionTerminated 7 StsRExpired]) StsQueued = 0 /\
  sts_glob (sts_run [StsAddQueueLen 7 3; StsAddInflight 7 1; StsSessionTerminated 7 StsRExpired]) StsInflight = 0.
Proof. vm_compute. split; reflexivity. Qed.
Example C20_fixed_over_quota_publish :
  stv_glob (c20_model [C20Connected 1 true; C20RecvOverQuota 1 StsQ2 10]) (StsMsgRecv StsQ2) = 1 /\
  stv_glob (c20_model [C20Connected 1 true; C20RecvOverQuota 1 StsQ2 10]) (StsCount StsRx StsPublish) = 1 /\
  stv_glob (c20_model [C20Connected 1 true; C20RecvOverQuota 1 StsQ2 10]) (StsBytes StsRx StsPublish) = 10.
Proof. vm_compute. repeat split; reflexivity. Qed.
(* what remains of the old code: a decrement that finds the client's gauge at 0 is ignored (not a deviation on
   well-formed histories, see C20_client_gauge_is_adds_minus_decs) *)
Example C20_dec_at_zero_ignored :
  sts_val 7 (sts_clients (sts_run [StsDecQueueLen 7 1; StsAddQueueLen 7 1])) StsQueued = 1 /\
  sts_glob (sts_run [StsDecQueueLen 7 1; StsAddQueueLen 7 1]) StsQueued = 1.
Proof. vm_compute. split; reflexivity. Qed.
