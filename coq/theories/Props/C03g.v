(* C03 - outbound QoS 1/2 over WHOLE RUNS of the broker model (Model/Broker.v): in every state reached by a
   well-behaved run, every attached socket satisfies the invariant PollInv of Props/C03w.v (packet id limiter =
   in-flight part of the session queue); hence the in-flight packet ids are non-zero and pairwise distinct, and -
   in runs in which no CONNECT leaves more in flight than the new window allows - the unacknowledged QoS>0
   PUBLISH packets never outnumber the window min(Receive Maximum, max_inflight).
   Well-behaved (run_wb, a boolean checked along the run):
     (a) PUBACK / PUBREC / PUBCOMP never name a packet id that the poll loop of the connection merely holds
         (run_wb_strict: ... name only ids in flight on the connection);
     (b) messages handed to the publish API carry no packet id;
     (w = true only) after every CONNECT the in-flight entries of the session fit the window of the new connection.
   Everything else - CONNECTs with take-over and resume, subscribes, publishes of any QoS, closes, terminate, time,
   expiry checks, sized sends, hooks - is arbitrary.  The proofs are in Proofs/BrokerPollGlobalP.v. *)
From Coq Require Import List NArith ZArith Bool.
Import ListNotations.
From GM Require Import Base.Topic Base.Msg Model.SubTrie Model.Queue Model.Limiter Model.Broker
                       Proofs.LimiterP Proofs.QueueP Proofs.BrokerInvP Proofs.BrokerPollP Proofs.BrokerPollGlobalP.
Open Scope N_scope.

(* ---- the global invariant and its preservation ---- *)
Theorem C03_global_invariant_init :
  forall w c h p, c_max_inflight c <= MAXPID -> GInv w (st_init c h p).
Proof. exact GInv_init. Qed.
Print Assumptions C03_global_invariant_init.

Theorem C03_global_invariant_step :
  forall w s e, GInv w s -> wb w s e = true -> GInv w (fst (step s e)).
Proof. exact step_GInv. Qed.
Print Assumptions C03_global_invariant_step.

Theorem C03_global_invariant_run :
  forall w es s, GInv w s -> run_wb w s es = true -> GInv w (fst (run s es)).
Proof. exact run_GInv. Qed.
Print Assumptions C03_global_invariant_run.

(* ---- the main theorem ---- *)
Theorem C03_all_runs :
  forall w c h p es,
    c_max_inflight c <= MAXPID -> run_wb w (st_init c h p) es = true ->
    forall sock k, nget sock (b_conns (fst (run (st_init c h p) es))) = Some k -> BrokerPollP.attached k ->
                   PollInv w (fst (run (st_init c h p) es)) sock.
Proof. exact BrokerPollGlobalP.C03_all_runs. Qed.
Print Assumptions C03_all_runs.

Theorem C03_all_prefixes :
  forall w c h p pre post,
    c_max_inflight c <= MAXPID -> run_wb w (st_init c h p) (pre ++ post) = true ->
    AllPoll w (fst (run (st_init c h p) pre)).
Proof. exact BrokerPollGlobalP.C03_all_prefixes. Qed.
Print Assumptions C03_all_prefixes.

(* hypothesis (a) in its plain form implies the one the proof needs *)
Theorem C03_all_runs_strict :
  forall w c h p es,
    c_max_inflight c <= MAXPID -> run_wb_strict w (st_init c h p) es = true ->
    AllPoll w (fst (run (st_init c h p) es)).
Proof. exact BrokerPollGlobalP.C03_all_runs_strict. Qed.
Print Assumptions C03_all_runs_strict.

Theorem C03_strict_is_well_behaved :
  forall w es s, GInv w s -> run_wb_strict w s es = true -> run_wb w s es = true.
Proof. exact run_wb_strict_wb. Qed.
Print Assumptions C03_strict_is_well_behaved.

(* ---- corollaries ---- *)
Theorem C03_ids_all_runs :
  forall c h p es,
    c_max_inflight c <= MAXPID -> run_wb false (st_init c h p) es = true ->
    forall sock k, nget sock (b_conns (fst (run (st_init c h p) es))) = Some k -> BrokerPollP.attached k ->
      exists q, aget (k_cid k) (b_queues (fst (run (st_init c h p) es))) = Some q /\
        NoDup (inflight_ids q) /\ (forall i, In i (inflight_ids q) -> 1 <= i <= MAXPID) /\ ~ In 0 (inflight_ids q) /\
        (forall i, In i (inflight_ids q) -> In i (l_locked (k_lim k))).
Proof. exact BrokerPollGlobalP.C03_ids_all_runs. Qed.
Print Assumptions C03_ids_all_runs.

Theorem C03_window_all_runs :
  forall c h p es,
    c_max_inflight c <= MAXPID -> run_wb true (st_init c h p) es = true ->
    forall sock k, nget sock (b_conns (fst (run (st_init c h p) es))) = Some k -> BrokerPollP.attached k ->
      exists q, aget (k_cid k) (b_queues (fst (run (st_init c h p) es))) = Some q /\
        N.of_nat (length (inflight_ids q)) <= k_max_inflight k /\
        (k_drained k = true -> N.of_nat (length (inflight_ids q) + length (held_ids k)) <= k_max_inflight k) /\
        l_used (k_lim k) <= l_limit (k_lim k) /\
        k_max_inflight k <= c_max_inflight c.
Proof. exact BrokerPollGlobalP.C03_window_all_runs. Qed.
Print Assumptions C03_window_all_runs.

(* a run that is well-behaved with the window condition is well-behaved without it *)
Theorem C03_window_runs_are_id_runs :
  forall es s, run_wb true s es = true -> run_wb false s es = true.
Proof. exact run_wb_weaken. Qed.
Print Assumptions C03_window_runs_are_id_runs.

(* the stored queue of every session, attached or not, keeps the queue shape; stored messages have no packet id *)
Theorem C03_stored_queues :
  forall w c h p es,
    c_max_inflight c <= MAXPID -> run_wb w (st_init c h p) es = true ->
    forall cid q, aget cid (b_queues (fst (run (st_init c h p) es))) = Some q ->
      exists inf que, QInv q (b_tag (fst (run (st_init c h p) es))) inf que.
Proof. exact BrokerPollGlobalP.C03_stored_queues. Qed.
Print Assumptions C03_stored_queues.

Theorem C03_stored_pid0 :
  forall w c h p es,
    c_max_inflight c <= MAXPID -> run_wb w (st_init c h p) es = true -> PZ (fst (run (st_init c h p) es)).
Proof. exact BrokerPollGlobalP.C03_stored_pid0. Qed.
Print Assumptions C03_stored_pid0.

(* "until acknowledged", the poll phase of a whole step: no in-flight entry of any queue disappears *)
Theorem C03_poll_keeps_inflight :
  forall w c h p es e,
    c_max_inflight c <= MAXPID -> run_wb w (st_init c h p) (es ++ [e]) = true ->
    inflight_ext (fst (step_event (fst (run (st_init c h p) es)) e)) (fst (step (fst (run (st_init c h p) es)) e)).
Proof. exact BrokerPollGlobalP.C03_poll_keeps_inflight. Qed.
Print Assumptions C03_poll_keeps_inflight.

(* ---- witnesses: the hypotheses are satisfiable, and each of them is needed ---- *)
Example C03g_nonvacuous :
  c_max_inflight (wx_cfg 0 100) <= MAXPID /\ run_wb true wx_init gx_run = true /\ run_wb false wx_init gx_run = true /\
  let s := fst (run wx_init gx_run) in
  pollinv_b true s 1 = true /\ pollinv_b true s 2 = true /\
  option_map inflight_ids (aget wx_S (b_queues s)) = Some [4; 1] /\
  option_map (fun q => length (q_l q)) (aget wx_S (b_queues s)) = Some 4%nat /\
  option_map k_max_inflight (nget 1 (b_conns s)) = Some 2.
Proof. exact gx_well_behaved. Qed.

Example C03g_nonvacuous_strict : run_wb_strict true wx_init gx_run = true.
Proof. exact gx_strict. Qed.

Example C03g_resume_output :
  map (filter (fun x => match x with OSend 1 (KConnack _ _ _) => false | OSend 1 _ => true | _ => false end))
      (skipn 11 (snd (run wx_init gx_run))) =
  [[OSend 1 (KPubrel 3 0 []); OSend 1 (KPublish true 1 false wx_T [3] 4 [])];
   [OSend 1 (KPublish false 1 false wx_T [4] 1 [])]; []].
Proof. exact gx_resume_output. Qed.

Example C03g_window_needs_side_condition :
  run_wb false wx_init gx_small_window = true /\ run_wb true wx_init gx_small_window = false /\
  let s := fst (run wx_init gx_small_window) in
  pollinv_b false s 1 = true /\ pollinv_b true s 1 = false /\
  option_map inflight_ids (aget wx_S (b_queues s)) = Some [1; 3] /\
  option_map k_max_inflight (nget 1 (b_conns s)) = Some 1.
Proof. exact C03_window_needs_side_condition. Qed.

Example C03g_held_ack_not_well_behaved :
  let es := wx_pre ++ [ESend 1 (KPuback 1 0 [])] in
  run_wb false wx_init es = false /\ run_wb false wx_init wx_pre = true /\
  pollinv_b false (fst (run wx_init es)) 1 = false.
Proof. exact C03_held_ack_not_well_behaved. Qed.

Example C03g_api_pid_not_well_behaved :
  let pre := wx_pre ++ [wx_pub 1 11 [1]; wx_pub 1 12 [2]; wx_pub 1 13 [3]] in
  let es := pre ++ [EApiPublish (set_pid 7 (msg_of_publish false false 1 false wx_T [9] 0 []))] in
  run_wb false wx_init es = false /\ run_wb false wx_init pre = true /\
  pollinv_b false (fst (run wx_init es)) 1 = false.
Proof. exact C03_api_pid_not_well_behaved. Qed.

Example C03g_max_inflight_bound_needed :
  let es := [EConnect 1 (wx_connect 4 wx_S true [])] in
  run_wb false (st_init gx_bigcfg no_hooks []) es = true /\
  pollinv_b false (fst (run (st_init gx_bigcfg no_hooks []) es)) 1 = false.
Proof. exact C03_max_inflight_bound_needed. Qed.
