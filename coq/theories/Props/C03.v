(* C03 - outbound QoS1/2: unique ids, bounded window (component level: the packet id
   limiter).  The wire-level half (retransmission after reconnect, DUP flags) is checked on
   the broker model by the C03 check; its theorems are added to this file as they land. *)
From Coq Require Import List NArith.
Import ListNotations.
From GM Require Import Model.Limiter Oracle.C03O Proofs.LimiterP.
Open Scope N_scope.

(* every batch of ids handed out is fresh: non-zero, pairwise distinct, not in use, and
   exactly as many as the window has room for *)
Theorem C03_ids_fresh :
  forall (l : lim) (max : N) (l' : lim) (ids : list N),
    LimInv l -> l_limit l <= MAXPID -> lim_poll max l = (l', PIds ids) ->
    NoDup ids /\ (forall i, In i ids -> 1 <= i <= MAXPID /\ ~ In i (l_locked l)) /\
    N.of_nat (length ids) = N.min max (l_limit l - l_used l) /\ l_used l' <= l_limit l.
Proof. exact lim_poll_fresh. Qed.
Print Assumptions C03_ids_fresh.

(* the invariant holds in every state reachable under the broker's calling discipline *)
Theorem C03_invariant :
  forall (l : lim) (o : lop), LimInv l -> l_limit l <= MAXPID -> wf_lop l o = true -> LimInv (fst (lim_step l o)).
Proof. exact lim_inv_step. Qed.
Print Assumptions C03_invariant.

(* the id search always terminates (pigeonhole over the 65535 ids) *)
Theorem C03_poll_never_hangs :
  forall (l : lim) (max : N), LimInv l -> l_limit l <= MAXPID -> snd (lim_poll max l) <> PHang.
Proof. exact lim_poll_never_hangs. Qed.
Print Assumptions C03_poll_never_hangs.

(* refinement: for every well-formed history the limiter behaves as the abstract window
   (set of ids in use, count <= limit, Blocked iff full) *)
Theorem C03_window_refinement :
  forall (limit : N) (ops : list lop), limit <= MAXPID -> wf_lrun (lim_new limit) ops = true ->
    c03_lim_ok limit ops (lim_model limit ops) = true.
Proof. exact lim_refines_window. Qed.
Print Assumptions C03_window_refinement.

Example C03_nonvacuous :
  wf_lrun (lim_new 2) [LSetFree 65535; LPoll 5; LRelease 65535; LMark 7; LPoll 1; LBatch [1; 7]; LPoll 2] = true /\
  map fst (lim_model 2 [LSetFree 65535; LPoll 5; LRelease 65535; LMark 7; LPoll 1; LBatch [1; 7]; LPoll 2]) =
  [None; Some (PIds [65535; 1]); None; None; Some PBlocked; None; Some (PIds [2; 3])].
Proof. vm_compute. split; reflexivity. Qed.
