(* C06 / C03 / C01 - gmqtt.MessageFromPublish and MessageToPublish (message.go), the conversion between what travels
   on the wire and what the broker queues.  Model: Model/CodecPackets.v (message_from_publish, message_to_publish);
   suite cmsg runs the real functions next to it.  Proved for every message and every packet:
     - the publisher's packet identifier and subscription identifiers never enter the queued message (C03: ids on a
       subscriber's connection are the broker's own; C01: identifiers are those of the subscriber's subscriptions)
     - topic, payload, QoS, RETAIN, DUP and (version 5) the application properties survive the round trip
       MessageToPublish ; MessageFromPublish unchanged. *)
From Coq Require Import List NArith Bool.
Import ListNotations.
From GM Require Import Base.Topic Base.Msg Model.CodecBase Model.CodecProps Model.CodecPackets.
Open Scope N_scope.

Theorem C06_message_from_publish_drops_ids : forall b m,
  message_from_publish b = Some m -> m_pid m = 0 /\ m_subids m = [].
Proof.
  intros b m H. destruct b; try discriminate. cbn [message_from_publish] in H.
  destruct (ver =? 5).
  - destruct pr as [p|]; [|discriminate]. injection H as <-. split; reflexivity.
  - injection H as <-. split; reflexivity.
Qed.
Print Assumptions C06_message_from_publish_drops_ids.

Lemma ps_get_set_same id v l : ps_get id (ps_set id v l) = Some v.
Proof.
  induction l as [|[k w] r IH]; cbn [ps_set ps_get].
  - now rewrite N.eqb_refl.
  - destruct (id <? k) eqn:E1; cbn [ps_get].
    + now rewrite N.eqb_refl.
    + destruct (id =? k) eqn:E2; cbn [ps_get].
      * now rewrite N.eqb_refl.
      * rewrite N.eqb_sym, E2. exact IH.
Qed.

Lemma ps_get_set_other id id' v l : id' <> id -> ps_get id' (ps_set id v l) = ps_get id' l.
Proof.
  intros Hne. induction l as [|[k w] r IH]; cbn [ps_set ps_get].
  - destruct (N.eqb_spec id id'); [congruence|reflexivity].
  - destruct (id <? k) eqn:E1; cbn [ps_get].
    + destruct (N.eqb_spec id id'); [congruence|reflexivity].
    + destruct (N.eqb_spec id k) as [->|E2]; cbn [ps_get].
      * destruct (N.eqb_spec k id'); [congruence|reflexivity].
      * destruct (k =? id'); [reflexivity|exact IH].
Qed.

Theorem C06_message_publish_roundtrip : forall m v,
  message_from_publish (message_to_publish m v) = Some (msg_core (v =? 5) m).
Proof.
  intros m v. unfold message_to_publish, message_from_publish, msg_core.
  destruct (v =? 5) eqn:Ev; [|reflexivity].
  destruct m as [dup qos ret topic payload pid ctype corr expiry pfmt resp subids uprops].
  cbn [m_dup m_qos m_retained m_topic m_payload m_pid m_ctype m_corr m_expiry m_pfmt m_resp m_subids m_uprops].
  destruct (N.eqb_spec pfmt 1) as [Ep|Ep]; [subst pfmt|];
  destruct (N.eqb_spec expiry 0) as [Ee|Ee]; [subst expiry| |subst expiry|];
  destruct ctype as [|c1 ct]; destruct resp as [|r1 rt]; destruct corr as [|k1 kt];
  reflexivity.
Qed.
Print Assumptions C06_message_publish_roundtrip.

Definition ex_m : msg :=
  {| m_dup := false; m_qos := 1; m_retained := true; m_topic := [97]; m_payload := [1; 2]; m_pid := 77; m_ctype := [116]; m_corr := [];
     m_expiry := 60; m_pfmt := 1; m_resp := []; m_subids := [5]; m_uprops := [([107], [118])] |}.
Example C06m_nonvacuous :
  message_from_publish (message_to_publish ex_m 5) = Some (msg_core true ex_m) /\ m_pid (msg_core true ex_m) = 0 /\
  m_ctype (msg_core true ex_m) = [116] /\ message_from_publish (message_to_publish ex_m 4) = Some (msg_core false ex_m).
Proof. vm_compute. repeat split; reflexivity. Qed.
