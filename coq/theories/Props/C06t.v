(* C06 - the table of properties the decoder accepts per packet type (packets.ValidProperties, ValidateID) and
   the packet type constants, REGENERATED from the Go source on every run (Gen/PropTable.v, translator proptable),
   against the table the codec model and all its theorems use (Model/CodecProps.v).  Identifiers and packet types
   are Go bytes: the statement quantifies over all 256 x 256 pairs and is decided by computation. *)
From Coq Require Import List NArith Bool String Lia.
Import ListNotations.
From GM Require Import Base.Topic Base.Msg Model.CodecBase Model.CodecProps Gen.PropTable.
Open Scope N_scope.

Definition gen_validate_id (ptype id : N) : bool :=
  match assoc_n id gen_valid_properties with
  | Some l => existsb (N.eqb ptype) l
  | None => false
  end.

Definition bytes256 : list N := map N.of_nat (seq 0 256).

Lemma all_bytes (f : N -> bool) : forallb f bytes256 = true -> forall x, x < 256 -> f x = true.
Proof.
  intros H x Hx. rewrite forallb_forall in H. apply H. unfold bytes256. apply in_map_iff.
  exists (N.to_nat x). split; [lia|]. apply in_seq. lia.
Qed.

Theorem C06_valid_properties_table :
  forall ptype id, ptype < 256 -> id < 256 -> validate_id ptype id = gen_validate_id ptype id.
Proof.
  intros p i Hp Hi.
  assert (H : forallb (fun p => forallb (fun i => Bool.eqb (validate_id p i) (gen_validate_id p i)) bytes256) bytes256 = true)
    by (vm_compute; reflexivity).
  pose proof (all_bytes _ H p Hp) as H1. cbv beta in H1. pose proof (all_bytes _ H1 i Hi) as H2. cbv beta in H2.
  now apply Bool.eqb_prop.
Qed.
Print Assumptions C06_valid_properties_table.

(* the packet type constants of the model are those of the source *)
Theorem C06_packet_type_constants :
  gen_packet_types =
  [("RESERVED", 0); ("CONNECT", CONNECT); ("CONNACK", CONNACK); ("PUBLISH", PUBLISH); ("PUBACK", PUBACK); ("PUBREC", PUBREC);
   ("PUBREL", PUBREL); ("PUBCOMP", PUBCOMP); ("SUBSCRIBE", SUBSCRIBE); ("SUBACK", SUBACK); ("UNSUBSCRIBE", UNSUBSCRIBE);
   ("UNSUBACK", UNSUBACK); ("PINGREQ", PINGREQ); ("PINGRESP", PINGRESP); ("DISCONNECT", DISCONNECT); ("AUTH", AUTH)]%string.
Proof. reflexivity. Qed.
Print Assumptions C06_packet_type_constants.

(* non-vacuity: the table is not empty and distinguishes packet types *)
Example C06t_nonvacuous :
  gen_validate_id PUBLISH 35 = true /\ gen_validate_id CONNECT 35 = false /\ gen_validate_id SUBSCRIBE 11 = true /\
  gen_validate_id PUBLISH 24 = false /\ List.length gen_valid_properties = 27%nat.
Proof. vm_compute. repeat split; reflexivity. Qed.
