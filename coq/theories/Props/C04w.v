(* C04 (wire half) - "Inbound QoS 2 is exactly-once; every QoS>0 packet gets its matching ack",
   proved of the broker model Model/Broker.v for all states and event lists (Proofs/BrokerQos2P.v).
   U = Uof cid s is the set of packet identifiers of QoS 2 PUBLISH packets received from client cid
   and not yet released by PUBREL.  "Number of deliver invocations" is the log of the instrumented
   run run_i, whose erasure is Broker.run (C04_instrumentation_erases). *)
From Coq Require Import List NArith Bool.
Import ListNotations.
From GM Require Import Base.Topic Base.Msg Model.SubTrie Model.Limiter Model.Broker Proofs.BrokerQos2P.
Open Scope N_scope.

(* 1. a retransmitted QoS 2 PUBLISH is answered by PUBREC and is not forwarded *)
Theorem C04_qos2_duplicate_not_forwarded : forall c k s dup retain topic payload pid props,
  pub_accepts k 2 retain topic props = true ->
  In pid (Uof (k_cid k) s) ->
  exists s',
    handle_packet c k (KPublish dup 2 retain topic payload pid props) s =
      HOk s' [OSend c (KPubrec pid (if k_v k =? 5 then 16 else 0) [])] /\
    qproj s' = qproj s /\ (forall cid', Uof cid' s' = Uof cid' s) /\ In pid (Uof (k_cid k) s').
Proof. exact qos2_duplicate_not_forwarded. Qed.
Print Assumptions C04_qos2_duplicate_not_forwarded.

(* 2. a QoS 2 PUBLISH with a new identifier: deliver is applied exactly once, one PUBREC, the id is recorded *)
Theorem C04_qos2_new_is_forwarded_once : forall c k s dup retain topic payload pid props k' m m',
  let v5 := k_v k =? 5 in
  let cid := k_cid k in
  pub_accepts k 2 retain topic props = true ->
  ~ In pid (Uof cid s) ->
  pub_alias v5 (charge k 2) topic props (msg_of_publish v5 dup 2 retain topic payload pid props) = inl (Some (k', m)) ->
  fwd_msg (pub_action m s) m = Some m' ->
  let s0 := set_unacks (aset cid (pid :: Uof cid s) (b_unacks s)) (upd_conn c k' (upd_conn c (charge k 2) s)) in
  forall s1 o1 mt, deliver cid m' (retain_update m' s0) = (s1, o1, mt) ->
    handle_packet c k (KPublish dup 2 retain topic payload pid props) s =
      HOk s1 (o1 ++ [OSend c (KPubrec pid (if v5 then if mt then 0 else 16 else 0) [])]) /\
    only_drops o1 /\ In pid (Uof cid s1) /\ (forall cid', cid' <> cid -> Uof cid' s1 = Uof cid' s).
Proof. exact qos2_new_is_forwarded_once. Qed.
Print Assumptions C04_qos2_new_is_forwarded_once.

Theorem C04_qos2_new_refused_by_hook : forall c k s dup retain topic payload pid props k' m,
  let v5 := k_v k =? 5 in
  let cid := k_cid k in
  pub_accepts k 2 retain topic props = true ->
  ~ In pid (Uof cid s) ->
  pub_alias v5 (charge k 2) topic props (msg_of_publish v5 dup 2 retain topic payload pid props) = inl (Some (k', m)) ->
  fwd_msg (pub_action m s) m = None ->
  exists s' code,
    handle_packet c k (KPublish dup 2 retain topic payload pid props) s = HOk s' [OSend c (KPubrec pid code [])] /\
    qproj s' = qproj s /\
    (code < 128 -> In pid (Uof cid s')) /\ (128 <= code -> ~ In pid (Uof cid s')) /\
    (forall cid', cid' <> cid -> Uof cid' s' = Uof cid' s).
Proof. exact qos2_new_refused_by_hook. Qed.
Print Assumptions C04_qos2_new_refused_by_hook.

(* the stages used in the statements above compose to the publish handler, by computation *)
Theorem C04_publish_stages : forall c k dup qos retain topic payload pid props s,
  handle_publish c k dup qos retain topic payload pid props s =
  let v5 := k_v k =? 5 in
  if negb (k_retain_avail k) && retain then HErr s [] (Some 154)
  else
    match pub_alias v5 k topic props (msg_of_publish v5 dup qos retain topic payload pid props) with
    | inr code => HErr s [] (Some code)
    | inl None => HErr s [] None
    | inl (Some (k', m)) =>
        let '(s1, isdup) := pub_mark c k' v5 qos pid (upd_conn c k' s) in
        pub_finish c k' v5 qos pid (pub_fwd k' m isdup s1)
    end.
Proof. exact handle_publish_stages. Qed.
Print Assumptions C04_publish_stages.

(* 3. PUBREL: one PUBCOMP, the identifier is free again *)
Theorem C04_pubrel_frees_id : forall c k s pid code props,
  exists s',
    handle_packet c k (KPubrel pid code props) s = HOk s' [OSend c (KPubcomp pid 0 [])] /\
    qproj s' = qproj s /\
    ~ In pid (Uof (k_cid k) s') /\
    (forall x, x <> pid -> (In x (Uof (k_cid k) s') <-> In x (Uof (k_cid k) s))) /\
    (forall cid', cid' <> k_cid k -> Uof cid' s' = Uof cid' s).
Proof. exact pubrel_frees_id. Qed.
Print Assumptions C04_pubrel_frees_id.

(* 4. the unack set across disconnection and CONNECT *)
Theorem C04_unack_across_reconnect : forall c cn s s' o,
  connect_accepted cn s = true ->
  handle_connect c cn s = (s', o) ->
  exists sp props o_dup o_w,
    o = o_dup ++ [OSend c (KConnack sp 0 props)] ++ o_w /\ no_sends o_dup /\ no_sends o_w /\
    (sp = true -> b_unacks s' = b_unacks s) /\
    (sp = false -> Uof (hc_cid cn s) s' = [] /\ forall cid', cid' <> hc_cid cn s -> Uof cid' s' = Uof cid' s).
Proof. exact unack_across_reconnect. Qed.
Print Assumptions C04_unack_across_reconnect.

Theorem C04_unack_survives_close : forall c s,
  b_unacks (fst (conn_gone c s)) = b_unacks s /\ no_sends (snd (conn_gone c s)).
Proof. exact conn_gone_unacks. Qed.
Print Assumptions C04_unack_survives_close.

Theorem C04_unack_survives_unregister : forall c k s,
  b_unacks (fst (unregister c k s)) = b_unacks s /\ only_drops (snd (unregister c k s)).
Proof. exact unregister_unacks. Qed.
Print Assumptions C04_unack_survives_unregister.

(* 5. the history theorem *)
Theorem C04_instrumentation_erases : forall es s, fst (run_i s es) = run s es.
Proof. exact run_i_erase. Qed.
Print Assumptions C04_instrumentation_erases.

Theorem C04_exactly_once_on_connection : forall c cid pid pre seg s,
  Forall (qos2_traffic c) (pre ++ seg) ->
  run_ok c cid s (pre ++ seg) ->
  h_msg_on (b_hooks s) = false ->
  ((pre = [] /\ ~ In pid (Uof cid s)) \/ exists pre' code props, pre = pre' ++ [ESend c (KPubrel pid code props)]) ->
  existsb (is_rel pid) seg = false ->
  nfwd c pid (snd (run_i (fst (fst (run_i s pre))) seg)) = if existsb (is_pub pid) seg then 1%nat else 0%nat.
Proof. exact BrokerQos2P.C04_exactly_once_on_connection. Qed.
Print Assumptions C04_exactly_once_on_connection.

Theorem C04_at_most_once_with_hooks : forall c cid pid seg s,
  Forall (qos2_traffic c) seg -> run_ok c cid s seg -> existsb (is_rel pid) seg = false ->
  (nfwd c pid (snd (run_i s seg)) <= 1)%nat.
Proof. exact BrokerQos2P.C04_at_most_once_with_hooks. Qed.
Print Assumptions C04_at_most_once_with_hooks.

Theorem C04_run_ok_sufficient : forall c k0 es s,
  Forall (qos2_traffic c) es -> Forall (ev_wf k0) es -> k_phase k0 = PhConnected ->
  conn_ge c k0 (N.of_nat (length es)) s ->
  run_ok c (k_cid k0) s es.
Proof. exact run_ok_sufficient. Qed.
Print Assumptions C04_run_ok_sufficient.

Theorem C04_no_forward_after_resume : forall c c' cid pid cn s s1 o1 s2 o2 props seg,
  In pid (Uof cid s) ->
  step s (EClose c) = (s1, o1) ->
  step s1 (EConnect c' cn) = (s2, o2) -> In (OSend c' (KConnack true 0 props)) o2 ->
  Forall (qos2_traffic c') seg -> run_ok c' cid s2 seg -> existsb (is_rel pid) seg = false ->
  nfwd c' pid (snd (run_i s2 seg)) = 0%nat.
Proof. exact BrokerQos2P.C04_no_forward_after_resume. Qed.
Print Assumptions C04_no_forward_after_resume.

(* 6. acknowledgements *)
Theorem C04_acks_publish : forall c k dup qos retain topic payload pid props s s' o,
  handle_packet c k (KPublish dup qos retain topic payload pid props) s = HOk s' o ->
  exists od code, o = od ++ pub_ack c qos pid code /\ only_drops od.
Proof. exact BrokerQos2P.C04_acks_publish. Qed.
Print Assumptions C04_acks_publish.

Theorem C04_acks : forall c k s p s' o,
  nget c (b_conns s) = Some k -> k_phase k = PhConnected ->
  handle_packet c k p s = HOk s' o ->
  match p with
  | KPublish _ qos _ _ _ pid _ =>
      exists od code op, snd (step s (ESend c p)) = (od ++ pub_ack c qos pid code) ++ op /\
                         only_drops od /\ Forall is_poll_out op
  | KPubrel pid _ _ =>
      exists op, snd (step s (ESend c p)) = [OSend c (KPubcomp pid 0 [])] ++ op /\ Forall is_poll_out op
  | _ => True
  end.
Proof. exact BrokerQos2P.C04_acks. Qed.
Print Assumptions C04_acks.

Theorem C04_handler_error_writes_nothing : forall c k p s s' o code,
  handle_packet c k p s = HErr s' o code -> o = [].
Proof. exact handler_error_writes_nothing. Qed.
Print Assumptions C04_handler_error_writes_nothing.

(* non-vacuity (scenario of Proofs/BrokerQos2P.v sec. 8: subscriber "s" on socket 1, v5 publisher "p" on socket 2) *)
Example C04w_history_nonvacuous :
  Forall (qos2_traffic 2) (ex_pre ++ ex_seg) /\ run_ok 2 ex_P ex_state (ex_pre ++ ex_seg) /\
  h_msg_on (b_hooks ex_state) = false /\ existsb (is_rel 7) ex_seg = false /\ existsb (is_pub 7) ex_seg = true.
Proof. exact ex_history_hyps. Qed.

Example C04w_log :
  map (fun x => (fst (fst x), snd (fst x))) (snd (run_i ex_state (ex_pre ++ ex_seg))) = [(2, 7); (2, 7); (2, 9)].
Proof. vm_compute. reflexivity. Qed.

Example C04w_witness_subscriber : ex_to_sub (snd (run ex_state (ex_pre ++ ex_seg))) = 3%nat.
Proof. vm_compute. reflexivity. Qed.

Example C04w_duplicate_nonvacuous :
  exists k, nget 2 (b_conns ex_after_first) = Some k /\ k_phase k = PhConnected /\ k_cid k = ex_P /\
            pub_accepts k 2 false ex_T [] = true /\ In 7 (Uof ex_P ex_after_first).
Proof. exact ex_duplicate_hyps. Qed.

Example C04w_new_nonvacuous :
  exists k, nget 2 (b_conns ex_state) = Some k /\ pub_accepts k 2 false ex_T [] = true /\ ~ In 7 (Uof ex_P ex_state).
Proof. exact ex_new_hyps. Qed.

Example C04w_resume_nonvacuous :
  In 7 (Uof ex_P ex_after_first) /\
  In (OSend 3 (KConnack true 0 [PSei 100; PRecvMax 100; PMaxQos 1; PRetainAvail 1; PAliasMax 10; PWildcard 1;
                                PSubIdAvail 1; PSharedAvail 1; PMaxPkt 0; PKeepAlive 0]))
     (snd (step (fst (step ex_after_first (EClose 2))) ex_reconnect)) /\
  run_ok 3 ex_P (fst (step (fst (step ex_after_first (EClose 2))) ex_reconnect))
         [ESend 3 (KPublish true 2 false ex_T [1; 2; 3] 7 [])].
Proof. exact ex_resume_hyps. Qed.
