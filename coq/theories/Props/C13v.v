(* C13 - "... this holds for every configuration the config validator accepts".  The validator is the guard list
   regenerated from config/mqtt.go on every run (Gen/ValidateTable.v) and interpreted by Model/ConfigV.v.  Proved
   over that list: on every configuration of the right types the validator is never stuck, and it accepts exactly
   the configurations with maximum_qos <= 2, at least one queued message, a non-zero Receive Maximum, Maximum
   Packet Size and max_inflight, max_inflight <= max_queued_messages and a known delivery mode.  These are the
   facts about the configuration that the broker theorems of C03 / C13 take as hypotheses (non-zero window, non-zero
   receive quota); a guard dropped from the source breaks this theorem. *)
From Coq Require Import ZArith NArith String List Bool Lia.
Import ListNotations.
From GM Require Import Base.Topic Proofs.TopicP Gen.ValidateTable Model.ConfigV.

Lemma accepted_b_spec c : accepted_b c = true <-> accepted c.
Proof.
  unfold accepted_b, accepted. rewrite !andb_true_iff, orb_true_iff, !Z.leb_le, !str_eqb_eq. tauto.
Qed.

Theorem C13_validator_never_stuck : forall c, mqtt_validate (env_of c) <> VStuck.
Proof.
  intros c. unfold mqtt_validate, validate_guards, env_of. cbn [run_guards eval_guard eval_operand env_get str_eqb N.eqb Pos.eqb andb eval_cmp cmp_int F_MaximumQoS F_MaxQueuedMsg F_ReceiveMax F_MaxPacketSize F_MaxInflight F_DeliveryMode].
  repeat match goal with |- context [if ?b then _ else _] => destruct b end; discriminate.
Qed.
Print Assumptions C13_validator_never_stuck.

Theorem C13_validator_accepts_iff : forall c, in_range c -> (mqtt_validate (env_of c) = VOk <-> accepted c).
Proof.
  intros c (Hq & Hm & Hr & Hp & Hi). unfold accepted.
  unfold mqtt_validate, validate_guards, env_of.
  cbn [run_guards eval_guard eval_operand env_get str_eqb N.eqb Pos.eqb andb eval_cmp cmp_int F_MaximumQoS F_MaxQueuedMsg F_ReceiveMax F_MaxPacketSize F_MaxInflight F_DeliveryMode].
  destruct (Z.gtb_spec (v_max_qos c) 2); [split; [discriminate|lia]|].
  destruct (Z.leb_spec (v_max_queued c) 0); [split; [discriminate|lia]|].
  destruct (Z.eqb_spec (v_recv_max c) 0); [split; [discriminate|lia]|].
  destruct (Z.eqb_spec (v_max_packet c) 0); [split; [discriminate|lia]|].
  destruct (Z.eqb_spec (v_max_inflight c) 0); [split; [discriminate|lia]|].
  fold M_OVERLAP M_ONLYONCE. destruct (str_eqb (v_mode c) M_OVERLAP) eqn:E1; [apply str_eqb_eq in E1|]; cbn [negb].
  - destruct (Z.ltb_spec (v_max_queued c) (v_max_inflight c)); [split; [discriminate|lia]|].
    split; [intros _|reflexivity]. repeat split; try lia. now left.
  - destruct (str_eqb (v_mode c) M_ONLYONCE) eqn:E2; [apply str_eqb_eq in E2|]; cbn [negb].
    + destruct (Z.ltb_spec (v_max_queued c) (v_max_inflight c)); [split; [discriminate|lia]|].
      split; [intros _|reflexivity]. repeat split; try lia. now right.
    + split; [discriminate|]. intros (_ & _ & _ & _ & _ & [E|E]); rewrite E in *; [rewrite str_eqb_refl in E1|rewrite str_eqb_refl in E2]; discriminate.
Qed.
Print Assumptions C13_validator_accepts_iff.

(* the facts the broker theorems use: an accepted configuration has a non-zero receive quota, a non-zero window that
   fits the queue, a non-zero packet size limit and a delivery mode the broker knows *)
Theorem C13_accepted_config_facts : forall c, in_range c -> mqtt_validate (env_of c) = VOk ->
  (1 <= v_recv_max c <= 65535)%Z /\ (1 <= v_max_inflight c <= 65535)%Z /\ (v_max_inflight c <= v_max_queued c)%Z /\
  (1 <= v_max_packet c)%Z /\ (v_max_qos c <= 2)%Z /\ (v_mode c = M_OVERLAP \/ v_mode c = M_ONLYONCE).
Proof.
  intros c Hr H. pose proof Hr as (Hq & Hm & Hr' & Hp & Hi).
  apply (C13_validator_accepts_iff c Hr) in H. destruct H as (A & B & C & D & E & F). repeat split; try lia. exact F.
Qed.
Print Assumptions C13_accepted_config_facts.

(* the guards in source order: which one rejects *)
Definition ex_default : mqttc :=
  {| v_max_qos := 2%Z; v_max_queued := 1000%Z; v_recv_max := 100%Z; v_max_packet := 268435456%Z; v_max_inflight := 100%Z; v_mode := M_ONLYONCE |}.
Definition with_inflight (z : Z) (c : mqttc) : mqttc :=
  {| v_max_qos := v_max_qos c; v_max_queued := v_max_queued c; v_recv_max := v_recv_max c; v_max_packet := v_max_packet c;
     v_max_inflight := z; v_mode := v_mode c |}.
Example C13v_nonvacuous :
  mqtt_validate (env_of ex_default) = VOk /\ List.length validate_guards = 7%nat /\
  mqtt_validate (env_of (with_inflight 0 ex_default)) = VReject 4 /\
  mqtt_validate (env_of (with_inflight 1001 ex_default)) = VReject 6 /\
  mqtt_validate (env_of (with_inflight 1000 ex_default)) = VOk.
Proof. vm_compute. repeat split; reflexivity. Qed.
