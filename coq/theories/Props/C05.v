(* C05 - Session lifecycle: resume iff it should, and one connection per client id.
   Statements only; proofs in Proofs/BrokerInvP.v.  All statements are about the executable
   broker model Model/Broker.v (`step`, `run`, `handle_connect`, `conn_gone`), for every state /
   event list.

   Vocabulary (defined in Proofs/BrokerInvP.v):
     attached ph            phase is PhConnected or PhZombie
     BInv s                 the structural invariant; BInv_spec spells it out ((a)-(e) below)
     cv s c = None          socket c is not attached to any client id in s
     hc_rejected cn s       CONNECT cn is refused in s (empty client id not allowed / authentication)
     hc_cid cn s            the client id CONNECT cn is registered under (cn_cid, or autoN when assigned)
     closed_at s c          socket c exists and is PhClosed
     reopens c e            event e is EConnect c _ / EOpen c (the harness reuses the socket label)
     takeover_expiry k se   the Session Expiry Interval in force when connection k ends
     session_alive cid s    the stored session of cid has not been ended (see C05_resume_iff)
     SubsInv s              the subscription store is a well-formed history and only clients with a
                            session have entries in it *)
From Coq Require Import List NArith Bool.
Import ListNotations.
From GM Require Import Base.Topic Base.Msg Model.SubTrie Model.Queue Model.Limiter Model.Broker
                       Proofs.SubTrieP Proofs.BrokerInvP.
Open Scope N_scope.

(* ---------- 1. the invariant ---------- *)

Theorem C05_invariant_init : forall (c : cfg) (h : hooks) (p : list nat), BInv (st_init c h p).
Proof. exact BInv_init. Qed.
Print Assumptions C05_invariant_init.

Theorem C05_invariant_step : forall (s : st) (e : event), BInv s -> BInv (fst (step s e)).
Proof. exact step_inv. Qed.
Print Assumptions C05_invariant_step.

Theorem C05_invariant_reachable :
  forall (c : cfg) (h : hooks) (p : list nat) (es : list event), BInv (fst (run (st_init c h p) es)).
Proof. exact reachable_inv. Qed.
Print Assumptions C05_invariant_reachable.

(* what the invariant says *)
Theorem C05_invariant_meaning : forall s : st,
  BInv s <->
  (forall cid c, aget cid (b_online s) = Some c ->
     exists k, nget c (b_conns s) = Some k /\ k_cid k = cid /\ attached (k_phase k) = true) /\
  (forall c k, nget c (b_conns s) = Some k -> attached (k_phase k) = true -> aget (k_cid k) (b_online s) = Some c) /\
  (forall cid, ahas cid (b_online s) = true -> ahas cid (b_offline s) = false) /\
  (forall cid, ahas cid (b_online s) || ahas cid (b_offline s) = true ->
     ahas cid (b_sessions s) = true /\ ahas cid (b_queues s) = true /\ ahas cid (b_unacks s) = true) /\
  (forall cid, ahas cid (b_sessions s) = true -> ahas cid (b_online s) || ahas cid (b_offline s) = true) /\
  NoDup (map fst (b_online s)) /\ NoDup (map fst (b_offline s)) /\ NoDup (map fst (b_sessions s)) /\
  NoDup (map fst (b_queues s)) /\ NoDup (map fst (b_unacks s)) /\ NoDup (map fst (b_conns s)) /\
  NoDup (map fst (b_wills s)) /\
  (forall c k, nget c (b_conns s) = Some k -> attached (k_phase k) = true -> k_force_remove k = false) /\
  (forall cid, ahas cid (b_sessions s) = true -> cid <> []).
Proof. exact BInv_iff_spec. Qed.
Print Assumptions C05_invariant_meaning.

(* the subscription store belongs to the sessions, in every reachable state *)
Theorem C05_subscriptions_reachable :
  forall (c : cfg) (h : hooks) (p : list nat) (es : list event), SubsInv (fst (run (st_init c h p) es)).
Proof. exact reachable_subsinv. Qed.
Print Assumptions C05_subscriptions_reachable.

Example C05_invariant_nonvacuous :
  b_online ex_s1 = [([97], 1)] /\ b_offline ex_s2 = [([97], 1000000100000)] /\ BInv ex_s1 /\ BInv ex_s2.
Proof.
  split; [vm_compute; reflexivity|]. split; [vm_compute; reflexivity|].
  assert (H1 : BInv ex_s1) by (unfold ex_s1; apply run_inv, BInv_init).
  split; [exact H1|]. unfold ex_s2. apply run_inv. exact H1.
Qed.

(* ---------- 2. one connection per client id ---------- *)

Theorem C05_one_connection :
  forall (s : st) (c1 c2 : N) (k1 k2 : conn),
    BInv s -> nget c1 (b_conns s) = Some k1 -> nget c2 (b_conns s) = Some k2 ->
    attached (k_phase k1) = true -> attached (k_phase k2) = true -> k_cid k1 = k_cid k2 -> c1 = c2.
Proof. exact one_connection. Qed.
Print Assumptions C05_one_connection.

Example C05_one_connection_nonvacuous :
  exists k, nget 1 (b_conns ex_s1) = Some k /\ attached (k_phase k) = true /\ k_cid k = [97].
Proof. eexists. vm_compute. repeat split. Qed.

(* ---------- 3. take-over ---------- *)

(* a CONNECT that is not refused, for a client id attached to another socket c0: the step's
   outputs are  o1 ++ OClose c0 :: o2 ++ CONNACK :: o3  with no packet at all in o1 and o2 (the
   CONNACK is the first packet of the step and comes after the close), nothing for c0 in o3, and
   c0 is closed afterwards *)
Theorem C05_displaced_closed_before_connack :
  forall (s : st) (c : N) (cn : connect) (c0 : N),
    BInv s -> hc_rejected cn s = false -> aget (hc_cid cn s) (b_online s) = Some c0 -> c0 <> c ->
    exists o1 o2 o3 sp props,
      snd (step s (EConnect c cn)) = o1 ++ OClose c0 :: o2 ++ OSend c (KConnack sp 0 props) :: o3 /\
      Forall nosend o1 /\ Forall nosend o2 /\ (forall p, ~ In (OSend c0 p) o3) /\
      closed_at (fst (step s (EConnect c cn))) c0.
Proof. exact displaced_closed_before_connack. Qed.
Print Assumptions C05_displaced_closed_before_connack.

Example C05_displaced_nonvacuous :
  hc_rejected (ex_cn false) ex_s1 = false /\ aget (hc_cid (ex_cn false) ex_s1) (b_online ex_s1) = Some 1 /\
  snd (step ex_s1 (EConnect 2 (ex_cn false))) = [OClose 1; OSend 2 (KConnack true 0 [])].
Proof. vm_compute. repeat split. Qed.

(* a closed socket is never written to again, and stays closed, until its label is reused *)
Theorem C05_nothing_to_closed_step :
  forall (s : st) (e : event) (c0 : N) (p : pkt),
    reopens c0 e = false -> closed_at s c0 -> ~ In (OSend c0 p) (snd (step s e)).
Proof. exact nothing_to_closed_step. Qed.
Print Assumptions C05_nothing_to_closed_step.

Theorem C05_closed_stays_closed :
  forall (s : st) (e : event) (c0 : N), reopens c0 e = false -> closed_at s c0 -> closed_at (fst (step s e)) c0.
Proof. exact step_closed. Qed.
Print Assumptions C05_closed_stays_closed.

Theorem C05_nothing_to_closed :
  forall (es : list event) (s : st) (c0 : N),
    closed_at s c0 -> forallb (fun e => negb (reopens c0 e)) es = true ->
    forall o p, In o (snd (run s es)) -> ~ In (OSend c0 p) o.
Proof. exact nothing_to_closed_run. Qed.
Print Assumptions C05_nothing_to_closed.

Example C05_nothing_to_closed_nonvacuous :
  let s := fst (step ex_s1 (EConnect 2 (ex_cn false))) in
  let es := [EApiPublish ex_msg; ESend 1 KPingreq; EClose 1; ESleep 10] in
  closed_at s 1 /\ forallb (fun e => negb (reopens 1 e)) es = true /\
  snd (run s es) = [[OSend 2 (KPublish false 1 false [116] [120] 1 [])]; []; []; []].
Proof. vm_compute. repeat split. Qed.

(* ---------- 4. Session Present ---------- *)

(* the client id is offline and its deadline has not passed, or it is attached to another socket
   and the interval in force at the take-over is not zero *)
Theorem C05_session_alive_def : forall (cid : str) (s : st),
  session_alive cid s <->
  (exists dl, aget cid (b_offline s) = Some dl /\ b_now s <= dl) \/
  (exists c0 k0 se, aget cid (b_online s) = Some c0 /\ nget c0 (b_conns s) = Some k0 /\
                    aget cid (b_sessions s) = Some se /\ takeover_expiry k0 se (b_cfg s) <> 0).
Proof. exact session_alive_def. Qed.
Print Assumptions C05_session_alive_def.

Theorem C05_takeover_expiry_def : forall (k : conn) (se : session) (cf : cfg),
  takeover_expiry k se cf =
  if (k_v k =? 5) && k_got_disconnect k
  then N.min (match k_disc_sei k with Some x => x | None => se_expiry se end) (c_session_expiry cf)
  else se_expiry se.
Proof. exact takeover_expiry_def. Qed.
Print Assumptions C05_takeover_expiry_def.

(* `hc_rejected cn s = false` means exactly: the CONNACK has reason code 0 *)
Theorem C05_connack_success_iff : forall (c : N) (cn : connect) (s : st),
  hc_rejected cn s = false <-> exists sp props, In (OSend c (KConnack sp 0 props)) (snd (handle_connect c cn s)).
Proof. exact connack_success_iff. Qed.
Print Assumptions C05_connack_success_iff.

Theorem C05_resume_iff :
  forall (c : N) (cn : connect) (s : st) (sp : bool) (props : list prop),
    BInv s -> cv s c = None -> hc_rejected cn s = false ->
    In (OSend c (KConnack sp 0 props)) (snd (handle_connect c cn s)) ->
    (sp = true <-> cn_clean cn = false /\ session_alive (hc_cid cn s) s).
Proof. exact resume_iff. Qed.
Print Assumptions C05_resume_iff.

(* the same for a whole CONNECT event (the previous connection of the socket label ends first) *)
Theorem C05_resume_iff_step :
  forall (c : N) (cn : connect) (s : st) (sp : bool) (props : list prop),
    BInv s -> hc_rejected cn s = false ->
    In (OSend c (KConnack sp 0 props)) (snd (step_event s (EConnect c cn))) ->
    (sp = true <-> cn_clean cn = false /\
                   session_alive (hc_cid cn (fst (conn_gone c s))) (fst (conn_gone c s))).
Proof. exact resume_iff_step. Qed.
Print Assumptions C05_resume_iff_step.

Example C05_resume_nonvacuous_present :
  cv ex_s2 2 = None /\ hc_rejected (ex_cn false) ex_s2 = false /\
  snd (handle_connect 2 (ex_cn false) ex_s2) = [OSend 2 (KConnack true 0 [])].
Proof. vm_compute. repeat split. Qed.

(* after the expiry interval, and with Clean Start *)
Example C05_resume_nonvacuous_absent :
  snd (handle_connect 2 (ex_cn false) ex_s3) = [OSend 2 (KConnack false 0 [])] /\
  snd (handle_connect 2 (ex_cn true) ex_s2) = [OSend 2 (KConnack false 0 [])].
Proof. vm_compute. repeat split. Qed.

(* the deadline of an offline session counts from the end of its connection *)
Theorem C05_offline_deadline_from_disconnect :
  forall (c : N) (k : conn) (s : st) (dl : N),
    BInv s -> nget c (b_conns s) = Some k -> attached (k_phase k) = true ->
    aget (k_cid k) (b_offline (fst (conn_gone c s))) = Some dl ->
    exists se, aget (k_cid k) (b_sessions s) = Some se /\ takeover_expiry k se (b_cfg s) <> 0 /\
               dl = b_now s + takeover_expiry k se (b_cfg s) * 1000.
Proof. exact offline_deadline_from_disconnect. Qed.
Print Assumptions C05_offline_deadline_from_disconnect.

Example C05_offline_deadline_nonvacuous :
  aget [97] (b_offline (fst (conn_gone 1 ex_s1))) = Some (b_now ex_s1 + 100 * 1000).
Proof. vm_compute. reflexivity. Qed.

(* the stored Session Expiry Interval *)
Theorem C05_connect_expiry_def : forall (cn : connect) (cf : cfg),
  connect_expiry cn cf =
  if cn_ver cn =? 5 then match p_sei (cn_props cn) with Some i => N.min i (c_session_expiry cf) | None => 0 end
  else if cn_clean cn then 0 else c_session_expiry cf.
Proof. exact connect_expiry_def. Qed.
Print Assumptions C05_connect_expiry_def.

Theorem C05_session_expiry_value_connect :
  forall (c : N) (cn : connect) (s : st),
    hc_rejected cn s = false ->
    exists se, aget (hc_cid cn s) (b_sessions (fst (handle_connect c cn s))) = Some se /\
               se_expiry se = connect_expiry cn (b_cfg s).
Proof. exact connect_session_expiry. Qed.
Print Assumptions C05_session_expiry_value_connect.

Theorem C05_session_expiry_value_disconnect :
  forall (c : N) (k : conn) (s : st) (code : N) (props : list prop) (se : session) (x : N),
    nget c (b_conns s) = Some k -> k_phase k = PhConnected -> k_v k = 5 ->
    aget (k_cid k) (b_sessions s) = Some se -> se_expiry se <> 0 -> p_sei props = Some x -> x <> 0 ->
    aget (k_cid k) (b_sessions (fst (step s (ESend c (KDisconnect code props))))) =
    Some (stored_session se (N.min x (c_session_expiry (b_cfg s)))).
Proof. exact disconnect_session_expiry. Qed.
Print Assumptions C05_session_expiry_value_disconnect.

(* and that is also the interval in force when the zombie left by the DISCONNECT goes away *)
Theorem C05_session_expiry_value_after_disconnect :
  forall (k : conn) (se : session) (cf : cfg) (x : N) (clean_will : bool),
    k_v k = 5 ->
    takeover_expiry (set_phase PhZombie (set_disc clean_will (Some x) k)) se cf = N.min x (c_session_expiry cf).
Proof. exact takeover_expiry_after_disconnect. Qed.
Print Assumptions C05_session_expiry_value_after_disconnect.

Example C05_session_expiry_nonvacuous :
  (exists se, aget [98] (b_sessions ex_s5) = Some se /\ se_expiry se = 30) /\
  (exists se, aget [98] (b_sessions (fst (step ex_s5 (ESend 3 (KDisconnect 0 [PSei 50]))))) = Some se /\ se_expiry se = 50) /\
  (exists se, aget [98] (b_sessions (fst (step ex_s5 (ESend 3 (KDisconnect 0 [PSei 500]))))) = Some se /\ se_expiry se = 100).
Proof. repeat split; eexists; vm_compute; split; reflexivity. Qed.

(* ---------- 5. what the client finds ---------- *)

Theorem C05_fresh_session_is_empty :
  forall (c : N) (cn : connect) (s : st) (props : list prop),
    BInv s -> SubsInv s -> cv s c = None -> hc_rejected cn s = false ->
    In (OSend c (KConnack false 0 props)) (snd (handle_connect c cn s)) ->
    (exists q, aget (hc_cid cn s) (b_queues (fst (handle_connect c cn s))) = Some q /\ q_l q = []) /\
    aget (hc_cid cn s) (b_unacks (fst (handle_connect c cn s))) = Some [] /\
    db_iterate (q_client (hc_cid cn s)) (b_subs (fst (handle_connect c cn s))) = IOk [] /\
    db_iterate (q_sh_client (hc_cid cn s)) (b_subs (fst (handle_connect c cn s))) = IOk [].
Proof. exact fresh_session_is_empty. Qed.
Print Assumptions C05_fresh_session_is_empty.

Example C05_fresh_nonvacuous :
  snd (handle_connect 2 (ex_cn true) ex_s2) = [OSend 2 (KConnack false 0 [])] /\
  (exists q, aget [97] (b_queues ex_s2) = Some q /\ length (q_l q) = 1%nat) /\
  db_iterate (q_client [97]) (b_subs ex_s2) <> IOk [] /\
  db_iterate (q_client [97]) (b_subs (fst (handle_connect 2 (ex_cn true) ex_s2))) = IOk [].
Proof.
  split; [vm_compute; reflexivity|]. split; [eexists; vm_compute; split; reflexivity|].
  split; [vm_compute; discriminate|vm_compute; reflexivity].
Qed.

(* Session Present 1: the subscription store is untouched; the queue and the unack set are the
   ones the session had when its previous connection (if it was still attached) had ended *)
Theorem C05_resumed_session_is_intact :
  forall (c : N) (cn : connect) (s : st) (props : list prop),
    BInv s -> cv s c = None -> hc_rejected cn s = false ->
    In (OSend c (KConnack true 0 props)) (snd (handle_connect c cn s)) ->
    b_subs (fst (handle_connect c cn s)) = b_subs s /\
    aget (hc_cid cn s) (b_unacks (fst (handle_connect c cn s))) =
      aget (hc_cid cn s) (b_unacks (fst (hc_takeover (hc_cid cn s) (hc_auto cn s)))) /\
    exists q q', aget (hc_cid cn s) (b_queues (fst (hc_takeover (hc_cid cn s) (hc_auto cn s)))) = Some q /\
                 aget (hc_cid cn s) (b_queues (fst (handle_connect c cn s))) = Some q' /\ q_l q' = q_l q.
Proof. exact resumed_session_is_intact. Qed.
Print Assumptions C05_resumed_session_is_intact.

Example C05_resumed_nonvacuous :
  snd (handle_connect 2 (ex_cn false) ex_s2) = [OSend 2 (KConnack true 0 [])] /\
  (exists q, aget [97] (b_queues (fst (handle_connect 2 (ex_cn false) ex_s2))) = Some q /\ length (q_l q) = 1%nat) /\
  snd (step ex_s2 (EConnect 2 (ex_cn false))) =
    [OSend 2 (KConnack true 0 []); OSend 2 (KPublish false 1 false [116] [120] 1 [])].
Proof.
  split; [vm_compute; reflexivity|]. split; [eexists; vm_compute; split; reflexivity|vm_compute; reflexivity].
Qed.
