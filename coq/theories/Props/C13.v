(* C13 - negotiated limits (component level: outbound topic aliases).  The wire-level half
   (packet sizes, inbound alias / quota / size enforcement, all valid configurations) is
   checked on the broker model by the C13 check. *)
From Coq Require Import List NArith.
Import ListNotations.
From GM Require Import Base.Topic Model.Limiter Oracle.C03O Proofs.LimiterP.
Open Scope N_scope.

(* for every sequence of outbound topics: every alias used is within 1..max and a client
   replaying the stream resolves it to the message's real topic *)
Theorem C13_out_alias :
  forall (max : N) (ts : list str), 1 <= max <= 65535 -> alias_ok max [] ts (am_run (am_new max) ts) = true.
Proof. exact alias_refines_client_table. Qed.
Print Assumptions C13_out_alias.

Theorem C13_alias_no_panic :
  forall (t : str) (m : amgr), 1 <= am_max m -> snd (am_check t m) <> APanic.
Proof. exact am_check_no_panic. Qed.
Print Assumptions C13_alias_no_panic.

Example C13_nonvacuous :
  am_run (am_new 2) [[97]; [98]; [97]; [99]; [98]; [97]]%N =
  [AOk 1 false; AOk 2 false; AOk 1 true; AOk 1 false; AOk 2 true; AOk 2 false]%N.
Proof. vm_compute. reflexivity. Qed.
