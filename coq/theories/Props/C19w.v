(* C19 (broker half) - "No broker state is reachable without passing authentication", proved of the broker model
   Model/Broker.v for all states and event lists (Proofs/BrokerAuthP.v).  The account-table / plugin half is
   Props/C19.v.  Here the authentication plugin is the table h_auth = Some (tbl, dflt) of the hooks record: the
   scripted OnBasicAuth hook, consulted by auth_code / hc_code in handle_connect.
     unattached s c              socket c has no record or is PhFresh / PhDead / PhClosed: it has not passed CONNECT
                                 (Proofs/BrokerHooksP.v; C19_unattached_phases);
     hc_code cn s                the code the CONNECT is refused with (0 = let in): Proofs/BrokerInvP.v;
     cid_allowed cn s            the client id passes the zero-length check (else CONNACK 133 before any hook);
     hc_cid cn s                 the client id the connection is registered under (its own, or broker-assigned autoN);
     table_code tbl dflt u p     the code of the first table entry for (u, p), dflt when there is none;
     enhanced_auth cn            v5 CONNECT with an Authentication Method (not configured: always refused, 128);
     connack_ok c o              the output o contains a CONNACK with code 0 for socket c;
     accepts s e cid             e = EConnect c cn, cid_allowed, hc_code = 0, hc_cid = cid, answered with code 0;
     accepted init cid es        some prefix of es (run from init) ends with an event that `accepts` cid;
     has_state cid s             cid has a session, online / offline registration, queue, pending will, or a
                                 subscription (found by deliver's lookup for some topic, or by the per-client lookups);
     b_tag                       the counter every queued message takes a tag from: unchanged = nothing was queued.
   Observations on the model are at the end (section 5). *)
From Coq Require Import List NArith Bool.
Import ListNotations.
From GM Require Import Base.Topic Base.Msg Model.SubTrie Model.SubSpec Model.RetTrie Model.Queue Model.Limiter
  Model.Broker Proofs.SubTrieP Proofs.BrokerQos2P Proofs.BrokerWillP Proofs.BrokerInvP Proofs.BrokerHooksP
  Proofs.BrokerAuthP.
Open Scope N_scope.

(* ================================================================== *)
(* 1. packets before a successful CONNECT                              *)
(* ================================================================== *)

Theorem C19_unattached_phases : forall s c,
  unattached s c <->
  forall k, nget c (b_conns s) = Some k -> k_phase k = PhFresh \/ k_phase k = PhDead \/ k_phase k = PhClosed.
Proof. exact unattached_phases. Qed.
Print Assumptions C19_unattached_phases.

(* Target 1.  unconnected_reply s c p is what send_unconnected does per phase:
     no record / PhClosed : nothing;
     PhFresh              : CONNACK 129 (3.x form), the socket becomes PhDead;
     PhDead               : a QoS>0 PUBLISH of a v5 client (closes_dead) closes the socket, anything else: nothing.
   Every packet p (with or without its wire size) on such a socket: no table changes, nothing is queued (b_tag),
   no random choice is consumed, no client id assigned; the output is nothing, one failing CONNACK, or OClose c;
   the other sockets are untouched and c stays unattached. *)
Theorem C19_no_state_without_connect : forall s c p s' o,
  unattached s c ->
  step_event s (ESend c p) = (s', o) \/ (exists n, step_event s (ESendSz c p n) = (s', o)) ->
  (s', o) = unconnected_reply s c p /\
  b_sessions s' = b_sessions s /\ b_subs s' = b_subs s /\ b_ret s' = b_ret s /\ b_wills s' = b_wills s /\
  b_queues s' = b_queues s /\ b_unacks s' = b_unacks s /\ b_online s' = b_online s /\ b_offline s' = b_offline s /\
  b_tag s' = b_tag s /\ b_npick s' = b_npick s /\ b_auto s' = b_auto s /\
  (o = [] \/ o = [OSend c (KConnack false 129 [])] \/ o = [OClose c]) /\
  (forall c', c' <> c -> nget c' (b_conns s') = nget c' (b_conns s)) /\
  unattached s' c.
Proof. exact no_state_without_connect. Qed.
Print Assumptions C19_no_state_without_connect.

(* the whole step: the poll loops that follow write nothing to c and change no table but the queues (of attached
   clients) *)
Theorem C19_no_state_without_connect_step : forall s c p e,
  unattached s c -> e = ESend c p \/ (exists n, e = ESendSz c p n) ->
  tables_nq (fst (step s e)) = tables_nq s /\
  sent_to c (snd (step s e)) = sent_to c (snd (unconnected_reply s c p)) /\
  unattached (fst (step s e)) c.
Proof. exact no_state_without_connect_step. Qed.
Print Assumptions C19_no_state_without_connect_step.

(* ... nor the retained store, and nothing is queued *)
Theorem C19_no_publish_without_connect : forall s c p e,
  unattached s c -> e = ESend c p \/ (exists n, e = ESendSz c p n) ->
  b_ret (fst (step s e)) = b_ret s /\ b_tag (fst (step s e)) = b_tag s.
Proof. exact send_unattached_rt. Qed.
Print Assumptions C19_no_publish_without_connect.

(* a quiescent broker (all poll loops parked: what the harness observes): the step is the event *)
Theorem C19_no_state_without_connect_quiescent : forall s c p e,
  quiescent s = true -> unattached s c -> e = ESend c p \/ (exists n, e = ESendSz c p n) ->
  step s e = unconnected_reply s c p /\ tables (fst (step s e)) = tables s /\ quiescent (fst (step s e)) = true.
Proof. exact no_state_without_connect_quiescent. Qed.
Print Assumptions C19_no_state_without_connect_quiescent.

Example C19_stranger_nonvacuous : unattached ax_opened 1 /\ quiescent ax_opened = true /\ unattached ax_init 1.
Proof. exact ax_stranger_hyps. Qed.

(* a stranger opens socket 1 and sends SUBSCRIBE, then PUBLISH: CONNACK 129, then nothing; no table changes *)
Example C19_stranger_subscribe :
  snd (run ax_opened [ESend 1 ax_sub; ESend 1 (ax_pub 1)]) = [[OSend 1 (KConnack false 129 [])]; []] /\
  tables (fst (run ax_opened [ESend 1 ax_sub; ESend 1 (ax_pub 1)])) = tables ax_init /\
  b_tag (fst (run ax_opened [ESend 1 ax_sub; ESend 1 (ax_pub 1)])) = b_tag ax_init.
Proof. exact ax_stranger_subscribe. Qed.

Example C19_stranger_publish :
  snd (run ax_opened [ESend 1 (ax_pub 1)]) = [[OSend 1 (KConnack false 129 [])]] /\
  snd (run ax_init [ESend 1 (ax_pub 1)]) = [[]] /\
  tables (fst (run ax_opened [ESend 1 (ax_pub 1)])) = tables ax_init /\
  rdb_matched ax_T (b_ret (fst (run ax_opened [ESend 1 (ax_pub 1)]))) = [].
Proof. exact ax_stranger_publish. Qed.

(* ================================================================== *)
(* 2. CONNECT against the table                                        *)
(* ================================================================== *)

(* Target 2a: refused - exactly one failing CONNACK, no table changes, the socket is dead and unattached *)
Theorem C19_rejected_connect_no_state : forall c cn s s' o,
  unattached s c -> cid_allowed cn s = true -> hc_code cn s <> 0 ->
  step_event s (EConnect c cn) = (s', o) ->
  o = [OSend c (KConnack false (connack_code (cn_ver cn) (hc_code cn s)) [])] /\
  connack_code (cn_ver cn) (hc_code cn s) <> 0 /\
  b_sessions s' = b_sessions s /\ b_subs s' = b_subs s /\ b_ret s' = b_ret s /\ b_wills s' = b_wills s /\
  b_queues s' = b_queues s /\ b_unacks s' = b_unacks s /\ b_online s' = b_online s /\ b_offline s' = b_offline s /\
  (exists k, nget c (b_conns s') = Some k /\ k_phase k = PhDead) /\
  (forall c', c' <> c -> nget c' (b_conns s') = nget c' (b_conns s)) /\
  unattached s' c.
Proof. exact rejected_connect_no_state. Qed.
Print Assumptions C19_rejected_connect_no_state.

(* the verdict against the table *)
Theorem C19_hc_code_table : forall cn s tbl dflt,
  h_auth (b_hooks s) = Some (tbl, dflt) ->
  hc_code cn s = if enhanced_auth cn then 128 else table_code tbl dflt (cn_user_s cn) (cn_pass_s cn).
Proof. exact hc_code_table. Qed.
Print Assumptions C19_hc_code_table.

Theorem C19_hc_code_no_table : forall cn s,
  h_auth (b_hooks s) = None -> hc_code cn s = if enhanced_auth cn then 128 else 0.
Proof. exact hc_code_no_table. Qed.
Print Assumptions C19_hc_code_no_table.

(* table_code = 0 without `find`: the first entry for the pair carries 0, or there is none and the default is 0 *)
Theorem C19_table_code_zero : forall tbl dflt u p,
  table_code tbl dflt u p = 0 <->
  (exists pre post, tbl = pre ++ (u, p, 0) :: post /\ forall c, ~ In (u, p, c) pre) \/
  ((forall c, ~ In (u, p, c) tbl) /\ dflt = 0).
Proof. exact table_code_zero. Qed.
Print Assumptions C19_table_code_zero.

Theorem C19_hc_code_zero_iff : forall cn s tbl dflt,
  h_auth (b_hooks s) = Some (tbl, dflt) ->
  (hc_code cn s = 0 <-> enhanced_auth cn = false /\ table_code tbl dflt (cn_user_s cn) (cn_pass_s cn) = 0).
Proof. exact hc_code_zero_iff. Qed.
Print Assumptions C19_hc_code_zero_iff.

(* Target 2b: CONNACK code 0 iff the table lets the pair in (for any state of socket c) *)
Theorem C19_accept_iff_table : forall s c cn tbl dflt,
  h_auth (b_hooks s) = Some (tbl, dflt) ->
  (connack_ok c (snd (step s (EConnect c cn))) <->
   cid_allowed cn s = true /\ enhanced_auth cn = false /\
   table_code tbl dflt (cn_user_s cn) (cn_pass_s cn) = 0).
Proof. exact accept_iff_table. Qed.
Print Assumptions C19_accept_iff_table.

Theorem C19_accept_iff_table_event : forall s c cn tbl dflt,
  h_auth (b_hooks s) = Some (tbl, dflt) ->
  (connack_ok c (snd (step_event s (EConnect c cn))) <->
   cid_allowed cn s = true /\ enhanced_auth cn = false /\
   table_code tbl dflt (cn_user_s cn) (cn_pass_s cn) = 0).
Proof. exact accept_iff_table_event. Qed.
Print Assumptions C19_accept_iff_table_event.

Theorem C19_accept_iff_no_table : forall s c cn,
  h_auth (b_hooks s) = None ->
  (connack_ok c (snd (step s (EConnect c cn))) <-> cid_allowed cn s = true /\ enhanced_auth cn = false).
Proof. exact accept_iff_no_table. Qed.
Print Assumptions C19_accept_iff_no_table.

Example C19_refused_nonvacuous :
  unattached ax_init 2 /\ cid_allowed ax_wrong_pw ax_init = true /\
  hc_code ax_wrong_pw ax_init = 134 /\ hc_code ax_anonymous ax_init = 134 /\ hc_code ax_enhanced ax_init = 128 /\
  table_code [(ax_U, ax_P, 0)] 134 (cn_user_s ax_wrong_pw) (cn_pass_s ax_wrong_pw) = 134 /\
  table_code [(ax_U, ax_P, 0)] 134 (cn_user_s ax_enhanced) (cn_pass_s ax_enhanced) = 0 /\
  enhanced_auth ax_enhanced = true.
Proof. exact ax_refused_hyps. Qed.

(* wrong password, then PUBLISH QoS 0, SUBSCRIBE, PUBLISH QoS 1 (v5: the read loop ends, the socket is closed);
   no credentials (v3: 134 is shown as 135); right credentials but enhanced authentication asked for *)
Example C19_refused_then_publish :
  snd (run ax_init [EConnect 2 ax_wrong_pw; ESend 2 (ax_pub 0); ESend 2 ax_sub; ESend 2 (ax_pub 1)]) =
    [[OSend 2 (KConnack false 134 [])]; []; []; [OClose 2]] /\
  snd (run ax_init [EConnect 2 ax_anonymous; ESend 2 (ax_pub 1)]) = [[OSend 2 (KConnack false 135 [])]; []] /\
  snd (run ax_init [EConnect 2 ax_enhanced]) = [[OSend 2 (KConnack false 128 [])]] /\
  tables (fst (run ax_init [EConnect 2 ax_wrong_pw; ESend 2 (ax_pub 0); ESend 2 ax_sub; ESend 2 (ax_pub 1)])) = tables ax_init /\
  b_tag (fst (run ax_init [EConnect 2 ax_wrong_pw; ESend 2 (ax_pub 0); ESend 2 ax_sub; ESend 2 (ax_pub 1)])) = b_tag ax_init.
Proof. exact ax_refused_then_publish. Qed.

Example C19_accepted_connect :
  hc_code ax_good ax_init = 0 /\ cid_allowed ax_good ax_init = true /\ enhanced_auth ax_good = false /\
  table_code [(ax_U, ax_P, 0)] 134 (cn_user_s ax_good) (cn_pass_s ax_good) = 0 /\
  connack_ok 3 (snd (step ax_init (EConnect 3 ax_good))) /\
  ahas ax_A (b_sessions ax_in) = true /\ ahas ax_A (b_online ax_in) = true /\ ahas ax_A (b_queues ax_in) = true /\
  snd (run ax_in [ESend 3 ax_sub; ESend 3 (ax_pub 1)]) =
    [[OSend 3 (KSuback 1 [1] [])]; [OSend 3 (KPuback 7 0 []); OSend 3 (KPublish false 1 false ax_T [1] 1 [])]] /\
  map m_payload (rdb_matched ax_T (b_ret (fst (run ax_in [ESend 3 ax_sub; ESend 3 (ax_pub 1)])))) = [[1]].
Proof. exact ax_accepted. Qed.

(* ================================================================== *)
(* 3. history form: state only after an accepted CONNECT               *)
(* ================================================================== *)

(* one step: a client id appears in the session, queue or pending-will table only if it was there, or this
   event is a CONNECT that `accepts` it *)
Theorem C19_step_known : forall s e k, known k (fst (step s e)) -> known k s \/ accepts s e k.
Proof. exact step_known. Qed.
Print Assumptions C19_step_known.

Theorem C19_run_known : forall es s k, known k (fst (run s es)) -> known k s \/ accepted s k es.
Proof. exact run_known. Qed.
Print Assumptions C19_run_known.

(* the configuration and the hooks record (the table) never change along a run *)
Theorem C19_run_cfg_hooks : forall es s, b_cfg (fst (run s es)) = b_cfg s /\ b_hooks (fst (run s es)) = b_hooks s.
Proof. exact run_cfg_hooks. Qed.
Print Assumptions C19_run_cfg_hooks.

Theorem C19_has_state_known : forall k s, BInv s -> SubsInv s -> has_state k s -> known k s.
Proof. exact has_state_known. Qed.
Print Assumptions C19_has_state_known.

(* Target 3 *)
Theorem C19_state_only_after_accept : forall cf h p es k,
  has_state k (fst (run (st_init cf h p) es)) -> accepted (st_init cf h p) k es.
Proof. exact state_only_after_accept. Qed.
Print Assumptions C19_state_only_after_accept.

(* ... spelled out for the session table, as asked *)
Theorem C19_session_only_after_accept : forall cf h p es k,
  ahas k (b_sessions (fst (run (st_init cf h p) es))) = true -> accepted (st_init cf h p) k es.
Proof. exact (fun cf h p es k H => state_only_after_accept cf h p es k (hs_session _ _ H)). Qed.
Print Assumptions C19_session_only_after_accept.

(* ... against the table of the initial hooks record: the CONNECT carried a pair the table maps to 0 *)
Theorem C19_state_only_after_table_accept : forall cf h p es k tbl dflt,
  h_auth h = Some (tbl, dflt) ->
  has_state k (fst (run (st_init cf h p) es)) ->
  exists pre c cn post,
    es = pre ++ EConnect c cn :: post /\
    table_code tbl dflt (cn_user_s cn) (cn_pass_s cn) = 0 /\ enhanced_auth cn = false /\
    hc_cid cn (fst (run (st_init cf h p) pre)) = k /\
    connack_ok c (snd (step (fst (run (st_init cf h p) pre)) (EConnect c cn))).
Proof. exact state_only_after_table_accept. Qed.
Print Assumptions C19_state_only_after_table_accept.

(* an attached socket (PhConnected / PhZombie) belongs to a client that was let in *)
Theorem C19_attached_socket_was_accepted : forall cf h p es c,
  att (fst (run (st_init cf h p) es)) c ->
  exists k f, cv (fst (run (st_init cf h p) es)) c = Some (k, f) /\ accepted (st_init cf h p) k es.
Proof. exact attached_socket_was_accepted. Qed.
Print Assumptions C19_attached_socket_was_accepted.

Example C19_history_nonvacuous :
  accepted ax_init ax_A [EConnect 2 ax_wrong_pw; EConnect 3 ax_good; ESend 3 ax_sub] /\
  has_state ax_A (fst (run ax_init [EConnect 2 ax_wrong_pw; EConnect 3 ax_good; ESend 3 ax_sub])) /\
  ~ known ax_B (fst (run ax_init [EConnect 2 ax_wrong_pw; EConnect 3 ax_good; ESend 3 ax_sub])).
Proof. exact ax_accepted_history. Qed.

(* ================================================================== *)
(* 4. the retained store and publishing need a session                 *)
(* ================================================================== *)

(* Target 4.  on_attached s e: e is a packet on a socket that passed CONNECT (PhConnected, or PhZombie whose read
   loop still runs); lifecycle_event e: EConnect / EOpen / EClose / ETerminate / EExpireCheck / ESleep;
   has_will s: some stored session has a will, or a will is pending.  Apart from the administrative API, the
   retained store changes or a message is queued (b_tag) only in such steps. *)
Theorem C19_retained_and_publish_need_session : forall s e,
  ~ is_api e ->
  b_ret (fst (step s e)) <> b_ret s \/ b_tag (fst (step s e)) <> b_tag s ->
  on_attached s e \/ (lifecycle_event e /\ has_will s).
Proof. exact retained_and_publish_need_session. Qed.
Print Assumptions C19_retained_and_publish_need_session.

(* the contrapositive with the state hypothesis spelled out (NW s: no session has a will, none is pending) *)
Theorem C19_no_will_no_publish : forall s e,
  NW s -> ~ on_attached s e -> ~ is_api e ->
  b_ret (fst (step s e)) = b_ret s /\ b_tag (fst (step s e)) = b_tag s.
Proof. exact step_nw. Qed.
Print Assumptions C19_no_will_no_publish.

Example C19_no_will_nonvacuous :
  NW ax_in /\ ~ on_attached ax_in (EClose 3) /\ ~ is_api (EClose 3) /\
  b_ret (fst (step ax_in (EClose 3))) = b_ret ax_in /\ b_tag (fst (step ax_in (EClose 3))) = b_tag ax_in.
Proof. exact ax_no_will_hyps. Qed.

(* for the retained store the API exception is not needed: EApiPublish never stores a retained message *)
Theorem C19_retained_needs_session : forall s e,
  b_ret (fst (step s e)) <> b_ret s -> on_attached s e \/ (lifecycle_event e /\ has_will s).
Proof. exact retained_needs_session. Qed.
Print Assumptions C19_retained_needs_session.

(* both alternatives presuppose an accepted CONNECT: before anybody has passed authentication only the
   administrative API can queue anything, and nothing can store a retained message *)
Theorem C19_retained_and_publish_need_accept : forall cf h p es e,
  let s := fst (run (st_init cf h p) es) in
  ~ is_api e ->
  b_ret (fst (step s e)) <> b_ret s \/ b_tag (fst (step s e)) <> b_tag s ->
  exists k, accepted (st_init cf h p) k es.
Proof. exact retained_and_publish_need_accept. Qed.
Print Assumptions C19_retained_and_publish_need_accept.

Example C19_retained_nonvacuous :
  b_ret (fst (step ax_in (ESend 3 (ax_pub 1)))) <> b_ret ax_in /\ att ax_in 3 /\
  b_ret (fst (step ax_in_w (EClose 3))) <> b_ret ax_in_w /\ lifecycle_event (EClose 3) /\ has_will ax_in_w /\
  b_tag (fst (step (fst (run ax_in [ESend 3 ax_sub])) (EApiPublish (will_msg ax_will)))) <> b_tag (fst (run ax_in [ESend 3 ax_sub])) /\
  b_ret (fst (step ax_init (EApiPublish (will_msg ax_will)))) = b_ret ax_init.
Proof. exact ax_retained_changes. Qed.

(* ================================================================== *)
(* 5. observations                                                     *)
(* ================================================================== *)
(* - Nothing false was found: every target holds of the model as written (target 4 with "queue changes" read as
     "a message is queued", i.e. b_tag moves: the poll loops, acknowledgements, closing a connection and resuming
     a session rewrite queues without queueing anything).
   - A socket that never sent CONNECT and gets the CONNACK 129 is left PhDead with protocol version 0, so unlike
     a socket whose v5 CONNECT was refused it is never closed by the broker, whatever it sends
     (C19_stranger_subscribe vs. C19_refused_then_publish): it lingers until the peer closes it.
   - A zombie socket (PhZombie: the packet handlers have stopped after the client's DISCONNECT or an error without
     DISCONNECT packet, the peer has not closed yet) counts as attached: its read loop still charges the receive
     quota, so a QoS>0 PUBLISH of a v5 zombie with no quota left ends the connection and can fire its will; nothing
     else it sends has an effect.  It did pass CONNECT (C19_attached_socket_was_accepted).
   - Not covered here: the unack table b_unacks is not removed with the session (remove_session keeps it), so
     client ids stay in it; they still got there only through an accepted CONNECT, which is not proved here. *)
