(* C13 - limits negotiated at CONNECT, INBOUND half, on the broker model (Model/Broker.v): what CONNACK
   advertises and how the connection record starts; inbound topic aliases (0x94); the receive quota against the
   open QoS 2 publishes (0x93); the server's Maximum Packet Size (0x95); a well-formed PUBLISH is never answered
   by a DISCONNECT.  (The outbound half is in Props/C03w.v.)  All statements are about ALL states of the model;
   the proofs are in Proofs/BrokerLimitsP.v.

   Vocabulary (defined in Proofs/BrokerLimitsP.v):
     torn c code s      the teardown of socket c from state s: DISCONNECT(code) is written, then conn_gone c s
                        (close, unregister, a will may be queued)
     charged c k p b s  s with the read loop's quota charge for p when b = true, s itself otherwise
     to_sock c          the outputs addressed to socket c (packets and the close)
     open_ids s cid     the QoS 2 ids of session cid that are open: PUBLISH received, PUBREL not yet answered
     read_err k p       the error with which the read loop ends on p, in the order of its checks
     Qrel ex s k        quota <= Receive Maximum <= quota + |open|   (ex = true: quota + |open| = Receive Maximum)
     benign             an output that is neither a close nor a DISCONNECT packet *)
From Coq Require Import List NArith Bool.
Import ListNotations.
From GM Require Import Base.Topic Base.Msg Model.SubTrie Model.Queue Model.Limiter Model.TopicMatch Model.Broker
                       Proofs.BrokerBasicP Proofs.BrokerLimitsP.
Open Scope N_scope.

(* ---- 1. what CONNACK advertises; how the record starts ---- *)
Theorem C13_advertised :
  forall c cn s s' o sp props,
    handle_connect c cn s = (s', o) -> In (OSend c (KConnack sp 0 props)) o -> cn_ver cn = 5 ->
    p_recvmax props = Some (c_recv_max (b_cfg s)) /\ p_aliasmax props = Some (c_alias_max (b_cfg s)) /\
    p_maxpkt props = Some (c_max_packet (b_cfg s)) /\
    b_cfg s' = b_cfg s /\
    exists k, nget c (b_conns s') = Some k /\ k_phase k = PhConnected /\ k_v k = 5 /\
      k_quota k = c_recv_max (b_cfg s) /\ k_recv_max k = c_recv_max (b_cfg s) /\
      k_server_alias_max k = c_alias_max (b_cfg s) /\ k_alias_in k = [] /\
      (sp = false -> open_ids s' (k_cid k) = [] /\ QInv true s' c) /\
      (sp = true -> b_unacks s' = b_unacks s /\ (NoDup (open_ids s (k_cid k)) -> QInv false s' c)).
Proof. exact connack_advertises. Qed.
Print Assumptions C13_advertised.

Example C13_advertised_nonvacuous :
  snd (handle_connect 1 lx_connect lx_init) =
  [OSend 1 (KConnack false 0 [PSei 0; PRecvMax 2; PMaxQos 1; PRetainAvail 1; PAliasMax 3; PWildcard 1;
                              PSubIdAvail 1; PSharedAvail 1; PMaxPkt 100; PKeepAlive 0])] /\
  (k_quota (lx_conn lx_s0), k_recv_max (lx_conn lx_s0), k_server_alias_max (lx_conn lx_s0), k_alias_in (lx_conn lx_s0))
  = (2, 2, 3, []).
Proof. vm_compute. split; reflexivity. Qed.

(* ---- 2. inbound topic alias ---- *)
(* alias 0, alias above the advertised maximum, or an empty topic with an unbound alias: exactly DISCONNECT 0x94 and
   the close on that socket; the publish has no effect but the quota charge (none for alias 0: the decoder rejects
   it); what follows is the ordinary teardown *)
Theorem C13_alias_out_of_range_0x94 :
  forall s c k dup qos retain topic payload pid props a,
    let p := KPublish dup qos retain topic payload pid props in
    nget c (b_conns s) = Some k -> k_phase k = PhConnected -> k_v k = 5 ->
    p_alias props = Some a -> has_wild topic = false ->
    (a = 0 \/
     ((0 <? qos) && (k_quota k =? 0) = false /\ negb (k_retain_avail k) && retain = false /\
      (k_server_alias_max k < a \/
       (1 <= a <= k_server_alias_max k /\ topic = [] /\
        (nget a (k_alias_in k) = None \/ nget a (k_alias_in k) = Some []))))) ->
    let s1 := charged c k p (negb (a =? 0)) s in
    step_event s (ESend c p) = torn c 148 s1 /\
    b_queues s1 = b_queues s /\ b_ret s1 = b_ret s /\ b_subs s1 = b_subs s /\ b_unacks s1 = b_unacks s /\
    filter (to_sock c) (snd (step s (ESend c p))) = [OSend c (KDisconnect 148 []); OClose c] /\
    (exists k', nget c (b_conns (fst (step s (ESend c p)))) = Some k' /\ k_phase k' = PhClosed) /\
    b_unacks (fst (step s (ESend c p))) = b_unacks s.
Proof. exact alias_out_of_range_0x94. Qed.
Print Assumptions C13_alias_out_of_range_0x94.

Example C13_alias_out_of_range_nonvacuous :
  snd (run lx_s0 [lx_pub false 0 0 lx_T [PAlias 0]]) = [[OSend 1 (KDisconnect 148 []); OClose 1]] /\
  snd (run lx_s0 [lx_pub false 0 0 lx_T [PAlias 4]]) = [[OSend 1 (KDisconnect 148 []); OClose 1]] /\
  snd (run lx_s0 [lx_pub false 0 0 [] [PAlias 3]]) = [[OSend 1 (KDisconnect 148 []); OClose 1]] /\
  (k_phase (lx_conn lx_s0), k_v (lx_conn lx_s0), k_server_alias_max (lx_conn lx_s0)) = (PhConnected, 5, 3).
Proof. vm_compute. repeat split; reflexivity. Qed.

(* alias within 1..maximum: with a topic it is bound (other bindings unchanged), with an empty topic it resolves to
   its binding; the publish proceeds with that topic, is acknowledged, the connection stays up *)
Theorem C13_alias_in_range_accepted :
  forall s c k dup qos retain topic payload pid props a,
    let p := KPublish dup qos retain topic payload pid props in
    nget c (b_conns s) = Some k -> k_phase k = PhConnected -> k_v k = 5 ->
    p_alias props = Some a -> 1 <= a <= k_server_alias_max k -> has_wild topic = false ->
    (0 <? qos) && (k_quota k =? 0) = false -> negb (k_retain_avail k) && retain = false ->
    (topic <> [] \/ exists x nm, nget a (k_alias_in k) = Some (x :: nm)) ->
    exists tb t,
      alias_step k topic props = inl (tb, t) /\ t <> [] /\
      (topic <> [] -> t = topic /\ nget a tb = Some topic) /\
      (topic = [] -> nget a (k_alias_in k) = Some t /\ tb = k_alias_in k) /\
      (forall a', a' <> a -> nget a' tb = nget a' (k_alias_in k)) /\
      handle_packet c k p s =
        publish_body c (set_alias_in tb (charge k p)) true
                     (with_topic t (msg_of_publish true dup qos retain topic payload pid props)) qos pid
                     (upd_conn c (set_alias_in tb (charge k p)) s) /\
      exists s' o code k',
        step_event s (ESend c p) = (s', o ++ ack_of c qos pid code) /\ Forall isdrop o /\
        nget c (b_conns s') = Some k' /\ k_phase k' = PhConnected /\ k_alias_in k' = tb /\
        k_server_alias_max k' = k_server_alias_max k.
Proof. exact alias_in_range_accepted. Qed.
Print Assumptions C13_alias_in_range_accepted.

Example C13_alias_in_range_nonvacuous :
  snd (run lx_s0 [lx_pub false 0 0 lx_T [PAlias 2]; lx_pub false 1 7 [] [PAlias 2]]) = [[]; [OSend 1 (KPuback 7 16 [])]] /\
  k_alias_in (lx_conn (fst (run lx_s0 [lx_pub false 0 0 lx_T [PAlias 2]]))) = [(2, lx_T)].
Proof. vm_compute. split; reflexivity. Qed.

(* the only DISCONNECT codes a packet on a connected socket can cause, and to whom *)
Theorem C13_disconnect_codes :
  forall s c k p c' code pr,
    nget c (b_conns s) = Some k -> k_phase k = PhConnected ->
    In (OSend c' (KDisconnect code pr)) (snd (step s (ESend c p))) ->
    c' = c /\ pr = [] /\ (read_err k p = Some code \/ (read_err k p = None /\ In code [154; 148; 161; 130])).
Proof. exact send_disconnect_codes. Qed.
Print Assumptions C13_disconnect_codes.

(* ---- 3. the receive quota ---- *)
(* one PUBLISH that passed the read loop (charged quota q0 - 1 for QoS > 0): quota + open is conserved *)
Theorem C13_quota_publish_conserves :
  forall rm q0 U qos pid code,
    qos <= 2 -> (0 < qos -> 0 < q0) -> q0 <= rm -> NoDup U -> (qos = 2 -> In pid U -> code < 128) ->
    let r := pub_quota true rm (if 0 <? qos then q0 - 1 else q0) U qos pid code in
    fst r <= rm /\ NoDup (snd r) /\ fst r + N.of_nat (length (snd r)) = q0 + N.of_nat (length U).
Proof. exact pub_quota_conserves. Qed.
Print Assumptions C13_quota_publish_conserves.

(* how the open ids and the quota move with a PUBLISH that is accepted: pub_quota of the reason code sent *)
Theorem C13_quota_publish_step :
  forall s c k dup qos retain topic payload pid props tb t,
    let p := KPublish dup qos retain topic payload pid props in
    nget c (b_conns s) = Some k -> k_phase k = PhConnected ->
    read_err k p = None -> negb (k_retain_avail k) && retain = false -> alias_step k topic props = inl (tb, t) ->
    let U := open_ids s (k_cid k) in
    let v5 := k_v k =? 5 in
    exists s' o code,
      step_event s (ESend c p) = (s', o ++ ack_of c qos pid code) /\ Forall isdrop o /\
      b_cfg s' = b_cfg s /\ b_hooks s' = b_hooks s /\
      (forall c', c' <> c -> lv s' c' = lv s c') /\
      (qos = 2 -> In pid U -> code < 128) /\
      lv s' c = Some (k_cid k, k_v k, PhConnected, k_server_alias_max k, k_recv_max k, k_retain_avail k, tb,
                      fst (pub_quota v5 (k_recv_max k) (k_quota (charge k p)) U qos pid code)) /\
      open_ids s' (k_cid k) = snd (pub_quota v5 (k_recv_max k) (k_quota (charge k p)) U qos pid code) /\
      (forall cid', cid' <> k_cid k -> aget cid' (b_unacks s') = aget cid' (b_unacks s)).
Proof. exact publish_accepted. Qed.
Print Assumptions C13_quota_publish_step.

(* PUBREL: the id leaves the open set; one unit comes back, capped at the Receive Maximum - also for an id that
   was not open *)
Theorem C13_quota_pubrel_step :
  forall c k pid code props s,
    nget c (b_conns s) = Some k ->
    let U := open_ids s (k_cid k) in
    let q' := if (k_v k =? 5) && (k_quota k <? k_recv_max k) then k_quota k + 1 else k_quota k in
    exists s', handle_packet c k (KPubrel pid code props) s = HOk s' [OSend c (KPubcomp pid 0 [])] /\
      b_cfg s' = b_cfg s /\ b_hooks s' = b_hooks s /\
      (forall c', c' <> c -> lv s' c' = lv s c') /\ lv s' c = Some (lview (set_quota q' k)) /\
      open_ids s' (k_cid k) = unack_remove pid U /\
      (forall cid', cid' <> k_cid k -> aget cid' (b_unacks s') = aget cid' (b_unacks s)).
Proof. exact handle_pubrel_spec. Qed.
Print Assumptions C13_quota_pubrel_step.

(* the relation between quota and open publishes is an invariant of the events of one socket, for as long as the
   connection lives.  ex = false: quota <= RM <= quota + open, for all packet sequences of QoS <= 2.
   ex = true: quota + open = RM, when no PUBREL names an id that is not open while the quota is below RM. *)
Theorem C13_quota_invariant_step :
  forall ex s c e,
    on_socket c e = true -> ev_wf e = true -> (ex = true -> ev_pubrel_known s c e = true) ->
    QInv ex s c -> QInv ex (fst (step s e)) c.
Proof. exact QInv_step. Qed.
Print Assumptions C13_quota_invariant_step.

Theorem C13_quota_invariant :
  forall ex c es s, QInv ex s c -> run_ok (quota_side ex c) s es = true -> QInv ex (fst (run s es)) c.
Proof. exact quota_invariant_run. Qed.
Print Assumptions C13_quota_invariant.

Example C13_quota_invariant_nonvacuous :
  (* a new session satisfies the exact relation (by C13_advertised); a history with QoS 1, QoS 2, a retransmission and
     PUBRELs of open ids keeps it *)
  In (OSend 1 (KConnack false 0 [PSei 0; PRecvMax 2; PMaxQos 1; PRetainAvail 1; PAliasMax 3; PWildcard 1;
                                 PSubIdAvail 1; PSharedAvail 1; PMaxPkt 100; PKeepAlive 0]))
     (snd (handle_connect 1 lx_connect lx_init)) /\
  run_ok (quota_side true 1) lx_s0
         [lx_pub false 2 1 lx_T []; lx_pub false 1 5 lx_T []; lx_pub true 2 1 lx_T []; lx_rel 1; lx_pub false 2 2 lx_T []] = true /\
  (let s := fst (run lx_s0 [lx_pub false 2 1 lx_T []; lx_pub false 1 5 lx_T []; lx_pub true 2 1 lx_T []; lx_rel 1; lx_pub false 2 2 lx_T []]) in
   (k_phase (lx_conn s), k_quota (lx_conn s), open_ids s [112])) = (PhConnected, 1, [2]).
Proof. vm_compute. split; [now left|split; reflexivity]. Qed.

Example C13_quota_invariant_holds_initially : QInv true lx_s0 1 /\ QInv false lx_full 1.
Proof. split; apply qinv_b_ok; vm_compute; reflexivity. Qed.

(* the side condition "QoS <= 2" (ev_wf) is needed in the MODEL only: it accepts a PUBLISH with QoS 3 (the decoder
   of the implementation never delivers one), charges the quota for it and never gives the unit back *)
Example C13_quota_qos3_model_artefact :
  let es := [lx_pub false 3 1 lx_T []; lx_pub false 3 2 lx_T []; lx_pub false 1 3 lx_T []] in
  snd (run lx_s0 es) = [[]; []; [OSend 1 (KDisconnect 147 []); OClose 1]] /\
  run_ok (quota_side false 1) lx_s0 es = false.
Proof. vm_compute. split; reflexivity. Qed.

(* with the exact relation the equality fails after a PUBREL for an id that was never open: the unit it gives back
   lets a third publish in although Receive Maximum = 2 publishes are open - exceeding goes unnoticed *)
Example C13_quota_exact_refuted_by_unknown_pubrel :
  let es := [lx_pub false 2 1 lx_T []; lx_pub false 2 2 lx_T []; lx_rel 9; lx_pub false 2 3 lx_T []] in
  snd (run lx_s0 es) = [[OSend 1 (KPubrec 1 16 [])]; [OSend 1 (KPubrec 2 16 [])]; [OSend 1 (KPubcomp 9 0 [])];
                        [OSend 1 (KPubrec 3 16 [])]] /\
  open_ids (fst (run lx_s0 es)) [112] = [3; 2; 1] /\ k_recv_max (lx_conn (fst (run lx_s0 es))) = 2 /\
  run_ok (quota_side false 1) lx_s0 es = true /\ run_ok (quota_side true 1) lx_s0 es = false.
Proof. vm_compute. repeat split; reflexivity. Qed.

(* a client within the Receive Maximum is never answered with 0x93 ... *)
Theorem C13_within_recv_max_never_0x93 :
  forall s c k p c' pr,
    nget c (b_conns s) = Some k -> k_phase k = PhConnected -> (k_v k = 5 -> Qrel false s k) ->
    within_recv_max s k p = true ->
    ~ In (OSend c' (KDisconnect 147 pr)) (snd (step s (ESend c p))).
Proof. exact within_recv_max_never_0x93. Qed.
Print Assumptions C13_within_recv_max_never_0x93.

Example C13_within_recv_max_nonvacuous :
  let s := fst (run lx_s0 [lx_pub false 2 1 lx_T []]) in
  within_recv_max s (lx_conn s) (lx_pkt false 2 2 lx_T []) = true /\ nget 1 (b_conns s) = Some (lx_conn s) /\
  (k_phase (lx_conn s), k_v (lx_conn s), k_quota (lx_conn s), k_recv_max (lx_conn s), open_ids s [112]) = (PhConnected, 5, 1, 2, [1]) /\
  qrel_b false s (lx_conn s) = true.
Proof. vm_compute. repeat split; reflexivity. Qed.

(* the same along a history of one socket: if every QoS>0 PUBLISH arrives while fewer than Receive Maximum QoS 2
   publishes are open (retransmissions included, as long as the quota is not used up), no step answers 0x93 *)
Theorem C13_within_recv_max_never_0x93_run :
  forall c es s,
    QInv false s c -> run_ok (fun s e => quota_side false c s e && ev_within s c e) s es = true ->
    forall o c' pr, In o (snd (run s es)) -> ~ In (OSend c' (KDisconnect 147 pr)) o.
Proof. exact never_0x93_run. Qed.
Print Assumptions C13_within_recv_max_never_0x93_run.

Example C13_within_recv_max_run_nonvacuous :
  run_ok (fun s e => quota_side false 1 s e && ev_within s 1 e) lx_s0
         [lx_pub false 2 1 lx_T []; lx_pub false 1 5 lx_T []; lx_pub true 2 1 lx_T []; lx_rel 1; lx_pub false 2 2 lx_T [];
          lx_pub false 1 6 lx_T []] = true /\
  qinv_b false lx_s0 1 = true.
Proof. vm_compute. split; reflexivity. Qed.

(* ... except in the known finding (kf_recvmax_dup_qos2 / kf_resend_at_full_quota_disconnected): the statement with
   "at most Receive Maximum DISTINCT ids open" in place of within_recv_max is false.  Two QoS 2 publishes are open
   (Receive Maximum = 2), the client repeats the first with DUP - still two distinct ids - and is disconnected *)
Example C13_within_recv_max_never_0x93_refuted :
  nget 1 (b_conns lx_full) = Some (lx_conn lx_full) /\ k_phase (lx_conn lx_full) = PhConnected /\
  open_ids lx_full [112] = [2; 1] /\ k_recv_max (lx_conn lx_full) = 2 /\ k_quota (lx_conn lx_full) = 0 /\
  memN 1 (open_ids lx_full [112]) = true /\
  snd (step lx_full (lx_pub true 2 1 lx_T [])) = [OSend 1 (KDisconnect 147 []); OClose 1].
Proof. vm_compute. repeat split; reflexivity. Qed.

(* a QoS>0 PUBLISH arriving at quota 0 (with the exact relation: when Receive Maximum publishes are open) is answered
   with exactly DISCONNECT 0x93 and the close; nothing else happens to it *)
Theorem C13_exceeding_recv_max_0x93 :
  forall s c k dup qos retain topic payload pid props,
    let p := KPublish dup qos retain topic payload pid props in
    nget c (b_conns s) = Some k -> k_phase k = PhConnected -> k_v k = 5 ->
    decodes k topic props = true -> 0 < qos ->
    (k_quota k = 0 \/ (Qrel true s k /\ N.of_nat (length (open_ids s (k_cid k))) = k_recv_max k)) ->
    step_event s (ESend c p) = torn c 147 s /\
    filter (to_sock c) (snd (step s (ESend c p))) = [OSend c (KDisconnect 147 []); OClose c] /\
    (exists k', nget c (b_conns (fst (step s (ESend c p)))) = Some k' /\ k_phase k' = PhClosed) /\
    b_unacks (fst (step s (ESend c p))) = b_unacks s.
Proof. exact exceeding_0x93. Qed.
Print Assumptions C13_exceeding_recv_max_0x93.

Example C13_exceeding_nonvacuous :
  decodes (lx_conn lx_full) lx_T [] = true /\ k_quota (lx_conn lx_full) = 0 /\
  snd (step lx_full (lx_pub false 1 3 lx_T [])) = [OSend 1 (KDisconnect 147 []); OClose 1].
Proof. vm_compute. repeat split; reflexivity. Qed.

(* ---- 4. the server's Maximum Packet Size ---- *)
Theorem C13_packet_size_small :
  forall s c p n,
    (forall k, nget c (b_conns s) = Some k -> k_phase k = PhConnected ->
               k_v k <> 5 \/ c_max_packet (b_cfg s) = 0 \/ n <= c_max_packet (b_cfg s)) ->
    step_event s (ESendSz c p n) = step_event s (ESend c p) /\ step s (ESendSz c p n) = step s (ESend c p).
Proof. exact packet_size_small. Qed.
Print Assumptions C13_packet_size_small.

(* too big: the read loop's errors first (129 wildcard in the topic / invalid filter, 148 alias 0, 130 empty topic
   without alias, 147 quota - read_err, in this order), otherwise 149 after the quota charge; exactly DISCONNECT and
   close on the socket; no handler runs: queues, retained messages, subscriptions and unack stores of the state the
   teardown starts from are those of s *)
Theorem C13_packet_size_big :
  forall s c k p n,
    nget c (b_conns s) = Some k -> k_phase k = PhConnected -> k_v k = 5 ->
    0 < c_max_packet (b_cfg s) < n ->
    step_event s (ESendSz c p n) = torn c (sz_code k p) (charged c k p (sz_charged k p) s) /\
    In (sz_code k p) [129; 148; 130; 147; 149] /\
    filter (to_sock c) (snd (step s (ESendSz c p n))) = [OSend c (KDisconnect (sz_code k p) []); OClose c] /\
    (exists k', nget c (b_conns (fst (step s (ESendSz c p n)))) = Some k' /\ k_phase k' = PhClosed) /\
    b_unacks (fst (step s (ESendSz c p n))) = b_unacks s.
Proof. exact packet_size_big. Qed.
Print Assumptions C13_packet_size_big.

Theorem C13_packet_size_untouched :
  forall c k p b s,
    b_queues (charged c k p b s) = b_queues s /\ b_ret (charged c k p b s) = b_ret s /\
    b_subs (charged c k p b s) = b_subs s /\ b_unacks (charged c k p b s) = b_unacks s /\
    b_sessions (charged c k p b s) = b_sessions s /\ b_cfg (charged c k p b s) = b_cfg s.
Proof. exact charged_tables. Qed.
Print Assumptions C13_packet_size_untouched.

Example C13_packet_size_nonvacuous :
  snd (step lx_s0 (ESendSz 1 (lx_pkt false 1 5 lx_T []) 101)) = [OSend 1 (KDisconnect 149 []); OClose 1] /\
  snd (step lx_s0 (ESendSz 1 (lx_pkt false 1 5 [43] []) 101)) = [OSend 1 (KDisconnect 129 []); OClose 1] /\
  snd (step lx_full (ESendSz 1 (lx_pkt false 1 5 lx_T []) 101)) = [OSend 1 (KDisconnect 147 []); OClose 1] /\
  snd (step lx_s0 (ESendSz 1 (lx_pkt false 1 5 lx_T []) 100)) = [OSend 1 (KPuback 5 16 [])] /\
  c_max_packet (b_cfg lx_s0) = 100.
Proof. vm_compute. repeat split; reflexivity. Qed.

(* ---- 5. a well-formed PUBLISH within the limits is never disconnected ---- *)
Theorem C13_no_other_disconnect :
  forall s c k dup qos retain topic payload pid props,
    let p := KPublish dup qos retain topic payload pid props in
    nget c (b_conns s) = Some k -> k_phase k = PhConnected ->
    wf_publish k qos retain topic props = true ->
    (exists s' o code, handle_packet c k p s = HOk s' (o ++ ack_of c qos pid code) /\ Forall isdrop o) /\
    Forall benign (snd (step s (ESend c p))) /\
    exists k', nget c (b_conns (fst (step s (ESend c p)))) = Some k' /\ k_phase k' = PhConnected.
Proof. exact wf_publish_no_disconnect. Qed.
Print Assumptions C13_no_other_disconnect.

Theorem C13_no_other_disconnect_sized :
  forall s c k dup qos retain topic payload pid props n,
    let p := KPublish dup qos retain topic payload pid props in
    nget c (b_conns s) = Some k -> k_phase k = PhConnected ->
    wf_publish k qos retain topic props = true -> too_big k n s = false ->
    Forall benign (snd (step s (ESendSz c p n))) /\
    exists k', nget c (b_conns (fst (step s (ESendSz c p n)))) = Some k' /\ k_phase k' = PhConnected.
Proof. exact wf_publish_no_disconnect_sz. Qed.
Print Assumptions C13_no_other_disconnect_sized.

Example C13_no_other_disconnect_nonvacuous :
  wf_publish (lx_conn lx_s0) 2 false lx_T [PAlias 3] = true /\ too_big (lx_conn lx_s0) 100 lx_s0 = false /\
  nget 1 (b_conns lx_s0) = Some (lx_conn lx_s0) /\ k_phase (lx_conn lx_s0) = PhConnected /\
  snd (step lx_s0 (ESendSz 1 (lx_pkt false 2 9 lx_T [PAlias 3]) 100)) = [OSend 1 (KPubrec 9 16 [])].
Proof. vm_compute. repeat split; reflexivity. Qed.
