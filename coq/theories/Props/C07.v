(* C07 - retained messages: last value per topic; lookups by filter return exactly the
   kept messages whose topic matches.  Statements only; proofs in Proofs/RetTrieP.v. *)
From Coq Require Import List NArith.
Import ListNotations.
From GM Require Import Base.Topic Base.Msg Model.SubTrie Model.RetTrie Model.TopicMatch Proofs.RetTrieP.

(* After any history of AddOrReplace / Remove / ClearAll the store answers a lookup by
   topic exactly as the flat map topic -> message does. *)
Theorem C07_store_get :
  forall (ops : list rop) (t : str), rdb_get t (rdb_run ops) = aget t (rspec_run ops).
Proof. exact ret_get_exact. Qed.
Print Assumptions C07_store_get.

(* The flat map holds, per topic, exactly the last RETAIN=1 message with a non-empty
   payload; an empty payload forgets the topic (what publishHandler does: retain_op). *)
Theorem C07_last_value :
  forall (msgs : list msg) (t : str),
    aget t (rspec_run (map retain_op msgs)) = last_retained t msgs None.
Proof. exact ret_last_value. Qed.
Print Assumptions C07_last_value.

(* Lookups by (well-formed) filter return exactly the kept messages whose topic matches
   under MQTT 4.7 (incl. the '$' rule), each once. *)
Theorem C07_lookup :
  forall (ops : list rop) (f : str),
    valid_filter_spec f = true ->
    (forall m, In m (rdb_matched f (rdb_run ops)) <->
               (aget (m_topic m) (rspec_run ops) = Some m /\ topic_match (m_topic m) f = true)) /\
    NoDup (map m_topic (rdb_matched f (rdb_run ops))).
Proof. exact ret_matched_exact. Qed.
Print Assumptions C07_lookup.

Theorem C07_iterate_all :
  forall (ops : list rop),
    (forall m, In m (rdb_all (rdb_run ops)) <-> aget (m_topic m) (rspec_run ops) = Some m) /\
    NoDup (map m_topic (rdb_all (rdb_run ops))).
Proof. exact ret_all_exact. Qed.
Print Assumptions C07_iterate_all.

(* non-vacuity: a history with prefix-related and '$' topics, a clear and a re-add *)
Definition mk (t p : str) : msg :=
  {| m_dup := false; m_qos := 1; m_retained := true; m_topic := t; m_payload := p; m_pid := 0;
     m_ctype := []; m_corr := []; m_expiry := 0; m_pfmt := 0; m_resp := []; m_subids := []; m_uprops := [] |}.
Example C07_nonvacuous :
  let a := [97]%N in let ab := [97; 47; 98]%N in let sys := [36; 115; 47; 97]%N in
  let msgs := [mk a [1]; mk ab [2]; mk sys [3]; mk a []; mk ab [4]]%N in
  map m_payload (rdb_matched [35]%N (rdb_run (map retain_op msgs))) = [[4]%N] /\
  map m_payload (rdb_matched [36; 115; 47; 35]%N (rdb_run (map retain_op msgs))) = [[3]%N] /\
  valid_filter_spec [35]%N = true.
Proof. vm_compute. repeat split. Qed.
