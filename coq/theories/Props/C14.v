(* C14 (dynamic half) - "Hook decisions are enforced", proved of the broker model Model/Broker.v for all
   states, packets and hook verdicts (Proofs/BrokerHooksP.v).  The static half - every wrapper is installed,
   nesting order - is Props/C14s.v.
   The hooks are the record `hooks` of the model: h_auth (OnBasicAuth), h_sub_all / h_sub (OnSubscribe),
   h_msg (OnMsgArrived), h_will (OnWillPublish).  The verdict functions used below are
     hc_code cn s                   the code the CONNECT is refused with (0 = accepted): auth_code, the scripted
                                    authentication hook - or 128 for a v5 CONNECT with an Authentication Method;
     sub_verdict h cid name         OnSubscribe for one topic:   SAccept | SReject code | SQos q;
     msg_verdict h topic            OnMsgArrived:                MAccept | MReject code | MDrop | MRewrite t p q;
     will_verdict h cid             OnWillPublish:               the same type.
   Statements that are false as first written, with their counterexamples: section 6. *)
From Coq Require Import List NArith Bool.
Import ListNotations.
From GM Require Import Base.Topic Base.Msg Model.SubTrie Model.SubSpec Model.RetTrie Model.Queue Model.Limiter
  Model.Broker Proofs.SubTrieP Proofs.BrokerQos2P Proofs.BrokerWillP Proofs.BrokerInvP Proofs.BrokerHooksP.
Open Scope N_scope.

(* ================================================================== *)
(* 1. CONNECT refused by the authentication hook                       *)
(* ================================================================== *)

Theorem C14_hc_code_is_auth_code : forall cn s,
  (cn_ver cn =? 5) && match p_authmethod (cn_props cn) with Some _ => true | None => false end = false ->
  hc_code cn s = auth_code cn s.
Proof. exact hc_code_is_auth_code. Qed.
Print Assumptions C14_hc_code_is_auth_code.

Theorem C14_auth_code_hook : forall cn s tbl dflt,
  h_auth (b_hooks s) = Some (tbl, dflt) ->
  auth_code cn s =
  match find (fun e => str_eqb (fst (fst e)) (opt_or (cn_user cn) []) && str_eqb (snd (fst e)) (opt_or (cn_pass cn) [])) tbl with
  | Some e => snd e
  | None => dflt
  end.
Proof. exact auth_code_hook. Qed.
Print Assumptions C14_auth_code_hook.
Theorem C14_auth_code_no_hook : forall cn s, h_auth (b_hooks s) = None -> auth_code cn s = 0.
Proof. exact auth_code_no_hook. Qed.
Print Assumptions C14_auth_code_no_hook.

(* the mapping of the hook's code to the CONNACK:
   connack_code v code = if negb (v =? 5) && (5 <? code) then 135 else code *)
Theorem C14_connack_code_v5 : forall code, connack_code 5 code = code.
Proof. exact connack_code_v5. Qed.
Print Assumptions C14_connack_code_v5.
Theorem C14_connack_code_v3_small : forall v code, v <> 5 -> code <= 5 -> connack_code v code = code.
Proof. exact connack_code_v3_small. Qed.
Print Assumptions C14_connack_code_v3_small.
Theorem C14_connack_code_v3_large : forall v code, v <> 5 -> 5 < code -> connack_code v code = 135.
Proof. exact connack_code_v3_large. Qed.
Print Assumptions C14_connack_code_v3_large.
Theorem C14_connack_code_fails : forall v code, code <> 0 -> connack_code v code <> 0.
Proof. exact connack_code_fails. Qed.
Print Assumptions C14_connack_code_fails.

(* Target 1.  A CONNECT arrives on a socket that carries no registered client (`unattached`), its client id
   passes the zero-length check (`cid_allowed`; otherwise it is refused with 133 before any hook is asked), and
   the hook refuses it: exactly one CONNACK, Session Present = 0, no properties, the mapped code; every table is
   as before - no session, subscription, will, retained message, queue, unack set or registration is created or
   changed, `deliver` is not applied; the socket is left in phase PhDead (what it sends from now on is ignored,
   with one exception: see C14_refused_socket_later). *)
Theorem C14_connect_rejected_leaves_nothing : forall c cn s s' o,
  unattached s c -> cid_allowed cn s = true -> hc_code cn s <> 0 ->
  step_event s (EConnect c cn) = (s', o) ->
  o = [OSend c (KConnack false (connack_code (cn_ver cn) (hc_code cn s)) [])] /\
  b_sessions s' = b_sessions s /\ b_subs s' = b_subs s /\ b_ret s' = b_ret s /\ b_wills s' = b_wills s /\
  b_queues s' = b_queues s /\ b_unacks s' = b_unacks s /\ b_online s' = b_online s /\ b_offline s' = b_offline s /\
  (exists k, nget c (b_conns s') = Some k /\ k_phase k = PhDead) /\
  (forall c', c' <> c -> nget c' (b_conns s') = nget c' (b_conns s)).
Proof. exact connect_rejected_explicit. Qed.
Print Assumptions C14_connect_rejected_leaves_nothing.

(* what a socket whose CONNECT was refused (phase PhDead) sends later has no effect - the read loop still runs on
   it, nothing is handled - except that a QoS>0 PUBLISH of a v5 client ends the read loop (the receive quota was
   never set): the socket is closed without a packet.  No table changes in either case; a packet with its size
   (ESendSz) is treated the same. *)
Theorem C14_refused_socket_later : forall c k p s,
  nget c (b_conns s) = Some k -> k_phase k = PhDead ->
  step_event s (ESend c p) =
    (if closes_dead k p then (upd_conn c (set_phase PhClosed k) s, [OClose c]) else (s, [])) /\
  (forall n, step_event s (ESendSz c p n) = step_event s (ESend c p)) /\
  tables (fst (step_event s (ESend c p))) = tables s.
Proof. exact dead_socket_send. Qed.
Print Assumptions C14_refused_socket_later.

(* the whole step (event + the poll loops of all connections): socket c is sent the CONNACK and nothing else *)
Theorem C14_connect_rejected_step : forall c cn s,
  unattached s c -> cid_allowed cn s = true -> hc_code cn s <> 0 ->
  sent_to c (snd (step s (EConnect c cn))) = [KConnack false (connack_code (cn_ver cn) (hc_code cn s)) []] /\
  tables_nq (fst (step s (EConnect c cn))) = tables_nq s /\
  exists k', nget c (b_conns (fst (step s (EConnect c cn)))) = Some k' /\ k_phase k' = PhDead.
Proof. exact connect_rejected_step. Qed.
Print Assumptions C14_connect_rejected_step.

(* ... and when the broker was quiescent (all poll loops parked, as after every step the harness observes) the
   step is the event: one CONNACK is all that is written, all tables including every queue are as before *)
Theorem C14_connect_rejected_step_quiescent : forall c cn s,
  quiescent s = true -> unattached s c -> cid_allowed cn s = true -> hc_code cn s <> 0 ->
  step s (EConnect c cn) = step_event s (EConnect c cn) /\
  snd (step s (EConnect c cn)) = [OSend c (KConnack false (connack_code (cn_ver cn) (hc_code cn s)) [])] /\
  tables (fst (step s (EConnect c cn))) = tables s /\
  quiescent (fst (step s (EConnect c cn))) = true.
Proof. exact connect_rejected_step_quiescent. Qed.
Print Assumptions C14_connect_rejected_step_quiescent.

Example C14_connect_rejected_nonvacuous :
  unattached ex_h0 2 /\ cid_allowed ex_bad5 ex_h0 = true /\ hc_code ex_bad5 ex_h0 = 134 /\
  hc_code ex_bad3 ex_h0 = 134 /\ hc_code ex_bad3_4 ex_h0 = 4.
Proof. exact ex_connect_rejected_hyps. Qed.

Example C14_connect_rejected_run :
  snd (run ex_h0 [EConnect 2 ex_bad5]) = [[OSend 2 (KConnack false 134 [])]] /\
  snd (run ex_h0 [EConnect 2 ex_bad3]) = [[OSend 2 (KConnack false 135 [])]] /\
  snd (run ex_h0 [EConnect 2 ex_bad3_4]) = [[OSend 2 (KConnack false 4 [])]] /\
  tables (fst (run ex_h0 [EConnect 2 ex_bad5])) = tables ex_h0 /\
  aget ex_P (b_sessions (fst (run ex_h0 [EConnect 2 ex_bad5]))) = None.
Proof. exact ex_connect_rejected_run. Qed.

Example C14_quiescent_nonvacuous : quiescent ex_h0 = true /\ quiescent ex_h2 = true.
Proof. exact ex_quiescent. Qed.

(* ================================================================== *)
(* 2. SUBSCRIBE                                                        *)
(* ================================================================== *)

(* before any hook: a v5 client sends a Subscription Identifier to a broker that does not support them *)
Theorem C14_subscribe_refused : forall c k pid props topics s,
  sub_refused k props s = true -> handle_subscribe c k pid props topics s = HErr s [] (Some 161).
Proof. exact subscribe_refused. Qed.
Print Assumptions C14_subscribe_refused.

(* (a) OnSubscribe fails for the whole packet: a SUBACK carrying that code for every topic (128 towards a v3
   client), no error, no close - and the state, hence the subscription store, is exactly the one before *)
Theorem C14_subscribe_all_rejected : forall c k pid props topics s code,
  sub_refused k props s = false -> h_sub_all (b_hooks s) = Some code ->
  handle_subscribe c k pid props topics s =
  HOk s [OSend c (KSuback pid (map (fun _ => if k_v k =? 5 then code else 128) topics) [])].
Proof. exact subscribe_all_rejected. Qed.
Print Assumptions C14_subscribe_all_rejected.

(* Target 2.  ops is a history of the subscription store (the invariant SubsInv of Proofs/BrokerInvP.v provides
   one in every reachable state); spec_run ops is the flat specification of Model/SubSpec.v the trie refines
   (Proofs/SubTrieP.v).  req_sub is the subscription the client asked for, tkey its key (client, share, filter),
   cap_code the broker's own checks (158 / 161 / 162 when shared subscriptions / subscription identifiers /
   wildcards are not available to the v5 client, else the QoS), name_owns_key the side condition that no other
   name of the packet denotes the same share name and filter. *)
Theorem C14_subscribe_hook_enforced : forall c k pid props topics s ops,
  k_cid k <> [] -> wf_ops ops = true -> b_subs s = db_run ops ->
  sub_refused k props s = false ->
  let h := b_hooks s in
  let cid := k_cid k in
  let v5 := k_v k =? 5 in
  let subid := sub_subid k props in
  match h_sub_all h with
  | Some code =>
      handle_subscribe c k pid props topics s =
      HOk s [OSend c (KSuback pid (map (fun _ => if v5 then code else 128) topics) [])]
  | None =>
      exists s' o,
        let ops' := ops ++ hs_ops h k v5 subid topics in
        handle_subscribe c k pid props topics s =
          HOk s' (o ++ [OSend c (KSuback pid (map (hs_code h k v5 subid topics) topics) [])]) /\
        only_drops o /\ sproj s' = sproj s /\
        b_subs s' = db_run ops' /\ wf_ops ops' = true /\
        (forall t, In t topics ->
           match sub_verdict h cid (tq_name t) with
           | SReject cd =>
               hs_code h k v5 subid topics t = (if v5 then cd else 128) /\
               (128 <= (if v5 then cd else 128) -> name_owns_key topics t ->
                sp_get (tkey cid t) (spec_run ops') = sp_get (tkey cid t) (spec_run ops))
           | SQos q =>
               let sb := with_sub_qos q (req_sub subid topics t) in
               hs_code h k v5 subid topics t = cap_code k v5 subid sb /\
               (cap_code k v5 subid sb < 128 -> name_owns_key topics t ->
                sp_get (tkey cid t) (spec_run ops') = Some sb) /\
               (128 <= cap_code k v5 subid sb -> name_owns_key topics t ->
                sp_get (tkey cid t) (spec_run ops') = sp_get (tkey cid t) (spec_run ops))
           | SAccept =>
               let sb := req_sub subid topics t in
               hs_code h k v5 subid topics t = hs_code no_hooks k v5 subid topics t /\
               hs_code h k v5 subid topics t = cap_code k v5 subid sb /\
               (cap_code k v5 subid sb < 128 -> name_owns_key topics t ->
                sp_get (tkey cid t) (spec_run ops') = Some sb) /\
               (128 <= cap_code k v5 subid sb -> name_owns_key topics t ->
                sp_get (tkey cid t) (spec_run ops') = sp_get (tkey cid t) (spec_run ops))
           end) /\
        (forall K, (forall t, In t topics -> tkey cid t <> K) -> sp_get K (spec_run ops') = sp_get K (spec_run ops))
  end.
Proof. exact subscribe_hook_enforced. Qed.
Print Assumptions C14_subscribe_hook_enforced.

(* its hypotheses on the state hold in every reachable state, for every connected socket *)
Theorem C14_subscribe_hyps_reachable : forall cfg h picks es c k,
  let s := fst (run (st_init cfg h picks) es) in
  nget c (b_conns s) = Some k -> k_phase k = PhConnected ->
  k_cid k <> [] /\ exists ops, wf_ops ops = true /\ b_subs s = db_run ops.
Proof. exact subscribe_hyps_reachable. Qed.
Print Assumptions C14_subscribe_hyps_reachable.

(* the i-th code of the SUBACK is the code of the i-th topic *)
Theorem C14_suback_nth : forall (f : topic_req -> N) topics i t,
  nth_error topics i = Some t -> nth_error (map f topics) i = Some (f t).
Proof. exact suback_nth. Qed.
Print Assumptions C14_suback_nth.

Theorem C14_cap_code_plain : forall k v5 subid sb,
  v5 = false \/ (k_shared k = true /\ k_subid k = true /\ k_wildcard k = true) ->
  cap_code k v5 subid sb = s_qos sb.
Proof. exact cap_code_plain. Qed.
Print Assumptions C14_cap_code_plain.

Theorem C14_plain_names_own_keys : forall topics t,
  (forall t', In t' topics -> has_prefix SHARE_PREFIX (tq_name t') = false) -> In t topics -> name_owns_key topics t.
Proof. exact plain_names_own_keys. Qed.
Print Assumptions C14_plain_names_own_keys.

(* "the store holds it" / "holds nothing" said of the trie: the lookup by exact filter name *)
Theorem C14_installed_lookup : forall ops cid f sb,
  wf_ops ops = true -> cid <> [] -> f <> [] ->
  sp_get (cid, [], f) (spec_run ops) = Some sb ->
  exists l, db_iterate (q_name f cid) (db_run ops) = IOk (some_ents l) /\
            forall c' s', In (c', s') l <-> (c' = cid /\ s' = sb).
Proof. exact installed_lookup. Qed.
Print Assumptions C14_installed_lookup.

Theorem C14_not_installed_lookup : forall ops cid f,
  wf_ops ops = true -> cid <> [] -> f <> [] ->
  sp_get (cid, [], f) (spec_run ops) = None ->
  db_iterate (q_name f cid) (db_run ops) = IOk [].
Proof. exact not_installed_lookup. Qed.
Print Assumptions C14_not_installed_lookup.

Theorem C14_installed_lookup_shared : forall ops cid g f sb,
  wf_ops ops = true -> cid <> [] -> g <> [] -> no_slash g = true -> f <> [] ->
  sp_get (cid, g, f) (spec_run ops) = Some sb ->
  exists l, db_iterate (q_sh_name (SHARE_PREFIX ++ g ++ SLASH :: f) cid) (db_run ops) = IOk (some_ents l) /\
            forall c' s', In (c', s') l <-> (c' = cid /\ s' = sb).
Proof. exact installed_lookup_shared. Qed.
Print Assumptions C14_installed_lookup_shared.

(* the handler's result is the scenario event's *)
Theorem C14_send_event_ok : forall c k p s s' o,
  nget c (b_conns s) = Some k -> k_phase k = PhConnected ->
  handle_packet c k p s = HOk s' o -> step_event s (ESend c p) = (s', o).
Proof. exact send_event_ok. Qed.
Print Assumptions C14_send_event_ok.

Example C14_subscribe_nonvacuous :
  exists k, nget 1 (b_conns ex_h0) = Some k /\ k_phase k = PhConnected /\ k_cid k = ex_S /\ k_cid k <> [] /\
            wf_ops [] = true /\ b_subs ex_h0 = db_run [] /\ sub_refused k [] ex_h0 = false /\
            h_sub_all (b_hooks ex_h0) = None /\
            sub_verdict (b_hooks ex_h0) (k_cid k) ex_A = SReject 135 /\
            sub_verdict (b_hooks ex_h0) (k_cid k) ex_B = SQos 0 /\
            sub_verdict (b_hooks ex_h0) (k_cid k) ex_T = SAccept /\
            name_owns_key [ex_tr ex_A 1; ex_tr ex_B 1; ex_tr ex_T 1; ex_tr ex_D 2] (ex_tr ex_B 1).
Proof. exact ex_subscribe_hyps. Qed.

Example C14_subscribe_run :
  snd (run ex_h0 [ESend 1 ex_sub1]) = [[OSend 1 (KSuback 5 [135; 0; 1; 1] [])]] /\
  db_iterate (q_name ex_A ex_S) (b_subs ex_h1) = IOk [] /\
  db_iterate (q_name ex_B ex_S) (b_subs ex_h1) = IOk (some_ents [(ex_S, with_sub_qos 0 (sub_of_req (ex_tr ex_B 1) 0))]) /\
  db_iterate (q_name ex_T ex_S) (b_subs ex_h1) = IOk (some_ents [(ex_S, sub_of_req (ex_tr ex_T 1) 0)]).
Proof. exact ex_subscribe_run. Qed.

Example C14_subscribe_all_rejected_run :
  h_sub_all (b_hooks ex_ha0) = Some 135 /\
  snd (run ex_ha0 [ESend 1 ex_sub1]) = [[OSend 1 (KSuback 5 [135; 135; 135; 135] [])]] /\
  b_subs (fst (run ex_ha0 [ESend 1 ex_sub1])) = b_subs ex_ha0 /\
  (exists k, nget 1 (b_conns ex_ha0) = Some k /\ sub_refused k [] ex_ha0 = false).
Proof. exact ex_subscribe_all_rejected_run. Qed.

(* ================================================================== *)
(* 3. PUBLISH                                                          *)
(* ================================================================== *)

(* Target 3a.  A PUBLISH that passes the protocol checks (pub_accepts) and is not a QoS 2 retransmission arrives
   on a connected socket, and OnMsgArrived rejects it (err = Some code) or drops it (err = None) - the hook is
   asked about the message m the topic-alias stage produced: the only output is the acknowledgement of its QoS
   (pub_ack: PUBACK for 1, PUBREC for 2, nothing for 0) carrying, for a v5 publisher, the hook's code or 16
   ("no matching subscribers") after a silent drop, and 0 for a v3 publisher; no queue, no retained message
   and no other table changes. *)
Theorem C14_publish_rejected_reaches_nobody : forall c k s dup qos retain topic payload pid props k' m err,
  let v5 := k_v k =? 5 in
  nget c (b_conns s) = Some k -> k_phase k = PhConnected ->
  pub_accepts k qos retain topic props = true ->
  (qos = 2 -> ~ In pid (Uof (k_cid k) s)) ->
  pub_alias v5 (charge k qos) topic props (msg_of_publish v5 dup qos retain topic payload pid props) = inl (Some (k', m)) ->
  refusal (msg_verdict (b_hooks s) (m_topic m)) = Some err ->
  exists s',
    step_event s (ESend c (KPublish dup qos retain topic payload pid props)) =
      (s', pub_ack c qos pid (if v5 then match err with Some cd => cd | None => 16 end else 0)) /\
    b_queues s' = b_queues s /\ b_ret s' = b_ret s /\ b_subs s' = b_subs s /\ b_sessions s' = b_sessions s /\
    b_wills s' = b_wills s /\ b_online s' = b_online s /\ b_offline s' = b_offline s /\
    b_tag s' = b_tag s /\ b_npick s' = b_npick s.
Proof. exact publish_rejected_explicit. Qed.
Print Assumptions C14_publish_rejected_reaches_nobody.

(* the packet carries no topic alias: the message is the packet's, the hook is asked about the packet's topic *)
Theorem C14_publish_rejected_plain : forall c k s dup qos retain topic payload pid props err,
  let v5 := k_v k =? 5 in
  pub_accepts k qos retain topic props = true ->
  (qos = 2 -> ~ In pid (Uof (k_cid k) s)) ->
  (if v5 then p_alias props else None) = None ->
  refusal (msg_verdict (b_hooks s) topic) = Some err ->
  exists s',
    handle_packet c k (KPublish dup qos retain topic payload pid props) s =
      HOk s' (pub_ack c qos pid (if v5 then match err with Some cd => cd | None => 16 end else 0)) /\
    qproj s' = qproj s.
Proof. exact publish_refused_by_hook_plain. Qed.
Print Assumptions C14_publish_rejected_plain.

(* the poll loops that follow an event leave every table but the queues alone *)
Theorem C14_step_tables_nq : forall s e, tables_nq (fst (step s e)) = tables_nq (fst (step_event s e)).
Proof. exact step_tables_nq. Qed.
Print Assumptions C14_step_tables_nq.

(* Target 3b.  The hook rewrites m to m' = rewrite_msg t p q m: the handler is the explicit composition
   bookkeeping (pub_mark: only unack sets and the connection record, qproj s1 = qproj s) ; retain_update m' ;
   deliver m' ; acknowledgement (pub_finish) *)
Theorem C14_publish_rewritten_is_what_is_seen : forall c k s dup qos retain topic payload pid props k' m t p q,
  let v5 := k_v k =? 5 in
  pub_accepts k qos retain topic props = true ->
  (qos = 2 -> ~ In pid (Uof (k_cid k) s)) ->
  pub_alias v5 (charge k qos) topic props (msg_of_publish v5 dup qos retain topic payload pid props) = inl (Some (k', m)) ->
  msg_verdict (b_hooks s) (m_topic m) = MRewrite t p q ->
  let m' := rewrite_msg t p q m in
  exists s1,
    qproj s1 = qproj s /\
    handle_packet c k (KPublish dup qos retain topic payload pid props) s =
      (let '(s2, o, mt) := deliver (k_cid k) m' (retain_update m' s1) in
       pub_finish c k' v5 qos pid (s2, o, mt, None)).
Proof. exact publish_rewritten_is_what_is_seen. Qed.
Print Assumptions C14_publish_rewritten_is_what_is_seen.

Theorem C14_publish_rewritten_outputs : forall c k s dup qos retain topic payload pid props k' m t p q,
  let v5 := k_v k =? 5 in
  pub_accepts k qos retain topic props = true ->
  (qos = 2 -> ~ In pid (Uof (k_cid k) s)) ->
  pub_alias v5 (charge k qos) topic props (msg_of_publish v5 dup qos retain topic payload pid props) = inl (Some (k', m)) ->
  msg_verdict (b_hooks s) (m_topic m) = MRewrite t p q ->
  let m' := rewrite_msg t p q m in
  exists s1 s2 s3 o mt,
    qproj s1 = qproj s /\ deliver (k_cid k) m' (retain_update m' s1) = (s2, o, mt) /\
    handle_packet c k (KPublish dup qos retain topic payload pid props) s =
      HOk s3 (o ++ pub_ack c qos pid (if v5 then if mt then 0 else 16 else 0)) /\
    qproj s3 = qproj s2 /\
    b_ret s3 = b_ret (retain_update m' s).
Proof. exact publish_rewritten_outputs. Qed.
Print Assumptions C14_publish_rewritten_outputs.

(* the forwarding stage under the rewriting hook IS the forwarding stage of the broker without hooks
   (set_hooks no_hooks s) applied to m'; an accepted message is forwarded as without hooks *)
Theorem C14_publish_rewritten_as_unhooked : forall k m s t p q,
  msg_verdict (b_hooks s) (m_topic m) = MRewrite t p q ->
  pub_fwd k m false s =
  (let '(s', o, mt, e) := pub_fwd k (rewrite_msg t p q m) false (set_hooks no_hooks s) in (set_hooks (b_hooks s) s', o, mt, e)).
Proof. exact publish_rewritten_as_unhooked. Qed.
Print Assumptions C14_publish_rewritten_as_unhooked.

Theorem C14_publish_accepted_as_unhooked : forall k m s,
  msg_verdict (b_hooks s) (m_topic m) = MAccept ->
  pub_fwd k m false s =
  (let '(s', o, mt, e) := pub_fwd k m false (set_hooks no_hooks s) in (set_hooks (b_hooks s) s', o, mt, e)).
Proof. exact publish_accepted_as_unhooked. Qed.
Print Assumptions C14_publish_accepted_as_unhooked.

Theorem C14_rewrite_fields : forall t p q m,
  let m' := rewrite_msg t p q m in
  m_topic m' = t /\ m_payload m' = p /\ m_qos m' = rw_qos q /\ m_retained m' = rw_retain q (m_retained m) /\ m_dup m' = m_dup m /\
  m_ctype m' = m_ctype m /\ m_corr m' = m_corr m /\ m_expiry m' = m_expiry m /\ m_pfmt m' = m_pfmt m /\
  m_resp m' = m_resp m /\ m_uprops m' = m_uprops m.
Proof. exact pub_rewrite_fields. Qed.
Print Assumptions C14_rewrite_fields.

(* the RETAIN flag the hook leaves on the message is the one that counts: a rewrite that clears it keeps the
   message out of the retained store, a rewrite that sets it stores a message published without RETAIN *)
Theorem C14_rewrite_clears_retain : forall t p q m s,
  q / 4 = 1 -> b_ret (retain_update (rewrite_msg t p q m) s) = b_ret s.
Proof.
  intros t p q m s H. unfold retain_update, rewrite_msg. cbn [m_retained]. unfold rw_retain. rewrite H. reflexivity.
Qed.
Print Assumptions C14_rewrite_clears_retain.

Theorem C14_rewrite_sets_retain : forall t p q m s,
  q / 4 = 2 -> m_retained (rewrite_msg t p q m) = true /\
  retain_update (rewrite_msg t p q m) s = set_ret (rdb_step (b_ret s) (retain_op (rewrite_msg t p q m))) s.
Proof.
  intros t p q m s H. unfold retain_update, rewrite_msg. cbn [m_retained]. unfold rw_retain. rewrite H. split; reflexivity.
Qed.
Print Assumptions C14_rewrite_sets_retain.

Example C14_rw_retain_codes :
  rw_qos 1 = 1 /\ rw_retain 1 true = true /\ rw_retain 1 false = false /\
  rw_qos 5 = 1 /\ rw_retain 5 true = false /\ rw_qos 10 = 2 /\ rw_retain 10 false = true.
Proof. vm_compute. repeat split; reflexivity. Qed.

Example C14_publish_nonvacuous :
  exists k, nget 2 (b_conns ex_h2) = Some k /\ k_phase k = PhConnected /\ k_v k = 5 /\
            pub_accepts k 1 true ex_X [] = true /\ Uof (k_cid k) ex_h2 = [] /\
            msg_verdict (b_hooks ex_h2) ex_X = MReject 135 /\ msg_verdict (b_hooks ex_h2) ex_Y = MDrop /\
            msg_verdict (b_hooks ex_h2) ex_Z = MRewrite ex_T [9] 0.
Proof. exact ex_publish_hyps. Qed.

Example C14_publish_run :
  snd (run ex_h2 [ESend 2 (ex_pub 1 ex_X 7); ESend 2 (ex_pub 1 ex_Y 8); ESend 2 (ex_pub 1 ex_Z 9)]) =
    [[OSend 2 (KPuback 7 135 [])]; [OSend 2 (KPuback 8 16 [])];
     [OSend 2 (KPuback 9 0 []); OSend 1 (KPublish false 0 false ex_T [9] 0 [])]] /\
  b_ret (fst (run ex_h2 [ESend 2 (ex_pub 1 ex_X 7); ESend 2 (ex_pub 1 ex_Y 8)])) = b_ret ex_h2 /\
  b_queues (fst (run ex_h2 [ESend 2 (ex_pub 1 ex_X 7); ESend 2 (ex_pub 1 ex_Y 8)])) = b_queues ex_h2.
Proof. exact ex_publish_run. Qed.

Example C14_publish_rewritten_retained :
  let s := fst (run ex_h2 [ESend 2 (ex_pub 1 ex_Z 9)]) in
  map (fun m => (m_topic m, m_payload m, m_qos m)) (rdb_matched ex_T (b_ret s)) = [(ex_T, [9], 0)] /\
  rdb_matched ex_Z (b_ret s) = [] /\ rdb_matched ex_T (b_ret ex_h2) = [].
Proof. exact ex_publish_rewritten_retained. Qed.

(* ================================================================== *)
(* 4. the will                                                         *)
(* ================================================================== *)

(* Target 4.  send_will is the one place a will is published from (Props/C08.v): dropped (or refused) - the
   identity, nothing is written; rewritten - retain_update and deliver of the rewritten will; untouched - of the
   registered will *)
Theorem C14_will_hook_enforced : forall cid m s,
  match will_verdict (b_hooks s) cid with
  | MDrop | MReject _ => send_will cid m s = (s, [])
  | MRewrite t p q =>
      let m' := with_topic_payload_qos t p q m in
      send_will cid m s = (let '(s', o, _) := deliver cid m' (retain_update m' s) in (s', o)) /\
      b_ret (fst (send_will cid m s)) = b_ret (retain_update m' s)
  | MAccept =>
      send_will cid m s = (let '(s', o, _) := deliver cid m (retain_update m s) in (s', o)) /\
      b_ret (fst (send_will cid m s)) = b_ret (retain_update m s)
  end.
Proof. exact will_hook_enforced. Qed.
Print Assumptions C14_will_hook_enforced.

Theorem C14_will_rewrite_fields : forall t p q m,
  let m' := with_topic_payload_qos t p q m in
  m_topic m' = t /\ m_payload m' = p /\ m_qos m' = rw_qos q /\ m_retained m' = rw_retain q (m_retained m) /\ m_dup m' = m_dup m /\
  m_ctype m' = m_ctype m /\ m_corr m' = m_corr m /\ m_expiry m' = m_expiry m /\ m_pfmt m' = m_pfmt m /\
  m_resp m' = m_resp m /\ m_uprops m' = m_uprops m.
Proof. exact will_rewrite_fields. Qed.
Print Assumptions C14_will_rewrite_fields.

Theorem C14_will_rewritten_as_unhooked : forall cid m s t p q,
  will_verdict (b_hooks s) cid = MRewrite t p q ->
  send_will cid m s = lift_hooks (b_hooks s) (send_will cid (with_topic_payload_qos t p q m) (set_hooks no_hooks s)).
Proof. exact will_rewritten_as_unhooked. Qed.
Print Assumptions C14_will_rewritten_as_unhooked.

(* the connection of a client with an armed, undelayed will goes away and the hook drops the will: unregister
   writes nothing and is the plain end of the session on the untouched state *)
Theorem C14_will_dropped_at_unregister : forall c k s se w err,
  aget (k_cid k) (b_sessions s) = Some se -> se_will se = Some w -> k_clean_will k = false ->
  ur_delay k se s = 0 \/ ur_store k se s = false ->
  refusal (will_verdict (b_hooks s) (k_cid k)) = Some err ->
  unregister c k s = ur_finish (k_cid k) se (BrokerWillP.ur_expiry k se s) (ur_store k se s) s [] /\
  snd (unregister c k s) = [] /\
  b_ret (fst (unregister c k s)) = b_ret s.
Proof. exact will_dropped_at_unregister. Qed.
Print Assumptions C14_will_dropped_at_unregister.

Example C14_will_nonvacuous :
  refusal (will_verdict (b_hooks ex_h2) ex_W) = Some None /\
  will_verdict (b_hooks ex_h2) ex_V = MRewrite ex_T [7] 0 /\ will_verdict (b_hooks ex_h2) ex_A = MAccept.
Proof. exact ex_will_hyps. Qed.

Example C14_will_run :
  snd (run ex_h2 [EConnect 3 (ex_cn 4 ex_W ex_U ex_P (Some (ex_wl ex_T))); EClose 3;
                  EConnect 4 (ex_cn 4 ex_V ex_U ex_P (Some (ex_wl ex_B))); EClose 4;
                  EConnect 5 (ex_cn 4 ex_A ex_U ex_P (Some (ex_wl ex_T))); EClose 5]) =
    [[OSend 3 (KConnack false 0 [])]; [];
     [OSend 4 (KConnack false 0 [])]; [OSend 1 (KPublish false 0 false ex_T [7] 0 [])];
     [OSend 5 (KConnack false 0 [])]; [OSend 1 (KPublish false 1 false ex_T [5] 101 [])]].
Proof. exact ex_will_run. Qed.

Example C14_will_dropped_at_unregister_nonvacuous :
  let s := fst (run ex_h2 [EConnect 3 (ex_cn 4 ex_W ex_U ex_P (Some (ex_wl ex_T)))]) in
  exists k se, nget 3 (b_conns s) = Some k /\ aget (k_cid k) (b_sessions s) = Some se /\
               se_will se = Some (will_msg (ex_wl ex_T)) /\ k_clean_will k = false /\ ur_store k se s = false /\
               refusal (will_verdict (b_hooks s) (k_cid k)) = Some None.
Proof. exact ex_will_dropped_at_unregister_hyps. Qed.

(* ================================================================== *)
(* 6. false as first written: the counterexamples                      *)
(* ================================================================== *)

(* "a topic the hook rejects with code c is not installed" is false for c < 128 towards a v5 client: the SUBACK
   carries c, and the subscription is installed with the QoS the client asked for (hence 128 <= code above) *)
Example C14_subscribe_reject_below_128_installs :
  sub_verdict ex_hooks ex_S ex_D = SReject 1 /\
  nth 3 (match snd (run ex_h0 [ESend 1 ex_sub1]) with [[OSend _ (KSuback _ codes _)]] => codes | _ => [] end) 0 = 1 /\
  db_iterate (q_name ex_D ex_S) (b_subs ex_h0) = IOk [] /\
  db_iterate (q_name ex_D ex_S) (b_subs ex_h1) = IOk (some_ents [(ex_S, sub_of_req (ex_tr ex_D 2) 0)]).
Proof. exact ex_subscribe_reject_below_128_installs. Qed.

(* "the publisher gets the ack with the hook's code" is false for a retransmitted QoS 2 PUBLISH whose packet id
   is still recorded (possible after a "rejection" with a code below 128): it is answered as a duplicate, with
   16 towards a v5 client, before the hook is asked *)
Example C14_publish_qos2_retransmission :
  msg_verdict ex_hooks ex_Q = MReject 1 /\
  snd (run ex_h2 [ESend 2 (KPublish false 2 false ex_Q [1] 8 []); ESend 2 (KPublish true 2 false ex_Q [1] 8 [])]) =
    [[OSend 2 (KPubrec 8 1 [])]; [OSend 2 (KPubrec 8 16 [])]].
Proof. exact ex_publish_qos2_retransmission. Qed.

(* the hypothesis `unattached` of target 1: the scenario event "CONNECT on socket c" first ends whatever
   connection the socket number still carries *)
Example C14_connect_on_attached_socket :
  hc_code ex_bad5 ex_h0 <> 0 /\ ~ unattached ex_h0 1 /\
  aget ex_S (b_sessions ex_h0) <> None /\
  aget ex_S (b_sessions (fst (step_event ex_h0 (EConnect 1 ex_bad5)))) = None.
Proof. exact ex_connect_on_attached_socket. Qed.
