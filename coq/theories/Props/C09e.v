(* C09 - the bytes the redis backend stores (persistence/encoding, queue.Elem.Encode/Decode,
   EncodeSubscription/DecodeSubscription).  Statements only; proofs in Proofs/PersistEncP.v; model in
   Model/PersistEnc.v (byte level, statement by statement; property identifiers from Gen/Consts.v).

   "Every QoS>0 message ... is (re)delivered", "exactly the subscriptions whose SUBACK had been sent" need,
   beside the command journal (Props/C09.v), that what is written to the store is read back as the same
   value.  Proved for EVERY value the broker can store (strings up to 65535 bytes, payloads up to 2^32-1
   bytes, any number of subscription identifiers and user properties, entry times below 2^63 s):
     - DecodeMessage (EncodeMessage m) = m; Elem.Decode (Elem.Encode e) = e; DecodeSubscription
       (EncodeSubscription s) = s
     - the encodings are injective, so "LREM by value" removes an element equal to the decoded one: the
       assumption `stored bytes are equal iff elem_eqb` that Model/Redis.v makes is a theorem
     - no decoder panics or loops on any byte string (start-up reads whatever the store holds)
   The payload length used to be written in 2 bytes; `C09_old_payload_writer_refuted` is the statement that
   the old writer fails for every payload of 65536 bytes or more (repaired in /repo: fix 6b3ad81). *)
From Coq Require Import List NArith ZArith Bool.
Import ListNotations.
From GM Require Import Base.Topic Base.Msg Model.CodecBase Model.SubTrie Model.Queue Model.Redis Model.PersistEnc
  Proofs.CodecBaseP Proofs.PersistEncP.
Open Scope N_scope.

Theorem C09_message_roundtrip : forall m, wf_pmsg m = true -> dec_msg (enc_msg m) = Ok m.
Proof. exact dec_enc_msg. Qed.
Print Assumptions C09_message_roundtrip.

Theorem C09_elem_roundtrip : forall e, wf_pelem e = true -> dec_elem (enc_elem e) = Ok (untag e).
Proof. exact dec_enc_elem. Qed.
Print Assumptions C09_elem_roundtrip.

Theorem C09_subscription_roundtrip : forall s, wf_psub s = true -> dec_sub (enc_sub s) = Ok s.
Proof. exact dec_enc_sub. Qed.
Print Assumptions C09_subscription_roundtrip.

Theorem C09_message_encoding_injective :
  forall a b, wf_pmsg a = true -> wf_pmsg b = true -> enc_msg a = enc_msg b -> a = b.
Proof. exact enc_msg_inj. Qed.
Print Assumptions C09_message_encoding_injective.

Theorem C09_subscription_encoding_injective :
  forall a b, wf_psub a = true -> wf_psub b = true -> enc_sub a = enc_sub b -> a = b.
Proof. exact enc_sub_inj. Qed.
Print Assumptions C09_subscription_encoding_injective.

(* what LREM compares (bytes) agrees with what the store model compares (elem_eqb) *)
Theorem C09_stored_bytes_equal_is_elem_eqb :
  forall a b, wf_pelem a = true -> wf_pelem b = true -> enc_elem a = enc_elem b -> elem_eqb a b = true.
Proof. exact stored_bytes_equal_elem_eqb. Qed.
Print Assumptions C09_stored_bytes_equal_is_elem_eqb.

(* ... and conversely: what the store model treats as equal (elem_eqb) is stored as the same bytes; together: LREM by value
   removes exactly the elements the model's remove_first removes *)
Theorem C09_elem_eqb_iff_stored_bytes :
  forall a b, wf_pelem a = true -> wf_pelem b = true -> (enc_elem a = enc_elem b <-> elem_eqb a b = true).
Proof. intros a b Ha Hb. split; [now apply stored_bytes_equal_elem_eqb|apply elem_eqb_same_bytes]. Qed.
Print Assumptions C09_elem_eqb_iff_stored_bytes.

Theorem C09_decoders_total :
  forall b, safe (dec_msg b) /\ safe (dec_elem b) /\ safe (dec_sub b).
Proof. intros b. split; [apply dec_msg_safe|split; [apply dec_elem_safe|apply dec_sub_safe]]. Qed.
Print Assumptions C09_decoders_total.

Theorem C09_old_payload_writer_refuted :
  forall s rest, 65536 <= len s -> rd_string (wr_string s ++ rest) <> Ok (s, rest).
Proof. exact old_payload_writer_refuted. Qed.
Print Assumptions C09_old_payload_writer_refuted.

Theorem C09_payload_writer : forall s rest, len s < 4294967296 -> rd_bytes (wr_bytes s ++ rest) = Ok (s, rest).
Proof. exact rd_bytes_wr. Qed.
Print Assumptions C09_payload_writer.

(* non-vacuity: a stored QoS 2 message with every optional field, a PUBREL entry, a subscription *)
Definition ex_msg : msg :=
  {| m_dup := true; m_qos := 2; m_retained := true; m_topic := [97; 47; 98]; m_payload := [0; 255; 38]; m_pid := 65535;
     m_ctype := [116]; m_corr := [1; 2]; m_expiry := 4294967295; m_pfmt := 1; m_resp := [114];
     m_subids := [1; 128; 268435455]; m_uprops := [([107], [118]); ([], [])] |}.
Definition ex_elem : elem := {| e_tag := 5; e_at := 1790000000; e_expiry := Some 1790007200; e_body := QPub ex_msg |}.
Definition ex_rel : elem := {| e_tag := 6; e_at := 1790000000; e_expiry := None; e_body := QRel 7 |}.
Definition ex_sub : sub := {| s_share := [103]; s_filter := [97; 47; 35]; s_id := 268435455; s_qos := 2; s_nl := false; s_rap := true; s_rh := 2 |}.

Example C09e_nonvacuous :
  wf_pelem ex_elem = true /\ wf_pelem ex_rel = true /\ wf_psub ex_sub = true /\
  dec_elem (enc_elem ex_elem) = Ok (untag ex_elem) /\ dec_elem (enc_elem ex_rel) = Ok (untag ex_rel) /\
  dec_sub (enc_sub ex_sub) = Ok ex_sub /\ length (enc_elem ex_elem) = 76%nat.
Proof. vm_compute. repeat split; reflexivity. Qed.
