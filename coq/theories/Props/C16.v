(* C16 - federation event stream: ordered, at-least-once, applied once.
   Statements only; model in Model/FedQueue.v (A's eventQueue and hooks, B's session
   manager, Hello, eventStreamHandler, the EventStream loop, and the lossy stream as
   explicit schedule events), proofs in Proofs/FedP.v.  `fq_run s evs orders` runs a
   schedule; `orders` only resolves Go map iteration orders (any value is accepted, a
   non-permutation falls back to the model's own order). *)
From Coq Require Import List NArith.
Import ListNotations.
From GM Require Import Base.Topic Base.Msg Model.SubTrie Model.FedQueue Oracle.C16O Proofs.FedP Proofs.FedViewP.

(* For ALL schedules of emissions, sends, deliveries, acknowledgements, cuts (in either
   direction, between apply and ack, during the handshake), reconnects, peer failures and
   rejoins in which no Hello reply is lost while B starts a fresh session (kf_hello_reply_lost):
   what B applied is, epoch by epoch (an epoch = one life of A's queue for B), a prefix of
   what A emitted - same events, same order, no gap, no duplicate; and nextRead never
   points to a removed element. *)
Theorem C16_prefix_partial :
  forall (ret : list msg) (evs : list fqev) (orders : list (list fevent)),
    kf_hello_reply_lost evs = false ->
    prefix_ok (fq_run (fq_init ret) evs orders) /\ no_dangling (fq_run (fq_init ret) evs orders).
Proof. exact fq_prefix_partial. Qed.
Print Assumptions C16_prefix_partial.

(* the unrestricted statement is false of the code (known finding kf_hello_reply_lost) *)
Theorem C16_prefix_refuted :
  exists (ret : list msg) (evs : list fqev) (orders : list (list fevent)),
    ~ prefix_ok (fq_run (fq_init ret) evs orders).
Proof. exact fq_prefix_refuted. Qed.
Print Assumptions C16_prefix_refuted.

(* Completeness after a fault-free suffix, and resynchronisation.  After ANY schedule
   (stream failures at any point, peer failures and rejoins on either side, concurrently
   emitted events) that is outside the two known-finding classes, once both nodes know each
   other again, the handshake succeeds and both loops run until they have nothing left to do
   (EPILOGUE = [QPeerJoin; QJoinPeer; QReconnect HsOk; QDrain]): the stream is idle and B
   has applied every event A emitted in the current epoch - all of them, once, in order
   (with C16_prefix_partial).  The current epoch starts with the full resynchronisation
   (one Subscribe per local topic, every retained message) whenever B had lost A's session,
   so this is also the resynchronisation statement. *)
Theorem C16_stable_complete_partial :
  forall (ret : list msg) (evs : list fqev) (orders : list (list fevent)),
    kf_hello_reply_lost evs = false -> kf_event_not_utf8 ret evs = false ->
    let s := fq_run (fq_init ret) (evs ++ EPILOGUE) orders in
    fq_idle s = true /\ proj (a_epoch s) (applied s) = proj (a_epoch s) (emitted s).
Proof. exact fq_stable_complete. Qed.
Print Assumptions C16_stable_complete_partial.

Theorem C16_resync_partial :
  forall (ret : list msg) (before after : list fqev) (orders : list (list fevent)),
    kf_hello_reply_lost (before ++ QPeerLost :: after) = false ->
    kf_event_not_utf8 ret (before ++ QPeerLost :: after) = false ->
    let s := fq_run (fq_init ret) ((before ++ QPeerLost :: after) ++ EPILOGUE) orders in
    fq_idle s = true /\ proj (a_epoch s) (applied s) = proj (a_epoch s) (emitted s).
Proof. intros ret before after. exact (fq_stable_complete ret (before ++ QPeerLost :: after)). Qed.
Print Assumptions C16_resync_partial.

(* ... and then B's view of A's subscriptions - what a lookup by client on the real
   federation subscription tree (Model/SubTrie.v) returns - equals A's local subscription
   set.  Subscriptions are as FromTopic produces them (wf_fqev: the share name has no '/',
   a non-shared filter does not start with "$share/").  Together with
   C16_stable_complete_partial: stable suffix => applied = emitted and view = local set;
   with a QPeerLost / QDropPeer anywhere in `evs` this is the resynchronisation statement. *)
Theorem C16_view_complete_partial :
  forall (ret : list msg) (evs : list fqev) (orders : list (list fevent)),
    kf_hello_reply_lost evs = false -> kf_event_not_utf8 ret evs = false -> forallb wf_fqev evs = true ->
    let s := fq_run (fq_init ret) (evs ++ EPILOGUE) orders in
    exists v, view_of (fb_fed s) = Some v /\ same_set v (local_of s) = true.
Proof. exact fq_view_complete. Qed.
Print Assumptions C16_view_complete_partial.

(* both side conditions are needed: with a lost Hello reply B's view stays empty although
   the stream is idle (kf_hello_reply_lost); an event that cannot be marshalled stalls the
   stream for ever (kf_event_not_utf8) *)
Theorem C16_stable_complete_refuted :
  (exists ret evs orders,
     let s := fq_run (fq_init ret) (evs ++ EPILOGUE) orders in
     fq_idle s = true /\ view_of (fb_fed s) = Some [] /\ local_of s <> []) /\
  (exists ret evs orders, fq_idle (fq_run (fq_init ret) (evs ++ EPILOGUE) orders) = false).
Proof. exact fq_stable_complete_refuted. Qed.
Print Assumptions C16_stable_complete_refuted.

(* non-vacuity: the refuting schedule of C16_prefix_refuted is in the known-finding class;
   a schedule with a cut between apply and ack, a resume, a peer loss and a resynchronisation
   is outside both classes, and B ends up having applied 3 + 2 events (epochs 2 and 3) *)
Example C16_witness_is_known : kf_hello_reply_lost ex_lost_hello = true.
Proof. exact ex_lost_hello_kf. Qed.

Example C16_nonvacuous :
  let c := [99]%N in let a := [97]%N in let b := [98]%N in
  let evs := [QSub c [] a; QPeerJoin; QJoinPeer; QReconnect HsOk; QMsg ex_msg; QSend; QDeliver true; QDeliver false;
              QReconnect HsOk; QSub c [103]%N b; QDrain; QPeerLost; QPeerJoin; QMsg ex_msg] in
  let s := fq_run (fq_init []) (evs ++ EPILOGUE) [] in
  kf_hello_reply_lost evs = false /\ kf_event_not_utf8 [] evs = false /\ forallb wf_fqev evs = true /\
  map (fun t => fst (fst t)) (applied s) = [2; 2; 2; 3; 3]%N /\ fq_idle s = true /\
  length (local_of s) = 2%nat.
Proof. vm_compute. repeat split. Qed.
