(* C09 - durable (redis) sessions survive a broker crash at any point.
   Statements only; proofs in Proofs/CrashP.v.  Models: Model/Redis.v (the store and its
   commands), Model/RQueue.v (the redis queue), Model/Crash.v (for every client event the
   journal = storage commands interleaved with the packets the broker writes; `recover` =
   server.init).  `fixes` switches three behaviours that used to deviate from the statement;
   `cur_code` (= Crash.code_fixes) is /repo as it is, with all three repaired (41101f9, 9588927,
   892f3ad); `old_code` is the behaviour before, kept for the regression examples below.

   Proved for ALL histories h and ALL cut points k of the storage commands:
     - start-up succeeds on the store left by the first k commands
     - the stored subscription hashes are the replay of the first k commands; a fresh broker
       loads exactly these tables for every client with a stored session, under the same
       client id; for complete histories the replay is the live broker's index
     - a session whose CONNECT was answered by CONNACK is found again under the same client id
       after a cut anywhere in any continuation without a CONNECT / close of that client
     - a QoS 2 packet id whose PUBLISH was new to the broker is in the stored set after a cut
       anywhere in any continuation by other clients, and a broker restarted on such a store
       answers the retransmitted PUBLISH of the reconnected client with PUBREC and nothing else
     - unack store (Proofs/CrashQueueP.v, part A): every operation is one command, so the store left
       by any prefix of the journal is the store after a whole number of operations, and the
       reloaded id set is the abstract set after them
     - session queue (Proofs/CrashQueueP.v, part B), for the redis queue model as repaired: the list
       reloaded after any prefix is the list after the last completed operation with a prefix of
       the commands of the operation in progress applied; run level: every reloaded element is a
       supplied (Add / Replace) element up to packet id and expiry, the list has at most one slot
       per RPUSH and only Add pushes; per operation in progress: the exact intermediate lists of
       Add, ReadInflight and Read, no element missing but the reported victims, the in-flight
       entries in front of the queued ones in their order
   Not proved at run level: clauses (a) and (c) of the queue for arbitrary histories - they hold per
   operation on a consistent store; the induction would need that consistency (partition, cursor,
   length, read cache coherent with the list, distinct packet ids) is kept by every completed
   operation under the caller's discipline (see the end of this file). *)
From Coq Require Import List NArith ZArith.
Import ListNotations.
From GM Require Import Base.Topic Base.Msg Model.SubTrie Model.Queue Model.Redis Model.RQueue Model.Crash Proofs.CrashP Proofs.CrashQueueP.

(* start-up never fails on an intermediate store state *)
Theorem C09_startup_any_prefix :
  forall (fx : fixes) (h : list bevent) (k : nat),
    recover fx (exec_all [] (firstn k (jcmds (journal fx h)))) <> None.
Proof. exact startup_any_prefix. Qed.
Print Assumptions C09_startup_any_prefix.

(* ... also for the events that follow a restart (crash after crash) *)
Theorem C09_startup_after_restart :
  forall (fx : fixes) (s : rstore) (b : broker) (h : list bevent) (k : nat),
    wt_store s -> recover fx s = Some b ->
    recover fx (exec_all s (firstn k (jcmds (snd (brun fx b h))))) <> None.
Proof. exact startup_after_restart. Qed.
Print Assumptions C09_startup_after_restart.

(* C09, session clause.  After any history h1, a CONNECT of c answered by a CONNACK, and any
   continuation h2 that contains no CONNECT / connection close of c, cut after ANY number k of
   its storage commands: the broker started on what is left has the session of c, under the
   client id c (its queue and unack objects are created for it by server.init) *)
Theorem C09_any_prefix_sessions :
  forall (fx : fixes) (h1 h2 : list bevent) (c : cid) (clean : bool) (expiry : N) (pids : list N) (sp : bool) (k : nat),
    let b1 := fst (brun fx broker0 h1) in
    let ev := EConnect c clean expiry pids in
    let b2 := fst (bstep fx b1 ev) in
    In (JOut (OConnack c sp)) (snd (bstep fx b1 ev)) ->
    c <> [] -> Forall (spares c) h2 ->
    exists br, recover fx (exec_all (b_store b2) (firstn k (jcmds (snd (brun fx b2 h2))))) = Some br /\ b_get c br <> None.
Proof. exact session_recovered_any_prefix. Qed.
Print Assumptions C09_any_prefix_sessions.

(* the CONNACK is only written after the session hash (naming the client) is in the store *)
Theorem C09_connack_after_session_stored :
  forall (fx : fixes) (b : broker) (c : cid) (clean : bool) (expiry : N) (pids : list N) (sp : bool),
    binv b -> wt_store (b_store b) ->
    In (JOut (OConnack c sp)) (snd (bstep fx b (EConnect c clean expiry pids))) ->
    has_session c (b_store (fst (bstep fx b (EConnect c clean expiry pids)))).
Proof. exact connack_has_session. Qed.
Print Assumptions C09_connack_after_session_stored.

(* the store after any prefix holds exactly the subscription tables obtained by replaying the
   subscription effects (HSET / HDEL / DEL on sub:<id>) of the same prefix *)
Theorem C09_subs_store_any_prefix :
  forall (fx : fixes) (h : list bevent) (k : nat),
    let cmds := firstn k (jcmds (journal fx h)) in
    sub_rel (exec_all [] cmds) (fold_left mem_eff cmds []).
Proof. exact subs_any_prefix. Qed.
Print Assumptions C09_subs_store_any_prefix.

(* C09, subscription clause: cut anywhere, restart: every client with a stored session gets
   back, under its own client id, exactly the subscriptions the commands before the cut
   produced (acknowledged ones, plus/minus a part of the single request in flight) *)
Theorem C09_any_prefix_subscriptions :
  forall (fx : fixes) (h : list bevent) (k : nat),
    let cmds := firstn k (jcmds (journal fx h)) in
    let s := exec_all [] cmds in
    (fix_trim fx = true \/ Forall (fun c => trim_left c = c) (session_ids s)) ->
    exists b, recover fx s = Some b /\
      forall c t, bs_get c t (b_subs b) =
                  if mem_cid c (session_ids s) then bs_get c t (fold_left mem_eff cmds []) else None.
Proof. exact subs_recovered_any_prefix. Qed.
Print Assumptions C09_any_prefix_subscriptions.

(* the replay of a complete journal is the live broker's own subscription index: what its
   SUBACK / UNSUBACK packets acknowledged *)
Theorem C09_replay_is_acknowledged :
  forall (fx : fixes) (h : list bevent),
    fix_hdel fx = true \/ Forall no_unsub h ->
    b_subs (fst (brun fx broker0 h)) = fold_left mem_eff (jcmds (journal fx h)) [].
Proof. exact journal_subs. Qed.
Print Assumptions C09_replay_is_acknowledged.

(* the store the live broker holds is the execution of its journal *)
Theorem C09_journal_is_store :
  forall (fx : fixes) (h : list bevent),
    b_store (fst (brun fx broker0 h)) = exec_all [] (jcmds (journal fx h)).
Proof. exact journal_store. Qed.
Print Assumptions C09_journal_is_store.

(* the code as it is: no hypothesis left.  After ANY complete history, a restarted broker has,
   for every client with a stored session, exactly the subscriptions of the live broker's index *)
Theorem C09_subscriptions_recovered :
  forall (h : list bevent),
    let s := exec_all [] (jcmds (journal cur_code h)) in
    exists b, recover cur_code s = Some b /\
      forall c t, bs_get c t (b_subs b) =
                  if mem_cid c (session_ids s) then bs_get c t (b_subs (fst (brun cur_code broker0 h))) else None.
Proof.
  intros h s.
  destruct (subs_recovered_any_prefix cur_code h (length (jcmds (journal cur_code h))) (or_introl eq_refl))
    as (b & Hb & Hg).
  rewrite firstn_all in Hb, Hg. exists b. split; [exact Hb|].
  intros c t. rewrite Hg. rewrite (journal_subs cur_code h (or_introl eq_refl)). reflexivity.
Qed.
Print Assumptions C09_subscriptions_recovered.

(* ... and cut anywhere (the instance of C09_any_prefix_subscriptions for the code as it is) *)
Theorem C09_any_prefix_subscriptions_now :
  forall (h : list bevent) (k : nat),
    let cmds := firstn k (jcmds (journal cur_code h)) in
    let s := exec_all [] cmds in
    exists b, recover cur_code s = Some b /\
      forall c t, bs_get c t (b_subs b) =
                  if mem_cid c (session_ids s) then bs_get c t (fold_left mem_eff cmds []) else None.
Proof. intros h k. exact (subs_recovered_any_prefix cur_code h k (or_introl eq_refl)). Qed.
Print Assumptions C09_any_prefix_subscriptions_now.

(* C09, QoS 2 clause.  After any history h1, a QoS 2 PUBLISH of c with packet id pid that is new
   to the broker (its HSET precedes the PUBREC), and any continuation h2 by other clients cut
   after ANY number k of its storage commands: pid is in the stored set of c, and a broker
   started on that store, in which c has a persistent session, answers the PUBLISH that c
   retransmits after reconnecting without clean start with PUBREC and nothing else - no
   storage command, nothing appended to any queue *)
Theorem C09_qos2_duplicates_any_prefix :
  forall (h1 h2 : list bevent) (c : cid) (pid : N) (topic payload : str) (k : nat),
    let b1 := fst (brun cur_code broker0 h1) in
    let ev := EPublish c 2 pid topic payload in
    let b2 := fst (bstep cur_code b1 ev) in
    let s := exec_all (b_store b2) (firstn k (jcmds (snd (brun cur_code b2 h2)))) in
    In (CHSet (unack_key c) [(dec pid, BRaw ONE)]) (jcmds (snd (bstep cur_code b1 ev))) ->
    (pid < 65536)%N -> Forall (fun e => evc e <> c) h2 ->
    memN pid (stored_unack c s) = true /\
    forall (b : broker) (exp expiry : N) (pids : list N),
      recover cur_code s = Some b ->
      sess_get c s = Some (c, exp) -> exp <> 0%N -> c <> [] -> mem_cid c (session_ids s) = true ->
      snd (bstep cur_code (fst (bstep cur_code b (EConnect c false expiry pids))) ev) = [JOut (OPubrec c pid)].
Proof.
  intros h1 h2 c pid topic payload k b1 ev b2 s Hin Hp Hev.
  pose proof (qos2_id_stored_any_prefix cur_code h1 h2 c pid topic payload k Hin Hp Hev) as Hst.
  split; [exact Hst|].
  intros b exp expiry pids Hr Hsg Hexp Hc Hm.
  exact (qos2_duplicate_recognised cur_code s b c exp expiry pid pids topic payload eq_refl Hr Hsg Hexp Hc Hm Hst).
Qed.
Print Assumptions C09_qos2_duplicates_any_prefix.

(* the two halves for any setting of the flags *)
Theorem C09_qos2_id_stored_any_prefix :
  forall (fx : fixes) (h1 h2 : list bevent) (c : cid) (pid : N) (topic payload : str) (k : nat),
    let b1 := fst (brun fx broker0 h1) in
    let ev := EPublish c 2 pid topic payload in
    let b2 := fst (bstep fx b1 ev) in
    In (CHSet (unack_key c) [(dec pid, BRaw ONE)]) (jcmds (snd (bstep fx b1 ev))) ->
    (pid < 65536)%N -> Forall (fun e => evc e <> c) h2 ->
    memN pid (stored_unack c (exec_all (b_store b2) (firstn k (jcmds (snd (brun fx b2 h2)))))) = true.
Proof. exact qos2_id_stored_any_prefix. Qed.
Print Assumptions C09_qos2_id_stored_any_prefix.

(* regression examples: the three histories that refuted the statement before the repairs now
   pass (the same three are corpus/C09/*.sx for the real broker); under `old_code` the model
   still shows what the defects did *)
Example C09_unsubscribe_history :
  recovered_subs cur_code h_unsub (length (jcmds (journal cur_code h_unsub))) = Some [] /\
  recovered_subs old_code h_unsub (length (jcmds (journal old_code h_unsub))) = Some [(C1, sub_a)].
Proof. split; [exact unsub_kept_now|exact (proj2 unsub_lost_old_code)]. Qed.

Example C09_client_id_history :
  recovered_subs cur_code h_trim (length (jcmds (journal cur_code h_trim))) = Some [(SUB1, sub_a)] /\
  recovered_subs old_code h_trim (length (jcmds (journal old_code h_trim))) = Some [([49]%N, sub_a)].
Proof. split; [exact clientid_kept_now|exact clientid_mangled_old_code]. Qed.

Example C09_qos2_duplicate_history :
  resend_appends cur_code = Some 0%nat /\ resend_appends old_code = Some 1%nat.
Proof. split; [exact qos2_duplicate_recognised_now|exact qos2_duplicate_accepted_old_code]. Qed.

(* non-vacuity: a history with two clients, (un)subscriptions, QoS 1/2 publishes to an online and
   an offline subscriber, acknowledgements and a reconnection produces an 18 command journal;
   cut after 13 commands the recovered broker has both sessions and the first subscription *)
Definition ex_hist : list bevent :=
  [EConnect C1 true 3600 []; EConnect C2 true 3600 []; ESubscribe C2 10 [sub_a];
   EPublish C1 1 20 TA PM; EPoll C2 [1%N]; EPuback C2 1;
   EClose C2; EPublish C1 2 21 TA PM; EPubrel C1 21; EConnect C2 false 3600 [2%N]; EPubrec C2 2; EPubcomp C2 2;
   EUnsubscribe C2 11 [TA]].
Example C09_nonvacuous :
  length (jcmds (journal cur_code ex_hist)) = 18%nat /\
  (match recover cur_code (exec_all [] (firstn 13 (jcmds (journal cur_code ex_hist)))) with
   | Some b => (map fst (b_clients b), bs_entries (b_subs b))
   | None => ([], [])
   end) = ([C1; C2], [(C2, sub_a)]).
Proof. vm_compute. split; reflexivity. Qed.

(* ==================================================================================== *)
(* C09, unack clause.  For ANY history of operations on the unack store of a client (16 bit packet
   ids) and ANY prefix of its command journal: the prefix is the journal of the first j operations
   for some j (an operation is a single command: a cut never falls inside one), and the id set a
   restarted broker reloads is the abstract set after those j operations *)
Theorem C09_unack_any_prefix :
  forall (fx : fixes) (c : cid) (ops : list ruop) (s : rstore) (cache : list N) (k : nat),
    ustore_ok c s -> ucache_ok c s cache -> Forall ruop_u16 ops ->
    exists j, (j <= length ops)%nat /\
      firstn k (snd (ru_run fx c s cache ops)) = snd (ru_run fx c s cache (firstn j ops)) /\
      seteq16 (stored_unack c (exec_all s (firstn k (snd (ru_run fx c s cache ops)))))
              (fold_left ua_spec (firstn j ops) (stored_unack c s)).
Proof. exact unack_any_prefix. Qed.
Print Assumptions C09_unack_any_prefix.

(* ... from the empty store *)
Theorem C09_unack_any_prefix_fresh :
  forall (fx : fixes) (c : cid) (ops : list ruop) (k : nat),
    Forall ruop_u16 ops ->
    exists j, (j <= length ops)%nat /\
      firstn k (snd (ru_run fx c [] [] ops)) = snd (ru_run fx c [] [] (firstn j ops)) /\
      seteq16 (stored_unack c (exec_all [] (firstn k (snd (ru_run fx c [] [] ops))))) (fold_left ua_spec (firstn j ops) []).
Proof. exact unack_any_prefix_fresh. Qed.
Print Assumptions C09_unack_any_prefix_fresh.

Example C09_unack_example :
  length (snd (ru_run cur_code [99%N] [] [] xu_ops)) = 4%nat /\
  map (fun k => stored_unack [99%N] (exec_all [] (firstn k (snd (ru_run cur_code [99%N] [] [] xu_ops))))) [0; 1; 2; 3; 4]%nat
  = [[]; []; [5%N]; [5%N; 7%N]; [7%N]].
Proof. exact unack_example. Qed.

(* ==================================================================================== *)
(* C09, queue clause.  `rq_journal` is the command journal of the queue model (Model/RQueue.v) *)
Theorem C09_queue_journal_is_model_journal :
  forall (ops : list rqop) (s : rstore) (q : rq), snd (rq_run s q ops) = rq_journal s q ops.
Proof. exact rq_journal_run. Qed.
Print Assumptions C09_queue_journal_is_model_journal.

(* after ANY prefix of the journal of ANY history: the stored list (what LRANGE returns to the restarted
   broker) is the list after the last completed operation with a prefix of the commands of the next
   operation applied to it *)
Theorem C09_queue_cut_decomposition :
  forall (ops : list rqop) (s : rstore) (q : rq) (k : nat),
    qstore_ok (rq_key q) s ->
    exists s' q' rest k',
      reach s q ops s' q' rest /\ rq_key q' = rq_key q /\ qstore_ok (rq_key q) s' /\
      lview (rq_key q) (exec_all s (firstn k (rq_journal s q ops))) =
        match rest with
        | [] => lview (rq_key q) s'
        | o :: _ => lexec_all (lview (rq_key q) s') (firstn k' (r_cmds (rq_step s' q' o)))
        end.
Proof. exact queue_cut_decomposition. Qed.
Print Assumptions C09_queue_cut_decomposition.

(* which operations can be cut at all: Remove, Replace, Init, Close and the restart issue at most one command *)
Theorem C09_queue_atomic_operations :
  forall (s : rstore) (q : rq) (o : rqop),
    match o with
    | ROp (OAdd _ _) | ROp (ORead _ _) | ROp (OReadInflight _ _) => True
    | _ => (length (r_cmds (rq_step s q o)) <= 1)%nat
    end.
Proof. exact atomic_ops. Qed.
Print Assumptions C09_queue_atomic_operations.

(* Add: nothing (the newcomer is the reported victim), RPUSH of the newcomer, or LREM of one victim - an
   element of the stored list, the one reported dropped - followed by that RPUSH *)
Theorem C09_queue_add_commands :
  forall (now : N) (e : elem) (s : rstore) (q : rq),
    let x := rq_add now e s q in
    (r_cmds x = [] /\ add_reports (r_out x) e) \/
    (r_cmds x = [CRPush (rq_key q) (BElem e)] /\ r_out x = RAdd [EvQueue 1]) \/
    (exists d, r_cmds x = [CLRem (rq_key q) (BElem d); CRPush (rq_key q) (BElem e)] /\
               add_reports (r_out x) d /\ In (BElem d) (lview (rq_key q) s)).
Proof. exact add_shape. Qed.
Print Assumptions C09_queue_add_commands.

(* (a) Add in progress: the list is the old one, possibly without the single reported victim, possibly with
   the newcomer appended *)
Theorem C09_queue_add_in_progress :
  forall (now : N) (e : elem) (s : rstore) (q : rq) (k' : nat),
    let L := lview (rq_key q) s in
    let x := rq_add now e s q in
    let L' := lexec_all L (firstn k' (r_cmds x)) in
    L' = L \/ L' = L ++ [BElem e] \/
    exists d, add_reports (r_out x) d /\ In (BElem d) L /\
              (L' = remove_first (BElem d) L \/ L' = remove_first (BElem d) L ++ [BElem e]).
Proof. exact add_cut_lists. Qed.
Print Assumptions C09_queue_add_in_progress.

(* (a, c) ReadInflight in progress: same elements, same order, some in-flight expiries rewritten *)
Theorem C09_queue_readinflight_in_progress :
  forall (now : N) (n : nat) (s : rstore) (q : rq) (E : list elem) (k' : nat),
    qstore_ok (rq_key q) s -> lview (rq_key q) s = map BElem E -> (0 <= rq_cur q)%Z ->
    exists E', lexec_all (lview (rq_key q) s) (firstn k' (r_cmds (rq_read_inflight now n s q))) = map BElem E' /\
               Forall2 upto_expiry E' E.
Proof. exact readinflight_cut. Qed.
Print Assumptions C09_queue_readinflight_in_progress.

(* (a, c) Read in progress on a consistent store: a prefix of the window was processed (`rd`): each of its
   elements was removed for a documented reason (D) or rewritten into an in-flight entry appended, in
   order, to the in-flight entries; the rest of the list is untouched *)
Theorem C09_queue_read_in_progress :
  forall (now : N) (pids : list N) (s : rstore) (q : rq) (infl qd : list elem) (k' : nat),
    qstore_ok (rq_key q) s -> lview (rq_key q) s = map BElem (infl ++ qd) ->
    Forall (fun e => e_id e <> 0%N) infl -> Forall (fun e => e_id e = 0%N) qd ->
    rq_cur q = Z.of_nat (length infl) -> Forall (fun p => p <> 0%N) pids ->
    exists D A' l',
      rd infl (firstn (length pids) qd) D A' l' /\ Forall (removable now (rq_limit q) (rq_v5 q)) D /\
      lexec_all (lview (rq_key q) s) (firstn k' (r_cmds (rq_read now pids s q))) =
        map BElem (A' ++ l' ++ skipn (length pids) qd).
Proof. exact read_cut. Qed.
Print Assumptions C09_queue_read_in_progress.

Theorem C09_queue_read_in_progress_order :
  forall (A l D A' l' : list elem), rd A l D A' l' ->
    Forall (fun e => e_id e <> 0%N) A -> Forall (fun e => e_id e = 0%N) l ->
    (exists H, A' = A ++ H) /\ (exists pre, l = pre ++ l') /\
    Forall (fun e => e_id e <> 0%N) A' /\ Forall (fun e => e_id e = 0%N) l'.
Proof. exact rd_front. Qed.
Print Assumptions C09_queue_read_in_progress_order.

Theorem C09_queue_read_in_progress_no_loss :
  forall (A l D A' l' : list elem), rd A l D A' l' ->
    (forall a, In a A -> In a A') /\
    (forall v, In v l -> In v D \/ (exists v', rewritten v v' /\ In v' A') \/ In v l').
Proof. exact rd_complete. Qed.
Print Assumptions C09_queue_read_in_progress_no_loss.

(* (c) for every operation in progress: in-flight entries in front before => in front after any part of
   the operation's commands *)
Theorem C09_queue_in_flight_first :
  forall (s : rstore) (q : rq) (o : rqop) (E : list elem) (k' : nat),
    qstore_ok (rq_key q) s -> lview (rq_key q) s = map BElem E -> fi E -> op_pre q E o ->
    exists E', lexec_all (lview (rq_key q) s) (firstn k' (r_cmds (rq_step s q o))) = map BElem E' /\ fi E'.
Proof. exact one_op_order. Qed.
Print Assumptions C09_queue_in_flight_first.

Theorem C09_queue_in_flight_first_means :
  forall (l : list elem), fi l ->
    exists a b, l = a ++ b /\ Forall (fun e => e_id e <> 0%N) a /\ Forall (fun e => e_id e = 0%N) b.
Proof. exact fi_split. Qed.
Print Assumptions C09_queue_in_flight_first_means.

(* (b) run level, ANY prefix of ANY history: every reloaded element is, up to packet id and expiry, an
   element supplied by an Add or a Replace of the history (or stored initially): nothing is invented *)
Theorem C09_queue_cut_provenance :
  forall (G : list elem) (ops : list rqop) (s : rstore) (q : rq) (k : nat),
    qstore_ok (rq_key q) s -> Forall (prov G) (lview (rq_key q) s) -> incl (supplied ops) G ->
    Forall (prov G) (lview (rq_key q) (exec_all s (firstn k (rq_journal s q ops)))).
Proof. exact queue_cut_provenance. Qed.
Print Assumptions C09_queue_cut_provenance.

(* (b) run level, no duplication: one list slot per executed RPUSH at most; only Add issues RPUSH, once *)
Theorem C09_queue_cut_length :
  forall (ops : list rqop) (s : rstore) (q : rq) (k : nat),
    qstore_ok (rq_key q) s ->
    (length (lview (rq_key q) (exec_all s (firstn k (rq_journal s q ops)))) <=
     length (lview (rq_key q) s) + length (filter is_rpush (firstn k (rq_journal s q ops))))%nat.
Proof. exact queue_cut_length. Qed.
Print Assumptions C09_queue_cut_length.

Theorem C09_queue_only_add_pushes :
  forall (s : rstore) (q : rq) (o : rqop),
    match o with
    | ROp (OAdd _ _) => (length (filter is_rpush (r_cmds (rq_step s q o))) <= 1)%nat
    | _ => filter is_rpush (r_cmds (rq_step s q o)) = []
    end.
Proof. exact only_add_pushes. Qed.
Print Assumptions C09_queue_only_add_pushes.

(* non-vacuity: bound 2; the third Add drops the queued QoS 0 message (LREM e2, RPUSH e3), then Read hands out
   e1 and e3 with packet ids 7 and 8 (two LSETs).  Tags, then packet ids, of the list reloaded after k commands *)
Example C09_queue_example :
  let q0 := rq_new 2 0 [99%N] in
  let J := rq_journal [] q0 xq_hist in
  J = snd (rq_run [] q0 xq_hist) /\ length J = 7%nat /\
  map (fun k => map e_tag (elems_of (lview (rq_key q0) (exec_all [] (firstn k J))))) [3; 4; 5; 6; 7]%nat
    = [[1; 2]; [1]; [1; 3]; [1; 3]; [1; 3]]%N /\
  map (fun k => map e_id (elems_of (lview (rq_key q0) (exec_all [] (firstn k J))))) [5; 6; 7]%nat
    = [[0; 0]; [7; 0]; [7; 8]]%N.
Proof. exact queue_example. Qed.

(* What the run level induction for (a) and (c) still needs: an invariant of (store, queue object) kept
   by every COMPLETED operation - the list is in-flight entries (distinct non-zero packet ids) followed by
   queued ones (packet id 0), 0 <= current <= number of in-flight entries with equality once drained,
   len = length of the list, readCache = exactly the in-flight entries in front of the cursor with their
   stored bytes - under the caller's discipline (Add of elements without packet id, Read with fresh
   non-zero distinct packet ids after the replay).  With it, `op_pre` holds at every reachable state and
   C09_queue_cut_decomposition + the per operation theorems above give (a) and (c) for any prefix. *)
