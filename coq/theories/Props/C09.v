(* C09 - durable (redis) sessions survive a broker crash at any point.
   Statements only; proofs in Proofs/CrashP.v.  Models: Model/Redis.v (the store and its
   commands), Model/RQueue.v (the redis queue), Model/Crash.v (for every client event the
   journal = storage commands interleaved with the packets the broker writes; `recover` =
   server.init).  `fixes` switches three behaviours that used to deviate from the statement;
   `cur_code` (= Crash.code_fixes) is /repo as it is, with all three repaired (41101f9, 9588927,
   892f3ad); `old_code` is the behaviour before, kept for the regression examples below.

   Proved for ALL histories h and ALL cut points k of the storage commands:
     - start-up succeeds on the store left by the first k commands
     - the stored subscription hashes are the replay of the first k commands; a fresh broker
       loads exactly these tables for every client with a stored session, under the same
       client id; for complete histories the replay is the live broker's index
     - a session whose CONNECT was answered by CONNACK is found again under the same client id
       after a cut anywhere in any continuation without a CONNECT / close of that client
     - a QoS 2 packet id whose PUBLISH was new to the broker is in the stored set after a cut
       anywhere in any continuation by other clients, and a broker restarted on such a store
       answers the retransmitted PUBLISH of the reconnected client with PUBREC and nothing else
   Not proved (checked by the differential run only): the queue clause (every QoS>0 message
   whose publisher was acknowledged and whose subscriber was not is redelivered). *)
From Coq Require Import List NArith.
Import ListNotations.
From GM Require Import Base.Topic Model.SubTrie Model.Redis Model.RQueue Model.Crash Proofs.CrashP.

(* start-up never fails on an intermediate store state *)
Theorem C09_startup_any_prefix :
  forall (fx : fixes) (h : list bevent) (k : nat),
    recover fx (exec_all [] (firstn k (jcmds (journal fx h)))) <> None.
Proof. exact startup_any_prefix. Qed.
Print Assumptions C09_startup_any_prefix.

(* ... also for the events that follow a restart (crash after crash) *)
Theorem C09_startup_after_restart :
  forall (fx : fixes) (s : rstore) (b : broker) (h : list bevent) (k : nat),
    wt_store s -> recover fx s = Some b ->
    recover fx (exec_all s (firstn k (jcmds (snd (brun fx b h))))) <> None.
Proof. exact startup_after_restart. Qed.
Print Assumptions C09_startup_after_restart.

(* C09, session clause.  After any history h1, a CONNECT of c answered by a CONNACK, and any
   continuation h2 that contains no CONNECT / connection close of c, cut after ANY number k of
   its storage commands: the broker started on what is left has the session of c, under the
   client id c (its queue and unack objects are created for it by server.init) *)
Theorem C09_any_prefix_sessions :
  forall (fx : fixes) (h1 h2 : list bevent) (c : cid) (clean : bool) (expiry : N) (pids : list N) (sp : bool) (k : nat),
    let b1 := fst (brun fx broker0 h1) in
    let ev := EConnect c clean expiry pids in
    let b2 := fst (bstep fx b1 ev) in
    In (JOut (OConnack c sp)) (snd (bstep fx b1 ev)) ->
    c <> [] -> Forall (spares c) h2 ->
    exists br, recover fx (exec_all (b_store b2) (firstn k (jcmds (snd (brun fx b2 h2))))) = Some br /\ b_get c br <> None.
Proof. exact session_recovered_any_prefix. Qed.
Print Assumptions C09_any_prefix_sessions.

(* the CONNACK is only written after the session hash (naming the client) is in the store *)
Theorem C09_connack_after_session_stored :
  forall (fx : fixes) (b : broker) (c : cid) (clean : bool) (expiry : N) (pids : list N) (sp : bool),
    binv b -> wt_store (b_store b) ->
    In (JOut (OConnack c sp)) (snd (bstep fx b (EConnect c clean expiry pids))) ->
    has_session c (b_store (fst (bstep fx b (EConnect c clean expiry pids)))).
Proof. exact connack_has_session. Qed.
Print Assumptions C09_connack_after_session_stored.

(* the store after any prefix holds exactly the subscription tables obtained by replaying the
   subscription effects (HSET / HDEL / DEL on sub:<id>) of the same prefix *)
Theorem C09_subs_store_any_prefix :
  forall (fx : fixes) (h : list bevent) (k : nat),
    let cmds := firstn k (jcmds (journal fx h)) in
    sub_rel (exec_all [] cmds) (fold_left mem_eff cmds []).
Proof. exact subs_any_prefix. Qed.
Print Assumptions C09_subs_store_any_prefix.

(* C09, subscription clause: cut anywhere, restart: every client with a stored session gets
   back, under its own client id, exactly the subscriptions the commands before the cut
   produced (acknowledged ones, plus/minus a part of the single request in flight) *)
Theorem C09_any_prefix_subscriptions :
  forall (fx : fixes) (h : list bevent) (k : nat),
    let cmds := firstn k (jcmds (journal fx h)) in
    let s := exec_all [] cmds in
    (fix_trim fx = true \/ Forall (fun c => trim_left c = c) (session_ids s)) ->
    exists b, recover fx s = Some b /\
      forall c t, bs_get c t (b_subs b) =
                  if mem_cid c (session_ids s) then bs_get c t (fold_left mem_eff cmds []) else None.
Proof. exact subs_recovered_any_prefix. Qed.
Print Assumptions C09_any_prefix_subscriptions.

(* the replay of a complete journal is the live broker's own subscription index: what its
   SUBACK / UNSUBACK packets acknowledged *)
Theorem C09_replay_is_acknowledged :
  forall (fx : fixes) (h : list bevent),
    fix_hdel fx = true \/ Forall no_unsub h ->
    b_subs (fst (brun fx broker0 h)) = fold_left mem_eff (jcmds (journal fx h)) [].
Proof. exact journal_subs. Qed.
Print Assumptions C09_replay_is_acknowledged.

(* the store the live broker holds is the execution of its journal *)
Theorem C09_journal_is_store :
  forall (fx : fixes) (h : list bevent),
    b_store (fst (brun fx broker0 h)) = exec_all [] (jcmds (journal fx h)).
Proof. exact journal_store. Qed.
Print Assumptions C09_journal_is_store.

(* the code as it is: no hypothesis left.  After ANY complete history, a restarted broker has,
   for every client with a stored session, exactly the subscriptions of the live broker's index *)
Theorem C09_subscriptions_recovered :
  forall (h : list bevent),
    let s := exec_all [] (jcmds (journal cur_code h)) in
    exists b, recover cur_code s = Some b /\
      forall c t, bs_get c t (b_subs b) =
                  if mem_cid c (session_ids s) then bs_get c t (b_subs (fst (brun cur_code broker0 h))) else None.
Proof.
  intros h s.
  destruct (subs_recovered_any_prefix cur_code h (length (jcmds (journal cur_code h))) (or_introl eq_refl))
    as (b & Hb & Hg).
  rewrite firstn_all in Hb, Hg. exists b. split; [exact Hb|].
  intros c t. rewrite Hg. rewrite (journal_subs cur_code h (or_introl eq_refl)). reflexivity.
Qed.
Print Assumptions C09_subscriptions_recovered.

(* ... and cut anywhere (the instance of C09_any_prefix_subscriptions for the code as it is) *)
Theorem C09_any_prefix_subscriptions_now :
  forall (h : list bevent) (k : nat),
    let cmds := firstn k (jcmds (journal cur_code h)) in
    let s := exec_all [] cmds in
    exists b, recover cur_code s = Some b /\
      forall c t, bs_get c t (b_subs b) =
                  if mem_cid c (session_ids s) then bs_get c t (fold_left mem_eff cmds []) else None.
Proof. intros h k. exact (subs_recovered_any_prefix cur_code h k (or_introl eq_refl)). Qed.
Print Assumptions C09_any_prefix_subscriptions_now.

(* C09, QoS 2 clause.  After any history h1, a QoS 2 PUBLISH of c with packet id pid that is new
   to the broker (its HSET precedes the PUBREC), and any continuation h2 by other clients cut
   after ANY number k of its storage commands: pid is in the stored set of c, and a broker
   started on that store, in which c has a persistent session, answers the PUBLISH that c
   retransmits after reconnecting without clean start with PUBREC and nothing else - no
   storage command, nothing appended to any queue *)
Theorem C09_qos2_duplicates_any_prefix :
  forall (h1 h2 : list bevent) (c : cid) (pid : N) (topic payload : str) (k : nat),
    let b1 := fst (brun cur_code broker0 h1) in
    let ev := EPublish c 2 pid topic payload in
    let b2 := fst (bstep cur_code b1 ev) in
    let s := exec_all (b_store b2) (firstn k (jcmds (snd (brun cur_code b2 h2)))) in
    In (CHSet (unack_key c) [(dec pid, BRaw ONE)]) (jcmds (snd (bstep cur_code b1 ev))) ->
    (pid < 65536)%N -> Forall (fun e => evc e <> c) h2 ->
    memN pid (stored_unack c s) = true /\
    forall (b : broker) (exp expiry : N) (pids : list N),
      recover cur_code s = Some b ->
      sess_get c s = Some (c, exp) -> exp <> 0%N -> c <> [] -> mem_cid c (session_ids s) = true ->
      snd (bstep cur_code (fst (bstep cur_code b (EConnect c false expiry pids))) ev) = [JOut (OPubrec c pid)].
Proof.
  intros h1 h2 c pid topic payload k b1 ev b2 s Hin Hp Hev.
  pose proof (qos2_id_stored_any_prefix cur_code h1 h2 c pid topic payload k Hin Hp Hev) as Hst.
  split; [exact Hst|].
  intros b exp expiry pids Hr Hsg Hexp Hc Hm.
  exact (qos2_duplicate_recognised cur_code s b c exp expiry pid pids topic payload eq_refl Hr Hsg Hexp Hc Hm Hst).
Qed.
Print Assumptions C09_qos2_duplicates_any_prefix.

(* the two halves for any setting of the flags *)
Theorem C09_qos2_id_stored_any_prefix :
  forall (fx : fixes) (h1 h2 : list bevent) (c : cid) (pid : N) (topic payload : str) (k : nat),
    let b1 := fst (brun fx broker0 h1) in
    let ev := EPublish c 2 pid topic payload in
    let b2 := fst (bstep fx b1 ev) in
    In (CHSet (unack_key c) [(dec pid, BRaw ONE)]) (jcmds (snd (bstep fx b1 ev))) ->
    (pid < 65536)%N -> Forall (fun e => evc e <> c) h2 ->
    memN pid (stored_unack c (exec_all (b_store b2) (firstn k (jcmds (snd (brun fx b2 h2)))))) = true.
Proof. exact qos2_id_stored_any_prefix. Qed.
Print Assumptions C09_qos2_id_stored_any_prefix.

(* regression examples: the three histories that refuted the statement before the repairs now
   pass (the same three are corpus/C09/*.sx for the real broker); under `old_code` the model
   still shows what the defects did *)
Example C09_unsubscribe_history :
  recovered_subs cur_code h_unsub (length (jcmds (journal cur_code h_unsub))) = Some [] /\
  recovered_subs old_code h_unsub (length (jcmds (journal old_code h_unsub))) = Some [(C1, sub_a)].
Proof. split; [exact unsub_kept_now|exact (proj2 unsub_lost_old_code)]. Qed.

Example C09_client_id_history :
  recovered_subs cur_code h_trim (length (jcmds (journal cur_code h_trim))) = Some [(SUB1, sub_a)] /\
  recovered_subs old_code h_trim (length (jcmds (journal old_code h_trim))) = Some [([49]%N, sub_a)].
Proof. split; [exact clientid_kept_now|exact clientid_mangled_old_code]. Qed.

Example C09_qos2_duplicate_history :
  resend_appends cur_code = Some 0%nat /\ resend_appends old_code = Some 1%nat.
Proof. split; [exact qos2_duplicate_recognised_now|exact qos2_duplicate_accepted_old_code]. Qed.

(* non-vacuity: a history with two clients, (un)subscriptions, QoS 1/2 publishes to an online and
   an offline subscriber, acknowledgements and a reconnection produces a 22 command journal;
   cut after 17 commands the recovered broker has both sessions and the first subscription *)
Definition ex_hist : list bevent :=
  [EConnect C1 true 3600 []; EConnect C2 true 3600 []; ESubscribe C2 10 [sub_a];
   EPublish C1 1 20 TA PM; EPoll C2 [1%N]; EPuback C2 1;
   EClose C2; EPublish C1 2 21 TA PM; EPubrel C1 21; EConnect C2 false 3600 [2%N]; EPubrec C2 2; EPubcomp C2 2;
   EUnsubscribe C2 11 [TA]].
Example C09_nonvacuous :
  length (jcmds (journal cur_code ex_hist)) = 22%nat /\
  (match recover cur_code (exec_all [] (firstn 17 (jcmds (journal cur_code ex_hist)))) with
   | Some b => (map fst (b_clients b), bs_entries (b_subs b))
   | None => ([], [])
   end) = ([C1; C2], [(C2, sub_a)]).
Proof. vm_compute. split; reflexivity. Qed.
