package main

import (
	"fmt"
	"math/rand"
	"sync"
	"sync/atomic"
	"time"

	"github.com/DrmagicE/gmqtt"
	"github.com/DrmagicE/gmqtt/config"
	"github.com/DrmagicE/gmqtt/persistence/subscription"
	"github.com/DrmagicE/gmqtt/server"
)

var topics = []string{"a", "a/b", "a/b/c", "b", "b/+", "a/#", "$share/g/a", "c/d"}
var pubTopics = []string{"a", "a/b", "a/b/c", "b", "b/x", "c/d"}

type run struct {
	b          *broker
	bound      time.Duration
	stopping   int32
	apiStop    int32
	connecting int64
	failOnce   sync.Once
	fail       *failure
	failed     chan struct{}
}

func (r *run) setFail(f *failure) {
	r.failOnce.Do(func() { r.fail = f; close(r.failed) })
}

func (r *run) isFailed() bool {
	select {
	case <-r.failed:
		return true
	default:
		return false
	}
}

// one client goroutine: sessions with ids from a small pool, so that several connections use
// the same client id at the same time
func (r *run) clientLoop(n int, rounds int, rng *rand.Rand, idPool int) {
	for round := 0; round < rounds; round++ {
		if atomic.LoadInt32(&r.stopping) == 1 || r.isFailed() {
			return
		}
		id := fmt.Sprintf("c%d", rng.Intn(idPool))
		clean := rng.Intn(2) == 0 || !*flagPersist
		var ka uint16
		if rng.Intn(2) == 0 {
			ka = 60
		}
		atomic.AddInt64(&r.connecting, 1)
		c, err := dialClient(r.b.addr, id, false, clean, ka, r.bound)
		atomic.AddInt64(&r.connecting, -1)
		if err != nil {
			if atomic.LoadInt32(&r.stopping) == 1 {
				return
			}
			if isWatchdog(err) {
				r.setFail(failf("watchdog", "client goroutine %d round %d: no CONNACK for client id %s within %s", n, round, id, r.bound))
				return
			}
			// refused / taken over while connecting: the broker closed the socket; fine
			atomic.AddInt64(&nKilled, 1)
			continue
		}
		atomic.AddInt64(&nSessions, 1)
		r.session(n, round, c, rng)
	}
}

func isWatchdog(err error) bool {
	for e := err; e != nil; {
		if e == errWatchdog {
			return true
		}
		u, ok := e.(interface{ Unwrap() error })
		if !ok {
			return false
		}
		e = u.Unwrap()
	}
	return false
}

func (r *run) session(n, round int, c *mclient, rng *rand.Rand) {
	nops := 3 + rng.Intn(8)
	payload := make([]byte, 1+rng.Intn(200))
	check := func(what string, err error) bool {
		if err == nil {
			return true
		}
		if err == errWatchdog {
			r.setFail(failf("watchdog", "client goroutine %d round %d (id %s): no answer to %s within %s", n, round, c.id, what, r.bound))
		} else {
			atomic.AddInt64(&nKilled, 1)
		}
		return false
	}
	for i := 0; i < nops; i++ {
		if r.isFailed() {
			c.closeAbrupt()
			return
		}
		switch rng.Intn(8) {
		case 0, 1:
			pid := c.pid()
			_, err := c.request(subscribePacket(false, pid, topics[rng.Intn(len(topics))], byte(rng.Intn(3))), tSUBACK, pid, r.bound)
			if !check("SUBSCRIBE", err) {
				c.closeAbrupt()
				return
			}
		case 2:
			pid := c.pid()
			_, err := c.request(unsubscribePacket(pid, topics[rng.Intn(len(topics))]), tUNSUBACK, pid, r.bound)
			if !check("UNSUBSCRIBE", err) {
				c.closeAbrupt()
				return
			}
		case 3:
			if c.send(publishPacket(false, 0, pubTopics[rng.Intn(len(pubTopics))], 0, rng.Intn(8) == 0, payload)) != nil {
				atomic.AddInt64(&nKilled, 1)
				c.closeAbrupt()
				return
			}
		case 4:
			pid := c.pid()
			_, err := c.request(publishPacket(false, pid, pubTopics[rng.Intn(len(pubTopics))], 1, false, payload), tPUBACK, pid, r.bound)
			if !check("PUBLISH qos1", err) {
				c.closeAbrupt()
				return
			}
		case 5:
			pid := c.pid()
			_, err := c.request(publishPacket(false, pid, pubTopics[rng.Intn(len(pubTopics))], 2, false, payload), tPUBREC, pid, r.bound)
			if !check("PUBLISH qos2", err) {
				c.closeAbrupt()
				return
			}
			_, err = c.request(ackPacket(tPUBREL, pid), tPUBCOMP, pid, r.bound)
			if !check("PUBREL", err) {
				c.closeAbrupt()
				return
			}
		case 6:
			_, err := c.request(pingreqPacket(), tPINGRESP, 0, r.bound)
			if !check("PINGREQ", err) {
				c.closeAbrupt()
				return
			}
		case 7:
			time.Sleep(time.Duration(rng.Intn(5)) * time.Millisecond)
		}
	}
	switch rng.Intn(4) {
	case 0:
		_ = c.send(disconnectPacket())
		c.closePlain()
	case 1:
		c.closeAbrupt() // killed client
	case 2:
		c.closePlain()
	case 3:
		// stay connected for a moment (take-over by another goroutine with the same id, TerminateSession, Stop)
		c.waitDead(time.Duration(20+rng.Intn(60)) * time.Millisecond)
		c.closePlain()
	}
}

// administrative calls, each under the watchdog
func (r *run) apiLoop(kind int, rng *rand.Rand, idPool int, busySince *int64) {
	srv := r.b.srv
	call := func(f func()) {
		atomic.StoreInt64(busySince, time.Now().UnixNano())
		t0 := time.Now()
		f()
		noteLatency(time.Since(t0))
		atomic.StoreInt64(busySince, 0)
	}
	for atomic.LoadInt32(&r.apiStop) == 0 && !r.isFailed() {
		id := fmt.Sprintf("c%d", rng.Intn(idPool))
		switch kind {
		case 0:
			call(func() {
				srv.Publisher().Publish(&gmqtt.Message{Topic: pubTopics[rng.Intn(len(pubTopics))], Payload: []byte("api"), QoS: uint8(rng.Intn(3))})
			})
		case 1:
			ss := srv.SubscriptionService()
			switch rng.Intn(5) {
			case 0:
				call(func() {
					_, _ = ss.Subscribe(id, &gmqtt.Subscription{TopicFilter: topics[rng.Intn(len(topics)-2)], QoS: uint8(rng.Intn(3))})
				})
			case 1:
				call(func() { _ = ss.Unsubscribe(id, topics[rng.Intn(len(topics)-2)]) })
			case 2:
				call(func() {
					ss.Iterate(func(clientID string, sub *gmqtt.Subscription) bool { return true }, subscription.IterationOptions{Type: subscription.TypeAll})
				})
			case 3:
				call(func() { _ = ss.GetStats() })
			case 4:
				call(func() { _, _ = ss.GetClientStats(id) })
			}
		case 2:
			cs := srv.ClientService()
			switch rng.Intn(5) {
			case 0:
				call(func() { cs.IterateClient(func(c server.Client) bool { _ = c.ClientOptions(); return true }) })
			case 1:
				call(func() { _ = cs.GetClient(id) })
			case 2:
				call(func() { _, _ = cs.GetSession(id) })
			case 3:
				call(func() { _ = cs.IterateSession(func(s *gmqtt.Session) bool { return true }) })
			case 4:
				if rng.Intn(4) == 0 {
					call(func() { cs.TerminateSession(id) })
				}
			}
		case 3:
			sm := srv.StatsManager()
			if rng.Intn(2) == 0 {
				call(func() { _ = sm.GetGlobalStats() })
			} else {
				call(func() { _, _ = sm.GetClientStats(id) })
			}
			call(func() { _ = srv.GetConfig() })
		}
		time.Sleep(time.Duration(rng.Intn(300)) * time.Microsecond)
	}
}

func runStress() (string, *failure) {
	bound := *flagWatchdog
	b, f := startBroker(func(c *config.Config) {
		c.MQTT.DeliveryMode = *flagMode
		c.MQTT.MaxQueuedMsg = 50 // so that the drop paths are exercised
	})
	if f != nil {
		return "", f
	}
	r := &run{b: b, bound: bound, failed: make(chan struct{})}
	k := *flagClients
	idPool := *flagIDPool
	if idPool <= 0 {
		idPool = 2 * k
	}
	var cwg, awg sync.WaitGroup
	for i := 0; i < k; i++ {
		cwg.Add(1)
		go func(i int) {
			defer cwg.Done()
			r.clientLoop(i, *flagRounds, rand.New(rand.NewSource(*flagSeed*7919+int64(i))), idPool)
		}(i)
	}
	const nAPI = 4
	busy := make([]int64, nAPI)
	for i := 0; i < nAPI; i++ {
		awg.Add(1)
		go func(i int) {
			defer awg.Done()
			r.apiLoop(i, rand.New(rand.NewSource(*flagSeed*104729+int64(i))), idPool, &busy[i])
		}(i)
	}
	// watchdog over the API calls
	monStop := make(chan struct{})
	go func() {
		t := time.NewTicker(100 * time.Millisecond)
		defer t.Stop()
		for {
			select {
			case <-monStop:
				return
			case <-t.C:
				now := time.Now().UnixNano()
				for i := range busy {
					if s := atomic.LoadInt64(&busy[i]); s != 0 && time.Duration(now-s) > bound {
						r.setFail(failf("watchdog", "administrative call (api goroutine %d: 0 Publisher, 1 SubscriptionService, 2 ClientService, 3 Stats) has not returned for %s", i, bound))
					}
				}
			}
		}
	}()
	defer close(monStop)

	// traffic phase: until all client goroutines are done or the time is up
	clientsDone := make(chan struct{})
	go func() { cwg.Wait(); close(clientsDone) }()
	select {
	case <-clientsDone:
	case <-time.After(time.Duration(*flagSeconds) * time.Second):
	case <-r.failed:
	}
	if r.isFailed() {
		return "", r.fail
	}
	// Stop while connected clients are still talking and the API goroutines are still calling.
	// No NEW connection is started from here on, and handshakes in flight are allowed to finish:
	// connections that have not completed CONNECT when Stop runs are a separate probe
	// (stop-during-connect).
	atomic.StoreInt32(&r.stopping, 1)
	deadline := time.Now().Add(bound)
	for atomic.LoadInt64(&r.connecting) != 0 {
		if time.Now().After(deadline) {
			return "", failf("watchdog", "%d CONNECT handshakes still pending %s after the traffic phase", atomic.LoadInt64(&r.connecting), bound)
		}
		time.Sleep(2 * time.Millisecond)
	}
	stopEl, f := b.stopBroker(2, bound)
	if f != nil {
		return "", f
	}
	atomic.StoreInt32(&r.apiStop, 1)
	adone := make(chan struct{})
	go func() { awg.Wait(); close(adone) }()
	select {
	case <-adone:
	case <-time.After(bound):
		return "", failf("watchdog", "administrative calls did not return within %s after Stop", bound)
	}
	// every client connection must have been closed by the broker: the client goroutines end
	select {
	case <-clientsDone:
	case <-time.After(bound):
		return "", failf("stop", "client connections were not closed within %s after Stop returned", bound)
	}
	if r.isFailed() {
		return "", r.fail
	}
	if f := leakCheck(3 * time.Second); f != nil {
		return "", f
	}
	if c, d := atomic.LoadInt64(&b.plg.connected), atomic.LoadInt64(&b.plg.closed); c != d {
		return "", failf("stop", "OnConnected fired %d times, OnClosed %d times", c, d)
	}
	return fmt.Sprintf("rounds=%d clients=%d delivery=%s sessions=%d ended_by_broker=%d requests=%d maxlatency_ms=%.1f stop_ms=%.1f",
		*flagRounds, k, *flagMode, atomic.LoadInt64(&nSessions), atomic.LoadInt64(&nKilled), atomic.LoadInt64(&nRequests),
		float64(atomic.LoadInt64(&maxLatency))/1e6, float64(stopEl)/1e6), nil
}
